#!/usr/bin/env python3
"""check.py — per-property check orchestrator (python3 stdlib only).

  check.py C07 [--tier quick|thorough]      decide property C07 on /repo's current working tree
  check.py replay <file>                    re-execute a stored case against /repo and the model

Pipeline (DESIGN.md §3): proof obligations (lake build + axiom audit) -> build the harness against
/repo's working tree -> generate + execute cases on the real API -> replay through the Lean model
(correspondence) -> evaluate the property oracle on the implementation's traces -> directed search
when something broke -> evidence + exit code.
"""
import json, os, re, subprocess, sys, time, hashlib, shutil

ROOT = os.path.dirname(os.path.abspath(__file__))
LEAN = os.path.join(ROOT, "lean")
HARN = os.path.join(ROOT, "harness")
WORK = os.path.join(ROOT, "work")
THOROUGH_EXTRA_SEEDS = [1000, 2000]     # thorough tier: seeds seed+1000, seed+2000 in addition
EVID = os.path.join(ROOT, "evidence")
REPL = os.path.join(ROOT, "replays")
HBIN = os.path.join(HARN, "target", "release", "hoot-harness")
MBIN = os.path.join(LEAN, ".lake", "build", "bin", "hootmodel")
ALLOWED_AXIOMS = {"propext", "Classical.choice", "Quot.sound"}
FORBIDDEN = ["sorry", "admit", "native_decide", "bv_decide", "implemented_by", "unsafe ", "maxHeartbeats 0"]

OBL = json.load(open(os.path.join(LEAN, "obligations.json")))
KNOWN = json.load(open(os.path.join(ROOT, "known_findings.json")))

# Which op keywords of a trace are compared between model and implementation, per property (the
# projection of DESIGN §5): a change elsewhere does not alarm this property.
PROJ = {
    "C01": None,
    "C02": {"write", "canproceed", "proceed", "cwrite", "cbwrite", "cfinished", "hdr"},
    "C03": {"bwrite", "bwriten", "canproceed", "proceed", "chunked?", "cbwrite", "cfinished", "cinto"},
    "C04": {"bwrite", "bwriten", "direct", "canproceed", "proceed", "cbwrite", "cfinished", "cinto"},
    "C05": {"resp", "cresp", "parse-resp", "canproceed", "cinto", "cfinished"},
    "C06": {"resp", "mode", "proceed", "cresp", "cbody", "bread", "canproceed"},
    "C07": {"bread", "canproceed", "boundary", "proceed", "stopb", "cread", "cended", "cstopb", "cboundary"},
    "C08": {"bread", "canproceed", "proceed", "mode", "close?", "cread", "cended", "cbody", "cresp"},
    "C09": None,
    "C10": {"close?", "reason", "new", "resp", "read100", "proceed"},
    "C11": {"read100", "keep100", "proceed", "resp", "canproceed", "close?"},
    "C12": None,
    "C13": {"follow", "write", "uri?", "new", "hmap"},
    "C14": {"follow", "uri?", "write", "resp"},
    "C15": {"follow", "status", "method?", "proceed"},
    "C16": {"hdr", "write", "follow", "hmap"},
    "C17": {"write", "cwrite", "cbwrite", "canproceed", "cfinished", "new", "cnew", "proceed"},
    "C18": {"maxin", "bwrite", "bwriten"},
    "C19": {"maxin", "bwrite", "bwriten", "cbwrite"},
    "C20": {"parse-resp", "parse-partial", "parse-req"},
}


# Besides the op kinds, the states a property speaks about: a compared line must have been issued in one of
# these states (the state after the previous line of the case). Properties about the whole flow have no entry.
FLOW_STATES = {"prepare", "sendRequest", "await100", "sendBody", "recvResponse", "recvBody", "redirect", "cleanup"}
SEND_HEAD = {"prepare", "sendRequest"}
PROJ_STATES = {
    "C02": SEND_HEAD, "C16": SEND_HEAD | {"redirect"}, "C17": SEND_HEAD,
    "C03": {"sendBody"}, "C04": {"sendBody"}, "C18": {"sendBody"}, "C19": {"sendBody"},
    "C05": {"recvResponse"}, "C06": {"recvResponse", "recvBody"},
    "C07": {"recvBody"}, "C08": {"recvBody", "recvResponse", "redirect", "cleanup"},
    "C13": SEND_HEAD | {"redirect"}, "C14": SEND_HEAD | {"redirect", "recvResponse"}, "C15": {"redirect", "recvResponse", "recvBody", "prepare"},
}


def run(cmd, cwd=None, stdin=None, stdout=None, env=None, timeout=None):
    e = dict(os.environ)
    e["CARGO_NET_OFFLINE"] = "true"
    if env:
        e.update(env)
    return subprocess.run(cmd, cwd=cwd, stdin=stdin, stdout=stdout if stdout else subprocess.PIPE,
                          stderr=subprocess.STDOUT if stdout is None else subprocess.PIPE, env=e, timeout=timeout)


def strip_comments(src):
    # remove /- ... -/ (nested) and -- line comments
    out, i, depth = [], 0, 0
    while i < len(src):
        if src.startswith("/-", i):
            depth += 1; i += 2; continue
        if depth and src.startswith("-/", i):
            depth -= 1; i += 2; continue
        if depth:
            i += 1; continue
        if src.startswith("--", i):
            j = src.find("\n", i)
            i = len(src) if j < 0 else j
            continue
        out.append(src[i]); i += 1
    return "".join(out)


def source_scan():
    bad = []
    for d, _, fs in os.walk(os.path.join(LEAN, "Hoot")):
        for f in fs:
            if f.endswith(".lean"):
                p = os.path.join(d, f)
                txt = strip_comments(open(p).read())
                for tok in FORBIDDEN:
                    if tok in txt:
                        bad.append(f"{os.path.relpath(p, LEAN)}: {tok.strip()}")
                if re.search(r"^\s*axiom\s", txt, re.M):
                    bad.append(f"{os.path.relpath(p, LEAN)}: axiom")
    return bad


def proof_obligations(pid, tier, log):
    """lake build of the property's theorem module and the driver; axiom audit. Returns
    (obligations, discharged, problems[list of str])."""
    thms = OBL.get(pid, {}).get("theorems", [])
    mod = OBL.get(pid, {}).get("module", f"Hoot.Props.{pid}")
    problems = []
    r = run(["lake", "build", mod, "hootmodel"], cwd=LEAN)
    log.write(r.stdout.decode(errors="replace"))
    if r.returncode != 0:
        errs = [l for l in r.stdout.decode(errors="replace").splitlines() if "error" in l][:5]
        problems.append(f"lake build {mod} failed: " + " | ".join(errs))
        return len(thms), 0, problems
    for b in source_scan():
        problems.append("forbidden token in proof sources: " + b)
    os.makedirs(WORK, exist_ok=True)
    audit = os.path.join(WORK, f"audit_{pid}.lean")
    with open(audit, "w") as f:
        f.write(f"import {mod}\n")
        for t in thms:
            f.write(f"#print axioms {t}\n")
    r = run(["lake", "env", "lean", audit], cwd=LEAN)
    txt = r.stdout.decode(errors="replace")
    log.write(txt)
    discharged = 0
    seen = {}
    for m in re.finditer(r"'([^']+)' (does not depend on any axioms|depends on axioms: \[([^\]]*)\])", txt):
        name = m.group(1)
        axs = set(a.strip() for a in (m.group(3) or "").replace("\n", " ").split(",") if a.strip())
        seen[name] = axs
    for t in thms:
        if t not in seen:
            problems.append(f"theorem {t} not found by the audit")
        elif not seen[t] <= ALLOWED_AXIOMS:
            problems.append(f"theorem {t} depends on axioms {sorted(seen[t] - ALLOWED_AXIOMS)}")
        else:
            discharged += 1
    if tier == "thorough":
        r = run(["lake", "env", "leanchecker", mod], cwd=LEAN)
        if r.returncode != 0:
            problems.append(f"leanchecker {mod} failed: {r.stdout.decode(errors='replace')[:300]}")
    return len(thms), discharged, problems


def build_harness(log):
    r = run(["cargo", "build", "--release", "--offline"], cwd=HARN)
    log.write(r.stdout.decode(errors="replace"))
    if r.returncode != 0:
        return [l for l in r.stdout.decode(errors="replace").splitlines() if l.startswith("error")][:5] or ["cargo build failed"]
    return []


def gen_trace(pid, seed, tier, path, full=False, ladder=True):
    """Runs the generator against the real crate. Returns True when it ran to completion. An operation of the
    crate that does not return (the harness's watchdog ends the process and leaves the case in the hang file)
    is appended to the trace as `<op> => fault hang @gone`; a generator that does not finish within the overall
    limit is killed."""
    hang = path + ".hang"
    if os.path.exists(hang):
        os.remove(hang)
    env = dict(os.environ, HOOT_HANG_FILE=hang)
    if full:
        env["HOOT_FULL"] = "1"
    if not ladder:
        # the size ladders do not depend on the seed: one copy per run is enough
        env["HOOT_NO_LADDER"] = "1"
    limit = 3600 if tier == "thorough" else 900
    ok = True
    with open(path, "wb") as f:
        try:
            r = subprocess.run([HBIN, "gen", pid, str(seed), tier], stdout=f, stderr=subprocess.DEVNULL, env=env, timeout=limit)
            ok = r.returncode == 0
        except subprocess.TimeoutExpired:
            ok = False
    if not ok:
        # drop a partial last line, then add the case during which an operation hung (if that is what happened)
        data = open(path, "rb").read()
        if data and not data.endswith(b"\n"):
            data = data[:data.rfind(b"\n") + 1]
        if os.path.exists(hang):
            hc = open(hang, "rb").read()
            first = hc.split(b"\n", 1)[0] + b"\n"          # "case <id>"
            cut = data.rfind(first)
            if cut >= 0:
                data = data[:cut]                              # the case may be partly in the trace already
            data += hc
        open(path, "wb").write(data)
    return ok


def exec_ops(lines, path, full=False):
    p = subprocess.run([HBIN, "exec"], input=("\n".join(lines) + "\n").encode(), stdout=subprocess.PIPE,
                       env=dict(os.environ, **({"HOOT_FULL": "1"} if full else {})))
    open(path, "wb").write(p.stdout)
    return p.stdout.decode(errors="replace").splitlines()


def model_replay(trace_path, out_path, hack, full=False):
    args = [MBIN, "replay"] + ([] if hack else ["nohack"]) + (["full"] if full else [])
    with open(trace_path, "rb") as fi, open(out_path, "wb") as fo:
        r = run(args, stdin=fi, stdout=fo)
    return r.returncode == 0


def oracle_run(pid, trace_path, out_path):
    with open(trace_path, "rb") as fi, open(out_path, "wb") as fo:
        r = run([MBIN, "oracle", pid], stdin=fi, stdout=fo)
    return r.returncode == 0


def split_cases(lines):
    cases, cur = [], None
    for l in lines:
        if l.startswith("case "):
            cur = [l]; cases.append(cur)
        elif cur is not None:
            cur.append(l)
    return cases


def opkw(line):
    return line.split(" ", 1)[0]


FAULT_RE = re.compile(r" => fault api:(\w+)")
NAMED_ERRORS = {"OutputOverflow", "HttpParseTooManyHeaders"}


MALFORMED_RE = re.compile(r" => (?:none|fault api:\S+) @")
AFTER_READ_ERROR = {"bread", "cread", "canproceed", "cended", "boundary", "mode", "proceed", "proceed!", "stopb", "cboundary", "cstopb"}


def canon(kw, line):
    """What of a result line takes part in the comparison. `reason`: C10 asks that a reason is given exactly when
    the connection must close and that it names a condition that holds (judged by the oracle); WHICH of several
    holding conditions is named is not constrained, so only given / not given is compared with the model."""
    m = FAULT_RE.search(line)
    if m and m.group(1) not in NAMED_ERRORS:
        # "is refused" / "an error": the properties name two error kinds only (output overflow, too many headers)
        line = line[:m.start()] + " => fault api:*" + line[m.end():]
    if kw == "hmap" and " => map " in line:
        # headers_map(): C13 says which inherited names are absent, C16 that the caller's names are present (both
        # judged by the oracle); how a name with several values is presented is not constrained — names only
        head, rest = line.split(" => map ", 1)
        body, _, st = rest.rpartition(" @")
        w = body.split(" ")
        return f"{head} => map names {' '.join(sorted(set(w[1::2])))} @{st}"
    if kw == "reason" and " => str " in line:
        head, rest = line.split(" => str ", 1)
        txt, _, st = rest.rpartition(" @")
        return f"{head} => str {'-' if txt == '-' else '<given>'} @{st}"
    return line


def compare(pid, impl_lines, model_lines):
    """Line-by-line comparison under the property's projection. Returns (compared, mismatches, stats)
    where mismatches is a list of (case_index, line_no, impl, model)."""
    proj = PROJ.get(pid)
    pstates = PROJ_STATES.get(pid)
    compared = 0; mism = []; ooc = 0
    sig = set(); distinct = set()
    ci = -1
    prev_state = "none"
    unspecified = None
    head_out = False
    malformed = False
    n = min(len(impl_lines), len(model_lines))
    for i in range(n):
        a, b = impl_lines[i], model_lines[i]
        if a.startswith("case "):
            ci += 1; prev_state = "none"; unspecified = None; head_out = False
            malformed = pid == "C20" and a.split(" ")[1].startswith("mal")
            continue
        if a.startswith("meta "):
            continue
        if unspecified == "all" or (unspecified == "body" and opkw(a) in AFTER_READ_ERROR):
            # no property says what these calls return from here on (C12 / C09 ask that they do not panic, which
            # the oracle sees on the implementation's trace)
            if " @" in a:
                prev_state = a.rsplit(" @", 1)[1]
            continue
        issued_in = prev_state
        if " @" in a:
            prev_state = a.rsplit(" @", 1)[1]
        if b.endswith(" #out-of-class"):
            ooc += 1; continue
        kw = opkw(a)
        if kw in ("cwrite", "cbwrite") and " => bytes " in a:
            o = a.split(" => bytes ", 1)[1].split(" ")
            if len(o) > 1 and (o[1].startswith("#") or o[1].split(" ")[0].endswith("0d0a0d0a")):
                head_out = True
        if kw == "cinto" and not head_out:
            # turning a call whose head was never (completely) written into its receive side: no property says
            # whether that is allowed; what it and the calls after it return is not compared
            unspecified = "all"
            continue
        if proj is not None and kw not in proj:
            continue
        if pstates is not None and issued_in in FLOW_STATES and issued_in not in pstates:
            continue    # issued in a flow state this property does not speak about
        compared += 1
        res = a.split(" => ", 1)[1] if " => " in a else ""
        if "not-offered" not in res and "bad-op" not in res:
            distinct.add(a)
            rp = res.split(" ")
            feat = rp[0] + (":" + rp[1] if rp[0] in ("fault", "state", "bool", "str") and len(rp) > 1 else "")
            if rp[0] == "bytes" and len(rp) > 2:
                feat += ":c0" if rp[1] == "0" else ":c+"
                feat += ":o0" if rp[2] == "-" else ":o+"
            sig.add((kw, feat, a.rsplit(" @", 1)[-1]))
        if kw == "follow2" and "first-some=true" in a and "first-some=true" in b:
            # the known finding D11: a second as_new_flow after one that returned a flow (the model records the
            # pinned tree's panic; an implementation that returns an error instead is just as good)
            unspecified = "all"
            continue
        ca, cb = canon(kw, a), canon(kw, b)
        if malformed and kw.startswith("parse-"):
            # C20 speaks about well-formed heads and their prefixes (compared exactly in the other groups); for the
            # strings of the malformed groups "incomplete" and "an error" are equally good answers — what is
            # compared is whether a head is reported, and which
            ca, cb = MALFORMED_RE.sub(" => incomplete-or-error @", ca), MALFORMED_RE.sub(" => incomplete-or-error @", cb)
        if ca != cb:
            mism.append((ci, i + 1, a, b))
        elif kw in ("bread", "cread") and " => fault api:" in ca:
            # a body that failed to decode: what later reads / queries on it return is nobody's business
            unspecified = "body"
    if len(impl_lines) != len(model_lines):
        mism.append((ci, n + 1, f"<{len(impl_lines)} lines>", f"<{len(model_lines)} lines>"))
    return compared, mism, {"out_of_class": ooc, "branch_classes": len(sig), "distinct": len(distinct)}


def parse_oracle(path):
    fails, known, needfull, ok, cases = [], [], [], 0, 0
    detail = {}
    for l in open(path, errors="replace"):
        l = l.rstrip("\n")
        if l.startswith("ok "):
            ok += 1; cases += 1
        elif l.startswith("FAIL "):
            cases += 1
            p = l.split(" ", 2); fails.append((p[1], p[2] if len(p) > 2 else ""))
        elif l.startswith("KNOWN "):
            cases += 1
            p = l.split(" ", 3); known.append((p[1], p[2], p[3] if len(p) > 3 else ""))
        elif l.startswith("NEEDFULL "):
            cases += 1
            needfull.append(l.split(" ", 2)[1])
        elif l.startswith("stat "):
            k, v = l[5:].split("=", 1); detail[k] = v
    return {"ok": ok, "cases": cases, "fails": fails, "known": known, "needfull": needfull, "detail": detail}


def case_by_id(lines):
    d = {}
    for c in split_cases(lines):
        d[c[0][5:]] = c
    return d


def write_replay(pid, n, case_lines, header):
    os.makedirs(REPL, exist_ok=True)
    path = os.path.join(REPL, f"{pid}-{n}.txt")
    with open(path, "w") as f:
        for h in header:
            f.write("# " + h + "\n")
        for l in case_lines:
            f.write(l + "\n")
    return os.path.relpath(path, ROOT)


def probe_hack(log):
    """D10: does the implementation still have the partial-redirect fallback? Select the model variant."""
    ops = ["case probe", "new GET HTTP/1.1 http://a.test/ 0", "proceed", "write 1000", "proceed",
           "resp " + b"HTTP/1.1 302 Found\r\nLocation: /x\r\nSet-Cookie: a=b\r\nContent-Le".hex()]
    lines = exec_ops(ops, os.path.join(WORK, "probe_hack.trace"))
    last = lines[-1] if lines else ""
    hack = " => resp 0 none" not in last
    log.write(f"probe_hack: {last}\n -> hack={hack}\n")
    return hack


def main():
    args = sys.argv[1:]
    if not args:
        print(__doc__); sys.exit(2)
    if args[0] == "replay":
        return replay(args[1])
    pid = args[0]
    tier = os.environ.get("VERIF_TIER", "quick")
    if "--tier" in args:
        tier = args[args.index("--tier") + 1]
    seed = int(os.environ.get("VERIF_SEED", "1"))
    t0 = time.time()
    os.makedirs(WORK, exist_ok=True); os.makedirs(EVID, exist_ok=True)
    log = open(os.path.join(WORK, f"{pid}.{tier}.log"), "w")
    violations = []          # (replay_path, suffix)
    known_lines = []
    notes = []

    # 1. proof obligations
    obligations, discharged, problems = proof_obligations(pid, tier, log)
    # 2. implementation
    herr = build_harness(log)
    if herr:
        # the working tree does not build: nothing can be said about it
        print(f"harness build against /repo failed: {herr}")
        rp = write_replay(pid, 0, [], [f"property {pid}", "cargo build of the harness against /repo failed", *herr])
        print(f"VIOLATION property={pid} replay={rp} no-failing-input-found")
        write_evidence(pid, tier, seed, t0, obligations, discharged, {}, 1, notes + ["harness build failed"])
        sys.exit(1)
    have_model = os.path.exists(MBIN) and not any("lake build" in p for p in problems)
    hack = probe_hack(log)

    # 3/4. generate, execute, replay, judge
    trace = os.path.join(WORK, f"{pid}.{tier}.trace")
    gen_ok = gen_trace(pid, seed, tier, trace)
    if tier == "thorough":
        # deeper exploration: further seeds of the thorough generators, appended to the same trace (case ids
        # get the seed as a suffix so that they stay unique)
        for extra in THOROUGH_EXTRA_SEEDS:
            t2 = os.path.join(WORK, f"{pid}.{tier}.s{seed + extra}.trace")
            ok2 = gen_trace(pid, seed + extra, tier, t2, ladder=False)
            gen_ok = gen_ok and ok2
            with open(trace, "ab") as out, open(t2, "rb") as src:
                for line in src:
                    if line.startswith(b"case "):
                        line = line.rstrip(b"\n") + b"~s%d\n" % (seed + extra)
                    out.write(line)
            os.remove(t2)
            if os.path.exists(t2 + ".hang"):
                os.remove(t2 + ".hang")
    impl_lines = open(trace, errors="replace").read().splitlines()
    compared, mism, cstats = 0, [], {}
    orc = {"ok": 0, "cases": 0, "fails": [], "known": [], "needfull": [], "detail": {}}
    if have_model:
        mpath = os.path.join(WORK, f"{pid}.{tier}.model")
        model_replay(trace, mpath, hack)
        model_lines = open(mpath, errors="replace").read().splitlines()
        compared, mism, cstats = compare(pid, impl_lines, model_lines)
        opath = os.path.join(WORK, f"{pid}.{tier}.oracle")
        oracle_run(pid, trace, opath)
        orc = parse_oracle(opath)
        if orc["needfull"]:
            byid = case_by_id(impl_lines)
            ops = []
            for cid in orc["needfull"][:200]:
                ops += [l.split(" => ")[0] for l in byid.get(cid, [])]
            fpath = os.path.join(WORK, f"{pid}.{tier}.full.trace")
            exec_ops(ops, fpath, full=True)
            opath2 = os.path.join(WORK, f"{pid}.{tier}.full.oracle")
            oracle_run(pid, fpath, opath2)
            o2 = parse_oracle(opath2)
            orc["fails"] += o2["fails"]; orc["known"] += o2["known"]
            full_lines = open(fpath, errors="replace").read().splitlines()
            impl_full = case_by_id(full_lines)
        else:
            impl_full = {}
    byid = case_by_id(impl_lines)
    byid.update(impl_full if have_model else {})

    # known findings: re-confirmed on this run by the oracle's classifier
    kf = [k for k in KNOWN.get("findings", []) if k["property"] == pid]
    seen_known = {}
    for cid, fid, what in orc["known"]:
        seen_known.setdefault(fid, (cid, what))
    for k in kf:
        if k["id"] in seen_known:
            known_lines.append(f"KNOWN-FINDING: property={pid} {k['what']}")
        else:
            notes.append(f"known finding {k['id']} was not reproduced by this run")
    for fid in seen_known:
        if fid not in [k["id"] for k in kf]:
            # the classifier named something the committed file does not list: treat as a violation
            cid, what = seen_known[fid]
            rp = write_replay(pid, len(violations) + 1, byid.get(cid, []), [f"property {pid}", f"unlisted finding {fid}: {what}"])
            violations.append((rp, ""))

    # oracle failures on implementation traces: concrete violations
    for cid, why in orc["fails"][:5]:
        rp = write_replay(pid, len(violations) + 1, byid.get(cid, []),
                          [f"property {pid}: oracle false on the implementation's trace", why,
                           f"replay: python3 check.py replay {REPL}/{pid}-{len(violations) + 1}.txt"])
        violations.append((rp, ""))

    # an operation of the crate that did not return: a failing input in its own right
    for cid, lines in byid.items():
        if any(l.endswith("=> fault hang @gone") for l in lines[-2:]) and len(violations) < 5:
            rp = write_replay(pid, len(violations) + 1, lines,
                              [f"property {pid}: an operation of the crate did not return (watchdog, HOOT_OP_TIMEOUT s) on this input",
                               f"replay: python3 check.py replay {REPL}/{pid}-{len(violations) + 1}.txt"])
            violations.append((rp, ""))

    # 5. something no longer checks but no oracle failure yet: directed search
    broken = []
    if problems:
        broken += problems
    if mism:
        broken.append(f"correspondence: {len(mism)} compared lines differ (first: line {mism[0][1]})")
    if not gen_ok:
        # the generator drives the real crate in-process; it never aborts on the unchanged tree
        last = impl_lines[-1] if impl_lines else "(nothing)"
        broken.append(f"the harness aborted while driving the implementation (trace incomplete); last completed op: {last}")
    searched = 0
    if broken and not violations:
        found = None
        if have_model:
            for s2 in range(seed + 1, seed + (7 if tier == "thorough" else 4)):
                t2 = os.path.join(WORK, f"{pid}.search{s2}.trace")
                gen_trace(pid, s2, "thorough" if s2 == seed + 1 else tier, t2, full=True, ladder=False)
                o2p = os.path.join(WORK, f"{pid}.search{s2}.oracle")
                oracle_run(pid, t2, o2p)
                o2 = parse_oracle(o2p)
                searched += o2["cases"]
                if o2["fails"]:
                    l2 = open(t2, errors="replace").read().splitlines()
                    cid, why = o2["fails"][0]
                    found = (case_by_id(l2).get(cid, []), why)
                    break
        if found:
            rp = write_replay(pid, 1, found[0], [f"property {pid}: oracle false on the implementation's trace (found by directed search)", found[1], *broken])
            violations.append((rp, ""))
        else:
            hdr = [f"property {pid}: no longer shown to hold", *broken,
                   f"directed search: {searched} further cases judged by the oracle, none fails"]
            body = []
            for (ci, ln, a, b) in mism[:20]:
                body += [f"line {ln}", f"  impl : {a}", f"  model: {b}"]
            if mism:
                cases = split_cases(impl_lines)
                ci = mism[0][0]
                if 0 <= ci < len(cases):
                    body += ["first differing case:"] + cases[ci]
            if not gen_ok:
                cases = split_cases(impl_lines)
                if cases:
                    body += ["case during which the harness aborted:"] + cases[-1]
            rp = write_replay(pid, 1, body, hdr)
            violations.append((rp, " no-failing-input-found"))

    # 6. evidence, verdict
    samples = []
    for c in split_cases(impl_lines)[:3]:
        samples.append(c[:12])
    cov = {
        "evaluations": compared,
        "distinct_nontrivial": cstats.get("distinct", 0),
        "rule": "cases generated by harness/src/gen (streams: exhaustive small scope, boundary-directed, random; see DESIGN §5), every op executed on the real crate and replayed through the Lean model; an evaluation is one compared op line under the property's projection; distinct = distinct (op text, result) lines excluding 'not-offered'",
        "samples": samples,
        "traces_validated_against_impl": len(split_cases(impl_lines)),
        "disagreements_checked": len(mism),
        "branch_classes": cstats.get("branch_classes", 0),
        "out_of_class_not_compared": cstats.get("out_of_class", 0),
        "oracle_cases": orc["cases"], "oracle_ok": orc["ok"], "oracle_fail": len(orc["fails"]), "oracle_known": len(orc["known"]),
        "oracle_detail": orc["detail"],
        "directed_search_cases": searched,
        "model_variant": "partial-redirect fallback on" if hack else "partial-redirect fallback off",
    }
    write_evidence(pid, tier, seed, t0, obligations, discharged, cov, len(violations), notes + problems)
    for k in known_lines:
        print(k)
    print(f"{pid} tier={tier} seed={seed}: obligations {discharged}/{obligations}, compared {compared} op lines in "
          f"{cov['traces_validated_against_impl']} cases, mismatches {len(mism)}, oracle ok={orc['ok']} fail={len(orc['fails'])} known={len(orc['known'])}, {time.time() - t0:.1f}s")
    if violations:
        for rp, suf in violations[:3]:
            print(f"VIOLATION property={pid} replay={rp}{suf}")
        sys.exit(1)
    sys.exit(0)


def write_evidence(pid, tier, seed, t0, obligations, discharged, cov, nviol, notes):
    thms = OBL.get(pid, {}).get("theorems", [])
    c = dict(cov)
    c.update({
        "obligations": obligations,
        "discharged": discharged,
        "checker_cmd": f"cd lean && lake build {OBL.get(pid, {}).get('module', 'Hoot.Props.' + pid)} && lake env lean ../work/audit_{pid}.lean  (#print axioms of every listed theorem; thorough tier also: lake env leanchecker)",
        "trusted_base": ["Lean 4.33.0 kernel", "axioms propext, Classical.choice, Quot.sound only (audited on every run)",
                         "statements in lean/Hoot/Props/" + pid + ".lean",
                         "correspondence: harness (Rust), line protocol, compiled Lean driver; reach bounded by the generators",
                         "modelled not verified: httparse, http, url crates and std parsing functions (DESIGN §9)"],
        "theorems": thms,
        "notes": notes,
    })
    c.setdefault("evaluations", 0); c.setdefault("distinct_nontrivial", 0); c.setdefault("samples", [["(no case executed)"]])
    ev = {"property_id": pid, "tier": tier, "seed": seed, "level": "proof", "coverage": c,
          "assumptions": OBL.get(pid, {}).get("assumptions", []) + ["64-bit usize", "single-threaded use of a flow"],
          "wall_s": round(time.time() - t0, 2), "violations": nviol}
    os.makedirs(EVID, exist_ok=True)
    json.dump(ev, open(os.path.join(EVID, f"{pid}.json"), "w"), indent=1)


def replay(path):
    os.makedirs(WORK, exist_ok=True)
    log = open(os.path.join(WORK, "replay.log"), "w")
    herr = build_harness(log)
    if herr:
        print("harness build failed", herr); sys.exit(2)
    run(["lake", "build", "hootmodel"], cwd=LEAN)
    ops = []
    for l in open(path):
        l = l.rstrip("\n")
        if l.startswith("#") or not l.strip() or l.startswith("line ") or l.startswith("  ") or l.startswith("first differing"):
            continue
        ops.append(l.split(" => ")[0])
    t = os.path.join(WORK, "replay.trace")
    impl = exec_ops(ops, t, full=True)
    hack = probe_hack(log)
    m = os.path.join(WORK, "replay.model")
    model_replay(t, m, hack, full=True)
    model = open(m, errors="replace").read().splitlines()
    for a, b in zip(impl, model):
        mark = "  " if a == b or b.endswith("#out-of-class") else "!!"
        print(f"{mark} impl : {a}")
        if mark == "!!":
            print(f"{mark} model: {b}")
    pid = None
    mm = re.search(r"(C\d\d)", os.path.basename(path))
    if mm:
        pid = mm.group(1)
        o = os.path.join(WORK, "replay.oracle")
        oracle_run(pid, t, o)
        print(open(o).read())


if __name__ == "__main__":
    main()
