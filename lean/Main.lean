import Hoot.Driver.Replay
import Hoot.Oracle.All

/-! hootmodel: the line-protocol driver.
    hootmodel replay [nohack] [full] < trace   — replays the op lines through the model, prints the model's trace -/

partial def replayLoop (h out : IO.FS.Stream) (s : Sess) : IO Unit := do
  let line ← h.getLine
  if line.isEmpty then return ()
  let l := (line.dropEndWhile (· == '\n')).toString
  if l.isEmpty then replayLoop h out s else
  let (s', o) := stepLine s l
  out.putStrLn o
  replayLoop h out s'

def flushCase (out : IO.FS.Stream) (pid : String) (cur : Option TCase) : IO Unit := do
  match cur with
  | none => pure ()
  | some c =>
    let c := { c with lines := c.lines.reverse, metas := c.metas.reverse }
    match oracleFor pid c with
    | .ok => out.putStrLn s!"ok {c.id}"
    | .fail w => out.putStrLn s!"FAIL {c.id} {w}"
    | .known f w => out.putStrLn s!"KNOWN {c.id} {f} {w}"
    | .needFull => out.putStrLn s!"NEEDFULL {c.id}"

partial def oracleLoop (h out : IO.FS.Stream) (pid : String) (cur : Option TCase) : IO Unit := do
  let line ← h.getLine
  if line.isEmpty then
    flushCase out pid cur
    return ()
  let l := (line.dropEndWhile (· == '\n')).toString
  if l.isEmpty then oracleLoop h out pid cur else
  if l.startsWith "case " then
    flushCase out pid cur
    oracleLoop h out pid (some { id := (l.drop 5).toString, metas := [], lines := [] })
  else
    match cur with
    | none => oracleLoop h out pid cur
    | some c =>
      if l.startsWith "meta " then oracleLoop h out pid (some { c with metas := l :: c.metas })
      else oracleLoop h out pid (some { c with lines := parseTLine l :: c.lines })

def main (args : List String) : IO UInt32 := do
  match args with
  | "replay" :: rest =>
    replayLoop (← IO.getStdin) (← IO.getStdout) { hack := !rest.contains "nohack", full := rest.contains "full" }
    return 0
  | ["oracle", pid] =>
    oracleLoop (← IO.getStdin) (← IO.getStdout) pid none
    return 0
  | _ =>
    IO.eprintln "usage: hootmodel replay [nohack] [full] < trace"
    return 2
