import Hoot.Driver.Replay
import Hoot.Oracle.All
import Hoot.Driver.XRun

/-! hootmodel: the line-protocol driver.
    hootmodel replay [nohack] [full] < trace   — replays the op lines through the model, prints the model's trace -/

partial def replayLoop (h out : IO.FS.Stream) (s : Sess) : IO Unit := do
  let line ← h.getLine
  if line.isEmpty then return ()
  let l := (line.dropEndWhile (· == '\n')).toString
  if l.isEmpty then replayLoop h out s else
  let (s', o) := stepLineX s l
  out.putStrLn o
  replayLoop h out s'

/-- C01 compares the outcome of every schedule with the first schedule of its group -/
def flushC01 (out : IO.FS.Stream) (grp : IO.Ref (String × String × String)) (c : TCase) : IO Unit := do
  match oracleC01Case c with
  | .error .needFull => out.putStrLn s!"NEEDFULL {c.id}"
  | .error (.fail w) => out.putStrLn s!"FAIL {c.id} {w}"
  | .error _ => out.putStrLn s!"ok {c.id}"
  | .ok sig =>
    let g := ((metaVal c "group").bind (·.head?)).getD c.id
    let (g0, sig0, id0) ← grp.get
    if g0 == g then
      if sig0 == sig then out.putStrLn s!"ok {c.id}"
      else
        -- name the first observable that differs
        let parts := (sig.splitOn " ").zip (sig0.splitOn " ")
        let d := (parts.find? (fun (a, b) => a != b)).map (fun (a, b) => s!"{a.take 60} vs {b.take 60}") |>.getD "?"
        out.putStrLn s!"FAIL {c.id} outcome differs from schedule {id0} of the same exchange: {d}"
    else
      grp.set (g, sig, c.id)
      out.putStrLn s!"ok {c.id}"

def flushCase (out : IO.FS.Stream) (pid : String) (cur : Option TCase) (grp : IO.Ref (String × String × String)) : IO Unit := do
  match cur with
  | none => pure ()
  | some c =>
    let c := { c with lines := c.lines.reverse, metas := c.metas.reverse }
    if pid == "C01" then flushC01 out grp c else
    match oracleFor pid c with
    | .ok => out.putStrLn s!"ok {c.id}"
    | .fail w => out.putStrLn s!"FAIL {c.id} {w}"
    | .known f w => out.putStrLn s!"KNOWN {c.id} {f} {w}"
    | .needFull => out.putStrLn s!"NEEDFULL {c.id}"

partial def oracleLoop (h out : IO.FS.Stream) (pid : String) (cur : Option TCase) (grp : IO.Ref (String × String × String)) : IO Unit := do
  let line ← h.getLine
  if line.isEmpty then
    flushCase out pid cur grp
    return ()
  let l := (line.dropEndWhile (· == '\n')).toString
  if l.isEmpty then oracleLoop h out pid cur grp else
  if l.startsWith "case " then
    flushCase out pid cur grp
    oracleLoop h out pid (some { id := (l.drop 5).toString, metas := [], lines := [] }) grp
  else
    match cur with
    | none => oracleLoop h out pid cur grp
    | some c =>
      if l.startsWith "meta " then oracleLoop h out pid (some { c with metas := l :: c.metas }) grp
      else oracleLoop h out pid (some { c with lines := parseTLine l :: c.lines }) grp

def main (args : List String) : IO UInt32 := do
  match args with
  | "replay" :: rest =>
    replayLoop (← IO.getStdin) (← IO.getStdout) { hack := !rest.contains "nohack", full := rest.contains "full" }
    return 0
  | ["oracle", pid] =>
    oracleLoop (← IO.getStdin) (← IO.getStdout) pid none (← IO.mkRef ("", "", ""))
    return 0
  | _ =>
    IO.eprintln "usage: hootmodel replay [nohack] [full] < trace"
    return 2
