import Hoot.Driver.Replay

/-! hootmodel: the line-protocol driver.
    hootmodel replay [nohack] [full] < trace   — replays the op lines through the model, prints the model's trace -/

partial def replayLoop (h out : IO.FS.Stream) (s : Sess) : IO Unit := do
  let line ← h.getLine
  if line.isEmpty then return ()
  let l := (line.dropEndWhile (· == '\n')).toString
  if l.isEmpty then replayLoop h out s else
  let (s', o) := stepLine s l
  out.putStrLn o
  replayLoop h out s'

def main (args : List String) : IO UInt32 := do
  match args with
  | "replay" :: rest =>
    replayLoop (← IO.getStdin) (← IO.getStdout) { hack := !rest.contains "nohack", full := rest.contains "full" }
    return 0
  | _ =>
    IO.eprintln "usage: hootmodel replay [nohack] [full] < trace"
    return 2
