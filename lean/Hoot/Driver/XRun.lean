import Hoot.Driver.Replay
import Hoot.Proofs.ExchangeAll

/-! The whole-exchange driver of the C01 composition theorems (`xRun`) as an op of the line protocol:
    `xrun <payload hex> <server stream hex> {m:cap:giveUp}` runs the caller loop on the session's flow. The
    harness runs the same loop on the real `Flow` API; the two summaries are compared like any other op. -/

def parseSched (ws : List String) : List IoStep :=
  ws.filterMap fun w =>
    match w.splitOn ":" with
    | [m, c, g] => do
      let m ← m.toNat?
      let c ← c.toNat?
      pure { m := m, cap := c, giveUp := g == "1" }
    | _ => none

def stepLineX (s : Sess) (l : String) : Sess × String :=
  let opText := (l.splitOn " => ").head!
  match opText.splitOn " " with
  | "xrun" :: p :: st :: sched =>
    if s.skip then (s, s!"{l} #out-of-class") else
    match s.flow with
    | some fl =>
      let r := xRun s.hack (unhex p) (unhex st) fl (parseSched sched)
      let o := r.2.2
      let hd := match o.head with | some h => toString h.status | none => "none"
      ({ s with flow := some r.1 },
       s!"{opText} => xrun wire={toHexOut s.full r.2.1.wire} off={r.2.1.off} consumed={o.consumed} head={hd} body={toHexOut s.full o.body} faults={o.faults} @{stName r.1.st}")
    | none => (s, s!"{opText} => str not-offered @gone")
  | _ => stepLine s l
