import Hoot.Driver.Text
import Hoot.Model.HeadersMap

/-! Replay of recorded op lines through the model. `stepLine` is pure: (session, line) ↦ (session, output line). -/

structure Sess where
  flow : Option Flow := none
  call : Option (String × CallSt) := none   -- single-call API: (state name, call)
  hack : Bool := true
  full : Bool := false
  skip : Bool := false      -- the rest of the case is outside the modelled class (not compared)

def Sess.gone (s : Sess) : Sess := { s with flow := none, call := none }

def showFault : Fault → String
  | .api e => s!"fault api:{errKindName e}"
  | .panic _ => "fault panic"

def showReqHead (used : Nat) (r : ReqHead) : String :=
  s!"preq {used} {toHex r.method} {r.version}" ++ showHdrs r.fields

/-- the standalone parsers (stateless ops) -/
def statelessOp (ws : List String) : Option String :=
  match ws with
  | ["parse-resp", n, h] => n.toNat?.map fun n =>
      match tryParseResponse n (unhex h) with
      | .ok none => "none"
      | .ok (some (used, r)) => s!"presp {used} {r.status} {r.version}" ++ showHdrs r.fields
      | .error f => showFault f
  | ["parse-partial", n, h] => n.toNat?.map fun n =>
      match tryParsePartial n (unhex h) with
      | .ok none => "none"
      | .ok (some r) => s!"ppartial {r.status} {r.version}" ++ showHdrs r.fields
      | .error f => showFault f
  | ["parse-req", n, h] => n.toNat?.map fun n =>
      match tryParseRequest n (unhex h) with
      | .ok none => "none"
      | .ok (some (used, r)) => showReqHead used r
      | .error f => showFault f
  | _ => none

/-- single-call API ops on a `CallSt`; returns (new session call, result text) -/
def callOp (hack full : Bool) (kind : String) (c : CallSt) (ws : List String) : Option (Option (String × CallSt) × String) :=
  let bytesRes := fun (n : Nat) (out : Bytes) => s!"bytes {n} {toHexOut full out}"
  match kind, ws with
  | "callNoBody", ["cwrite", cap] => cap.toNat?.map fun cap =>
      match c.writeNoBody cap with
      | (c1, .ok out) => (some (kind, c1), bytesRes 0 out)
      | (c1, .error (.panic _)) => (none, "fault panic")
      | (c1, .error f) => (some (kind, c1), showFault f)
  | "callNoBody", ["cfinished"] => some (some (kind, c), s!"bool {!c.phase.isPrelude}")
  | "callBody", ["cfinished"] => some (some (kind, c), s!"bool {c.writer.ended}")
  | "callRecvResponse", ["cfinished"] => some (some (kind, c), s!"bool {c.reader.isSome}")
  | "callNoBody", ["cinto"] | "callBody", ["cinto"] =>
      if !c.writer.ended then some (none, "fault api:UnfinishedRequest")
      else some (some ("callRecvResponse", { c with phase := .recvResponse }), "state callRecvResponse")
  | "callBody", ["cbwrite", i, cap] => cap.toNat?.map fun cap =>
      match c.writeBody (unhex i) cap with
      | (c1, .ok (n, out)) => (some (kind, c1), bytesRes n out)
      | (_, .error (.panic _)) => (none, "fault panic")
      | (c1, .error f) => (some (kind, c1), showFault f)
  | "callRecvResponse", ["cresp", w] =>
      match callTryResponse hack c (unhex w) with
      | (c1, .ok none) => some (some (kind, c1), "resp 0 none")
      | (c1, .ok (some (used, r))) => some (some (kind, c1), s!"resp {used} {r.status} {r.version}" ++ showHdrs r.fields)
      | (_, .error (.panic _)) => some (none, "fault panic")
      | (c1, .error f) => some (some (kind, c1), showFault f)
  | "callRecvResponse", ["cbody"] =>
      match c.reader with
      | none => some (none, "fault api:IncompleteResponse")
      | some .noBody => some (none, "none")
      | some _ => some (some ("callRecvBody", { c with phase := .recvBody }), "state callRecvBody")
  | "callRecvBody", ["cread", w, cap] => cap.toNat?.map fun cap =>
      match c.read (unhex w) cap with
      | (c1, .ok (n, out)) => (some (kind, c1), bytesRes n out)
      | (_, .error (.panic _)) => (none, "fault panic")
      | (c1, .error f) => (some (kind, c1), showFault f)
  | "callRecvBody", ["cstopb", b] => some (some (kind, { c with stopBoundary := b == "1" }), "unit")
  | "callRecvBody", ["cboundary"] =>
      some (some (kind, c), s!"bool {match c.reader with | some (.chunked d) => d == Dechunker.size | _ => false}")
  | "callRecvBody", ["cended"] =>
      match c.reader with
      | some rd => some (some (kind, c), s!"bool {readerEnded rd}")
      | none => some (none, "fault panic")
  | _, _ => none

def canText (fl : Flow) : String :=
  match fl.st with
  | .sendRequest | .sendBody | .recvResponse | .recvBody =>
    (match fl.canProceed with | .ok b => s!" can={b}" | .error _ => " can=?")
  | .await100 | .redirect => " can=true"
  | _ => ""

/-- the implementation's result text of a recorded line (`op => result @state`) -/
def implResult (l : String) : String :=
  let r := (l.splitOn " => ").getD 1 ""
  match r.splitOn " @" with
  | [] => r
  | parts => " @".intercalate (parts.dropLast)

def implState (l : String) : String := ((l.splitOn " @").getLast?).getD ""

def followText (nf : Flow) : String := s!"flow {nf.call.req.method.text} {nf.call.req.effUri.text}"

def adoptFollow (fl : Flow) (pol : String) (m u : String) : Option Flow :=
  match parseMethod m, parseUri u with
  | some m', some u' =>
    let next := Flow.new m' fl.call.req.version fl.call.req.uri fl.call.req.orig
    let prev := fl.call.req
    let keep := (pol == "samehost") && (prev.uri.host == u'.host && (prev.uri.scheme == u'.scheme || u'.scheme == "https"))
    let unset := unsetList keep (keepHostHeader prev.uri u')
    some { next with call := { next.call with req := { next.call.req with uriOverride := some u', unset := unset } } }
  | _, _ => none

def stepLine0 (s : Sess) (l : String) : Sess × String :=
  if l.startsWith "case " then ({ s with flow := none, call := none, skip := false }, l)
  else if l.startsWith "meta " then (s, l)
  else if s.skip then (s, s!"{l} #out-of-class")
  else
    let opText := (l.splitOn " => ").head!
    let ws := opText.splitOn " "
    let curState := match s.flow, s.call with
      | some fl, _ => stName fl.st | none, some (k, _) => k | none, none => "gone"
    match statelessOp ws with
    | some r => (s, s!"{opText} => {r} @{curState}")
    | none =>
    match ws with
    | "new" :: m :: v :: u :: _ :: rest =>
      match parseMethod m, parseVersion v, parseUri u with
      | some m', some v', some u' =>
        ({ s with flow := some (Flow.new m' v' u' (pairsOf rest)), call := none }, s!"{opText} => ok @prepare")
      | _, _, _ => (s.gone, s!"{opText} => bad-new @gone")
    | "cnew" :: kind :: m :: v :: u :: _ :: rest =>
      match parseMethod m, parseVersion v, parseUri u with
      | some m', some v', some u' =>
        let c : CallSt := { req := { method := m', version := v', uri := u', orig := pairsOf rest },
                            writer := if kind == "body" then BodyWriter.newChunked else BodyWriter.newNone }
        let k := if kind == "body" then "callBody" else "callNoBody"
        ({ s with flow := none, call := some (k, c) }, s!"{opText} => ok @{k}")
      | _, _, _ => (s.gone, s!"{opText} => bad-new @gone")
    | ["follow", pol] =>
      match s.flow with
      | some fl =>
        if fl.st != .redirect then (s, s!"{opText} => str not-offered @{stName fl.st}") else
        let (fl', r) := fl.asNewFlow (pol == "samehost")
        match r with
        | .flow nf => ({ s with flow := some nf }, s!"{opText} => {followText nf} @prepare")
        | .none => ({ s with flow := some fl' }, s!"{opText} => none @redirect")
        | .fault (.api e) =>
          -- BadLocationHeader carries a payload in the implementation's text; only the kind is compared
          let impl := implResult l
          let txt := if e == .badLocationHeader && impl.startsWith "fault api:BadLocationHeader" then impl else s!"fault api:{errKindName e}"
          ({ s with flow := some fl' }, s!"{opText} => {txt} @redirect")
        | .fault (.panic _) => (s.gone, s!"{opText} => fault panic @gone")
        | .outOfClass =>
          -- the model does not predict this Location: adopt the implementation's answer and go on
          match (implResult l).splitOn " " with
          | ["flow", m, u] =>
            ({ s with flow := adoptFollow fl pol m u }, s!"{l} #out-of-class")
          | _ => ({ s with flow := if implState l == "gone" then none else some fl' }, s!"{l} #out-of-class")
      | none => (s, s!"{opText} => str not-offered @gone")
    | ["follow2", pol] =>
      match s.flow with
      | some fl =>
        if fl.st != .redirect then (s, s!"{opText} => str not-offered @{stName fl.st}") else
        let (fl1, r1) := fl.asNewFlow (pol == "samehost")
        let firstSome := match r1 with | .flow _ => true | _ => false
        match r1 with
        | .outOfClass => ({ s with flow := if implState l == "gone" then none else some fl1 }, s!"{l} #out-of-class")
        | _ =>
          let (fl2, r2) := fl1.asNewFlow (pol == "samehost")
          match r2 with
          | .flow nf => ({ s with flow := some fl2 }, s!"{opText} => {followText nf} first-some={firstSome} @redirect")
          | .none => ({ s with flow := some fl2 }, s!"{opText} => none first-some={firstSome} @redirect")
          | .fault (.api e) =>
            let impl := implResult l
            let txt := if e == .badLocationHeader && impl.startsWith "fault api:BadLocationHeader" then impl
                       else s!"fault api:{errKindName e} first-some={firstSome}"
            ({ s with flow := some fl2 }, s!"{opText} => {txt} @redirect")
          | .fault (.panic _) => (s.gone, s!"{opText} => fault panic first-some={firstSome} @gone")
          | .outOfClass => (s.gone, s!"{l} #out-of-class")
      | none => (s, s!"{opText} => str not-offered @gone")
    | ["hmap"] =>
      -- Flow<SendRequest>::headers_map(): Model/HeadersMap.lean
      match s.flow with
      | some fl =>
        if fl.st != .sendRequest then (s, s!"{opText} => str not-offered @{stName fl.st}") else
        (match fl.call.headersMap with
         | (c1, .ok m) =>
           let body := m.map fun h => s!" {h.name} {toHex h.value}"
           ({ s with flow := some { fl with call := c1 } }, s!"{opText} => map {m.length}{String.join body} @sendRequest")
         | (_, .error (.panic _)) => (s.gone, s!"{opText} => fault panic @gone")
         | (c1, .error f) => ({ s with flow := some { fl with call := c1 } }, s!"{opText} => {showFault f} @sendRequest"))
      | none => (s, s!"{opText} => str not-offered @gone")
    | ["uri?"] =>
      match s.flow with
      | some fl => if fl.st == .prepare then (s, s!"{opText} => str {fl.call.req.effUri.text} @prepare")
                   else (s, s!"{opText} => str not-offered @{stName fl.st}")
      | none => (s, s!"{opText} => str not-offered @gone")
    | ["method?"] =>
      match s.flow with
      | some fl => if fl.st == .prepare then (s, s!"{opText} => str {fl.call.req.method.text} @prepare")
                   else (s, s!"{opText} => str not-offered @{stName fl.st}")
      | none => (s, s!"{opText} => str not-offered @gone")
    | _ =>
      match s.flow, parseOp ws with
      | some fl, some op =>
        let isProceed := ws == ["proceed"] || ws == ["proceed!"]
        let can := if isProceed then canText fl else ""
        let (fl', r) := fl.step s.hack op
        -- a consuming call that does not hand back a flow drops it on the Rust side
        let gone := match r, op with
          | .fault _, .proceed => true
          | .fault (.panic _), _ => true
          | .none, .proceed => ws == ["proceed!"]
          | _, _ => false
        let notOffered := match r with | .str "not-offered" => true | _ => false
        let can := if notOffered then "" else can
        (if gone then s.gone else { s with flow := some fl' },
         s!"{opText} => {showRes s.full r}{can} @{if gone then "gone" else stName fl'.st}")
      | none, some _ => (s, s!"{opText} => str not-offered @{curState}")
      | _, none =>
        match s.call with
        | some (kind, c) =>
          (match callOp s.hack s.full kind c ws with
           | some (nc, r) => ({ s with call := nc }, s!"{opText} => {r} @{match nc with | some (k, _) => k | none => "gone"}")
           | none => (s, s!"{opText} => str not-offered @{kind}"))
        | none => (s, s!"{opText} => str not-offered @{curState}")

/-- once a redirect target falls outside the modelled URL class, the rest of that case is not compared -/
def stepLine (s : Sess) (l : String) : Sess × String :=
  let (s', o) := stepLine0 s l
  if o.endsWith "#out-of-class" then ({ s' with skip := true }, o) else (s', o)
