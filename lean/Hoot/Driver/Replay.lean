import Hoot.Driver.Text

/-! Replay of recorded op lines through the model. `stepLine` is pure: (session, line) ↦ (session, output line). -/

structure Sess where
  flow : Option Flow := none
  hack : Bool := true
  full : Bool := false

def Sess.gone (s : Sess) : Sess := { s with flow := none }

def canText (fl : Flow) : String :=
  match fl.st with
  | .sendRequest | .sendBody | .recvResponse | .recvBody =>
    (match fl.canProceed with | .ok b => s!" can={b}" | .error _ => " can=?")
  | .await100 | .redirect => " can=true"
  | _ => ""

/-- the implementation's result text of a recorded line (`op => result @state`) -/
def implResult (l : String) : String :=
  let r := (l.splitOn " => ").getD 1 ""
  match r.splitOn " @" with
  | [] => r
  | parts => " @".intercalate (parts.dropLast)

def implState (l : String) : String := ((l.splitOn " @").getLast?).getD ""

def followText (nf : Flow) : String := s!"flow {nf.call.req.method.text} {nf.call.req.effUri.text}"

def adoptFollow (fl : Flow) (pol : String) (m u : String) : Option Flow :=
  match parseMethod m, parseUri u with
  | some m', some u' =>
    let next := Flow.new m' fl.call.req.version fl.call.req.uri fl.call.req.orig
    let prev := fl.call.req
    let keep := (pol == "samehost") && (prev.uri.host == u'.host && (prev.uri.scheme == u'.scheme || u'.scheme == "https"))
    let unset := (if keep then [] else ["authorization"]) ++ ["cookie", "content-length"]
    some { next with call := { next.call with req := { next.call.req with uriOverride := some u', unset := unset } } }
  | _, _ => none

def stepLine (s : Sess) (l : String) : Sess × String :=
  if l.startsWith "case " then ({ s with flow := none }, l)
  else if l.startsWith "meta " then (s, l)
  else
    let opText := (l.splitOn " => ").head!
    let ws := opText.splitOn " "
    match ws with
    | "new" :: m :: v :: u :: _ :: rest =>
      match parseMethod m, parseVersion v, parseUri u with
      | some m', some v', some u' =>
        ({ s with flow := some (Flow.new m' v' u' (pairsOf rest)) }, s!"{opText} => ok @prepare")
      | _, _, _ => (s.gone, s!"{opText} => bad-new @gone")
    | ["follow", pol] =>
      match s.flow with
      | some fl =>
        if fl.st != .redirect then (s, s!"{opText} => str not-offered @{stName fl.st}") else
        let (fl', r) := fl.asNewFlow (pol == "samehost")
        match r with
        | .flow nf => ({ s with flow := some nf }, s!"{opText} => {followText nf} @prepare")
        | .none => ({ s with flow := some fl' }, s!"{opText} => none @redirect")
        | .fault (.api e) =>
          -- BadLocationHeader carries a payload in the implementation's text; only the kind is compared
          let impl := implResult l
          let txt := if e == .badLocationHeader && impl.startsWith "fault api:BadLocationHeader" then impl else s!"fault api:{errKindName e}"
          ({ s with flow := some fl' }, s!"{opText} => {txt} @redirect")
        | .fault (.panic _) => (s.gone, s!"{opText} => fault panic @gone")
        | .outOfClass =>
          -- the model does not predict this Location: adopt the implementation's answer and go on
          match (implResult l).splitOn " " with
          | ["flow", m, u] =>
            ({ s with flow := adoptFollow fl pol m u }, s!"{l} #out-of-class")
          | _ => ({ s with flow := if implState l == "gone" then none else some fl' }, s!"{l} #out-of-class")
      | none => (s, s!"{opText} => str not-offered @gone")
    | ["follow2", pol] =>
      match s.flow with
      | some fl =>
        if fl.st != .redirect then (s, s!"{opText} => str not-offered @{stName fl.st}") else
        let (fl1, r1) := fl.asNewFlow (pol == "samehost")
        let firstSome := match r1 with | .flow _ => true | _ => false
        match r1 with
        | .outOfClass => ({ s with flow := if implState l == "gone" then none else some fl1 }, s!"{l} #out-of-class")
        | _ =>
          let (fl2, r2) := fl1.asNewFlow (pol == "samehost")
          match r2 with
          | .flow nf => ({ s with flow := some fl2 }, s!"{opText} => {followText nf} first-some={firstSome} @redirect")
          | .none => ({ s with flow := some fl2 }, s!"{opText} => none first-some={firstSome} @redirect")
          | .fault (.api e) =>
            let impl := implResult l
            let txt := if e == .badLocationHeader && impl.startsWith "fault api:BadLocationHeader" then impl
                       else s!"fault api:{errKindName e} first-some={firstSome}"
            ({ s with flow := some fl2 }, s!"{opText} => {txt} @redirect")
          | .fault (.panic _) => (s.gone, s!"{opText} => fault panic @gone")
          | .outOfClass => (s.gone, s!"{l} #out-of-class")
      | none => (s, s!"{opText} => str not-offered @gone")
    | ["uri?"] =>
      match s.flow with
      | some fl => if fl.st == .prepare then (s, s!"{opText} => str {fl.call.req.effUri.text} @prepare")
                   else (s, s!"{opText} => str not-offered @{stName fl.st}")
      | none => (s, s!"{opText} => str not-offered @gone")
    | ["method?"] =>
      match s.flow with
      | some fl => if fl.st == .prepare then (s, s!"{opText} => str {fl.call.req.method.text} @prepare")
                   else (s, s!"{opText} => str not-offered @{stName fl.st}")
      | none => (s, s!"{opText} => str not-offered @gone")
    | _ =>
      match s.flow, parseOp ws with
      | some fl, some op =>
        let isProceed := ws == ["proceed"] || ws == ["proceed!"]
        let can := if isProceed then canText fl else ""
        let (fl', r) := fl.step s.hack op
        -- a consuming call that does not hand back a flow drops it on the Rust side
        let gone := match r, op with
          | .fault _, .proceed => true
          | .fault (.panic _), _ => true
          | .none, .proceed => ws == ["proceed!"]
          | _, _ => false
        let notOffered := match r with | .str "not-offered" => true | _ => false
        let can := if notOffered then "" else can
        (if gone then s.gone else { s with flow := some fl' },
         s!"{opText} => {showRes s.full r}{can} @{if gone then "gone" else stName fl'.st}")
      | none, some _ => (s, s!"{opText} => str not-offered @gone")
      | _, none => (s, s!"{opText} => bad-op @{match s.flow with | some fl => stName fl.st | none => "gone"}")
