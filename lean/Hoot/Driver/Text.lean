import Hoot.Model.Uri

/-! Line protocol: parsing of op lines and printing of results (shared by the replay driver and the
    oracles). Not part of any theorem; part of the trusted correspondence machinery. -/

def hexNib (c : Char) : Option UInt8 :=
  if '0' ≤ c ∧ c ≤ '9' then some (c.toNat - 48).toUInt8
  else if 'a' ≤ c ∧ c ≤ 'f' then some (c.toNat - 87).toUInt8 else none

def unhexL : List Char → List UInt8 → Option (List UInt8)
  | [], acc => some acc.reverse
  | a :: b :: r, acc => do
    let x ← hexNib a; let y ← hexNib b
    unhexL r ((x * 16 + y) :: acc)
  | _, _ => none

def unhex (s : String) : Bytes := if s == "-" then [] else (unhexL s.toList []).getD []

def hexD (n : UInt8) : Char := if n < 10 then Char.ofNat (48 + n.toNat) else Char.ofNat (87 + n.toNat)
def toHex (b : Bytes) : String :=
  if b.isEmpty then "-" else String.ofList (b.flatMap fun x => [hexD (x / 16), hexD (x % 16)])

def fnv1a (b : Bytes) : UInt64 :=
  b.foldl (fun h x => (h ^^^ x.toUInt64) * 0x100000001b3) 0xcbf29ce484222325

def hex64 (h : UInt64) : String :=
  String.ofList ((List.range 16).map fun i => hexD (((h >>> ((15 - i) * 4).toUInt64) &&& 0xf).toUInt8))

/-- outputs longer than 1024 bytes are compared by length and hash -/
def toHexOut (full : Bool) (b : Bytes) : String :=
  if b.length ≤ 1024 || full then toHex b else s!"#{b.length}:{hex64 (fnv1a b)}"

def errKindName : ErrKind → String
  | .badHeader => "BadHeader" | .unsupportedVersion => "UnsupportedVersion" | .methodVersionMismatch => "MethodVersionMismatch"
  | .tooManyHostHeaders => "TooManyHostHeaders" | .tooManyContentLengthHeaders => "TooManyContentLengthHeaders"
  | .badHostHeader => "BadHostHeader" | .badContentLengthHeader => "BadContentLengthHeader"
  | .methodForbidsBody => "MethodForbidsBody" | .methodRequiresBody => "MethodRequiresBody" | .outputOverflow => "OutputOverflow"
  | .chunkLenNotAscii => "ChunkLenNotAscii" | .chunkLenNotANumber => "ChunkLenNotANumber" | .chunkExpectedCrLf => "ChunkExpectedCrLf"
  | .bodyContentAfterFinish => "BodyContentAfterFinish" | .bodyLargerThanContentLength => "BodyLargerThanContentLength"
  | .unfinishedRequest => "UnfinishedRequest" | .httpParseFail _ => "HttpParseFail" | .httpParseTooManyHeaders => "HttpParseTooManyHeaders"
  | .missingResponseVersion => "MissingResponseVersion" | .responseMissingStatus => "ResponseMissingStatus"
  | .responseInvalidStatus => "ResponseInvalidStatus" | .incompleteResponse => "IncompleteResponse"
  | .noLocationHeader => "NoLocationHeader" | .badLocationHeader => "BadLocationHeader" | .headersWith100 => "HeadersWith100"
  | .bodyIsChunked => "BodyIsChunked" | .requestMissingMethod => "RequestMissingMethod" | .requestInvalidMethod => "RequestInvalidMethod"

def stName : FState → String
  | .prepare => "prepare" | .sendRequest => "sendRequest" | .await100 => "await100" | .sendBody => "sendBody"
  | .recvResponse => "recvResponse" | .recvBody => "recvBody" | .redirect => "redirect" | .cleanup => "cleanup"

/-- `HeaderMap::iter` order: first-occurrence order of names, later values of a name grouped with it -/
def groupHdrs (fs : List Hdr) : List Hdr :=
  let names := fs.foldl (fun acc f => if acc.contains f.name then acc else acc ++ [f.name]) []
  names.flatMap fun n => fs.filter (fun f => f.name == n)

def showHdrs (fs : List Hdr) : String :=
  (groupHdrs fs).foldl (fun acc h => acc ++ " " ++ h.name ++ "=" ++ toHex h.value) ""

def showRes (full : Bool) : Res → String
  | .unit => "unit" | .bytes n out => s!"bytes {n} {toHexOut full out}" | .count n => s!"count {n}"
  | .bool b => s!"bool {b}" | .state s => s!"state {stName s}" | .none => "none"
  | .resp n none => s!"resp {n} none"
  | .resp n (some r) => s!"resp {n} {r.status} {r.version}" ++ showHdrs r.fields
  | .str s => s!"str {s}"
  | .fault (.api e) => s!"fault api:{errKindName e}"
  | .fault (.panic _) => "fault panic"

def parseMethod : String → Option Method
  | "GET" => some .get | "HEAD" => some .head | "POST" => some .post | "PUT" => some .put | "DELETE" => some .delete
  | "CONNECT" => some .connect | "OPTIONS" => some .options | "TRACE" => some .trace | "PATCH" => some .patch | _ => none

def parseVersion : String → Option Version
  | "HTTP/0.9" => some .h09 | "HTTP/1.0" => some .h10 | "HTTP/1.1" => some .h11 | "HTTP/2.0" => some .h2 | "HTTP/3.0" => some .h3 | _ => none

/-- URIs of the simple class scheme://host[:port][/path][?query] -/
def parseUri (s : String) : Option Uri :=
  match s.splitOn "://" with
  | [scheme, rest] =>
    let (authPath, query) := match rest.splitOn "?" with
      | [a] => (a, none) | a :: q => (a, some ("?".intercalate q)) | [] => ("", none)
    let cs := authPath.toList
    let auth := String.ofList (cs.takeWhile (· != '/'))
    let path := String.ofList (cs.dropWhile (· != '/'))
    let (host, port) := match auth.splitOn ":" with
      | [h, p] => (h, p.toNat?) | _ => (auth, none)
    some { scheme := scheme, host := host, port := port, path := path, query := query }
  | _ => none

def pairsOf : List String → List Hdr
  | k :: v :: rest => { name := k, value := unhex v } :: pairsOf rest
  | _ => []

def patBytes (seed len : Nat) : Bytes := (List.range len).map fun k => ((seed + k) % 251).toUInt8

def parseOp (ws : List String) : Option Op :=
  match ws with
  | ["hdr", k, v] => some (.header { name := k.toLower, value := unhex v })
  | ["despite"] => some .despite | ["proceed"] => some .proceed | ["proceed!"] => some .proceed | ["canproceed"] => some .canProceed
  | ["write", c] => c.toNat?.map .write
  | ["bwrite", i, c] => c.toNat?.map (.bwrite (unhex i))
  | ["bwriten", len, seed, c] => do
      let l ← len.toNat?; let s ← seed.toNat?; let c ← c.toNat?
      pure (.bwrite (patBytes s l) c)
  | ["direct", n] => n.toNat?.map .direct | ["maxin", n] => n.toNat?.map .maxin | ["chunked?"] => some .isChunked
  | ["read100", w] => some (.read100 (unhex w)) | ["keep100"] => some .keep100
  | ["resp", w] => some (.resp (unhex w)) | ["bread", w, c] => c.toNat?.map (.bread (unhex w))
  | ["stopb", b] => some (.stopb (b == "1")) | ["boundary"] => some .boundary | ["mode"] => some .mode
  | ["close?"] => some .mustClose | ["reason"] => some .reason | ["status"] => some .statusQ
  | _ => none
