import Hoot.Oracle.Trace
import Hoot.Proofs.RespProof
import Hoot.Proofs.PropsFlow

/-! Oracles for C05 (every prefix of a response head), C06 (framing decision), C20 (standalone parsers).
    Ground truth comes from the `meta head` line (the generator's structure); it is re-encoded here with the
    specification encoder `Head.enc` of the theorems and checked against the bytes actually offered. -/

def Field.wfb (f : Field) : Bool :=
  !f.name.isEmpty && f.name.all isNameTok && f.pre.all isWs && f.post.all isWs && f.value.all isValueTok &&
  (match f.value.head? with | some b => !isWs b | none => true) &&
  (match f.value.getLast? with | some b => !isWs b | none => true)

def Head.wfb (h : Head) : Bool :=
  decide (h.ver ≤ 1) && decide (48 ≤ h.d1 ∧ h.d1 ≤ 57) && decide (48 ≤ h.d2 ∧ h.d2 ≤ 57) && decide (48 ≤ h.d3 ∧ h.d3 ≤ 57) &&
  (match h.reason with | some r => r.all isReasonTok | none => true) && h.fields.all Field.wfb

def fieldsOfMeta : List String → List Field
  | n :: p :: v :: q :: rest => { name := unhex n, pre := unhex p, value := unhex v, post := unhex q } :: fieldsOfMeta rest
  | _ => []

/-- `meta head <ver> <status> <rHEX|none> <nf> {name pre value post}` -/
def headOfMeta (c : TCase) : Option Head :=
  match (c.metas.find? (·.startsWith "meta head ")).map (fun m => (m.splitOn " ").drop 2) with
  | some (v :: st :: rs :: _ :: rest) =>
    match v.toNat?, st.toList with
    | some ver, [a, b, d] =>
      some { ver := ver, d1 := a.toNat.toUInt8, d2 := b.toNat.toUInt8, d3 := d.toNat.toUInt8,
             reason := if rs == "none" then none else some (unhex (rs.drop 1).toString),
             fields := fieldsOfMeta rest }
    | _, _ => none
  | _ => none

def lowerName (b : Bytes) : String := String.ofList (b.map fun x => Char.ofNat (if 65 ≤ x ∧ x ≤ 90 then x + 32 else x).toNat)

def hdrsOfFields (fs : List Field) : List Hdr := fs.map fun f => { name := lowerName f.name, value := f.value }

/-- number of complete field lines inside the first `n` bytes of the head -/
def completeLines (h : Head) (n : Nat) : Nat :=
  let rec go (fs : List Field) (off : Nat) (k : Nat) : Nat :=
    match fs with
    | [] => k
    | f :: rest => if off + f.enc.length ≤ n then go rest (off + f.enc.length) (k + 1) else k
  go h.fields h.statusLine.length 0

def isPrefixOf (a b : Bytes) : Bool := a.length ≤ b.length && b.take a.length == a

def hasCompleteLocation (h : Head) (n : Nat) : Bool :=
  ((h.fields.take (completeLines h n)).any fun f => lowerName f.name == "location")

/-- expected text of a complete parse through `try_response` / `try_parse_response` -/
def expectResp (kw : String) (h : Head) : String :=
  s!"{kw} {h.enc.length} {h.codeVal} {h.ver}" ++ showHdrs (hdrsOfFields h.fields)

def resText (t : TLine) : String := " ".intercalate t.res

def oracleC05 (c : TCase) : Verdict :=
  match headOfMeta c with
  | none => .ok
  | some h =>
    if !h.wfb then .fail "harness bug: generated head is not well-formed" else
    let enc := h.enc
    let code := h.codeVal
    let go := c.lines.foldl (fun (acc : Option Verdict) t =>
      match acc with
      | some (.fail _) => acc
      | _ =>
      if t.kw != "resp" && t.kw != "cresp" then acc else
      let w := unhex (t.op.getD 1 "-")
      let r := resText t
      if t.isPanic then some (.fail s!"panic: {t.raw}") else
      if isPrefixOf enc w then
        -- the whole head (or more) was offered
        if h.fields.length > 128 then
          if r.startsWith "fault api:" then acc else some (.fail s!"head with {h.fields.length} fields was not rejected with an error: {r.take 60}")
        else if r == expectResp "resp" h then acc
        else some (.fail s!"complete head: expected {(expectResp "resp" h).take 120} got {r.take 120}")
      else if isPrefixOf w enc then
        -- a strict prefix
        if completeLines h w.length > 128 then
          if r.startsWith "fault api:" then acc else some (.fail s!"more than 128 complete field lines not rejected with an error: {r.take 60}")
        else if r == "resp 0 none" then acc
        else if 300 ≤ code ∧ code ≤ 399 ∧ hasCompleteLocation h w.length ∧ r.startsWith s!"resp {w.length} {code} " then
          (match acc with | some v => some v | none => some (.known "D10" s!"3xx head cut after its Location line at {w.length} of {enc.length} bytes is returned as a complete response"))
        else some (.fail s!"strict prefix ({w.length} of {enc.length} bytes) did not yield need-more-data: {r.take 100}")
      else some (.fail "harness bug: window is neither a prefix nor an extension of the head")) none
    match go with | some v => v | none => .ok

/-! C06 -/

def methodOfCase (c : TCase) : Option Method :=
  match firstNew c with
  | some t => parseMethod (t.op.getD (if t.kw == "cnew" then 2 else 1) "")
  | none => none

/-- parse ` name=hex name=hex …` as printed by `showHdrs` -/
def hdrsOfWords (ws : List String) : List Hdr :=
  ws.filterMap fun w => match w.splitOn "=" with
    | [k, v] => some { name := k, value := unhex v }
    | _ => none

def successorSpec (rd : BodyReader) (status : Nat) : String :=
  match rd with
  | .noBody | .len 0 => if 300 ≤ status ∧ status ≤ 399 ∧ status ≠ 304 then "redirect" else "cleanup"
  | _ => "recvBody"

def modeSpec : BodyReader → String
  | .noBody => "NoBody" | .len n => s!"LengthDelimited({n})" | .chunked _ => "Chunked" | .close => "CloseDelimited"

structure C06St where
  expect : Option (Except Fault BodyReader × Nat) := none
  readSome : Bool := false     -- body bytes were delivered since the head
  fail : Option String := none

def oracleC06 (c : TCase) : Verdict :=
  match methodOfCase c with
  | none => .ok
  | some m =>
    let st := c.lines.foldl (fun (s : C06St) t =>
      if s.fail.isSome then s else
      match t.kw with
      | "resp" =>
        -- the head offered is complete by construction; derive the rule's verdict from the raw head
        let w := unhex (t.op.getD 1 "-")
        -- status line: HTTP/1.x SSS
        let ver := (w.getD 7 49).toNat - 48
        let status := ((w.getD 9 48).toNat - 48) * 100 + ((w.getD 10 48).toNat - 48) * 10 + ((w.getD 11 48).toNat - 48)
        if status == 100 then s else
        match t.res with
        | "resp" :: _ :: st' :: _ :: hs =>
          if st' == "none" then { s with fail := some s!"complete head not parsed: {t.raw.take 100}" } else
          -- the framing fields are read off the bytes the server sent (grammar of C05), not off what the
          -- implementation reports of them
          let fields : List Hdr := match tryParseResponse 128 w with
            | .ok (some (_, r)) => r.fields
            | _ => hdrsOfWords hs
          -- the property quantifies over one Content-Length and one Transfer-Encoding field at most
          if (fields.filter (·.name == "transfer-encoding")).length > 1 || (fields.filter (·.name == "content-length")).length > 1 then
            { s with expect := none } else
          let fr := framingOf fields
          let verdict := rfcFraming (ver == 0) m status fr
          (match verdict with
           | .error _ => { s with fail := some s!"non-numeric Content-Length accepted: {t.raw.take 160}" }
           | .ok rd => { s with expect := some (.ok rd, status), readSome := false })
        | ["fault", e] =>
          if !e.startsWith "api:" then { s with fail := some s!"panic: {t.raw.take 120}" } else
          -- repeated framing fields are outside the property's quantification: refusing such a head is as good as
          -- picking one of the values
          let wireFields : List Hdr := match tryParseResponse 128 w with | .ok (some (_, r)) => r.fields | _ => []
          if (wireFields.filter (·.name == "transfer-encoding")).length > 1 || (wireFields.filter (·.name == "content-length")).length > 1 then
            { s with expect := none } else
          -- must be a non-numeric content-length: re-derive from the raw head via the model's scanner is
          -- avoided here; the raw head's Content-Length value is looked up textually
          let txt := String.ofList (w.map fun b => Char.ofNat b.toNat)
          let clv := ((txt.splitOn "Content-Length: ").getD 1 "").splitOn "\r\n" |>.headD ""
          if clv.toList.all Char.isDigit && !clv.isEmpty && clv.length < 20 then
            { s with fail := some s!"numeric Content-Length rejected: {t.raw.take 120}" }
          else { s with expect := some (.error (.api .badContentLengthHeader), status) }
        | _ => { s with fail := some s!"unexpected result for a complete head: {t.raw.take 160}" }
      | "proceed" | "proceed!" =>
        if t.st == "sendRequest" || t.st == "sendBody" then s else
        match s.expect, t.res with
        | some (.ok rd, status), "state" :: nxt :: _ =>
          if nxt == "recvResponse" || nxt == "sendBody" || nxt == "sendRequest" || nxt == "await100" then s else
          if nxt == successorSpec rd status then s
          else { s with fail := some s!"state after the head is {nxt}, the rules give {successorSpec rd status} (mode {modeSpec rd}, status {status})" }
        | _, _ => s
      | "bread" =>
        -- a length-delimited body: what remains is what was expected minus what was delivered
        (match s.expect, t.res with
         | some (.ok (.len n), st), ["bytes", i, _] => { s with expect := some (.ok (.len (n - i.toNat!)), st), readSome := s.readSome || i != "0" }
         | _, _ => s)
      | "canproceed" =>
        if t.st != "recvBody" then s else
        (match s.expect, t.res with
         | some (.ok (.len n), _), ["bool", b] =>
           if (b == "true") == (n == 0) then s else { s with fail := some s!"body complete={b} with {n} bytes of the declared length outstanding" }
         | _, _ => s)
      | "mode" =>
        match s.expect, t.res with
        | some (.ok rd, _), ["str", mtxt] =>
          -- the kind of framing is what the property fixes; for a length-delimited body the number reported
          -- may be what remains or what was declared
          let sameKind := match rd with
            | .len _ => mtxt.startsWith "LengthDelimited("
            | _ => mtxt == modeSpec rd
          if mtxt == modeSpec rd || (s.readSome && sameKind) then s else { s with fail := some s!"body mode {mtxt}, the rules give {modeSpec rd}" }
        | _, _ => s
      | _ => s) ({} : C06St)
    match st.fail with | some w => .fail w | none => .ok

/-! C20 -/

def isUriTokO (b : UInt8) : Bool := 33 ≤ b && b ≤ 126 && b != 60 && b != 62

structure ReqMeta where
  method : Bytes
  target : Bytes
  ver : Nat
  fields : List Field

def reqOfMeta (c : TCase) : Option ReqMeta :=
  match (c.metas.find? (·.startsWith "meta reqhead ")).map (fun m => (m.splitOn " ").drop 2) with
  | some (m :: t :: v :: _ :: rest) => v.toNat?.map fun ver => { method := unhex m, target := unhex t, ver := ver, fields := fieldsOfMeta rest }
  | _ => none

def ReqMeta.line (r : ReqMeta) : Bytes := r.method ++ [32] ++ r.target ++ [32, 72, 84, 84, 80, 47, 49, 46, (48 + r.ver).toUInt8, 13, 10]
def ReqMeta.enc (r : ReqMeta) : Bytes := r.line ++ (encFields r.fields ++ [13, 10])

def completeLinesFrom (fs : List Field) (start n : Nat) : Nat :=
  let rec go (fs : List Field) (off : Nat) (k : Nat) : Nat :=
    match fs with
    | [] => k
    | f :: rest => if off + f.enc.length ≤ n then go rest (off + f.enc.length) (k + 1) else k
  go fs start 0

def limitOf (c : TCase) : Nat := ((metaVal c "limit").bind (·.head?)).bind (·.toNat?) |>.getD 128

def oracleC20 (c : TCase) : Verdict :=
  let lim := limitOf c
  let chk := fun (acc : Option String) (t : TLine) (enc : Bytes) (fields : List Field) (start : Nat) (full : String) (kw : String) =>
    match acc with
    | some _ => acc
    | none =>
      if t.kw != kw then acc else
      let w := unhex (t.op.getD 2 "-")
      let r := resText t
      if t.isPanic then some s!"panic: {t.raw.take 80}" else
      if isPrefixOf enc w then
        if fields.length > lim then (if r == "fault api:HttpParseTooManyHeaders" then none else some s!"{fields.length} fields with limit {lim} not rejected: {r.take 60}")
        else if r == full then none else some s!"complete head: expected {full.take 100} got {r.take 100}"
      else if isPrefixOf w enc then
        if completeLinesFrom fields start w.length > lim then
          (if r == "fault api:HttpParseTooManyHeaders" then none else some s!"more complete field lines than the limit {lim}, not rejected: {r.take 60}")
        else if r == "none" then none else some s!"strict prefix ({w.length} of {enc.length}) within the limit is not 'incomplete': {r.take 80}"
      else none
  -- a case may describe a response head, a request head, or both: each is judged
  let reqV : Verdict := match reqOfMeta c with
    | some q =>
      if !(q.target.all isUriTokO) || q.target.isEmpty then .ok else
      if !(q.fields.all Field.wfb) then .fail "harness bug: generated fields are not well-formed" else
      let enc := q.enc
      let full := s!"preq {enc.length} {toHex q.method} {q.ver}" ++ showHdrs (hdrsOfFields q.fields)
      let st := c.lines.foldl (fun (acc : Option String) t => chk acc t enc q.fields q.line.length full "parse-req") none
      (match st with | some w => .fail w | none => .ok)
    | none => .ok
  match reqV with
  | .fail w => .fail w
  | _ =>
  match headOfMeta c, reqOfMeta c with
  | some h, _ =>
    if !h.wfb then .fail "harness bug: generated head is not well-formed" else
    let enc := h.enc
    let st := c.lines.foldl (fun (acc : Option String) t =>
      let acc := chk acc t enc h.fields h.statusLine.length (expectResp "presp" h) "parse-resp"
      match acc with
      | some _ => acc
      | none =>
        if t.kw != "parse-partial" then acc else
        let w := unhex (t.op.getD 2 "-")
        let r := resText t
        if t.isPanic then some s!"panic: {t.raw.take 80}" else
        if !(isPrefixOf w enc || isPrefixOf enc w) then acc else
        let k := completeLinesFrom h.fields h.statusLine.length w.length
        if k > lim then acc else
        if r == "none" then
          -- allowed only while the status line is incomplete
          (if w.length ≥ h.statusLine.length then some s!"partial parser gave nothing although the status line is complete ({w.length} bytes)" else acc)
        else if r.startsWith "fault" then some s!"partial parser failed on a prefix of a well-formed head within the limit: {r} at {w.length} of {enc.length}"
        else
          -- every reported field must be a completely present field line, in order
          -- the number of reported fields fixes the only candidate prefix of the field list
          let j := (t.res.drop 3).length
          if j ≤ k && r == s!"ppartial {h.codeVal} {h.ver}" ++ showHdrs (hdrsOfFields (h.fields.take j)) then acc else some s!"partial parser reported a field that is not completely present (window {w.length} bytes, {k} complete lines): {r.take 120}") none
    (match st with | some w => .fail w | none => .ok)
  | none, _ => reqV
