import Hoot.Oracle.Heads
import Hoot.Oracle.Expect
import Hoot.Oracle.ReqHead

/-! Oracles for C09 (state graph / readiness), C10 (connection-reuse verdict), C12 (hostile server bytes). -/

/-- words `can=<b>` of a proceed result -/
def canFlag (res : List String) : Option Bool :=
  (res.find? (·.startsWith "can=")).map fun w => w == "can=true"

structure C09St where
  method : String := ""
  expect100 : Bool := false
  despite : Bool := false
  firstFlow : Bool := true        -- before any redirect was followed
  prevState : String := "gone"
  refused : Bool := false         -- non-100 seen while awaiting (from the result of read100 + keep100 is not needed: use C11's classifier)
  lastResp : Option (Nat × Nat × List Hdr) := none   -- status, version, headers of the response returned
  hdrs : List Hdr := []           -- request headers given so far (new + hdr ops), first flow only
  sentIn : Nat := 0               -- request-body input bytes accepted in SendBody
  bodyEnded : Bool := false       -- the whole declared body was accepted and its end was signalled without an error
  headDone : Bool := false        -- a head write left ≥ 200 bytes of its buffer unused: nothing of the head is left
  bodyTouched : Bool := true      -- in SendBody: a body write / direct-write report was made since the state was entered
  known : Option (String × String) := none
  fail : Option String := none

/-- declared Content-Length of the request, when that is its only framing -/
def declaredLen (hs : List Hdr) : Option Nat :=
  if hs.any (fun h => h.name.toLower == "transfer-encoding") then none else
  match hs.filter (fun h => h.name.toLower == "content-length") with
  | [h] => (String.ofList (h.value.map fun b => Char.ofNat b.toNat)).toNat?
  | _ => none

/-- some Content-Length field of the request declares a length of 0 (such a body is accounted for from the
    start; whether it is "finished" before the caller says so is not constrained) -/
def declaresZero (hs : List Hdr) : Bool :=
  hs.any fun h => h.name.toLower == "content-length" &&
    (String.ofList (h.value.map fun b => Char.ofNat b.toNat)).trimAscii.toString.toNat? == some 0

def oracleC09 (c : TCase) : Verdict :=
  let st := c.lines.foldl (fun (s : C09St) t =>
    if s.fail.isSome then s else
    let s1 := { s with prevState := t.st }
    if t.isPanic || (t.res.take 2 == ["fault", "panic"]) then
      -- D11: a second as_new_flow after one that returned a flow
      if t.kw == "follow2" && t.res.contains "first-some=true" then
        { s1 with known := some ("D11", "Flow<Redirect>::as_new_flow called again after it returned a flow panics (take_request left an empty request)") }
      else { s with fail := some s!"panic: {t.raw.take 120}" }
    else
    match t.kw with
    | "new" =>
      (match t.op with
       | _ :: m :: _ :: _ :: _ :: rest =>
         { s1 with method := m, expect100 := (pairsOf rest).any (fun h => h.name == "expect" && h.value == strB "100-continue"),
                   despite := false, firstFlow := true, refused := false, lastResp := none,
                   hdrs := pairsOf rest, sentIn := 0, bodyEnded := false, headDone := false }
       | _ => s1)
    | "write" =>
      if s.prevState != "sendRequest" then s1 else
      (match t.op, t.res with
       | [_, cap], ["bytes", _, out] =>
         let used := if out == "-" then 0 else out.length / 2
         if !out.startsWith "#" && used + 200 ≤ cap.toNat! then { s1 with headDone := true } else s1
       | [_, cap], ["fault", "api:OutputOverflow"] =>
         if 1000 ≤ cap.toNat! then { s with fail := some s!"a head write into {cap} bytes reports OutputOverflow: the flow is stuck in SendRequest" } else s1
       | _, _ => s1)
    | "hdr" => (match t.op, t.res with | [_, k, v], ["ok"] => { s1 with hdrs := s.hdrs ++ [{ name := k.toLower, value := unhex v }] } | _, _ => s1)
    | "direct" => if s.prevState == "sendBody" then { s1 with bodyTouched := true } else s1
    | "bwrite" =>
      let s1 := if s.prevState == "sendBody" then { s1 with bodyTouched := true } else s1
      if s.prevState != "sendBody" || !s.firstFlow then s1 else
      (match t.op, t.res with
       | [_, i, cap], ["bytes", n, out] =>
         let sent := s.sentIn + n.toNat!
         let endNow := i == "-" &&
           ((declaredLen s.hdrs == some sent) ||
            (declaredLen s.hdrs).isNone && 5 ≤ cap.toNat! && out == "300d0a0d0a")
         { s1 with sentIn := sent, bodyEnded := s.bodyEnded || endNow }
       | _, _ => s1)
    | "canproceed" =>
      if s.prevState == "sendRequest" && s.headDone && t.res == ["bool", "false"] then
        { s with fail := some "the whole request head was written (buffer space to spare), but the flow is not ready to advance" }
      else
      if s.prevState == "sendBody" && s.bodyEnded && t.res == ["bool", "false"] then
        { s with fail := some "the whole request body was written and its end signalled, but the flow is not ready to advance" }
      else
      if s.prevState == "sendBody" && !s.bodyTouched && s.firstFlow && !declaresZero s.hdrs && t.res == ["bool", "true"] then
        { s with fail := some "the body state reports the body finished before the caller wrote or ended anything in it: the flow that advanced is not usable for sending its body" }
      else
      -- a response head other than a 100 was handed to the caller: the flow stands before its successor state
      if s.prevState == "recvResponse" && t.res == ["bool", "false"] &&
         (match s.lastResp with | some (status, _, _) => status ≥ 101 | none => false) then
        { s with fail := some "a response head was handed out, but the flow is not ready to leave RecvResponse" }
      else s1
    | "despite" => if t.res == ["unit"] then { s1 with despite := true } else s1
    | "follow" => (match t.res with | "flow" :: m :: _ => { s1 with method := m, firstFlow := false, despite := false, refused := false, lastResp := none, bodyEnded := false, sentIn := 0, hdrs := [], headDone := false } | _ => s1)
    | "read100" =>
      -- what the server sent decides, not what the implementation made of it: a complete response other than
      -- a bare 100 is a refusal (C11), whatever was reported as consumed
      (match classifyLook (unhex (t.op.getD 1 "-")), t.res with
       | .refused, "count" :: _ => { s1 with refused := true }
       | _, _ => s1)
    | "resp" =>
      (match t.res with
       | "resp" :: _ :: st' :: v :: hs => if st' == "none" then s1 else { s1 with lastResp := some (st'.toNat!, v.toNat!, hdrsOfWords hs) }
       | _ => s1)
    | "proceed" | "proceed!" =>
      let from_ := s.prevState
      (match t.res with
       | "state" :: nxt :: rest =>
         -- readiness agrees with advancing
         if canFlag rest == some false then { s with fail := some s!"advanced although the readiness query was false: {t.raw.take 100}" } else
         -- the documented graph
         let bodyDue := isBodyMethod s.method || s.despite
         let expected : Option String :=
           if from_ == "prepare" then some "sendRequest"
           else if from_ == "sendRequest" then
             (if !s.firstFlow then none else
              if bodyDue then (if s.expect100 then some "await100" else some "sendBody") else some "recvResponse")
           else if from_ == "await100" then (if s.refused then some "recvResponse" else some "sendBody")
           else if from_ == "sendBody" then some "recvResponse"
           else if from_ == "recvResponse" then
             (match s.lastResp, parseMethod s.method with
              | some (status, ver, hs), some m =>
                (match rfcFraming (ver == 0) m status (framingOf hs) with
                 | .ok rd => some (successorSpec rd status)
                 | .error _ => none)
              | _, _ => none)
           else if from_ == "recvBody" then
             (match s.lastResp with
              | some (status, _, _) => some (if 300 ≤ status ∧ status ≤ 399 ∧ status ≠ 304 then "redirect" else "cleanup")
              | none => none)
           else if from_ == "redirect" then some "cleanup"
           else none
         -- (a declared length of 0 is accounted for from the start: C04 lets such a body be finished at once)
         if from_ == "sendBody" && !s.bodyTouched && s.firstFlow && !declaresZero s.hdrs then
           { s with fail := some s!"the body state was left for {nxt} although the caller never wrote or ended a body in it" } else
         (match expected with
          | some e => if e == nxt then (if nxt == "sendBody" then { s1 with bodyTouched := false } else s1)
                      else { s with fail := some s!"from {from_} the graph prescribes {e}, the flow went to {nxt}" }
          | none => if nxt == "sendBody" then { s1 with bodyTouched := false } else s1)
       | "none" :: rest =>
         if canFlag rest == some true then { s with fail := some s!"readiness query true but advancing returned nothing: {t.raw.take 100}" }
         else if from_ == "sendRequest" && s.headDone then
           { s with fail := some "the whole request head was written (buffer space to spare), but the flow cannot advance" }
         else if from_ == "sendBody" && s.bodyEnded then
           { s with fail := some "the whole request body was written and its end signalled, but the flow cannot advance to receiving the response" }
         else s1
       | "fault" :: _ => s1
       | _ => s1)
    | _ => s1) ({} : C09St)
  match st.fail, st.known with
  | some w, _ => .fail w
  | none, some (k, w) => .known k w
  | none, none => .ok

/-! C10 -/

structure C10St where
  http10 : Bool := false
  clientClose : Bool := false
  serverClose : Bool := false
  not100 : Bool := false
  closeDelim : Bool := false
  method : String := ""
  lastResp : Option (Nat × Nat × List Hdr) := none
  decided100 : Bool := false
  hackFired : Bool := false
  /-- a Connection value that spells the close option in a way the property's quantification does not list
      (another letter case, a member of a comma-separated list, padded): whether that "carried Connection:
      close" is not for this oracle to decide — either verdict is accepted on that ground alone -/
  ambig : Bool := false
  prevState : String := "gone"
  fail : Option String := none

/-- a Connection value that names `close` without being exactly `close` -/
def closeVariant (v : Bytes) : Bool :=
  let txt := (String.ofList (v.map fun b => Char.ofNat b.toNat)).toLower
  v != strB "close" && (txt.splitOn ",").any (fun e => e.trimAscii.toString == "close")

/-- does `hay` contain `needle`? -/
def strHas (hay needle : String) : Bool := (hay.splitOn needle).length > 1

/-- which of the five conditions a reason text names — by what it talks about, not by its exact wording
    (the property asks that it "names a condition that actually holds"); `none`: cannot tell -/
def reasonFact (s : C10St) (txt : String) : Option Bool :=
  let t := txt.toLower
  if strHas t "1.0" then some s.http10
  else if strHas t "100" then some s.not100
  else if strHas t "delimited" then some s.closeDelim
  else if strHas t "client" || strHas t "request" then some s.clientClose
  else if strHas t "server" || strHas t "response" then some (s.serverClose || s.hackFired)
  else none

def oracleC10 (c : TCase) : Verdict :=
  let st := c.lines.foldl (fun (s : C10St) t =>
    if s.fail.isSome then s else
    if t.isPanic then { s with fail := some s!"panic: {t.raw.take 100}" } else
    let s1 := { s with prevState := t.st }
    match t.kw with
    | "new" =>
      (match t.op with
       | _ :: m :: v :: _ :: _ :: rest =>
         { s1 with http10 := v == "HTTP/1.0", clientClose := (pairsOf rest).any (fun h => h.name == "connection" && h.value == strB "close"),
                   ambig := (pairsOf rest).any (fun h => h.name == "connection" && closeVariant h.value),
                   serverClose := false, not100 := false, closeDelim := false, method := m, lastResp := none, decided100 := false, hackFired := false }
       | _ => s1)
    | "follow" =>
      (match t.res with
       | "flow" :: m :: _ => { s1 with serverClose := false, not100 := false, closeDelim := false, method := m, lastResp := none, decided100 := false, hackFired := false }
       | _ => s1)
    | "read100" =>
      if s.decided100 then s1 else
      (match classifyLook (unhex (t.op.getD 1 "-")), t.res with
       | .refused, "count" :: _ => { s1 with not100 := true, decided100 := true }
       | .continue100 _, "count" :: _ => { s1 with decided100 := true }
       | _, _ => s1)
    | "resp" =>
      (match t.res with
       | "resp" :: n :: st' :: v :: hs =>
         if st' == "none" then s1 else
         let hdrs := hdrsOfWords hs
         let w := unhex (t.op.getD 1 "-")
         -- the partial-redirect fallback (D10, owned by C05) inserts a synthetic connection: close
         let hack := n.toNat? == some w.length && !(w.drop (w.length - 4) == [13, 10, 13, 10]) && !(w.drop (w.length - 2) == [10, 10])
         -- whether the body is close-delimited follows from the head the server sent (C06), not from the state
         -- the implementation goes to: framing fields are read off the wire
         let wireFields : List Hdr := match tryParseResponse 128 w with | .ok (some (_, r)) => r.fields | _ => hdrs
         let closeD := match parseMethod s.method with
           | some m => (match rfcFraming (v.toNat! == 0) m st'.toNat! (framingOf wireFields) with | .ok .close => true | _ => false)
           | none => false
         { s1 with lastResp := some (st'.toNat!, v.toNat!, hdrs), hackFired := s.hackFired || hack, closeDelim := s.closeDelim || closeD,
                   -- … and so is "the response carried Connection: close": any of its Connection fields, as sent
                   serverClose := s.serverClose || wireFields.any (fun h => h.name == "connection" && h.value == strB "close"),
                   ambig := s.ambig || wireFields.any (fun h => h.name == "connection" && closeVariant h.value) }
       | _ => s1)
    | "proceed" | "proceed!" =>
      (match t.res with
       | "state" :: "recvBody" :: _ =>
         (match s.lastResp, parseMethod s.method with
          | some (status, ver, hs), some m =>
            (match rfcFraming (ver == 0) m status (framingOf hs) with
             | .ok .close => { s1 with closeDelim := true }
             | _ => s1)
          | _, _ => s1)
       | _ => s1)
    | "close?" =>
      -- a head accepted without its end (partial-redirect fallback): the message boundaries are lost, the
      -- connection must close whatever Connection header the fragment carried
      let must := s.http10 || s.clientClose || s.serverClose || s.not100 || s.closeDelim || s.hackFired
      (match t.res with
       | ["bool", b] => if (b == "true") == must || (b == "true" && s.ambig) then s1
                        else { s with fail := some s!"must-close={b} but conditions: http10={s.http10} clientClose={s.clientClose} serverClose={s.serverClose} not100={s.not100} closeDelimited={s.closeDelim} boundariesLost={s.hackFired}" }
       | _ => s1)
    | "reason" =>
      let must := s.http10 || s.clientClose || s.serverClose || s.not100 || s.closeDelim || s.hackFired
      (match t.res with
       | "str" :: ws =>
         let txt := " ".intercalate ws
         if txt == "-" then (if must then { s with fail := some "must close but no reason is given" } else s1)
         else if !must && s.ambig then s1
         else if !must then { s with fail := some s!"a reason is given ({txt}) although no close condition holds" }
         else (match reasonFact s txt with
               | some true => s1
               | some false => { s with fail := some s!"the reason given ({txt}) names a condition that does not hold" }
               | none => s1)   -- a wording this oracle cannot attribute: given when it must be, that much is checked
       | _ => s1)
    | _ => s1) ({} : C10St)
  match st.fail with | some w => .fail w | none => .ok

/-! C12 -/

/-- is `a` a subsequence of `b` (copies of input bytes in order)? -/
def isSubseq : Bytes → Bytes → Bool
  | [], _ => true
  | _ :: _, [] => false
  | x :: xs, y :: ys => if x == y then isSubseq xs ys else isSubseq (x :: xs) ys

def oracleC12 (c : TCase) : Verdict :=
  let r := c.lines.foldl (fun (acc : Option String) t =>
    match acc with
    | some _ => acc
    | none =>
      if t.isPanic || t.res.take 2 == ["fault", "panic"] then
        (if t.kw == "follow2" && t.res.contains "first-some=true" then none else some s!"panic: {t.raw.take 140}")
      else
      match t.kw, t.op, t.res with
      | "read100", [_, w], ["count", n] =>
        if n.toNat!.ble (unhex w).length then none else some s!"consumed more than offered: {t.raw.take 100}"
      | "resp", [_, w], "resp" :: n :: _ | "cresp", [_, w], "resp" :: n :: _ =>
        if n.toNat!.ble (unhex w).length then none else some s!"consumed more than offered: {t.raw.take 100}"
      | "bread", [_, w, capS], ["bytes", iS, o] | "cread", [_, w, capS], ["bytes", iS, o] =>
        let win := unhex w
        let i := iS.toNat!
        let cap := capS.toNat!
        if i > win.length then some s!"consumed {i} > offered {win.length}: {t.raw.take 100}" else
        if o.startsWith "#" then none else
        let out := unhex o
        if out.length > cap then some s!"produced {out.length} > output space {cap}: {t.raw.take 100}" else
        if !isSubseq out (win.take i) then some s!"produced bytes are not copies of consumed input bytes in order: {t.raw.take 140}" else none
      | _, _, _ => none) none
  match r with | some w => .fail w | none => .ok
