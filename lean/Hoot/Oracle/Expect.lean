import Hoot.Oracle.Trace

/-! Oracle for C11 (Expect: 100-continue), written from the property text. It classifies what the caller
    offered while awaiting 100 by looking at the raw bytes only (status line / what follows it). -/

inductive Look
  | undecided                 -- ends inside the status line, right after it, or inside a field / the blank line
  | continue100 (n : Nat)     -- complete bare 100 of n bytes
  | refused                   -- any other complete verdict: non-100 without fields, or a complete field line
  | malformed
  deriving DecidableEq, Repr

/-- index just after the first LF, if any -/
def afterLF : Bytes → Nat → Option Nat
  | [], _ => none
  | 10 :: _, k => some (k + 1)
  | _ :: r, k => afterLF r (k + 1)

def classifyLook (w : Bytes) : Look :=
  match afterLF w 0 with
  | none => .undecided
  | some e =>
    -- status line is w[0..e); HTTP/1.x SSS
    if e < 13 then .malformed else
    let status := ((w.getD 9 48).toNat - 48) * 100 + ((w.getD 10 48).toNat - 48) * 10 + ((w.getD 11 48).toNat - 48)
    let rest := w.drop e
    match rest with
    | [] => .undecided
    | [13] => .undecided
    | 13 :: 10 :: _ => if status == 100 then .continue100 (e + 2) else .refused
    | 10 :: _ => if status == 100 then .continue100 (e + 1) else .refused
    | _ => match afterLF rest 0 with
      | none => .undecided           -- incomplete field line
      | some _ => .refused           -- at least one complete field line: a response with fields

structure C11St where
  decided : Option Look := none     -- verdict reached while awaiting
  awaiting : Bool := false
  gaveUp : Bool := false            -- left Await100 without a verdict: a late 100 may be skipped once
  skipped : Nat := 0
  refusedSeen : Bool := false
  sawSendBodyAfterRefusal : Bool := false
  gotResponse : Bool := false       -- a response head was handed out in RecvResponse and not yet advanced past
  expects : Bool := false           -- the request carries Expect: 100-continue
  fail : Option String := none

def oracleC11 (c : TCase) : Verdict :=
  let st := c.lines.foldl (fun (s : C11St) t =>
    if s.fail.isSome then s else
    if t.isPanic then { s with fail := some s!"panic: {t.raw.take 100}" } else
    match t.kw with
    | "new" | "cnew" =>
      if (newHeaders t.op).any (fun h => h.name.toLower == "expect" && h.value == "100-continue".toUTF8.toList) then { s with expects := true } else s
    | "hdr" =>
      (match t.op with
       | [_, k, v] => if k.toLower == "expect" && unhex v == "100-continue".toUTF8.toList then { s with expects := true } else s
       | _ => s)
    | "read100" =>
      let w := unhex (t.op.getD 1 "-")
      if s.decided.isSome then s else   -- looking again after a verdict is outside the protocol
      (match classifyLook w, t.res with
       | .undecided, ["count", "0"] => s
       | .undecided, _ => { s with fail := some s!"undecided input must consume nothing and decide nothing: {t.raw.take 120}" }
       | .continue100 n, ["count", k] => if k.toNat? == some n then { s with decided := some (.continue100 n) }
                                          else { s with fail := some s!"complete bare 100 of {n} bytes, consumed {k}: {t.raw.take 100}" }
       | .continue100 _, _ => { s with fail := some s!"complete bare 100 not accepted: {t.raw.take 100}" }
       | .refused, ["count", "0"] => { s with decided := some .refused, refusedSeen := true }
       | .refused, _ => { s with fail := some s!"another response while awaiting 100 must consume nothing: {t.raw.take 120}" }
       | .malformed, _ => s)
    | "keep100" =>
      (match t.res with
       | ["bool", b] =>
         let expect := s.decided.isNone
         if (b == "true") == expect then s else { s with fail := some s!"can_keep_await_100={b}, but a verdict was{if expect then " not" else ""} reached: {t.raw}" }
       | _ => s)
    | "proceed" | "proceed!" =>
      (match t.res with
       | "none" :: _ =>
         if s.gotResponse && t.st == "recvResponse" then
           { s with fail := some "a response was handed out but proceed() yields nothing: the flow is stuck in RecvResponse" }
         else s
       | "state" :: nxt :: _ =>
         let s := if nxt == "recvBody" || nxt == "redirect" || nxt == "cleanup" then { s with gotResponse := false } else s
         if nxt == "await100" then { s with awaiting := true } else
         if s.awaiting then
           let s1 := { s with awaiting := false }
           (match s.decided with
            | some .refused => if nxt == "recvResponse" then s1 else { s1 with fail := some s!"refused, but the flow went to {nxt}" }
            | some (.continue100 _) => if nxt == "sendBody" then s1 else { s1 with fail := some s!"100 received, but the flow went to {nxt}" }
            | _ => if nxt == "sendBody" then { s1 with gaveUp := true } else { s1 with fail := some s!"gave up waiting, but the flow went to {nxt}" })
         else if nxt == "sendBody" && s.refusedSeen then { s with fail := some "the body was requested after the server refused it" }
         else if nxt == "sendBody" && s.expects then { s with gaveUp := true }   -- body sent with no 100 seen: a 100 from here on is late
         else s
       | _ => s)
    | "resp" =>
      let w := unhex (t.op.getD 1 "-")
      (match t.res with
       | ["resp", n, "none"] =>
         if n == "0" then s else
         -- a consumed-but-no-response result: only a late bare 100, once, after giving up
         (match classifyLook w with
          | .continue100 k =>
            if n.toNat? != some k then { s with fail := some s!"late 100 of {k} bytes, consumed {n}" }
            else if !s.gaveUp then { s with fail := some s!"a 100 was skipped although the handshake had been decided: {t.raw.take 80}" }
            else if s.skipped ≥ 1 then { s with fail := some "a second 100 was skipped" }
            else { s with skipped := s.skipped + 1 }
          | _ => { s with fail := some s!"bytes consumed without a response and without a bare 100: {t.raw.take 100}" })
       | "resp" :: _ :: status :: _ =>
         if s.gaveUp && s.skipped == 0 && status == "100" then { s with fail := some "late 100 returned as the response instead of being skipped" }
         else if status == "100" then s   -- a further interim 100 is handed to the caller; the real response is still to come
         else { s with gotResponse := true }
       | _ => s)
    | "canproceed" =>
      -- "in every branch the flow that results is usable to completion": once the response head has been
      -- handed out, the receive state must be ready to advance
      if s.gotResponse && t.st == "recvResponse" && t.res == ["bool", "false"] then
        { s with fail := some "a response was handed out but the flow cannot advance past RecvResponse" }
      else s
    | "close?" =>
      if s.refusedSeen && t.res == ["bool", "false"] then { s with fail := some "refused Expect: 100-continue but the connection is offered for reuse" } else s
    | _ => s) ({} : C11St)
  match st.fail with | some w => .fail w | none => .ok
