import Hoot.Oracle.BodyW

/-! Oracles for the request head: C02 (exact wire image, whole lines, overflow rule), C16 (caller-added
    headers reach the wire), C17 (invalid requests are refused before a byte is emitted). Everything is
    re-derived from the op lines (request as built, headers added, redirects followed) by specification
    functions written from the property texts — not from the model's writer. -/

structure OReq where
  method : String
  version : String
  uri : String            -- effective URI text
  origUri : String        -- URI of the original request of the chain (for the authorization rule)
  orig : List Hdr           -- original headers effective on this hop
  origAll : List Hdr := []  -- all headers of the original request (every hop is rebuilt from it)
  added : List Hdr := []
  optional : List String := []  -- inherited names that may or may not be carried over a redirect (C13 is an upper bound)
  despite : Bool := false
  callKind : String := "flow"   -- flow | nobody | body
  deriving Repr

def asciiStr (b : Bytes) : String := String.ofList (b.map fun x => Char.ofNat x.toNat)
def strB (s : String) : Bytes := s.toUTF8.toList

/-- scheme, authority, path-and-query of an absolute URI text -/
def splitUri (u : String) : String × String × String :=
  match u.splitOn "://" with
  | scheme :: restParts =>
    let rest := "://".intercalate restParts
    let cs := rest.toList
    let auth := cs.takeWhile (fun c => c != '/' && c != '?')
    let pq := cs.drop auth.length
    (scheme, String.ofList auth, String.ofList pq)
  | [] => ("", "", "")

def uriHost (u : String) : String :=
  let auth := (splitUri u).2.1
  ((auth.splitOn "@").getLast?.getD auth |>.splitOn ":").headD ""

def uriPathQuery (u : String) : String :=
  let pq := (splitUri u).2.2
  if pq.isEmpty then "/" else if pq.startsWith "?" then "/" ++ pq else pq

def isBodyMethod (m : String) : Bool := m == "POST" || m == "PUT" || m == "PATCH"

def effHeaders (q : OReq) : List Hdr := q.added ++ q.orig

def hdrVals (hs : List Hdr) (name : String) : List Bytes := (hs.filter (·.name == name)).map (·.value)

def isTextual (v : Bytes) : Bool := v.all fun b => (32 ≤ b && b < 127) || b == 9

def isNumericCL (v : Bytes) : Bool :=
  isTextual v && (match v with
    | [] => false
    | 43 :: rest => !rest.isEmpty && rest.all (fun b => 48 ≤ b && b ≤ 57) && (asciiStr rest).toNat!.ble 18446744073709551615
    | _ => v.all (fun b => 48 ≤ b && b ≤ 57) && (asciiStr v).toNat!.ble 18446744073709551615)

def declaresChunkedH (hs : List Hdr) : Bool :=
  (hdrVals hs "transfer-encoding").any fun v => isTextual v && lowerAscii v == strB "chunked"

/-- the invalid classes of C17, from the property text -/
def invalidReq (q : OReq) : Bool :=
  let hs := effHeaders q
  let v10 := q.version == "HTTP/1.0"
  let v11 := q.version == "HTTP/1.1"
  let m10 := q.method == "GET" || q.method == "HEAD" || q.method == "POST"
  let hasFraming := declaresChunkedH hs || !(hdrVals hs "content-length").isEmpty
  let bodyGiven := hasFraming || q.callKind == "body" || (q.callKind == "flow" && isBodyMethod q.method)
  !(v10 || v11) ||
  (v10 && !m10) ||
  (hdrVals hs "host").length > 1 ||
  (hdrVals hs "content-length").length > 1 ||
  (hdrVals hs "content-length").any (fun v => !isNumericCL v) ||
  (hdrVals hs "host").any (fun v => !isTextual v) ||
  (!isBodyMethod q.method && bodyGiven && !q.despite) ||
  (isBodyMethod q.method && !bodyGiven && !q.despite)

/-- does a request body follow, and with which framing header if the library has to add one -/
def bodyFollows (q : OReq) : Bool :=
  let hs := effHeaders q
  declaresChunkedH hs || !(hdrVals hs "content-length").isEmpty || q.callKind == "body" ||
  (q.callKind == "flow" && (isBodyMethod q.method || q.despite))

def headerLineO (h : Hdr) : Bytes := strB h.name ++ [58, 32] ++ h.value ++ [13, 10]

/-- the units the writer emits atomically: request line; each header line; blank line glued to the last -/
def unitsOf (q : OReq) (all : List Hdr) : List Bytes :=
  let reqLine := strB (q.method ++ " " ++ uriPathQuery q.uri ++ " " ++ q.version ++ "\r\n")
  let lines := all.map headerLineO
  match lines.reverse with
  | [] => [reqLine]
  | last :: revInit => reqLine :: (revInit.reverse ++ [last ++ [13, 10]])

/-- the two lines the library derives (Host when the caller supplied none; the framing header of a body that
    declares none) and the lines whose relative order the properties fix (caller-added, then original) -/
def derivedAndFixed (q0 : OReq) (dropNames : List String) : List Hdr × List Hdr × List Hdr :=
  let q := { q0 with orig := q0.orig.filter fun h => !dropNames.contains h.name }
  let hs := effHeaders q
  let host : List Hdr := if (hdrVals hs "host").isEmpty then [{ name := "host", value := strB (uriHost q.uri) }] else []
  let framing : List Hdr :=
    if bodyFollows q && !(declaresChunkedH hs) && (hdrVals hs "content-length").isEmpty
    then [{ name := "transfer-encoding", value := strB "chunked" }] else []
  (host ++ framing, q.added, q.orig)

/-- the head as this crate lays it out today: caller-added, derived, original -/
def expectedUnits (q0 : OReq) (dropNames : List String := []) : List Bytes :=
  let (derived, added, orig) := derivedAndFixed q0 dropNames
  unitsOf q0 (added ++ derived ++ orig)

/-- insert `x` at position `i` -/
def insertAt (l : List Hdr) (i : Nat) (x : Hdr) : List Hdr := l.take i ++ x :: l.drop i

/-- every head the properties admit: C02 / C16 fix that caller-added lines come first in their order, then the
    original ones, and that the derived Host / framing lines are present exactly once — not where these sit.
    All positions for up to 12 fixed lines; start / after the caller-added block / end beyond that. -/
def admissibleHeads (q0 : OReq) (dropNames : List String) : List (List Bytes) :=
  let (derived, added, orig) := derivedAndFixed q0 dropNames
  let fixed := added ++ orig
  let n := fixed.length
  let positions : List Nat := if n ≤ 12 then List.range (n + 1) else [0, added.length, n]
  let layouts : List (List Hdr) :=
    match derived with
    | [] => [fixed]
    | [d] => positions.map fun i => insertAt fixed i d
    | d1 :: d2 :: _ =>
      (positions.map fun i => positions.map fun j =>
        -- d1 at i, d2 at j (positions in the list without the other); both orders when they meet
        if i ≤ j then [insertAt (insertAt fixed j d2) i d1] ++ (if i == j then [insertAt (insertAt fixed i d1) i d2] else [])
        else [insertAt (insertAt fixed i d1) j d2]).flatten.flatten
  (unitsOf q0 (added ++ derived ++ orig)) :: (layouts.map (unitsOf q0)).filter (· != unitsOf q0 (added ++ derived ++ orig))

/-- headers inherited by the request created for a redirect (C13's rule, needed to know the effective
    headers at depth > 0): cookie and content-length never, authorization only with the same-host policy,
    same host as the ORIGINAL request and same-or-https scheme -/
def inheritAfterRedirect (q : OReq) (policy : String) (newUri : String) : List Hdr :=
  let (s0, _, _) := splitUri q.origUri
  let (s1, _, _) := splitUri newUri
  let keepAuth := policy == "samehost" && uriHost q.origUri == uriHost newUri && (s0 == s1 || s1 == "https")
  -- a Host header of the original request stays only while the target is on the original request's host (D13)
  let keepHost := (uriHost q.origUri).toLower == (uriHost newUri).toLower
  q.origAll.filter fun h => !(h.name == "cookie" || h.name == "content-length" || (h.name == "authorization" && !keepAuth) ||
                              (h.name == "host" && !keepHost))

structure HeadSt where
  req : Option OReq := none
  wire : Bytes := []
  units : List Bytes := []      -- remaining units to be written (the first candidate; for messages)
  cands : List (List Bytes) := []   -- remaining units of every admissible head (optional inherited fields present / absent)
  started : Bool := false       -- first write done: units are fixed
  rejected : Bool := false      -- analysis error seen (C17)
  complete : Bool := false
  fail : Option String := none

def startUnits (s : HeadSt) : HeadSt :=
  if s.started then s else
  match s.req with
  | some q =>
    let opt := q.optional.filter fun n => q.orig.any (·.name == n)
    let drops : List (List String) := opt.foldl (fun acc n => acc ++ acc.map (· ++ [n])) [[]]
    { s with units := expectedUnits q, cands := (drops.map (admissibleHeads q ·)).flatten, started := true }
  | none => s

/-- maximal run of whole units that fits `cap` -/
def greedyUnits : List Bytes → Nat → List Bytes × List Bytes
  | [], _ => ([], [])
  | u :: us, cap => if u.length ≤ cap then
      let r := greedyUnits us (cap - u.length)
      (u :: r.1, r.2) else ([], u :: us)

def reqOfNew (t : TLine) : Option OReq :=
  match t.op with
  | "new" :: m :: v :: u :: _ :: rest => some { method := m, version := v, uri := u, origUri := u, orig := pairsOf rest, origAll := pairsOf rest }
  | "cnew" :: k :: m :: v :: u :: _ :: rest => some { method := m, version := v, uri := u, origUri := u, orig := pairsOf rest, origAll := pairsOf rest, callKind := k }
  | _ => none

/-- the shared walk: checks the head bytes of every request of the case -/
def walkHead (c : TCase) (checkInvalid : Bool) : HeadSt :=
  c.lines.foldl (fun (s : HeadSt) t =>
    if s.fail.isSome then s else
    if t.isPanic then { s with fail := some s!"panic: {t.raw.take 100}" } else
    match t.kw with
    | "new" | "cnew" => if t.res == ["ok"] then { s with req := reqOfNew t, wire := [], units := [], started := false, rejected := false, complete := false } else s
    | "hdr" =>
      (match s.req, t.op, t.res with
       | some q, [_, k, v], ["unit"] => { s with req := some { q with added := q.added ++ [{ name := k.toLower, value := unhex v }] } }
       | _, _, _ => s)
    | "despite" => if t.res != ["unit"] then s else (match s.req with | some q => { s with req := some { q with despite := true } } | none => s)
    | "follow" =>
      (match s.req, t.op, t.res with
       | some q, [_, pol], ["flow", m, u] =>
         { s with req := some { method := m, version := q.version, uri := u, origUri := q.origUri, orig := inheritAfterRedirect q pol u, origAll := q.origAll,
                                -- hosts that differ in letter case only: the Host header may be kept or derived
                                optional := ["authorization", "transfer-encoding"] ++
                                  (if uriHost q.origUri != uriHost u && (uriHost q.origUri).toLower == (uriHost u).toLower then ["host"] else []) },
                  wire := [], units := [], started := false, rejected := false, complete := false }
       | _, _, _ => s)
    | "write" | "cwrite" | "cbwrite" =>
      if t.kw == "write" && t.st != "sendRequest" then s else
      (match s.req with
       | none => s
       | some q =>
         let cap := (t.op.getLast?.bind (·.toNat?)).getD 0
         if s.complete && t.kw == "cbwrite" then s else   -- body phase of the single-call API: C03/C04
         let bad := invalidReq q
         match t.res with
         | ["bytes", _, o] =>
           if bad && checkInvalid then { s with fail := some s!"a request that cannot be a correct HTTP/1.x message was accepted: {t.raw.take 140}" } else
           -- a request that was refused stays refused: nothing of it may reach the wire on a later call
           if bad && s.rejected && o != "-" then { s with fail := some s!"head bytes were emitted for a request that an earlier call had refused: {t.raw.take 140}" } else
           if bad then s else
           let s := startUnits s
           -- every admissible head still in play is tried; long outputs are reported as length:hash
           let matching : List (List Bytes × Bytes) := s.cands.filterMap fun cand =>
             let (fit, rest) := greedyUnits cand cap
             if cand.isEmpty then (if o == "-" then some (rest, []) else none)
             else if fit.isEmpty then none
             else if o.startsWith "#" then (if toHexOut false fit.flatten == o then some (rest, fit.flatten) else none)
             else if unhex o == fit.flatten then some (rest, fit.flatten) else none
           (match matching with
            | (rest, out) :: _ =>
              { s with wire := s.wire ++ out, units := rest, cands := matching.map (·.1), complete := matching.all (·.1.isEmpty) }
            | [] =>
              let out := if o.startsWith "#" then [] else unhex o
              if s.complete then { s with fail := some s!"bytes emitted after the head was complete: {t.raw.take 100}" } else
              let (fit, _) := greedyUnits s.units cap
              if fit.isEmpty then { s with fail := some s!"next line ({(s.units.headD []).length} bytes) does not fit {cap} bytes, expected OutputOverflow: {t.raw.take 100}" } else
              { s with fail := some s!"expected {fit.length} whole line(s) = {toHex (fit.flatten.take 60)}… got {toHex (out.take 60)}…: write {cap}" })
         | ["fault", "api:OutputOverflow"] =>
           if bad && checkInvalid then { s with fail := some s!"invalid request reported as output overflow instead of being refused: {t.raw.take 100}" } else
           if bad then s else
           let s := startUnits s
           let still := s.cands.filter fun cand => !cand.isEmpty && (cand.headD []).length > cap
           if s.complete then { s with fail := some "OutputOverflow after the head was complete" } else
           if still.isEmpty then { s with fail := some s!"OutputOverflow although the next line ({(s.units.headD []).length} bytes) fits {cap} bytes" }
           else { s with cands := still, units := still.headD [] }
         | "fault" :: _ =>
           if !bad then { s with fail := some s!"a valid request was refused: {t.raw.take 140}" }
           else if !s.wire.isEmpty then { s with fail := some "request refused after bytes were emitted" }
           else { s with rejected := true }
         | _ => s)
    | "canproceed" | "cfinished" =>
      if t.st != "sendRequest" && t.st != "callNoBody" then s else
      (match s.req, t.res with
       | some q, ["bool", b] =>
         if invalidReq q then (if b == "true" && checkInvalid then { s with fail := some "an invalid request became ready to advance" } else s)
         else if !s.started then s
         else if (b == "true") && s.cands.any (·.isEmpty) then s
         else if (b == "false") && s.cands.any (!·.isEmpty) then s
         else { s with fail := some s!"ready={b} but head complete={s.complete}" }
       | _, _ => s)
    | _ => s) ({} : HeadSt)

def oracleC02 (c : TCase) : Verdict :=
  match (walkHead c false).fail with | some w => .fail w | none => .ok

def oracleC17 (c : TCase) : Verdict :=
  match (walkHead c true).fail with | some w => .fail w | none => .ok

/-- is `xs` a subsequence of `ys` (same order, gaps allowed)? -/
def isSubseqOf : List Bytes → List Bytes → Bool
  | [], _ => true
  | _ :: _, [] => false
  | x :: xs, y :: ys => if x == y then isSubseqOf xs ys else isSubseqOf (x :: xs) ys

/-- CRLF-terminated lines of a head (terminators kept) -/
def crlfLines (b : Bytes) : List Bytes :=
  let rec go (fuel : Nat) (rest cur : Bytes) (acc : List Bytes) : List Bytes :=
    match fuel, rest with
    | 0, _ => acc.reverse
    | _, [] => (if cur.isEmpty then acc else cur.reverse :: acc).reverse
    | f + 1, 13 :: 10 :: r => go f r [] ((10 :: 13 :: cur).reverse :: acc)
    | f + 1, x :: r => go f r (x :: cur) acc
  go (b.length + 1) b [] []

/-- C16: on accepted requests every added header is on the wire, in the order added and ahead of the original
    ones (the exact-image check of `walkHead` over the admissible layouts implies it; checked again on the bytes) -/
def oracleC16 (c : TCase) : Verdict :=
  let s := walkHead c false
  -- the accessor headers_map(): every name the caller added is in it
  let addedSoFar := c.lines.foldl (fun (acc : List String × Option String) t =>
    match t.kw, t.op, t.res with
    | "new", _, _ | "follow", _, "flow" :: _ => ([], acc.2)
    | "hdr", [_, k, _], ["unit"] => (k.toLower :: acc.1, acc.2)
    | "hmap", _, "map" :: _ :: kvs =>
      let names := (List.range (kvs.length / 2)).map fun i => kvs.getD (2 * i) ""
      (match acc.1.find? (fun n => !names.contains n) with
       | some n => (acc.1, acc.2.orElse fun _ => some s!"headers_map() lacks the header {n} the caller added")
       | none => acc)
    | _, _, _ => acc) (([] : List String), (none : Option String))
  match addedSoFar.2 with
  | some w => .fail w
  | none =>
  match s.fail with
  | some w => .fail w
  | none =>
    match s.req with
    | some q =>
      if invalidReq q || !s.complete then .ok else
      -- every added header is on the wire, in the order added, ahead of every original header
      let lines := crlfLines s.wire
      let addedLines := q.added.map headerLineO
      let origLines := q.orig.map headerLineO
      if !isSubseqOf addedLines lines then
        .fail s!"caller-added headers are not all on the wire in the order added: expected {toHex ((addedLines.flatten).take 80)}"
      else
        -- the part of the head after the last added line still holds all original lines it had to hold
        let afterAdded := addedLines.foldl (fun (rest : List Bytes) a => (rest.dropWhile (· != a)).drop 1) lines
        let origKept := origLines.filter fun l => lines.contains l
        -- (their order among themselves is not the property's business: a framing line the library derives may
        -- read exactly like an inherited one and sits where the library puts it)
        if origKept.all (afterAdded.contains ·) || addedLines.isEmpty then .ok
        else .fail "an original header is emitted ahead of a caller-added one"
    | none => .ok
