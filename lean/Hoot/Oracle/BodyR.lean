import Hoot.Oracle.BodyW

/-! Oracles for the response-body readers: C07 (chunked), C08 (length / close delimited). The chunked
    grammar is decoded by an independent specification decoder (not the model's dechunker). -/

/-- up to the first CRLF: (line, rest after CRLF); the line must not contain CR -/
def specLine : Bytes → Bytes → Option (Bytes × Bytes)
  | 13 :: 10 :: rest, acc => some (acc.reverse, rest)
  | 13 :: _, _ => none
  | c :: rest, acc => specLine rest (c :: acc)
  | [], _ => none

/-- size field: hex digits (either case, leading zeros), then optionally `;` and an extension -/
def specSizeField (line : Bytes) : Option Nat :=
  let digits := line.takeWhile (fun c => (hexDigitVal c).isSome)
  let rest := line.drop digits.length
  if digits.isEmpty then none
  else if !(rest.isEmpty || rest.head? == some 59) then none
  else some (digits.foldl (fun acc c => acc * 16 + (hexDigitVal c).getD 0) 0)

/-- an output as logged (`#len:hash` when long and not logged in full, hex otherwise) against the expected bytes -/
def sameOut (expect : Bytes) (o : String) : Bool :=
  if o.startsWith "#" then toHexOut false expect == o else toHex expect == o

/-- trailer section: lines until an empty one; returns the rest after the final CRLF -/
def specTrailers : Nat → Bytes → Option Bytes
  | 0, _ => none
  | fuel + 1, b =>
    match specLine b [] with
    | none => none
    | some ([], rest) => some rest
    | some (_, rest) => specTrailers fuel rest

/-- RFC 9112 §7.1 chunked-body, returns the chunk data list and what follows the coding -/
def specChunked : Nat → Bytes → Option (List Bytes × Bytes)
  | 0, _ => none
  | fuel + 1, b =>
    match specLine b [] with
    | none => none
    | some (line, rest) =>
      match specSizeField line with
      | none => none
      | some 0 => (specTrailers (rest.length + 1) rest).map fun r => ([], r)
      | some n =>
        if rest.length < n + 2 then none
        else if (rest.drop n).take 2 != [13, 10] then none
        else (specChunked fuel (rest.drop (n + 2))).map fun (cs, r) => (rest.take n :: cs, r)

structure C07St where
  off : Nat := 0            -- coding bytes consumed so far
  outOff : Nat := 0         -- payload bytes delivered so far
  stop : Bool := false
  started : Bool := false
  fail : Option String := none

/-- does [a, a+len) stay inside one chunk? `bounds` are the cumulative chunk ends -/
def withinOneChunk (bounds : List Nat) (a len : Nat) : Bool :=
  len == 0 || match bounds.find? (fun e => a < e) with
    | some e => a + len ≤ e
    | none => false

/-- the single-call API's body reads, seen as the flow's: `cread` = `bread`, `cstopb` = `stopb`, `cended` = the
    readiness query of the body state -/
def callLineAsFlow (t : TLine) : TLine :=
  match t.kw with
  | "cread" => { t with op := "bread" :: t.op.drop 1, st := if t.st == "callRecvBody" then "recvBody" else t.st }
  | "cstopb" => { t with op := "stopb" :: t.op.drop 1 }
  | "cended" => { t with op := ["canproceed"], st := if t.st == "callRecvBody" then "recvBody" else t.st }
  | _ => t

def oracleC07 (c : TCase) : Verdict :=
  match metaVal c "body-stream" with
  | none => .ok
  | some ws =>
    let coding := unhex (ws.headD "-")
    match specChunked (coding.length + 2) coding with
    | none => .fail "harness bug: generated body-stream is not a valid chunked coding"
    | some (chunks, rest) =>
      if !rest.isEmpty then .fail "harness bug: body-stream has bytes after the coding" else
      let payload := chunks.flatten
      let encLen := coding.length
      let bounds := (chunks.foldl (fun (acc : List Nat × Nat) ch => (acc.1 ++ [acc.2 + ch.length], acc.2 + ch.length)) ([], 0)).1
      let st := (c.lines.map callLineAsFlow).foldl (fun (s : C07St) t =>
        if s.fail.isSome then s else
        match t.kw with
        | "stopb" => { s with stop := t.op.getD 1 "0" == "1" }
        | "bread" =>
          match t.op, t.res with
          | [_, w, capS], ["bytes", iS, o] =>
            match capS.toNat?, iS.toNat? with
            | some cap, some i =>
              let wlen := if w == "-" then 0 else w.length / 2
              let olen := if o.startsWith "#" then ((o.drop 1).toString.splitOn ":").headD "0" |>.toNat! else if o == "-" then 0 else o.length / 2
              if i > wlen then { s with fail := some s!"consumed {i} > offered {wlen}: {t.raw}" } else
              if olen > cap then { s with fail := some s!"produced {olen} > output space {cap}: {t.raw}" } else
              if s.off + i > encLen then { s with fail := some s!"read past the end of the coding (consumed {s.off + i} of {encLen}): {t.raw}" } else
              let expect := (payload.drop s.outOff).take olen
              if expect.length != olen || !sameOut expect o then
                { s with fail := some s!"output is not the next {olen} payload bytes (payload offset {s.outOff}): {t.raw}" } else
              if s.stop && !withinOneChunk bounds s.outOff olen then
                { s with fail := some s!"one read returned data from two chunks with boundary stopping on: {t.raw}" } else
              -- liveness: everything that remains was offered, there is room, yet nothing moved
              -- (once the whole payload has been delivered nothing more will ever be produced: then the size of
              -- the output buffer — zero included — cannot be what holds the rest of the framing back)
              if i == 0 && olen == 0 && (cap ≥ 1 || s.outOff == payload.length) && s.off + wlen ≥ encLen && s.off < encLen && wlen > 0 then
                { s with fail := some s!"stuck: whole remaining coding offered with room, no progress at {s.off} of {encLen}: {t.raw}" } else
              { s with off := s.off + i, outOff := s.outOff + olen, started := true }
            | _, _ => s
          | _, _ => if t.st == "recvBody" || t.rk == "fault" then { s with fail := some s!"read of a valid coding failed: {t.raw}" } else s
        | "canproceed" =>
          if t.st != "recvBody" then s else
          match t.res with
          | ["bool", b] =>
            if (b == "true") == (s.off == encLen) then s
            else { s with fail := some s!"ended={b} with {s.off} of {encLen} coding bytes consumed: {t.raw}" }
          | _ => s
        | "proceed" | "proceed!" =>
          if !s.started then s else
          match t.res with
          | "state" :: _ => if s.off == encLen && s.outOff == payload.length then s
                            else { s with fail := some s!"left the body at {s.off} of {encLen} consumed, {s.outOff} of {payload.length} delivered: {t.raw}" }
          | "none" :: _ => if s.off != encLen then s else { s with fail := some s!"cannot leave a completely read body: {t.raw}" }
          | _ => s
        | _ => s) ({} : C07St)
      match st.fail with | some w => .fail w | none => .ok

structure C08St where
  left : Nat
  delivered : Nat := 0
  inBody : Bool := false
  sawHead : Bool := false
  fail : Option String := none

def readChecks (t : TLine) (limit : Option Nat) : Option String × Nat :=
  match t.op, t.res with
  | [_, w, capS], ["bytes", iS, o] =>
    match capS.toNat?, iS.toNat? with
    | some cap, some i =>
      let win := unhex w
      let k := match limit with | some l => min win.length (min cap l) | none => min win.length cap
      if i != k then (some s!"moved {i} bytes, expected min(input, output space, remaining) = {k}: {t.raw}", 0)
      else if !sameOut (win.take k) o then (some s!"output differs from the input prefix: {t.raw}", 0)
      else (none, k)
    | _, _ => (some s!"malformed: {t.raw}", 0)
  | _, _ => (some s!"read failed: {t.raw}", 0)

def oracleC08 (c : TCase) : Verdict :=
  let lenN : Option Nat := match metaVal c "len", metaVal c "lenbig" with
    | some (n :: _), _ => n.toNat?
    | _, some (n :: _) => n.toNat?
    | _, _ => none
  let isClose := c.metas.any (· == "meta close")
  let bodyOf : Option Bytes := match metaVal c "len" with
    | some [_, h] => if h == "big" then none else some (unhex h)
    | _ => none
  match lenN with
  | some N =>
    let st := c.lines.foldl (fun (s : C08St) t =>
      if s.fail.isSome then s else
      match t.kw with
      | "bread" | "cread" =>
        let (err, k) := readChecks t (some s.left)
        (match err with
         | some e => { s with fail := some e }
         | none =>
           -- what is delivered are the bytes that follow the head (the generator says which they are), not
           -- merely a prefix of whatever window the caller was led to present
           let wrong := match bodyOf, t.res with
             | some b, ["bytes", _, o] => !sameOut ((b.drop s.delivered).take k) o
             | _, _ => false
           if wrong then { s with fail := some s!"delivered bytes are not bytes {s.delivered}..{s.delivered + k} of the body that follows the head: {t.raw.take 160}" } else
           { s with left := s.left - k, delivered := s.delivered + k, inBody := true })
      | "resp" =>
        -- the head that carries the declared length (the generator marks the case once it has offered it)
        (match t.res with
         | "resp" :: _ :: st' :: _ => if st' != "none" && (st'.toNat?.getD 0) ≥ 200 then { s with sawHead := true } else s
         | _ => s)
      | "canproceed" | "cended" =>
        if t.st != "recvBody" && t.st != "callRecvBody" then s else
        (match t.res with
         | ["bool", b] => if (b == "true") == (s.left == 0) then s else { s with fail := some s!"complete={b} with {s.left} of {N} bytes outstanding: {t.raw}" }
         | _ => s)
      | "mode" =>
        (match t.res with
         | ["str", m] => if m == s!"LengthDelimited({s.left})" || (s.delivered > 0 && m == s!"LengthDelimited({N})") then s
                         else { s with fail := some s!"body mode {m}, expected LengthDelimited({s.left}): {t.raw}" }
         | _ => s)
      | "proceed" | "proceed!" =>
        -- entering the body state counts as being in the body, also before the first read
        if (match t.res with | "state" :: "recvBody" :: _ => true | _ => false) then { s with inBody := true } else
        -- the head that declared N > 0 bytes was handed out, and the flow went past the body state altogether
        if !s.inBody && s.sawHead && N > 0 && (match t.res with | "state" :: nxt :: _ => nxt == "cleanup" || nxt == "redirect" | _ => false) then
          { s with fail := some s!"the response declared {N} body bytes but the flow skipped the body state: {t.raw}" } else
        if !s.inBody && t.st != "recvBody" && s.left == N then s else
        (match t.res with
         | "state" :: _ => if s.left == 0 || !s.inBody then s else { s with fail := some s!"left the body with {s.left} bytes outstanding: {t.raw}" }
         | "none" :: _ => if s.left != 0 then s else { s with fail := some s!"cannot leave a complete body: {t.raw}" }
         | _ => s)
      | _ => s) ({ left := N } : C08St)
    (match st.fail with | some w => .fail w | none => .ok)
  | none =>
    if c.metas.any (· == "meta nobody") then
      -- a response that cannot have a body: no body state, nothing after the head is consumed
      (match c.lines.find? (fun t => (t.kw == "proceed" && t.res.take 2 == ["state", "recvBody"]) ||
                                      (t.kw == "bread" && (match t.res with | ["bytes", i, _] => i != "0" | _ => false))) with
       | some t => .fail s!"a response that cannot have a body was given one (bytes of the next message would be consumed): {t.raw.take 100}"
       | none => .ok) else
    if !isClose then .ok else
    let st := c.lines.foldl (fun (s : C08St) t =>
      if s.fail.isSome then s else
      match t.kw with
      | "bread" =>
        (match (readChecks t none).1 with
         | some e => { s with fail := some e }
         | none => { s with inBody := true })
      | "canproceed" =>
        if t.st != "recvBody" then s else
        (match t.res with
         | ["bool", "true"] => s
         | _ => { s with fail := some s!"a close-delimited body must always allow proceeding: {t.raw}" })
      | "mode" => if t.res == ["str", "CloseDelimited"] then s else { s with fail := some s!"expected CloseDelimited: {t.raw}" }
      | "proceed" | "proceed!" =>
        if t.st == "recvBody" || t.st == "sendRequest" || t.st == "recvResponse" then s else
        (match t.res with
         | "state" :: _ => s
         | _ => if t.op == ["proceed"] && t.st == "recvBody" then s else s)
      | "close?" => if t.res == ["bool", "true"] then s else { s with fail := some s!"close-delimited body but the connection is not marked for closing: {t.raw}" }
      | _ => s) ({ left := 0 } : C08St)
    (match st.fail with | some w => .fail w | none => .ok)
