import Hoot.Oracle.ReqHead
import Hoot.Oracle.Heads
import Hoot.Proofs.PropsFlow

/-! Oracles for the redirect properties C13 (credentials / stale framing), C14 (target resolution),
    C15 (method table), on the implementation's traces. -/

structure RdSt where
  origUri : String := ""
  origHdrs : List Hdr := []
  curUri : String := ""
  curMethod : String := ""
  followed : Bool := false              -- the current flow was produced by as_new_flow
  addedNames : List String := []        -- names added with `hdr` on the current flow
  keepAuthOk : Bool := false            -- may the inherited Authorization be present on the current flow?
  oocFlow : Bool := false               -- the current flow's URI came from a Location outside the modelled class
  lastStatus : Option Nat := none
  lastVer : Nat := 1                    -- version digit of the last response
  lastHdrs : List Hdr := []             -- header fields of the last response as reported
  lastLoc : Option Bytes := none        -- last Location value of the last response (none: no such field)
  hadResp : Bool := false
  prevState : String := "gone"
  fail : Option String := none

def lowerStr (s : String) : String := s.toLower

/-- lines of a head (without CRLF) -/
def headLines (b : Bytes) : List Bytes :=
  let rec go (fuel : Nat) (rest : Bytes) (cur : Bytes) (acc : List Bytes) : List Bytes :=
    match fuel, rest with
    | 0, _ => acc.reverse
    | _, [] => (if cur.isEmpty then acc else cur.reverse :: acc).reverse
    | f + 1, 13 :: 10 :: r => go f r [] (cur.reverse :: acc)
    | f + 1, x :: r => go f r (x :: cur) acc
  go (b.length + 1) b [] []

def lineName (l : Bytes) : String := lowerStr (asciiStr (l.takeWhile (· != 58)))

def lastLocationOf (hs : List Hdr) : Option Bytes := ((hs.filter (·.name == "location")).getLast?).map (·.value)

def walkRedirect (c : TCase) (which : String) : RdSt :=
  c.lines.foldl (fun (s : RdSt) t =>
    if s.fail.isSome then s else
    if t.isPanic then { s with fail := some s!"panic: {t.raw.take 100}" } else
    let s1 := { s with prevState := t.st }
    match t.kw with
    | "new" =>
      (match t.op with
       | _ :: m :: _ :: u :: _ :: rest =>
         { s1 with origUri := u, origHdrs := pairsOf rest, curUri := u, curMethod := m, followed := false, addedNames := [],
                   lastStatus := none, lastLoc := none, hadResp := false }
       | _ => s1)
    | "hdr" => (match t.op, t.res with | [_, k, _], ["unit"] => { s1 with addedNames := k.toLower :: s.addedNames } | _, _ => s1)
    | "hmap" =>
      -- the accessor's view of the request created for a redirect: the same absences as on the wire
      (match t.res with
       | "map" :: _ :: kvs =>
         let names := (List.range (kvs.length / 2)).map fun i => kvs.getD (2 * i) ""
         if !s.followed || !(which == "C13" || which == "all") then s1 else
         if names.contains "cookie" && !s.addedNames.contains "cookie" then { s with fail := some "headers_map() of the request created for the redirect shows the previous request's Cookie header" } else
         if names.contains "content-length" && !s.addedNames.contains "content-length" then { s with fail := some "headers_map() of the request created for the redirect shows the previous request's Content-Length header" } else
         if names.contains "authorization" && !s.addedNames.contains "authorization" && !s.keepAuthOk then { s with fail := some "headers_map() of the request created for the redirect shows the previous request's Authorization header although policy / host / scheme do not allow it" } else s1
       | _ => s1)
    | "resp" =>
      (match t.res with
       | "resp" :: _ :: st' :: ver :: hs =>
         if st' == "none" then s1 else
         -- the Location is read off the bytes the server sent (grammar of C05), not off what the implementation
         -- reports of them; for a head the grammar does not complete (partial-redirect fallback) the report is used
         let fromWire : Option (List Hdr) :=
           match tryParseResponse 128 (unhex (t.op.getD 1 "-")) with
           | .ok (some (_, r)) => some r.fields
           | _ => none
         let loc := match fromWire with | some fs => lastLocationOf fs | none => lastLocationOf (hdrsOfWords hs)
         { s1 with lastStatus := st'.toNat?, lastVer := ver.toNat?.getD 1, lastHdrs := hdrsOfWords hs, lastLoc := loc, hadResp := true }
       | _ => s1)
    | "status" =>
      (match t.res, s.lastStatus with
       | ["count", n], some st => if n.toNat? == some st then s1 else { s with fail := some s!"redirect state reports status {n}, the response had {st}" }
       | _, _ => s1)
    | "proceed" | "proceed!" =>
      (match t.res, s.lastStatus with
       | "state" :: nxt :: _, some st =>
         if (s.prevState == "recvResponse" || s.prevState == "recvBody") && (nxt == "redirect" || nxt == "cleanup") then
           let want := if 300 ≤ st ∧ st ≤ 399 ∧ st ≠ 304 then "redirect" else "cleanup"
           if nxt == want then s1 else { s with fail := some s!"status {st}: expected the {want} state, got {nxt}" }
         else if s.prevState == "recvResponse" && nxt == "recvBody" && (which == "C15" || which == "all") && decide (300 ≤ st ∧ st ≤ 399 ∧ st ≠ 304) then
           -- no body is due (C06: HEAD, CONNECT 2xx, a declared length of 0, no framing on a 3xx): the redirect state
           -- follows the head at once; a body state here is one that can never be left
           (match parseMethod s.curMethod with
            | some m =>
              (match rfcFraming (s.lastVer == 0) m st (framingOf s.lastHdrs) with
               | .ok rd => if successorSpec rd st == "redirect" then
                   { s with fail := some s!"status {st} answering {s.curMethod} has no body: the redirect state must be entered right after the head, the flow went to {nxt}" } else s1
               | .error _ => s1)
            | none => s1)
         else s1
       | _, _ => s1)
    | "follow" =>
      let pol := t.op.getD 1 "never"
      let st := s.lastStatus.getD 0
      let mOpt := parseMethod s.curMethod
      -- C15: the method table
      let tbl : Option (Option Method) := mOpt.map fun m => tableSpec m st
      -- C14: the target
      let target : Option Res3986 :=
        match s.lastLoc, parseUri s.curUri with
        | some loc, some base =>
          if !isTextual loc then none else some (resolve base (asciiStr loc))
        | _, _ => none
      (match t.res with
       | ["flow", m', u'] =>
         let keep : Bool := pol == "samehost" && lowerStr (uriHost s.origUri) == lowerStr (uriHost u') && ((splitUri s.origUri).1 == (splitUri u').1 || (splitUri u').1 == "https")
         let s2 : RdSt := { s1 with curUri := u', curMethod := m', followed := true, addedNames := [], lastStatus := none, lastLoc := none, hadResp := false, keepAuthOk := keep, oocFlow := s.oocFlow || (match target with | some (.ok _) => false | _ => true) }
         if (which == "C15" || which == "all") && (match tbl with | some (some m) => m.text != m' | some none => true | none => false) then
           { s with fail := some s!"method table: {s.curMethod} after {st} must become {match tbl with | some (some m) => m.text | _ => "(not followed)"}, got {m'}" }
         else if which == "C14" || which == "all" then
           (match s.lastLoc with
            | none => { s with fail := some "a redirect without Location was followed" }
            | some loc =>
              if !isTextual loc then { s with fail := some "a non-textual Location was followed" } else
              match (if s.oocFlow then none else target) with
              | some (.ok uri) => if uri.text == u' then s2 else { s with fail := some s!"Location {asciiStr loc} against {s.curUri}: RFC 3986 gives {uri.text}, got {u'}" }
              | some .err => { s with fail := some s!"unresolvable Location {asciiStr loc} was followed to {u'}" }
              | _ => s2)
         else s2
       | ["none"] =>
         if (which == "C15" || which == "all") && (match tbl with | some (some _) => true | _ => false) then
           { s with fail := some s!"method table: {s.curMethod} after {st} must be followed, but the redirect was refused" } else s1
       | "fault" :: e :: _ =>
         -- C15: a redirect the table says is followed, with a Location that resolves, yields the new flow
         if (which == "C15" || which == "all") && (match tbl, target with | some (some _), some (.ok _) => true | _, _ => false) then
           { s with fail := some s!"method table: {s.curMethod} after {st} must be followed as {match tbl with | some (some m) => m.text | _ => "?"}, but as_new_flow failed with {e}" }
         else if which == "C14" || which == "all" then
           (match s.lastLoc with
            | none => if e.startsWith "api:" then s1 else { s with fail := some s!"missing Location reported as {e}" }
            | some loc =>
              if !isTextual loc then (if e.startsWith "api:" then s1 else { s with fail := some s!"non-textual Location reported as {e}" })
              else match target with
                | some (.ok uri) => { s with fail := some s!"resolvable Location {asciiStr loc} (→ {uri.text}) refused with {e}" }
                | _ => s1)
         else s1
       | _ => s1)
    | "uri?" =>
      (match t.res with
       | ["str", u] => if !s.followed || u == s.curUri then s1 else { s with fail := some s!"flow reports URI {u} after being created for {s.curUri}" }
       | _ => s1)
    | "method?" =>
      (match t.res with
       | ["str", m] => if !s.followed || m == s.curMethod then s1 else { s with fail := some s!"flow reports method {m} after being created with {s.curMethod}" }
       | _ => s1)
    | "write" =>
      if !s.followed || t.st != "sendRequest" then s1 else
      (match t.res with
       | ["bytes", _, o] =>
         if o.startsWith "#" || o == "-" then s1 else
         let ls := headLines (unhex o)
         let names := (ls.drop 1).map lineName
         -- C13: credentials and stale framing
         -- lines of that name beyond those the caller added to this very flow come from the previous request
         let inheritedCookie := names.count "cookie" > s.addedNames.count "cookie"
         let inheritedCL := names.count "content-length" > s.addedNames.count "content-length"
         let inheritedAuth := names.count "authorization" > s.addedNames.count "authorization"
         if (which == "C13" || which == "all") && inheritedCookie then { s with fail := some s!"the request created for the redirect carries the previous request's Cookie header" }
         else if (which == "C13" || which == "all") && inheritedCL then { s with fail := some s!"the request created for the redirect carries the previous request's Content-Length header" }
         else if (which == "C13" || which == "all") && inheritedAuth && !s.keepAuthOk then
           { s with fail := some s!"Authorization sent to {s.curUri} (original {s.origUri}) although policy / host / scheme do not allow it" }
         else if (which == "C14" || which == "all") && !s.oocFlow then
           -- request line and Host derive from the new URI
           let reqLine := asciiStr (ls.headD [])
           let wantLine := s.curMethod ++ " " ++ uriPathQuery s.curUri ++ " HTTP/1.1"
           if reqLine != wantLine then { s with fail := some s!"request line {reqLine}, expected {wantLine}" } else
           -- the caller's own Host header: added on this flow, or set on the original request and still on the
           -- host it was set for (D13: it does not travel to another host)
           let explicitHost := (s.origHdrs.any (·.name == "host") && lowerStr (uriHost s.origUri) == lowerStr (uriHost s.curUri)) ||
                               s.addedNames.contains "host"
           let hostLine := (ls.drop 1).find? (fun l => lineName l == "host")
           (match hostLine with
            | some hl =>
              let v := asciiStr ((hl.dropWhile (· != 58)).drop 2)
              if explicitHost || v == uriHost s.curUri then s1 else { s with fail := some s!"Host {v} does not name the host of {s.curUri}" }
            | none => { s with fail := some "no Host header in the redirected request" })
         else s1
       | ["fault", "api:MethodForbidsBody"] =>
         -- the request built for the redirect takes no body; it can only be refused like this when framing was
         -- inherited from the previous request (the caller added nothing, the original had no Transfer-Encoding)
         if (which == "C13" || which == "all") && s.addedNames.isEmpty && !isBodyMethod s.curMethod &&
            s.origHdrs.any (·.name == "content-length") && !s.origHdrs.any (·.name == "transfer-encoding") then
           { s with fail := some s!"the {s.curMethod} request created for the redirect is refused as carrying a body: the previous request's Content-Length was inherited" }
         else s1
       | _ => s1)
    | _ => s1) ({} : RdSt)

def oracleRedirect (which : String) (c : TCase) : Verdict :=
  match (walkRedirect c which).fail with | some w => .fail w | none => .ok
