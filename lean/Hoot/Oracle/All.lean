import Hoot.Oracle.BodyW
import Hoot.Oracle.BodyR
import Hoot.Oracle.Heads
import Hoot.Oracle.Expect
import Hoot.Oracle.ReqHead
import Hoot.Oracle.FlowO
import Hoot.Oracle.Redirect
import Hoot.Oracle.Exchange

/-! Dispatch of the per-property oracles. -/

/-- panics are never acceptable in any trace (structure-free oracle applied to every property) -/
def noPanic (c : TCase) : Verdict :=
  match c.lines.find? (·.isPanic) with
  | some t => .fail s!"panic: {t.raw}"
  | none => .ok

def oracleFor (pid : String) (c : TCase) : Verdict :=
  match pid with
  | "C03" => (match noPanic c with | .ok => oracleC03 c | v => v)
  | "C04" => (match noPanic c with | .ok => oracleC04 c | v => v)
  | "C18" => (match noPanic c with | .ok => oracleC18 c | v => v)
  | "C19" => (match noPanic c with | .ok => oracleC19 c | v => v)
  | "C07" => (match noPanic c with | .ok => oracleC07 c | v => v)
  | "C08" => (match noPanic c with | .ok => oracleC08 c | v => v)
  | "C05" => oracleC05 c
  | "C06" => (match noPanic c with | .ok => oracleC06 c | v => v)
  | "C11" => oracleC11 c
  | "C20" => oracleC20 c
  | "C02" => oracleC02 c
  | "C16" => oracleC16 c
  | "C17" => oracleC17 c
  | "C09" => oracleC09 c
  | "C10" => oracleC10 c
  | "C12" => oracleC12 c
  | "C13" => oracleRedirect "C13" c
  | "C14" => oracleRedirect "C14" c
  | "C15" => oracleRedirect "C15" c
  | _ => noPanic c
