import Hoot.Oracle.Trace

/-! Oracles for the request-body writer properties C03, C04, C18, C19, evaluated on the
    implementation's recorded traces. They are written from the property texts, independently of the
    model's writer (own chunk decoder, own arithmetic). -/

def hexDigitVal (c : UInt8) : Option Nat :=
  if 48 ≤ c ∧ c ≤ 57 then some (c.toNat - 48)
  else if 97 ≤ c ∧ c ≤ 102 then some (c.toNat - 87)
  else if 65 ≤ c ∧ c ≤ 70 then some (c.toNat - 55) else none

/-- size line: one or more hex digits then CRLF; returns (value, rest) -/
def specSizeLine : Bytes → Nat → Nat → Option (Nat × Bytes)
  | 13 :: 10 :: rest, acc, nd => if nd > 0 then some (acc, rest) else none
  | c :: rest, acc, nd => match hexDigitVal c with
    | some v => specSizeLine rest (acc * 16 + v) (nd + 1)
    | none => none
  | [], _, _ => none

/-- Strict decoder of a sequence of complete non-empty chunks, optionally ended by exactly one
    `0 CRLF CRLF` with nothing after it. Returns (chunk data list, terminated). -/
def specDecode : Nat → Bytes → Option (List Bytes × Bool)
  | 0, _ => none
  | _ + 1, [] => some ([], false)
  | fuel + 1, b =>
    match specSizeLine b 0 0 with
    | none => none
    | some (0, rest) => if rest == [13, 10] then some ([], true) else none
    | some (n, rest) =>
      if rest.length < n + 2 then none else
      if rest.drop n |>.take 2 |> (· != [13, 10]) then none else
      match specDecode fuel (rest.drop (n + 2)) with
      | none => none
      | some (cs, t) => some (rest.take n :: cs, t)

structure C03St where
  ended : Bool := false       -- terminator completely emitted
  fail : Option String := none
  needFull : Bool := false
  writes : Nat := 0

def lowerAscii (b : Bytes) : Bytes := b.map fun x => if 65 ≤ x ∧ x ≤ 90 then x + 32 else x

/-- headers the request is sent with, as far as the trace shows them: the original ones of the `new`
    line and those added by `hdr` ops -/
def caseHeaders (c : TCase) : List Hdr :=
  (match firstNew c with | some t => newHeaders t.op | none => []) ++
  c.lines.filterMap fun t => match t.op, t.res with
    | ["hdr", k, v], ["unit"] => some { name := k.toLower, value := unhex v }
    | _, _ => none

/-- the request declares `Transfer-Encoding: chunked` (any case) — it takes precedence over a length -/
def declaresChunked (c : TCase) : Bool :=
  (caseHeaders c).any fun h => h.name == "transfer-encoding" && lowerAscii h.value == "chunked".toUTF8.toList

def isChunkedCase (c : TCase) : Bool :=
  (firstNew c).isSome && (declaresChunked c || !(caseHeaders c).any (fun h => h.name == "content-length"))

/-- index just after the first CRLF CRLF, if any -/
def headEndIdx (b : Bytes) : Option Nat :=
  let rec go (fuel : Nat) (rest : Bytes) (k : Nat) : Option Nat :=
    match fuel, rest with
    | 0, _ => none
    | _, 13 :: 10 :: 13 :: 10 :: _ => some (k + 4)
    | _, [] => none
    | f + 1, _ :: r => go f r (k + 1)
  go (b.length + 1) b 0

/-- The single-call API writes head and body through one method. For the body-writer properties a `Call` case
    is read as the flow it stands for: the bytes up to the end of the head are set aside, a `cbwrite` becomes
    the `bwrite` of what it emitted behind the head, `cfinished` the readiness query and `cinto` the advance.
    (A head logged as a hash cannot be split: such a case asks for the full log.) -/
def callAsFlow (c : TCase) : TCase × Bool :=
  if !(c.lines.any (·.kw == "cnew")) then (c, false) else
  let (ls, _, _, nf) := c.lines.foldl (fun (acc : List TLine × Bytes × Bool × Bool) t =>
    let (out, head, done, nf) := acc
    match t.kw, t.res with
    | "cbwrite", ["bytes", n, o] =>
      if done then (out ++ [{ t with op := "bwrite" :: t.op.drop 1, st := "sendBody" }], head, done, nf) else
      (match outBytes? o with
       | none => (out, head, done, true)
       | some ob =>
         let h2 := head ++ ob
         (match headEndIdx h2 with
          | none => (out, h2, false, nf)
          | some e =>
            let body := h2.drop e
            (out ++ [{ t with op := "bwrite" :: t.op.drop 1, res := ["bytes", n, toHex body], st := "sendBody" }], h2, true, nf)))
    | "cbwrite", _ => if done then (out ++ [{ t with op := "bwrite" :: t.op.drop 1, st := "sendBody" }], head, done, nf) else (out, head, done, nf)
    | "cfinished", _ => if done && t.st == "callBody" then (out ++ [{ t with op := ["canproceed"], st := "sendBody" }], head, done, nf) else (out, head, done, nf)
    | "cinto", "state" :: _ => (out ++ [{ t with op := ["proceed"], res := ["state", "recvResponse"], st := "recvResponse" }], head, done, nf)
    | "cinto", _ => (out ++ [{ t with op := ["proceed"], res := ["none"], st := "sendBody" }], head, done, nf)
    | _, _ => (out ++ [t], head, done, nf)) ([], [], false, false)
  ({ c with lines := ls }, nf)

def oracleC03 (c0 : TCase) : Verdict :=
  let (c, nf) := callAsFlow c0
  if nf then .needFull else
  if !isChunkedCase c then .ok else
  let st := c.lines.foldl (fun (s : C03St) t =>
    if s.fail.isSome || s.needFull then s else
    if t.st != "sendBody" && t.kw != "proceed" && t.kw != "proceed!" then s else
    match t.kw with
    | "bwrite" | "bwriten" =>
      match bwriteInput t.op with
      | none => s
      | some (input, cap) =>
        match t.res with
        | ["bytes", n, o] =>
          match n.toNat?, outBytes? o with
          | some used, some out =>
            if s.ended && !input.isEmpty then { s with fail := some s!"a non-empty write after the terminating chunk was accepted instead of refused: {t.raw}" } else
            if out.length > cap then { s with fail := some s!"produced {out.length} > output space {cap}: {t.raw}" } else
            if used > input.length then { s with fail := some s!"consumed more than offered: {t.raw}" } else
            match specDecode (out.length + 2) out with
            | none => { s with fail := some s!"output of one write is not a sequence of complete chunks: {t.raw}" }
            | some (chunks, term) =>
              if chunks.any (·.isEmpty) then { s with fail := some s!"empty chunk: {t.raw}" } else
              if chunks.flatten != input.take used then { s with fail := some s!"chunk data differs from the consumed input: {t.raw}" } else
              if s.ended && !out.isEmpty then { s with fail := some s!"bytes emitted after the terminator: {t.raw}" } else
              if term && !input.isEmpty then { s with fail := some s!"terminator emitted by a non-empty write: {t.raw}" } else
              { s with ended := s.ended || term, writes := s.writes + 1 }
          | some _, none => { s with needFull := true }
          | _, _ => { s with fail := some s!"malformed result: {t.raw}" }
        | ["fault", e] =>
          -- "is refused": the property does not say with which error
          if !e.startsWith "api:" then { s with fail := some s!"panic: {t.raw}" } else
          if s.ended && !input.isEmpty then s else { s with fail := some s!"write refused although the body is not finished (or input empty): {t.raw}" }
        | _ => if t.isPanic then { s with fail := some s!"panic: {t.raw}" } else { s with fail := some s!"unexpected result: {t.raw}" }
    | "canproceed" =>
      match t.res with
      | ["bool", b] => if (b == "true") == s.ended then s else { s with fail := some s!"finished={b} but terminator emitted={s.ended}: {t.raw}" }
      | _ => s
    | "proceed" | "proceed!" =>
      match t.res with
      | "state" :: "recvResponse" :: _ => if s.ended then s else { s with fail := some s!"advanced before the terminator: {t.raw}" }
      | "none" :: _ => if !s.ended then s else { s with fail := some s!"did not advance after the terminator: {t.raw}" }
      | _ => s
    | _ => s) ({} : C03St)
  match st.fail with
  | some w => .fail w
  | none => if st.needFull then .needFull else .ok

/-! C04 -/

structure C04St where
  left : Nat
  total : Nat
  finished : Bool := false   -- exact accounting reached AND the end signalled (an empty write accepted at 0 left): from here on it must be reported
  fail : Option String := none
  needFull : Bool := false
  callHead : Bytes := []          -- single-call API: head bytes emitted so far
  callHeadDone : Bool := false

def contentLengthOf (c : TCase) : Option Nat :=
  if declaresChunked c then none else
  ((caseHeaders c).find? (fun h => h.name == "content-length")).bind fun h =>
      (String.ofList (h.value.map fun b => Char.ofNat b.toNat)).toNat?

def oracleC04 (c : TCase) : Verdict :=
  match contentLengthOf c with
  | none => .ok
  | some N =>
  -- a declared length that is no u64 is no declared length: the request never gets as far as a body
  if N ≥ 18446744073709551616 then
    (match c.lines.find? (fun t => (t.kw == "bwrite" || t.kw == "bwriten" || t.kw == "cbwrite" || t.kw == "write") &&
                                   (match t.res with | ["bytes", _, o] => o != "-" | _ => false)) with
     | some t => .fail s!"bytes were written for a request whose Content-Length {N} does not fit 64 bits: {t.raw.take 120}"
     | none => .ok) else
  -- POST / PUT / PATCH over HTTP/1.1 (POST also over 1.0) whose only header is the Content-Length: nothing else could be wrong with it
  let plainSized := match firstNew c with
    | some t =>
      let w := if t.kw == "cnew" then t.op.drop 1 else t.op
      let m := w.getD 1 ""; let v := w.getD 2 ""
      ((v == "HTTP/1.1" && (m == "POST" || m == "PUT" || m == "PATCH")) || (v == "HTTP/1.0" && m == "POST")) &&
        (newHeaders t.op).length == 1 && !c.lines.any (fun l => l.kw == "hdr" || l.kw == "follow")
    | none => false
  -- the flow that carries the body: after a redirect, the one `as_new_flow` returned
  let lines := match (c.lines.reverse.span (fun t => !(t.kw == "follow" && t.res.headD "" == "flow"))).1.reverse with
    | ls => ls
  let st := lines.foldl (fun (s : C04St) t =>
    if s.fail.isSome || s.needFull then s else
    -- the head of a request whose only defect could be its (valid, in-range) Content-Length is not refused
    if plainSized && (t.kw == "write" || (t.kw == "cbwrite" && !s.callHeadDone)) && t.res.headD "" == "fault" && t.res.getD 1 "" != "api:OutputOverflow" && !t.isPanic then
      { s with fail := some s!"a request declaring Content-Length {N} was refused while its head was written: {t.raw.take 120}" } else
    -- the single-call API: `write` emits the head first (consuming nothing); body accounting starts after it
    if t.kw == "cbwrite" && !s.callHeadDone then
      (match t.res with
       | ["bytes", _, o] =>
         -- a head too long to be logged in full: judged on the full log
         if o.startsWith "#" then { s with needFull := true } else
         let w := s.callHead ++ (if o == "-" then [] else unhex o)
         { s with callHead := w, callHeadDone := w.length ≥ 4 && w.drop (w.length - 4) == [13, 10, 13, 10] }
       | _ => s) else
    if t.st != "sendBody" && t.st != "callBody" && t.kw != "proceed" && t.kw != "proceed!" && t.kw != "cinto" then s else
    match t.kw with
    | "cfinished" =>
      (match t.res with
       | ["bool", "true"] => if s.left != 0 then { s with fail := some s!"is_finished() with {s.left} bytes unaccounted: {t.raw}" } else s
       | ["bool", "false"] => if s.finished then { s with fail := some s!"is_finished() false although all {N} bytes are accounted for and the end was signalled: {t.raw}" } else s
       | _ => s)
    | "cinto" =>
      (match t.res with
       | "state" :: _ => if s.left != 0 then { s with fail := some s!"into_receive() succeeded with {s.left} bytes unaccounted: {t.raw}" } else s
       | _ => s)
    | "bwrite" | "bwriten" | "cbwrite" =>
      match bwriteInput t.op with
      | none => s
      | some (input, cap) =>
        let refuseAfter := !input.isEmpty && s.finished
        let refuseOver := input.length > s.left
        match t.res with
        | ["bytes", n, o] =>
          if refuseAfter || refuseOver then { s with fail := some s!"a write that must be refused was accepted (left={s.left}): {t.raw}" } else
          match n.toNat? with
          | none => { s with fail := some s!"malformed: {t.raw}" }
          | some used =>
            let k := min input.length (min cap s.left)
            if used != k then { s with fail := some s!"consumed {used}, expected min(input, space, remaining) = {k}: {t.raw}" } else
            match outBytes? o with
            | none =>
              -- hashed output: length and hash must be those of the input prefix
              if o == toHexOut false (input.take k) then { s with left := s.left - k, finished := s.finished || (input.isEmpty && s.left == 0) }
              else { s with needFull := true }
            | some out =>
              if out != input.take k then { s with fail := some s!"output is not the consumed input prefix: {t.raw}" }
              else { s with left := s.left - k, finished := s.finished || (input.isEmpty && s.left == 0) }
        | ["fault", e] =>
          -- "is refused": the property does not say with which error
          if !e.startsWith "api:" then { s with fail := some s!"panic: {t.raw}" } else
          if refuseAfter || refuseOver then s else { s with fail := some s!"a write that fits was refused (finished={s.finished}, left={s.left}): {t.raw}" }
        | _ => { s with fail := some s!"unexpected result: {t.raw}" }
    | "direct" =>
      match t.op, t.res with
      | [_, n], ["unit"] =>
        (match n.toNat? with
         | some d => if d > s.left then { s with fail := some s!"direct write beyond the remaining length accepted: {t.raw}" }
                     else { s with left := s.left - d }
         | none => s)
      | [_, n], ["fault", _] =>
        (match n.toNat? with
         | some d => if d > s.left then s else { s with fail := some s!"direct write within the length refused: {t.raw}" }
         | none => s)
      | _, _ => { s with fail := some s!"unexpected result: {t.raw}" }
    | "canproceed" =>
      match t.res with
      | ["bool", b] =>
        -- "finished only when exactly N bytes have been accounted for, which always becomes true once N is
        -- reached and the caller signals the end": true requires 0 left; false is wrong once the end was signalled
        if (b == "true") && s.left != 0 then { s with fail := some s!"finished with {s.left} bytes unaccounted: {t.raw}" }
        else if (b == "false") && s.finished then { s with fail := some s!"not finished although all {N} bytes are accounted for and the end was signalled: {t.raw}" }
        else s
      | _ => s
    | "proceed" | "proceed!" =>
      match t.res with
      | "state" :: "recvResponse" :: _ => if s.left == 0 then s else { s with fail := some s!"advanced with {s.left} bytes unaccounted: {t.raw}" }
      | "none" :: _ => if !s.finished then s else { s with fail := some s!"did not advance although finished: {t.raw}" }
      | _ => s
    | "maxin" =>
      match t.op, t.res with
      | [_, n], ["count", m] => if n == m then s else { s with fail := some s!"advertised size for a length-delimited body is not n: {t.raw}" }
      | _, _ => s
    | _ => s) ({ left := N, total := N } : C04St)
  match st.fail with
  | some w => .fail w
  | none => if st.needFull then .needFull else .ok

/-! C18 / C19 -/

structure C18St where
  lastMax : Option (Nat × Nat) := none   -- (n, advertised) of the most recent maxin
  prev : Option (Nat × Nat) := none      -- previous (n, advertised) for monotonicity
  fail : Option String := none

def usedOf (t : TLine) : Option Nat := match t.res with | ["bytes", n, _] => n.toNat? | _ => none

def oracleC18 (c : TCase) : Verdict :=
  let sized := (contentLengthOf c).isSome
  let st := c.lines.foldl (fun (s : C18St) t =>
    if s.fail.isSome then s else
    match t.kw with
    | "maxin" =>
      match t.op, t.res with
      | [_, n], ["count", m] =>
        match n.toNat?, m.toNat? with
        | some n, some m =>
          if m > n then { s with fail := some s!"advertised {m} exceeds n: {t.raw}" } else
          if sized && m != n then { s with fail := some s!"advertised size for a length-delimited body is not n: {t.raw}" } else
          match s.prev with
          | some (pn, pm) =>
            if (pn ≤ n && pm > m) || (n ≤ pn && m > pm) then { s with fail := some s!"advertised size decreases as n grows: ({pn},{pm}) vs ({n},{m})" }
            else { s with lastMax := some (n, m), prev := some (n, m) }
          | none => { s with lastMax := some (n, m), prev := some (n, m) }
        | _, _ => s
      | _, _ => s
    | "bwrite" | "bwriten" =>
      match bwriteInput t.op, s.lastMax with
      | some (input, cap), some (n, m) =>
        if cap == n && input.length == m then
          match usedOf t with
          | some used => if used == m then { s with lastMax := none } else { s with fail := some s!"advertised maximum {m} for n={n} but a single write consumed {used}: {t.raw}" }
          | none => { s with fail := some s!"write of the advertised maximum failed: {t.raw}" }
        else s
      | _, _ => s
    | _ => s) ({} : C18St)
  match st.fail with | some w => .fail w | none => .ok

structure C19St where
  seen : List (Nat × Nat × Nat) := []     -- (cap, input length, consumed) samples, at most 96 per case
  nseen : Nat := 0
  maxes : List (Nat × Nat) := []          -- (cap, advertised)
  ended : Bool := false
  left : Option Nat := none
  fail : Option String := none

def oracleC19 (c0 : TCase) : Verdict :=
  let (c, nf) := callAsFlow c0
  if nf then .needFull else
  let sizedN := contentLengthOf c
  let st := c.lines.foldl (fun (s : C19St) t =>
    if s.fail.isSome then s else
    match t.kw with
    | "maxin" =>
      match t.op, t.res with
      | [_, n], ["count", m] => (match n.toNat?, m.toNat? with | some n, some m => { s with maxes := (n, m) :: s.maxes } | _, _ => s)
      | _, _ => s
    | "bwrite" | "bwriten" =>
      if t.st != "sendBody" then s else
      match bwriteInput t.op with
      | none => s
      | some (input, cap) =>
        match usedOf t with
        | none =>
          -- a refusal is no progress either: content within the declared length, or content for a chunked body
          -- that has not been ended, into a buffer with room for it
          (match s.left with
           | some left =>
             if !input.isEmpty && input.length ≤ left && cap ≥ 1 then { s with fail := some s!"content within the remaining length refused: {t.raw}" } else s
           | none =>
             if !input.isEmpty && !s.ended && cap ≥ 6 then { s with fail := some s!"content for a chunked body that was not ended refused: {t.raw}" } else s)
        | some used =>
          -- an empty input ends a chunked body only once the end chunk went out (an output too small for it
          -- writes nothing and leaves the body open)
          if input.isEmpty then { s with ended := s.ended || s.left.isSome || (match t.res with | ["bytes", _, out] => out != "-" | _ => true) } else
          match s.left with
          | some left =>
            -- length-delimited: 1 byte of space is enough
            let s := if cap ≥ 1 && left > 0 && used == 0 then { s with fail := some s!"no progress with room for a byte: {t.raw}" } else s
            { s with left := some (left - used) }
          | none =>
            if cap ≥ 6 && used == 0 then { s with fail := some s!"no progress although the output has room for the smallest chunk: {t.raw}" } else
            -- monotone in the offered input, and at least the progress of the advertised maximum
            let ilen := input.length
            let worse := s.seen.find? (fun (c', l', u') => c' == cap && ((l' ≤ ilen && u' > used) || (ilen ≤ l' && used > u')))
            match worse with
            | some (c', l', u') => { s with fail := some s!"offering more input reduced progress at output {c'}: input {l'} consumed {u'} vs {t.raw}" }
            | none =>
              match s.maxes.find? (fun (n, _) => n == cap) with
              | some (_, m) =>
                if ilen ≥ m && used < m then { s with fail := some s!"consumed {used}, less than the advertised maximum {m} would have been: {t.raw}" }
                else if s.nseen < 96 then { s with seen := (cap, ilen, used) :: s.seen, nseen := s.nseen + 1 } else s
              | none => if s.nseen < 96 then { s with seen := (cap, ilen, used) :: s.seen, nseen := s.nseen + 1 } else s
    | "direct" =>
      (match t.op, t.res, s.left with
       | [_, d], ["unit"], some left => { s with left := some (left - d.toNat!) }
       | _, _, _ => s)
    | _ => s) ({ left := sizedN } : C19St)
  match st.fail with
  | some w => .fail w
  | none =>
    -- whole-body loops must have terminated with everything consumed
    match c.metas.find? (·.startsWith "meta loop ") with
    | some m =>
      let kv := (m.splitOn " ").filterMap fun w => match w.splitOn "=" with | [k, v] => v.toNat?.map (k, ·) | _ => none
      let get := fun k => (kv.find? (·.1 == k)).map (·.2)
      match get "total", get "cap", get "done" with
      | some total, some cap, some done =>
        if done != total && cap ≥ (if sizedN.isSome then 1 else 6) then .fail s!"whole-body loop with a fixed buffer of {cap} stopped at {done} of {total}"
        else .ok
      | _, _, _ => .ok
    | none => .ok
