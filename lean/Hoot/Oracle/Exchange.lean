import Hoot.Oracle.BodyR

/-! Oracle for C01: the observable outcome of one exchange, as a canonical text; all schedules of one group
    must give the same text, and the server bytes consumed must be exactly the response message(s). -/

structure ExObs where
  head : Bytes := []          -- request head bytes
  payload : Bytes := []       -- request body input reported consumed
  bodyWire : Bytes := []      -- request body bytes on the wire
  chunked : Bool := false
  resp : String := ""         -- the response head as returned (status, version, fields)
  respBody : Bytes := []
  consumed : Nat := 0
  lastState : String := ""
  verdict : String := ""
  reason : String := ""
  callWire : Bytes := []       -- single-call API: everything `write` emitted (head, then body)
  callDone : Bool := false     -- single-call API: the body was read to its end, or there is none
  fail : Option String := none

/-- index just after the first CRLF CRLF (the whole input if there is none) -/
def headEnd (b : Bytes) : Nat :=
  let rec go (fuel : Nat) (rest : Bytes) (k : Nat) : Nat :=
    match fuel, rest with
    | 0, _ => k
    | _, 13 :: 10 :: 13 :: 10 :: _ => k + 4
    | _, [] => k
    | f + 1, _ :: r => go f r (k + 1)
  go (b.length + 1) b 0

def containsBytes (hay needle : Bytes) : Bool :=
  (List.range (hay.length + 1)).any fun i => (hay.drop i).take needle.length == needle

def observe (c : TCase) : ExObs :=
  c.lines.foldl (fun (s : ExObs) t =>
    if s.fail.isSome then s else
    if t.isPanic then { s with fail := some s!"panic: {t.raw.take 100}" } else
    let s := { s with lastState := t.st }
    match t.kw, t.res with
    | "write", ["bytes", _, o] => if o.startsWith "#" then { s with fail := some "needfull" } else { s with head := s.head ++ unhex o }
    | "write", ["fault", "api:OutputOverflow"] => s
    | "bwrite", ["bytes", n, o] =>
      (match bwriteInput t.op with
       | some (input, _) =>
         if o.startsWith "#" then { s with fail := some "needfull" }
         else { s with payload := s.payload ++ input.take n.toNat!, bodyWire := s.bodyWire ++ unhex o }
       | none => s)
    | "chunked?", ["bool", b] => { s with chunked := b == "true" }
    | "read100", ["count", n] => { s with consumed := s.consumed + n.toNat! }
    | "resp", "resp" :: n :: rest =>
      let s := { s with consumed := s.consumed + n.toNat! }
      if rest == ["none"] then s else { s with resp := " ".intercalate rest }
    | "bread", ["bytes", n, o] =>
      if o.startsWith "#" then { s with fail := some "needfull" }
      else { s with consumed := s.consumed + n.toNat!, respBody := s.respBody ++ unhex o }
    | "xrun", "xrun" :: kvs =>
      -- the whole exchange in one op: split the wire into head and body, take the rest from the summary
      let get := fun (k : String) => ((kvs.find? (·.startsWith (k ++ "="))).map (fun w => (w.drop (k.length + 1)).toString)).getD ""
      if (get "wire").startsWith "#" || (get "body").startsWith "#" then { s with fail := some "needfull" } else
      if get "faults" != "0" then { s with fail := some s!"a call of the exchange failed: {t.raw.take 160}" } else
      let wb := unhex (get "wire")
      let hl := headEnd wb
      let off := (get "off").toNat!
      { s with head := wb.take hl, bodyWire := wb.drop hl, payload := (unhex (t.op.getD 1 "-")).take off,
               chunked := containsBytes (wb.take hl) "transfer-encoding: chunked".toUTF8.toList,
               consumed := (get "consumed").toNat!, resp := get "head", respBody := unhex (get "body") }
    -- the single-call API: the same observations under its own op names
    | "cwrite", ["bytes", _, o] => if o.startsWith "#" then { s with fail := some "needfull" } else { s with callWire := s.callWire ++ unhex o }
    | "cwrite", ["fault", "api:OutputOverflow"] => s
    | "cbwrite", ["fault", "api:OutputOverflow"] => s
    | "cbwrite", ["bytes", n, o] =>
      (match bwriteInput t.op with
       | some (input, _) =>
         if o.startsWith "#" then { s with fail := some "needfull" }
         else { s with payload := s.payload ++ input.take n.toNat!, callWire := s.callWire ++ unhex o }
       | none => s)
    | "cinto", "state" :: _ =>
      let hl := headEnd s.callWire
      { s with head := s.callWire.take hl, bodyWire := s.callWire.drop hl,
               chunked := containsBytes (s.callWire.take hl) "transfer-encoding: chunked".toUTF8.toList }
    | "cresp", "resp" :: n :: rest =>
      let s := { s with consumed := s.consumed + n.toNat! }
      if rest == ["none"] then s else { s with resp := " ".intercalate rest }
    | "cbody", ["none"] => { s with callDone := true }
    | "cread", ["bytes", n, o] =>
      if o.startsWith "#" then { s with fail := some "needfull" }
      else { s with consumed := s.consumed + n.toNat!, respBody := s.respBody ++ unhex o }
    | "cended", ["bool", b] => { s with callDone := b == "true" }
    | "close?", ["bool", b] => { s with verdict := b }
    | "reason", "str" :: ws => { s with reason := " ".intercalate ws }
    | _, "fault" :: e :: _ => { s with fail := some s!"the exchange failed: {t.raw.take 120}" }
    | _, _ => s) ({} : ExObs)

def ExObs.signature (o : ExObs) : String :=
  s!"head={toHex o.head} payload={toHex o.payload} resp=[{o.resp}] body={toHex o.respBody} end={o.lastState} close={o.verdict} reason={o.reason}"

/-- per-case part of C01: complete exchange, request body on the wire decodes to the payload, consumed =
    message length; returns the signature for the cross-schedule comparison -/
def oracleC01Case (c : TCase) : Except Verdict String :=
  let o := observe c
  match o.fail with
  | some "needfull" => .error .needFull
  | some w => .error (.fail w)
  | none =>
    let isCall := c.metas.any (· == "meta callapi")
    let closeDelim := o.resp != "" && isCall && !o.callDone && o.lastState == "callRecvBody"   -- judged below by the consumed count
    if !isCall && o.lastState != "cleanup" then .error (.fail s!"the exchange did not reach the terminal state (ended in {o.lastState})") else
    if isCall && !o.callDone && !closeDelim then .error (.fail s!"the single-call exchange was not completed (ended in {o.lastState})") else
    let msglen := ((metaVal c "msglen").bind (·.head?)).bind (·.toNat?) |>.getD 0
    let payload := unhex (((metaVal c "payload").bind (·.head?)).getD "-")
    if o.consumed != msglen then .error (.fail s!"server bytes consumed {o.consumed}, the response message(s) of this exchange are {msglen} bytes") else
    if o.payload != payload && !(o.payload.isEmpty) then .error (.fail "request body input consumed differs from the payload offered") else
    -- what went on the wire carries exactly the payload
    let wireOk :=
      if o.bodyWire.isEmpty && o.payload.isEmpty then true
      else if o.chunked then (match specDecode (o.bodyWire.length + 2) o.bodyWire with | some (cs, term) => cs.flatten == o.payload && term | none => false)
      else o.bodyWire == o.payload
    if !wireOk then .error (.fail "request body on the wire does not carry exactly the payload") else
    .ok o.signature
