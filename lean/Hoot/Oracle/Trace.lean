import Hoot.Driver.Replay

/-! Parsed traces for the oracles: a case is its meta lines and its (op, result, state) lines. -/

structure TLine where
  op : List String      -- words of the op
  res : List String     -- words of the result (without the `@state` suffix)
  st : String           -- state name after the op
  raw : String
  deriving Repr

structure TCase where
  id : String
  metas : List String
  lines : List TLine
  deriving Repr

inductive Verdict
  | ok
  | fail (why : String)
  | known (finding : String) (what : String)
  | needFull

def parseTLine (l : String) : TLine :=
  match l.splitOn " => " with
  | [opT, r] =>
    let parts := r.splitOn " @"
    let st := parts.getLast?.getD ""
    let resT := " @".intercalate parts.dropLast
    { op := opT.splitOn " ", res := resT.splitOn " ", st := st, raw := l }
  | _ => { op := l.splitOn " ", res := [], st := "", raw := l }

def TLine.kw (t : TLine) : String := t.op.headD ""
def TLine.rk (t : TLine) : String := t.res.headD ""
def TLine.isPanic (t : TLine) : Bool := t.res == ["fault", "panic"]
def TLine.apiErr (t : TLine) : Option String :=
  match t.res with
  | "fault" :: e :: _ => if e.startsWith "api:" then some (e.drop 4).toString else none
  | _ => none

/-- output bytes of a `bytes n hex` result; none if it was reported as a hash -/
def outBytes? (hexOrHash : String) : Option Bytes :=
  if hexOrHash.startsWith "#" then none else some (unhex hexOrHash)

/-- header list of a `new`/`cnew` op: words after the count -/
def newHeaders (op : List String) : List Hdr :=
  match op with
  | "new" :: _ :: _ :: _ :: _ :: rest => pairsOf rest
  | "cnew" :: _ :: _ :: _ :: _ :: _ :: rest => pairsOf rest
  | _ => []

def firstNew (c : TCase) : Option TLine := c.lines.find? (fun t => t.kw == "new" || t.kw == "cnew")

/-- input bytes of a body-write op -/
def bwriteInput (op : List String) : Option (Bytes × Nat) :=
  match op with
  | ["bwrite", i, c] => c.toNat?.map fun c => (unhex i, c)
  | ["cbwrite", i, c] => c.toNat?.map fun c => (unhex i, c)
  | ["bwriten", len, seed, c] => do
      let l ← len.toNat?; let s ← seed.toNat?; let c ← c.toNat?
      pure (patBytes s l, c)
  | _ => none

def metaVal (c : TCase) (key : String) : Option (List String) :=
  (c.metas.find? (·.startsWith s!"meta {key} ")).map fun m => (m.splitOn " ").drop 2

