import Hoot.Model.Uri
import Hoot.Proofs.FlowWF
import Hoot.Props.C09

/-! # C10 — the connection-reuse verdict is exactly the disjunction of the close conditions

The verdict is "the close-reason list is non-empty" (flow.rs `must_close_connection`). The theorems pin
down exactly when each reason enters the list: at construction (HTTP/1.0 request, `Connection: close` on
the original request), when a non-100 response arrives while awaiting 100, when a returned response
carries `Connection: close`, and when a close-delimited body is entered — and at no other step. -/

/-- **C10 (verdict and reason).** In the redirect and cleanup states alike: must-close iff some reason is
    recorded; a reason text is given exactly then, and it is the explanation of a recorded reason. -/
theorem C10_verdict (f : Flow) :
    (stepRedirect f .mustClose).2 = .bool (!f.closeReasons.isEmpty) ∧
    (stepCleanup f .mustClose).2 = .bool (!f.closeReasons.isEmpty) ∧
    (stepRedirect f .reason).2 = (stepCleanup f .reason).2 ∧
    (f.closeReasons = [] → (stepCleanup f .reason).2 = .str "-") ∧
    (∀ r rest, f.closeReasons = r :: rest → (stepCleanup f .reason).2 = .str r.explain) := by
  refine ⟨rfl, rfl, rfl, ?_, ?_⟩
  · intro h; simp [stepCleanup, closeText, h]
  · intro r rest h; simp [stepCleanup, closeText, h]

/-- **C10 (construction).** A new flow (also one produced by following a redirect: it is rebuilt from the
    original request) starts with exactly: HTTP/1.0 iff the request is 1.0, client-close iff the original
    request carries `Connection: close`. -/
theorem C10_initial (m : Method) (v : Version) (u : Uri) (orig : List Hdr) (r : CloseReason) :
    r ∈ (Flow.new m v u orig).closeReasons ↔
      (r = .http10 ∧ v = .h10) ∨ (r = .clientClose ∧ hasHdr orig "connection" "close" = true) := by
  unfold Flow.new
  cases v <;> cases hc : hasHdr orig "connection" "close" <;> cases r <;> simp [hc]

/-- what can add a reason in one step -/
def closeEvent (hack : Bool) (f : Flow) (op : Op) (r : CloseReason) : Prop :=
  match f.st, op, r with
  | .await100, .read100 w, .not100 =>
    (∃ u resp, tryParseResponse 0 w = .ok (some (u, resp)) ∧ resp.status ≠ 100) ∨
    tryParseResponse 0 w = .error (.api .httpParseTooManyHeaders)
  | .recvResponse, .resp w, .serverClose =>
    f.holder = .recvResponse ∧
    ∃ u resp, (callTryResponse hack f.call w).2 = .ok (some (u, resp)) ∧ ¬ (resp.status = 100 ∧ f.await100 = true) ∧
      hasHdr resp.fields "connection" "close" = true
  | .recvResponse, .proceed, .closeDelimited =>
    f.canProceed = .ok true ∧ f.call.reader = some .close
  | _, _, _ => False

theorem pushReason_mem_iff (l : List CloseReason) (r x : CloseReason) (h : l.Nodup) :
    x ∈ (pushReason l r).1 ↔ x ∈ l ∨ x = r := by
  have hp := pushReason_ok l r h
  unfold pushReason at hp ⊢
  by_cases hc : l.contains r = true
  · simp only [hc, if_true]
    have : r ∈ l := by simpa using hc
    constructor
    · intro hx; exact Or.inl hx
    · rintro (hx | hx)
      · exact hx
      · rw [hx]; exact this
  · simp only [hc] at hp ⊢
    by_cases hl : l.length < 5
    · simp [hl]
    · simp [hl] at hp

/-- **C10 (steps).** For every operation on a well-formed flow: a reason is recorded afterwards iff it was
    recorded before or this very step is one of the three events — so over any history the list holds
    exactly the conditions that happened (and, being duplicate-free, at most the five there are). -/
theorem C10_step (hack : Bool) (f : Flow) (op : Op) (hwf : f.WF) (r : CloseReason) :
    r ∈ (f.step hack op).1.closeReasons ↔ r ∈ f.closeReasons ∨ closeEvent hack f op r := by
  have hnd := hwf.nodup
  unfold Flow.step closeEvent
  cases hs : f.st <;> simp only []
  · -- prepare
    unfold stepPrepare
    cases op <;> simp [notOffered] <;> (repeat' split) <;> simp_all
  · unfold stepSendRequest
    cases op <;> simp [notOffered, enterSendBody, enterRecvResponse] <;> (repeat' split) <;> simp_all
  · -- await100
    unfold stepAwait100
    cases op <;> simp only [notOffered, or_false] <;> (try (simp [enterSendBody, enterRecvResponse]; (repeat' split) <;> simp_all; done))
    case read100 w =>
      have hrf : ∀ g : Flow, g.closeReasons = f.closeReasons → (r ∈ (refuse100 g).1.closeReasons ↔ r ∈ f.closeReasons ∨ r = .not100) := by
        intro g hg
        have hp := pushReason_ok g.closeReasons .not100 (by rw [hg]; exact hnd)
        have hm := pushReason_mem_iff g.closeReasons .not100 r (by rw [hg]; exact hnd)
        unfold refuse100
        rcases hq : pushReason g.closeReasons .not100 with ⟨l, pr⟩
        rw [hq] at hp hm
        dsimp only at hp hm
        obtain ⟨hpr, _⟩ := hp; subst hpr
        dsimp only
        rw [hm, hg]
      cases hp : tryParseResponse 0 w with
      | ok v =>
        cases v with
        | none => cases r <;> simp [hp]
        | some p =>
          obtain ⟨used, resp⟩ := p
          dsimp only
          by_cases h100 : (resp.status == 100) = true
          · have : resp.status = 100 := by simpa using h100
            simp only [h100, if_true]
            split <;> cases r <;> simp [this, hp]
          · have hne : resp.status ≠ 100 := by simpa using h100
            simp only [h100, Bool.false_eq_true, if_false]
            have hh := hrf { f with await100 := false } rfl
            rw [hh]
            cases r <;> simp [hp]
            right; exact ⟨used, resp, ⟨rfl, rfl⟩, hne⟩
      | error e =>
        dsimp only
        by_cases hte : (e == Fault.api ErrKind.httpParseTooManyHeaders) = true
        · have : e = Fault.api ErrKind.httpParseTooManyHeaders := by simpa using hte
          simp only [hte, if_true]
          have hh := hrf { f with await100 := false } rfl
          rw [hh]
          cases r <;> simp [this, hp]
        · have : e ≠ Fault.api ErrKind.httpParseTooManyHeaders := by simpa using hte
          simp only [hte, Bool.false_eq_true, if_false]
          cases r <;> simp [this, hp]
  · unfold stepSendBody
    split
    · cases op <;> simp [notOffered]
    · cases op <;> simp [notOffered, enterRecvResponse] <;> (repeat' split) <;> simp_all
  · -- recvResponse
    unfold stepRecvResponse
    cases op <;> simp only [notOffered, or_false] <;> (try (simp; done))
    case resp w =>
      by_cases hh : f.holder = .recvResponse
      · have hne : (f.holder != Holder.recvResponse) = false := by simp [hh]
        simp only [hne, Bool.false_eq_true, if_false]
        rcases hq : callTryResponse hack f.call w with ⟨c1, r1⟩
        cases r1 with
        | error e => cases r <;> simp [hh, hq]
        | ok v =>
          cases v with
          | none => cases r <;> simp [hh, hq]
          | some p =>
            obtain ⟨used, resp⟩ := p
            dsimp only
            by_cases hlate : (resp.status == 100 && f.await100) = true
            · have : resp.status = 100 ∧ f.await100 = true := by simpa using hlate
              simp only [hlate, if_true]
              cases r <;> simp [hh, hq, this]
            · have hnl : ¬ (resp.status = 100 ∧ f.await100 = true) := by simpa using hlate
              simp only [hlate, Bool.false_eq_true, if_false]
              by_cases hcl : hasHdr resp.fields "connection" "close" = true
              · simp only [hcl, if_true]
                have hp := pushReason_ok f.closeReasons .serverClose hnd
                have hm := pushReason_mem_iff f.closeReasons .serverClose r hnd
                rcases hpq : pushReason f.closeReasons .serverClose with ⟨l, pr⟩
                rw [hpq] at hp hm
                dsimp only at hp hm
                obtain ⟨hpr, _⟩ := hp; subst hpr
                dsimp only
                rw [hm]
                cases r <;> simp [hh, hq]
                right; exact ⟨used, resp, ⟨rfl, rfl⟩, by simpa using hnl, hcl⟩
              · simp only [hcl, Bool.false_eq_true, if_false]
                cases r <;> simp [hh, hq, hcl]
      · have hne : (f.holder != Holder.recvResponse) = true := by simpa using hh
        simp only [hne, if_true]
        cases r <;> simp [hh]
    case proceed =>
      cases hc : f.canProceed with
      | error e => cases r <;> simp
      | ok b =>
        cases b with
        | false => cases r <;> simp
        | true =>
          dsimp only
          by_cases hn : needResponseBody f.call.reader = true
          · simp only [hn, if_true]
            by_cases hcl : f.call.reader = some .close
            · have : (f.call.reader == some BodyReader.close) = true := by simp [hcl]
              simp only [this, if_true]
              have hp := pushReason_ok f.closeReasons .closeDelimited hnd
              have hm := pushReason_mem_iff f.closeReasons .closeDelimited r hnd
              rcases hpq : pushReason f.closeReasons .closeDelimited with ⟨l, pr⟩
              rw [hpq] at hp hm
              dsimp only at hp hm
              obtain ⟨hpr, _⟩ := hp; subst hpr
              dsimp only
              rw [hm]
              cases r <;> simp [hcl]
            · have : (f.call.reader == some BodyReader.close) = false := by simpa using hcl
              simp only [this, Bool.false_eq_true, if_false]
              cases r <;> simp [hcl]
          · simp only [hn, Bool.false_eq_true, if_false]
            have hcl : f.call.reader ≠ some .close := by
              intro e; rw [e] at hn; simp [needResponseBody] at hn
            cases r <;> simp [hcl]
  · unfold stepRecvBody
    cases op <;> simp [notOffered] <;> (repeat' split) <;> simp_all
  · unfold stepRedirect
    cases op <;> simp [notOffered] <;> (repeat' split) <;> simp_all
  · unfold stepCleanup
    cases op <;> simp [notOffered]

/-- some step of the history is one of the three close events (evaluated in the flow it is applied to) -/
def eventsAlong (hack : Bool) (f : Flow) : List Op → CloseReason → Prop
  | [], _ => False
  | op :: ops, r => closeEvent hack f op r ∨ eventsAlong hack (f.step hack op).1 ops r

/-- **C10 (history).** After any sequence of permitted calls the recorded reasons are exactly those
    recorded at the start together with the close events that happened along the way: the verdict
    "must close" is the disjunction of the construction-time conditions and those events — nothing is
    ever dropped, nothing else is ever added. -/
theorem C10_history (hack : Bool) (ops : List Op) : ∀ (f : Flow), f.WF → okAlong hack f ops → ∀ r : CloseReason,
    (r ∈ (runOps hack f ops).1.closeReasons ↔ r ∈ f.closeReasons ∨ eventsAlong hack f ops r) := by
  induction ops with
  | nil => intro f _ _ r; simp [runOps, eventsAlong]
  | cons op ops ih =>
    intro f hwf hok r
    obtain ⟨_, h2⟩ := wf_step hack f op hwf hok.1
    have hstep := C10_step hack f op hwf r
    have hrest := ih (f.step hack op).1 h2 hok.2 r
    simp only [runOps, eventsAlong]
    rw [hrest, hstep]
    constructor
    · rintro ((h | h) | h)
      · exact Or.inl h
      · exact Or.inr (Or.inl h)
      · exact Or.inr (Or.inr h)
    · rintro (h | h | h)
      · exact Or.inl (Or.inl h)
      · exact Or.inl (Or.inr h)
      · exact Or.inr h

/-- **C10 (whole life of a flow).** For a flow built from a request and driven by any permitted history:
    must-close at the end iff the request is HTTP/1.0, or carries `Connection: close`, or one of the close
    events happened. -/
theorem C10_life (hack : Bool) (m : Method) (v : Version) (u : Uri) (orig : List Hdr) (ops : List Op)
    (hok : okAlong hack (Flow.new m v u orig) ops) :
    ((runOps hack (Flow.new m v u orig) ops).1.closeReasons ≠ [] ↔
      v = .h10 ∨ hasHdr orig "connection" "close" = true ∨ ∃ r, eventsAlong hack (Flow.new m v u orig) ops r) := by
  have hh := C10_history hack ops (Flow.new m v u orig) (C09_init m v u orig) hok
  constructor
  · intro hne
    obtain ⟨r, hr⟩ := List.exists_mem_of_ne_nil _ hne
    rcases (hh r).mp hr with h | h
    · rcases (C10_initial m v u orig r).mp h with ⟨_, hv⟩ | ⟨_, hc⟩
      · exact Or.inl hv
      · exact Or.inr (Or.inl hc)
    · exact Or.inr (Or.inr ⟨r, h⟩)
  · intro h
    have : ∃ r, r ∈ (runOps hack (Flow.new m v u orig) ops).1.closeReasons := by
      rcases h with hv | hc | ⟨r, hr⟩
      · exact ⟨.http10, (hh _).mpr (Or.inl ((C10_initial m v u orig _).mpr (Or.inl ⟨rfl, hv⟩)))⟩
      · exact ⟨.clientClose, (hh _).mpr (Or.inl ((C10_initial m v u orig _).mpr (Or.inr ⟨rfl, hc⟩)))⟩
      · exact ⟨r, (hh r).mpr (Or.inr hr)⟩
    obtain ⟨r, hr⟩ := this
    intro e; rw [e] at hr; cases hr

/-- **C10 (capacity).** The list never needs more than the five slots it has. -/
theorem C10_cap (f : Flow) (hwf : f.WF) : f.closeReasons.length ≤ 5 := nodup_length_le_5 _ hwf.nodup

example : CloseReason.http10 ∈ (Flow.new .get .h10 { scheme := "http", host := "a", port := none, path := "/", query := none } []).closeReasons :=
  (C10_initial _ _ _ _ _).mpr (Or.inl ⟨rfl, rfl⟩)

/-- **C10 (the prepare state decides nothing).** Whatever the caller does while the flow is in the prepare
    state — headers added (a second `Connection` field of any value among them), `send_body_despite_method`,
    queries, advancing — the list of close reasons stays exactly what `Flow::new` derived from the request as
    the caller made it (`C10_initial`). -/
theorem C10_prepare (hack : Bool) (f : Flow) (op : Op) (hs : f.st = .prepare) :
    (f.step hack op).1.closeReasons = f.closeReasons := by
  unfold Flow.step
  simp only [hs]
  unfold stepPrepare
  cases op <;> simp [notOffered] <;> (repeat' split) <;> simp_all
