import Hoot.Props.C01
import Hoot.Props.C13
import Hoot.Props.C02uniq
import Hoot.Props.C14
import Hoot.Props.C15

/-- when `as_new_flow` answers with a flow, that flow is `followFlow` of the request for a method of the table
    and a resolved target -/
theorem followRes_flow (r : AReq) (loc : Option Bytes) (status : Nat) (sameHost : Bool) (f : Flow)
    (h : followRes r loc (some status) sameHost = .flow f) :
    ∃ nm uri, newMethodOf r.method status = some nm ∧ f = followFlow r nm uri sameHost := by
  unfold followRes at h
  split at h
  · cases h
  · split at h
    · cases h
    · split at h
      · cases h
      · dsimp only at h
        split at h
        · cases h
        · cases h
        · rename_i uri _
          split at h
          · cases h
          · rename_i nm hnm
            injection h with h
            exact ⟨nm, uri, hnm, h.symm⟩

theorem getAll_nil_of_no_name (r : AReq) (key : String) (h : ∀ x ∈ r.headers, x.name ≠ key) : r.getAll key = [] := by
  unfold AReq.getAll
  rw [List.map_eq_nil_iff, List.filter_eq_nil_iff]
  intro x hx
  simp [h x hx]

/-- **C13 on the wire.** The analysed request of the flow a redirect produces — the one `C02_render` puts on
    the wire line by line — has no `Cookie` and no `Content-Length` field, and an `Authorization` field only
    under the same-host policy towards the same host over the same or a secure scheme: analysis adds nothing
    but `Host` to it. -/
theorem C13_wire (prev : AReq) (m nm : Method) (s : Nat) (uri : Uri) (sameHost : Bool)
    (hm : newMethodOf m s = some nm)
    (hok : (followFlow prev nm uri sameHost).call.analyzeRequest.2 = .ok ()) :
    (followFlow prev nm uri sameHost).call.analyzeRequest.1.req.getAll "cookie" = [] ∧
    (followFlow prev nm uri sameHost).call.analyzeRequest.1.req.getAll "content-length" = [] ∧
    ((followFlow prev nm uri sameHost).call.analyzeRequest.1.req.getAll "authorization" ≠ [] →
      sameHost = true ∧ prev.uri.host = uri.host ∧ (prev.uri.scheme = uri.scheme ∨ uri.scheme = "https")) := by
  have hnb := newMethodOf_nobody m nm s hm
  generalize hc : (followFlow prev nm uri sameHost).call = c at hok ⊢
  have hna : c.analyzed = false := by rw [← hc]; simp [followFlow, Flow.new]
  have hsk : c.skipCheck = false := by rw [← hc]; simp [followFlow, Flow.new]
  have hmeth : c.req.method.needBody = false := by rw [← hc]; simpa [followFlow, Flow.new] using hnb
  have hw0 : c.writer = BodyWriter.newNone := by rw [← hc]; simp [followFlow, Flow.new, hnb]
  have hadd : c.req.added.length + 2 ≤ MAX_EXTRA := by rw [← hc]; simp [followFlow, Flow.new, MAX_EXTRA]
  have hspec := analyzeRequest_spec c (Or.inr hadd)
  obtain ⟨_, _, _, _, _, _, _, _, _, _, _, _, hwr⟩ := hspec
  have hwn : c.analyzeRequest.1.writer = BodyWriter.newNone := hwr hsk hmeth hw0
  -- the analysed request agrees with the flow's request on every name but `host`
  have key : ∀ k : String, ("host" == k) = false → c.analyzeRequest.1.req.getAll k = c.req.getAll k := by
    intro k hk
    rw [analyzeRequest_eq c hna] at hok hwn ⊢
    cases ha : c.req.analyze c.writer c.skipCheck with
    | error e => simp [ha] at hok
    | ok info =>
      simp only [ha] at hok hwn ⊢
      rcases hq : hostStep c.req info with ⟨req1, r1⟩
      rw [hq] at hok hwn
      cases r1 with
      | error f => simp at hok
      | ok u =>
        dsimp only at hok hwn ⊢
        have hs := hostStep_spec c.req info (by rw [hq])
        rw [hq] at hs
        dsimp only at hs
        rcases hq2 : bodyStep req1 info with ⟨req2, r2⟩
        rw [hq2] at hok hwn
        cases r2 with
        | error f => simp at hok
        | ok u2 =>
          dsimp only at hwn ⊢
          have hb := bodyStep_spec req1 info (by rw [hq2])
          rw [hq2] at hb
          dsimp only at hb
          rcases hb with ⟨e, _⟩ | ⟨h, _, hbh, _, _⟩
          · rw [e]; exact hs.2 k hk
          · -- a framing header is only appended for a body; this request has none
            rw [hwn] at hbh
            simp [BodyWriter.bodyHeader, BodyWriter.newNone] at hbh
  have c13 := fun h hin => C13 prev nm uri sameHost h (by rw [hc]; exact hin)
  refine ⟨?_, ?_, ?_⟩
  · rw [key "cookie" (by decide)]
    exact getAll_nil_of_no_name _ _ (fun x hx => (c13 x hx).1)
  · rw [key "content-length" (by decide)]
    exact getAll_nil_of_no_name _ _ (fun x hx => (c13 x hx).2.1)
  · rw [key "authorization" (by decide)]
    intro hne
    unfold AReq.getAll at hne
    cases hf : c.req.headers.filter (·.name == "authorization") with
    | nil => rw [hf] at hne; simp at hne
    | cons x rest =>
      have hx : x ∈ c.req.headers.filter (·.name == "authorization") := by rw [hf]; simp
      rw [List.mem_filter] at hx
      exact (c13 x hx.1).2.2 (by simpa using hx.2)

/-- **C13 across an exchange.** In the setting of `C01_chain2` — an exchange answered by a redirect, run under
    any complete schedule, then `as_new_flow`, then the exchange of the flow it returned under any complete
    schedule — the second request as it appears on the wire is `renderHead r₂` and nothing else, and `r₂` has
    no `Cookie`, no `Content-Length`, and `Authorization` only under the same-host policy towards the original
    host over the same or a secure scheme. -/
theorem C13_exchange (hack : Bool)
    (f₁ : Flow) (r₁ : AReq) (w₁ : BodyWriter) (P₁ : Bytes) (I₁ H₁ : Head) (b₁ : BPos) (pre₁ tail₁ : Bytes)
    (X₁ : XSetup hack f₁ r₁ w₁ P₁ I₁ H₁ b₁ pre₁) (ht₁ : b₁.isClose = true → tail₁ = [])
    (sameHost : Bool) (f₂ : Flow) (hnext : followRes r₁ (lastLocation H₁.parsed.fields) (some H₁.codeVal) sameHost = .flow f₂)
    (r₂ : AReq) (w₂ : BodyWriter) (P₂ : Bytes) (I₂ H₂ : Head) (b₂ : BPos) (pre₂ tail₂ : Bytes)
    (X₂ : XSetup hack f₂ r₂ w₂ P₂ I₂ H₂ b₂ pre₂) (ht₂ : b₂.isClose = true → tail₂ = [])
    (σ₁ σ₂ : List IoStep) (hσ₁ : ∀ s ∈ σ₁, H₁.safeWin hack s.m) (hσ₂ : ∀ s ∈ σ₂, H₂.safeWin hack s.m)
    (hd₁ : recvDone (xRun hack P₁ (pre₁ ++ (H₁.enc ++ b₁.enc ++ tail₁)) f₁ σ₁).1 = true)
    (hd₂ : recvDone (xRun hack P₂ (pre₂ ++ (H₂.enc ++ b₂.enc ++ tail₂)) f₂ σ₂).1 = true) :
    ((xRun hack P₁ (pre₁ ++ (H₁.enc ++ b₁.enc ++ tail₁)) f₁ σ₁).1.asNewFlow sameHost).2 = .flow f₂ ∧
    (xRun hack P₂ (pre₂ ++ (H₂.enc ++ b₂.enc ++ tail₂)) f₂ σ₂).2.1.wire = renderHead r₂ ∧
    r₂.getAll "cookie" = [] ∧ r₂.getAll "content-length" = [] ∧
    ∃ uri, f₂.call.req.uriOverride = some uri ∧
      (r₂.getAll "authorization" ≠ [] →
        sameHost = true ∧ r₁.uri.host = uri.host ∧ (r₁.uri.scheme = uri.scheme ∨ uri.scheme = "https")) := by
  obtain ⟨hflow, hout⟩ := C01_chain2 hack f₁ r₁ w₁ P₁ I₁ H₁ b₁ pre₁ tail₁ X₁ ht₁ sameHost f₂ hnext r₂ w₂ P₂ I₂ H₂ b₂ pre₂ tail₂ X₂ ht₂
    σ₁ σ₂ hσ₁ hσ₂ hd₁
  obtain ⟨hspec, _, _⟩ := hout hd₂
  obtain ⟨nm, uri, hnm, hf₂⟩ := followRes_flow r₁ _ _ sameHost f₂ hnext
  subst hf₂
  have hreq := X₂.send.hreq
  have hwire := C13_wire r₁ r₁.method nm H₁.codeVal uri sameHost hnm X₂.send.han
  rw [hreq] at hwire
  -- the redirected request has no body: the wire is the rendered head alone
  have hw₂ : w₂ = BodyWriter.newNone := by
    have hnb := newMethodOf_nobody r₁.method nm H₁.codeVal hnm
    rcases X₂.send.hkind with h | h
    · exact h.2.2.1
    · have : (followFlow r₁ nm uri sameHost).holder = .withoutBody := by simp [followFlow, Flow.new, hnb]
      rw [this] at h; cases h.1
  refine ⟨hflow, ?_, hwire.1, hwire.2.1, uri, by simp [followFlow], hwire.2.2⟩
  unfold SendSpec at hspec
  rw [hw₂] at hspec
  exact hspec

/-- **C14 / C15 across an exchange.** After an exchange run under any complete schedule: if `as_new_flow`
    returns a flow, its URI is the RFC 3986 resolution of the last `Location` field of the response head the
    server sent, against the effective URI of the request that was on the wire, and its method is the method
    table's entry for that request's method and the response's status; if it returns nothing, the table says
    "do not follow". -/
theorem C14_C15_exchange (hack : Bool) (f0 : Flow) (r : AReq) (wr0 : BodyWriter) (P : Bytes) (I H : Head) (b0 : BPos)
    (tail pre : Bytes) (X : XSetup hack f0 r wr0 P I H b0 pre) (htail : b0.isClose = true → tail = []) (σ : List IoStep)
    (hσ : ∀ s ∈ σ, H.safeWin hack s.m) (hd : recvDone (xRun hack P (pre ++ (H.enc ++ b0.enc ++ tail)) f0 σ).1 = true)
    (sameHost : Bool) :
    (∀ nf, ((xRun hack P (pre ++ (H.enc ++ b0.enc ++ tail)) f0 σ).1.asNewFlow sameHost).2 = .flow nf →
      (∃ locB loc, lastLocation H.parsed.fields = some locB ∧ toStr? locB = some loc ∧
        resolve r.effUri (String.ofList (loc.map fun b => Char.ofNat b.toNat)) = .ok nf.call.req.effUri) ∧
      tableSpec r.method H.codeVal = some nf.call.req.method) ∧
    (((xRun hack P (pre ++ (H.enc ++ b0.enc ++ tail)) f0 σ).1.asNewFlow sameHost).2 = .none →
      tableSpec r.method H.codeVal = none) := by
  obtain ⟨h1, h2, h3⟩ := C01_redirect_state hack f0 r wr0 P I H b0 tail pre X htail σ hσ hd
  have c15 := C15_follow (xRun hack P (pre ++ (H.enc ++ b0.enc ++ tail)) f0 σ).1 sameHost H.codeVal h3
  rw [h1] at c15
  refine ⟨fun nf hnf => ⟨?_, c15.1 nf hnf⟩, c15.2⟩
  have c14 := C14_current (xRun hack P (pre ++ (H.enc ++ b0.enc ++ tail)) f0 σ).1 sameHost nf hnf
  rw [h1, h2] at c14
  exact c14

/-! non-vacuity (evaluated): `GET http://a/` with `Cookie` and `Authorization`, answered `302 Location: /n`; the
    request of the next hop under a tiny-buffer schedule: no Cookie; Authorization only under same-host -/
def xNewCred : Flow := Flow.new .get .h11 d10Call.req.uri
  [{ name := "cookie", value := "c=1".toUTF8.toList }, { name := "authorization", value := "s".toUTF8.toList }]
def xHopCred (sh : Bool) : Hop := { xHop1 with r := xNewCred.call.analyzeRequest.1.req, sameHost := sh }
def secondWire (sh : Bool) : Bytes :=
  match ((xRun true [] (xHopCred sh).stream xNewCred xSafe302).1.asNewFlow sh).2 with
  | .flow g => (xRun true [] xStream g xTiny).2.1.wire
  | _ => []
#guard (xRun true [] (xHopCred false).stream xNewCred xSafe302).2.1.wire ==
  "GET / HTTP/1.1\r\nhost: a\r\ncookie: c=1\r\nauthorization: s\r\n\r\n".toUTF8.toList
#guard secondWire false == "GET /n HTTP/1.1\r\nhost: a\r\n\r\n".toUTF8.toList
#guard secondWire true == "GET /n HTTP/1.1\r\nhost: a\r\nauthorization: s\r\n\r\n".toUTF8.toList

/-! ## C15 along a real chain of exchanges (`ChainOK`, Props/C01): the method hop by hop -/

theorem setHeader_method (r : AReq) (h : Hdr) : (r.setHeader h).1.method = r.method := by
  unfold AReq.setHeader; split <;> rfl

theorem ite_setHeader_method (b : Bool) (r : AReq) (h : Hdr) :
    (if b then r.setHeader h else (r, Except.ok ())).1.method = r.method := by
  split
  · exact setHeader_method r h
  · rfl

theorem bodyHeader_method (b : Bool) (o : Option Hdr) (r : AReq) :
    (if b then (match o with | some h => r.setHeader h | none => (r, Except.ok ())) else (r, Except.ok ())).1.method = r.method := by
  split
  · cases o with
    | none => rfl
    | some h => exact setHeader_method r h
  · rfl

/-- request analysis never touches the method -/
theorem analyzeRequest_method (c : CallSt) : c.analyzeRequest.1.req.method = c.req.method := by
  unfold CallSt.analyzeRequest
  split
  · rfl
  · split
    · rfl
    · rename_i info _
      have h1 := ite_setHeader_method (!info.reqHostHeader) c.req { name := "host", value := strBytes c.req.effUri.host }
      generalize (if (!info.reqHostHeader) = true then c.req.setHeader { name := "host", value := strBytes c.req.effUri.host } else (c.req, Except.ok ())) = p1 at h1 ⊢
      obtain ⟨req1, r1⟩ := p1
      simp only [] at h1 ⊢
      cases r1 with
      | error f => exact h1
      | ok u =>
        simp only []
        have h2 := bodyHeader_method (!info.reqBodyHeader && info.bodyMode.hasBody) info.bodyMode.bodyHeader req1
        generalize (if (!info.reqBodyHeader && info.bodyMode.hasBody) = true then (match info.bodyMode.bodyHeader with | some h => req1.setHeader h | none => (req1, Except.ok ())) else (req1, Except.ok ())) = p2 at h2 ⊢
        obtain ⟨req2, r2⟩ := p2
        simp only [] at h2 ⊢
        cases r2 with
        | error f => exact h2.trans h1
        | ok u => exact h2.trans h1

theorem followRes_flow_method (req : AReq) (location : Option Bytes) (status : Nat) (sameHost : Bool) (g : Flow)
    (h : followRes req location (some status) sameHost = .flow g) :
    newMethodOf req.method status = some g.call.req.method := by
  unfold followRes at h
  repeat' split at h
  all_goals (first | (simp at h; done) | skip)
  all_goals (simp only [FollowRes.flow.injEq] at h; subst h; simp_all [followFlow, Flow.new])

/-- the methods along a chain of hops: each hop's request has the method handed down, and the next hop's is
    the table's entry for it and the status the hop was answered with -/
def ChainMethods : Method → List Hop → Prop
  | _, [] => True
  | m, h :: rest => h.r.method = m ∧ (rest = [] ∨ ∃ m', newMethodOf m h.H.codeVal = some m' ∧ ChainMethods m' rest)

/-- **C15 (along a real chain).** In every chain of covered exchanges — any number of hops, any schedules —
    the method of each hop's request on the wire is the table's entry for the previous hop's method and the
    status the previous hop was answered with; the first hop's is the caller's. -/
theorem C15_chain_flows (hack : Bool) (hops : List Hop) : ∀ (f : Flow), ChainOK hack f hops →
    ChainMethods f.call.req.method hops := by
  induction hops with
  | nil => intro f _; trivial
  | cons h rest ih =>
    intro f hok
    obtain ⟨X, _, _, _, hnext⟩ := hok
    have hm : h.r.method = f.call.req.method := by
      rw [← X.send.hreq]; exact analyzeRequest_method f.call
    refine ⟨hm, ?_⟩
    rcases hnext with rfl | ⟨g, hg, hrest⟩
    · exact Or.inl rfl
    · refine Or.inr ⟨g.call.req.method, ?_, ih g hrest⟩
      rw [← hm]; exact followRes_flow_method _ _ _ _ _ hg

theorem ChainMethods_orig_or_get (hops : List Hop) : ∀ (m : Method), ChainMethods m hops →
    ∀ hp ∈ hops, hp.r.method = m ∨ hp.r.method = .get := by
  induction hops with
  | nil => intro m _ hp hin; cases hin
  | cons h rest ih =>
    intro m hc hp hin
    obtain ⟨hm, hnext⟩ := hc
    rcases List.mem_cons.mp hin with rfl | hin
    · exact Or.inl hm
    · rcases hnext with rfl | ⟨m', hm', hrest⟩
      · cases hin
      · rcases ih m' hrest hp hin with e | e
        · rcases newMethodOf_orig_or_get m m' _ hm' with e' | e'
          · exact Or.inl (e.trans e')
          · exact Or.inr (e.trans e')
        · exact Or.inr e

/-- **C15 (along a real chain: the caller's method or GET).** Whatever the servers answer and however the
    I/O is sliced, every request of a redirect chain carries the caller's own method or GET. -/
theorem C15_chain_flows_methods (hack : Bool) (hops : List Hop) (f : Flow) (hok : ChainOK hack f hops) :
    ∀ hp ∈ hops, hp.r.method = f.call.req.method ∨ hp.r.method = .get :=
  ChainMethods_orig_or_get hops _ (C15_chain_flows hack hops f hok)

theorem ChainMethods_get (hops : List Hop) : ChainMethods .get hops → ∀ hp ∈ hops, hp.r.method = .get := by
  intro h hp hin
  rcases ChainMethods_orig_or_get hops .get h hp hin with e | e <;> exact e

/-- **C15 (along a real chain: never replayed).** If the caller's request is a POST, PUT, PATCH or DELETE, every
    request after the first hop of the chain is a GET. -/
theorem C15_chain_flows_no_replay (hack : Bool) (h : Hop) (rest : List Hop) (f : Flow) (hok : ChainOK hack f (h :: rest))
    (hm : f.call.req.method.needBody = true ∨ f.call.req.method = .delete) :
    ∀ hp ∈ rest, hp.r.method = .get := by
  obtain ⟨_, hnext⟩ := C15_chain_flows hack (h :: rest) f hok
  rcases hnext with rfl | ⟨m', hm', hrest⟩
  · intro hp hin; cases hin
  · have : m' = .get := C15_chain_unsafe_to_get f.call.req.method m' h.H.codeVal [] hm (by simp [chainMethod, hm'])
    subst this
    exact ChainMethods_get rest hrest
