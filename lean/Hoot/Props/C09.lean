import Hoot.Model.Uri
import Hoot.Proofs.FlowWF
import Hoot.Props.C06

/-! # C09 — flows follow the documented state graph; readiness agrees with advancing

`Flow.step` is the whole public API of the eight typestates (one function per state in Model/Flow.lean);
`Flow.WF` (Proofs/PropsWF.lean) is the invariant: holder variant matches the typestate, body-due flag
matches the holder, writer/reader present where the state needs them, list capacities respected.
`Op.okFor` are the three protocol rules beyond the types: at most 61 caller-added headers (the documented
budget of 64 minus the up to two headers the library adds, with one to spare),
`try_read_100` only while `can_keep_await_100()` is true. A second `as_new_flow` on the same redirect
flow is the recorded finding D11 (`C09_D11_witness`). -/

/-- run a call history; collects the results -/
def runOps (hack : Bool) (f : Flow) : List Op → Flow × List Res
  | [] => (f, [])
  | op :: ops => ((runOps hack (f.step hack op).1 ops).1, (f.step hack op).2 :: (runOps hack (f.step hack op).1 ops).2)

/-- every op of the history respects the protocol rules in the state it is applied to -/
def okAlong (hack : Bool) (f : Flow) : List Op → Prop
  | [] => True
  | op :: ops => op.okFor f ∧ okAlong hack (f.step hack op).1 ops

theorem C09_init (m : Method) (v : Version) (u : Uri) (orig : List Hdr) : (Flow.new m v u orig).WF :=
  Flow.new_wf m v u orig

/-- **C09 (no panic, always usable).** Any sequence of permitted calls — every operation of every state,
    with arbitrary bytes and buffer sizes, premature advance attempts included — never panics, and the
    flow it leaves is well-formed, i.e. every operation of its (possibly new) state is again defined. -/
theorem C09_history (hack : Bool) (ops : List Op) : ∀ (f : Flow), f.WF → okAlong hack f ops →
    (∀ r ∈ (runOps hack f ops).2, noPanic r) ∧ (runOps hack f ops).1.WF := by
  induction ops with
  | nil => intro f hwf _; exact ⟨by simp [runOps], hwf⟩
  | cons op ops ih =>
    intro f hwf hok
    obtain ⟨h1, h2⟩ := wf_step hack f op hwf hok.1
    obtain ⟨g1, g2⟩ := ih (f.step hack op).1 h2 hok.2
    refine ⟨?_, g2⟩
    intro r hr
    simp only [runOps, List.mem_cons] at hr
    rcases hr with e | hr
    · rw [e]; exact h1
    · exact g1 r hr

/-- **C09 (readiness).** In each state with a readiness query, advancing yields a successor exactly when
    the query is true, and nothing (flow unchanged) exactly when it is false. -/
theorem C09_ready (hack : Bool) (f : Flow) (hwf : f.WF)
    (hs : f.st = .sendRequest ∨ f.st = .sendBody ∨ f.st = .recvResponse ∨ f.st = .recvBody) :
    (f.canProceed = .ok false → f.step hack .proceed = (f, .none)) ∧
    (f.canProceed = .ok true → ∃ s, (f.step hack .proceed).2 = .state s ∧ (f.step hack .proceed).1.st = s) := by
  have hnp := wf_step hack f .proceed hwf (by simp [Op.okFor])
  obtain ⟨a1, a2, a3, a4, a5, a6, a6', a7, a8, a9, a10, a11, a12, a13, a14, a15⟩ := hwf
  unfold Flow.step at hnp ⊢
  rcases hs with hs | hs | hs | hs <;> simp only [hs] at hnp ⊢
  · constructor
    · intro hc; unfold stepSendRequest; simp [hc]
    · intro hc
      have hhold : f.holder = .withoutBody ∨ f.holder = .withBody := by simpa [holderOk, hs] using a1
      unfold stepSendRequest; simp only [hc]
      by_cases hsb : f.shouldSendBody = true
      · simp only [hsb, if_true]
        by_cases haw : f.await100 = true
        · simp [haw]
        · simp only [haw, Bool.false_eq_true, if_false]
          have hwb : f.holder = .withBody := (a2 (Or.inr hs)).mp hsb
          have hphase : f.call.phase = .sendBody := by
            unfold Flow.canProceed at hc; simp [hs, hwb] at hc; exact hc
          have han : f.call.analyzed = true := a6' (by rw [hphase]; simp)
          unfold enterSendBody CallSt.analyzeRequest; simp [han]
      · have hnb : f.holder = .withoutBody := by
          rcases hhold with h | h
          · exact h
          · exact absurd ((a2 (Or.inr hs)).mpr h) hsb
        have hw := (a7 hnb).2.2
        simp [hsb, hnb, hw, BodyWriter.newNone, enterRecvResponse]
  · constructor
    · intro hc
      have hhold : f.holder = .withBody := by simpa [holderOk, hs] using a1
      unfold stepSendBody; simp [hc, hhold]
    · intro hc
      have hhold : f.holder = .withBody := by simpa [holderOk, hs] using a1
      unfold stepSendBody; simp [hc, hhold, enterRecvResponse]
  · constructor
    · intro hc; unfold stepRecvResponse; simp [hc]
    · intro hc
      have hp := pushReason_ok f.closeReasons .closeDelimited a3
      unfold stepRecvResponse; simp only [hc]
      split
      · split
        · rcases hq : pushReason f.closeReasons .closeDelimited with ⟨l, r⟩
          rw [hq] at hp; dsimp only at hp; obtain ⟨hr, _⟩ := hp; subst hr
          exact ⟨.recvBody, rfl, rfl⟩
        · exact ⟨.recvBody, rfl, rfl⟩
      · exact ⟨_, rfl, rfl⟩
  · constructor
    · intro hc; unfold stepRecvBody; simp [hc]
    · intro hc; unfold stepRecvBody; simp only [hc]; exact ⟨_, rfl, rfl⟩

/-- the documented graph: the successor as a function of what has been sent and received -/
def graphSpec (f : Flow) : FState :=
  match f.st with
  | .prepare => .sendRequest
  | .sendRequest => if f.shouldSendBody then (if f.await100 then .await100 else .sendBody) else .recvResponse
  | .await100 => if f.shouldSendBody then .sendBody else .recvResponse
  | .sendBody => .recvResponse
  | .recvResponse =>
    if needResponseBody f.call.reader then .recvBody else if isRedirectStatus f.status then .redirect else .cleanup
  | .recvBody => if isRedirectStatus f.status then .redirect else .cleanup
  | .redirect => .cleanup
  | .cleanup => .cleanup

/-- **C09 (edges).** Whenever advancing yields a state, it is the one the graph prescribes. -/
theorem C09_edges (hack : Bool) (f : Flow) (s : FState) (h : (f.step hack .proceed).2 = .state s) : s = graphSpec f := by
  unfold Flow.step at h
  unfold graphSpec
  cases hs : f.st <;> simp only [hs] at h ⊢
  · unfold stepPrepare at h; simp at h; exact h.symm
  · unfold stepSendRequest at h
    cases hc : f.canProceed with
    | error e => simp [hc] at h
    | ok b =>
      cases b with
      | false => simp [hc] at h
      | true =>
        simp only [hc] at h
        by_cases hsb : f.shouldSendBody = true
        · simp only [hsb, if_true] at h ⊢
          by_cases haw : f.await100 = true
          · simp [haw] at h ⊢; exact h.symm
          · simp only [haw, Bool.false_eq_true, if_false] at h ⊢
            unfold enterSendBody at h
            split at h <;> simp at h; exact h.symm
        · simp only [hsb, Bool.false_eq_true, if_false] at h ⊢
          split at h
          · split at h
            · simp at h
            · unfold enterRecvResponse at h; simp at h; exact h.symm
          · simp at h
  · unfold stepAwait100 at h
    by_cases hsb : f.shouldSendBody = true
    · simp only [hsb, if_true] at h ⊢
      unfold enterSendBody at h
      split at h <;> simp at h; exact h.symm
    · simp only [hsb, Bool.false_eq_true, if_false] at h ⊢
      split at h
      · unfold enterRecvResponse at h; simp at h; exact h.symm
      · simp at h
  · unfold stepSendBody at h
    split at h
    · simp at h
    · cases hc : f.canProceed with
      | error e => simp [hc] at h
      | ok b =>
        cases b with
        | false => simp [hc] at h
        | true => simp [hc, enterRecvResponse] at h; exact h.symm
  · unfold stepRecvResponse at h
    cases hc : f.canProceed with
    | error e => simp [hc] at h
    | ok b =>
      cases b with
      | false => simp [hc] at h
      | true =>
        simp only [hc] at h
        by_cases hn : needResponseBody f.call.reader = true
        · simp only [hn, if_true] at h ⊢
          split at h
          · split at h <;> simp at h; exact h.symm
          · simp at h; exact h.symm
        · simp only [hn, Bool.false_eq_true, if_false] at h ⊢
          simp at h; exact h.symm
  · unfold stepRecvBody at h
    cases hc : f.canProceed with
    | error e => simp [hc] at h
    | ok b =>
      cases b with
      | false => simp [hc] at h
      | true => simp [hc] at h; exact h.symm
  · unfold stepRedirect at h; simp at h; exact h.symm
  · unfold stepCleanup at h; simp [notOffered] at h

/-- **C09 (following a redirect).** The flow produced by `as_new_flow` is well-formed: a complete, usable
    flow in the prepare state. -/
theorem followFlow_wf (prev : AReq) (nm : Method) (uri : Uri) (sameHost : Bool) : (followFlow prev nm uri sameHost).WF := by
  have hw := Flow.new_wf nm prev.version prev.uri prev.orig
  obtain ⟨a1, a2, a3, a4, a5, a6, a6', a7, a8, a9, a10, a11, a12, a13, a14, a15⟩ := hw
  unfold followFlow
  constructor <;> simp_all [holderOk, sendOk, Flow.new, AReq.headers]

theorem C09_follow_wf (f : Flow) (sameHost : Bool) (nf : Flow)
    (h : (f.asNewFlow sameHost).2 = FollowRes.flow nf) : nf.WF := by
  unfold Flow.asNewFlow at h
  repeat' split at h
  all_goals (first | (simp at h; done) | (simp only [FollowRes.flow.injEq] at h; subst h; exact followFlow_wf _ _ _ _))

/-- **D11 witness (evaluated).** After `as_new_flow` returned a flow, a second call on the same redirect
    flow panics (`take_request` left an empty request). -/
def d11Flow : Flow :=
  { (Flow.new .get .h11 { scheme := "http", host := "a.test", port := none, path := "/", query := none } []) with
    st := .redirect, holder := .recvBody, status := some 302, location := some "/x".toUTF8.toList,
    call := { req := { method := .get, version := .h11, uri := { scheme := "http", host := "a.test", port := none, path := "/", query := none }, orig := [] },
              writer := BodyWriter.newNone, reader := some .noBody, analyzed := true } }
#guard (match (d11Flow.asNewFlow false).2 with | .flow _ => true | _ => false)
#guard (match ((d11Flow.asNewFlow false).1.asNewFlow false).2 with | .fault (.panic _) => true | _ => false)

example : (Flow.new .post .h11 { scheme := "http", host := "a", port := none, path := "/", query := none } []).WF := C09_init _ _ _ _
