import Hoot.Model.Uri
import Hoot.Proofs.FlowWF
import Hoot.Proofs.SendFresh
import Hoot.Props.C06

/-! # C09 — flows follow the documented state graph; readiness agrees with advancing

`Flow.step` is the whole public API of the eight typestates (one function per state in Model/Flow.lean);
`Flow.WF` (Proofs/PropsWF.lean) is the invariant: holder variant matches the typestate, body-due flag
matches the holder, writer/reader present where the state needs them, list capacities respected.
`Op.okFor` are the three protocol rules beyond the types: at most 61 caller-added headers (the documented
budget of 64 minus the up to two headers the library adds, with one to spare),
`try_read_100` only while `can_keep_await_100()` is true. A second `as_new_flow` on the same redirect
flow is the recorded finding D11 (`C09_D11_witness`). -/

/-- run a call history; collects the results -/
def runOps (hack : Bool) (f : Flow) : List Op → Flow × List Res
  | [] => (f, [])
  | op :: ops => ((runOps hack (f.step hack op).1 ops).1, (f.step hack op).2 :: (runOps hack (f.step hack op).1 ops).2)

/-- every op of the history respects the protocol rules in the state it is applied to -/
def okAlong (hack : Bool) (f : Flow) : List Op → Prop
  | [] => True
  | op :: ops => op.okFor f ∧ okAlong hack (f.step hack op).1 ops

theorem C09_init (m : Method) (v : Version) (u : Uri) (orig : List Hdr) : (Flow.new m v u orig).WF :=
  Flow.new_wf m v u orig

/-- **C09 (no panic, always usable).** Any sequence of permitted calls — every operation of every state,
    with arbitrary bytes and buffer sizes, premature advance attempts included — never panics, and the
    flow it leaves is well-formed, i.e. every operation of its (possibly new) state is again defined. -/
theorem C09_history (hack : Bool) (ops : List Op) : ∀ (f : Flow), f.WF → okAlong hack f ops →
    (∀ r ∈ (runOps hack f ops).2, noPanic r) ∧ (runOps hack f ops).1.WF := by
  induction ops with
  | nil => intro f hwf _; exact ⟨by simp [runOps], hwf⟩
  | cons op ops ih =>
    intro f hwf hok
    obtain ⟨h1, h2⟩ := wf_step hack f op hwf hok.1
    obtain ⟨g1, g2⟩ := ih (f.step hack op).1 h2 hok.2
    refine ⟨?_, g2⟩
    intro r hr
    simp only [runOps, List.mem_cons] at hr
    rcases hr with e | hr
    · rw [e]; exact h1
    · exact g1 r hr

/-- **C09 (readiness).** In each state with a readiness query, advancing yields a successor exactly when
    the query is true, and nothing (flow unchanged) exactly when it is false. -/
theorem C09_ready (hack : Bool) (f : Flow) (hwf : f.WF)
    (hs : f.st = .sendRequest ∨ f.st = .sendBody ∨ f.st = .recvResponse ∨ f.st = .recvBody) :
    (f.canProceed = .ok false → f.step hack .proceed = (f, .none)) ∧
    (f.canProceed = .ok true → ∃ s, (f.step hack .proceed).2 = .state s ∧ (f.step hack .proceed).1.st = s) := by
  have hnp := wf_step hack f .proceed hwf (by simp [Op.okFor])
  obtain ⟨a1, a2, a3, a4, a5, a6, a6', a7, a8, a9, a10, a11, a12, a13, a14, a15⟩ := hwf
  unfold Flow.step at hnp ⊢
  rcases hs with hs | hs | hs | hs <;> simp only [hs] at hnp ⊢
  · constructor
    · intro hc; unfold stepSendRequest; simp [hc]
    · intro hc
      have hhold : f.holder = .withoutBody ∨ f.holder = .withBody := by simpa [holderOk, hs] using a1
      unfold stepSendRequest; simp only [hc]
      by_cases hsb : f.shouldSendBody = true
      · simp only [hsb, if_true]
        by_cases haw : f.await100 = true
        · simp [haw]
        · simp only [haw, Bool.false_eq_true, if_false]
          have hwb : f.holder = .withBody := (a2 (Or.inr hs)).mp hsb
          have hphase : f.call.phase = .sendBody := by
            unfold Flow.canProceed at hc; simp [hs, hwb] at hc; exact hc
          have han : f.call.analyzed = true := a6' (by rw [hphase]; simp)
          unfold enterSendBody CallSt.analyzeRequest; simp [han]
      · have hnb : f.holder = .withoutBody := by
          rcases hhold with h | h
          · exact h
          · exact absurd ((a2 (Or.inr hs)).mpr h) hsb
        have hw := (a7 hnb).2.2
        simp [hsb, hnb, hw, BodyWriter.newNone, enterRecvResponse]
  · constructor
    · intro hc
      have hhold : f.holder = .withBody := by simpa [holderOk, hs] using a1
      unfold stepSendBody; simp [hc, hhold]
    · intro hc
      have hhold : f.holder = .withBody := by simpa [holderOk, hs] using a1
      unfold stepSendBody; simp [hc, hhold, enterRecvResponse]
  · constructor
    · intro hc; unfold stepRecvResponse; simp [hc]
    · intro hc
      have hp := pushReason_ok f.closeReasons .closeDelimited a3
      unfold stepRecvResponse; simp only [hc]
      split
      · split
        · rcases hq : pushReason f.closeReasons .closeDelimited with ⟨l, r⟩
          rw [hq] at hp; dsimp only at hp; obtain ⟨hr, _⟩ := hp; subst hr
          exact ⟨.recvBody, rfl, rfl⟩
        · exact ⟨.recvBody, rfl, rfl⟩
      · exact ⟨_, rfl, rfl⟩
  · constructor
    · intro hc; unfold stepRecvBody; simp [hc]
    · intro hc; unfold stepRecvBody; simp only [hc]; exact ⟨_, rfl, rfl⟩

/-- the documented graph: the successor as a function of what has been sent and received -/
def graphSpec (f : Flow) : FState :=
  match f.st with
  | .prepare => .sendRequest
  | .sendRequest => if f.shouldSendBody then (if f.await100 then .await100 else .sendBody) else .recvResponse
  | .await100 => if f.shouldSendBody then .sendBody else .recvResponse
  | .sendBody => .recvResponse
  | .recvResponse =>
    if needResponseBody f.call.reader then .recvBody else if isRedirectStatus f.status then .redirect else .cleanup
  | .recvBody => if isRedirectStatus f.status then .redirect else .cleanup
  | .redirect => .cleanup
  | .cleanup => .cleanup

/-- **C09 (edges).** Whenever advancing yields a state, it is the one the graph prescribes. -/
theorem C09_edges (hack : Bool) (f : Flow) (s : FState) (h : (f.step hack .proceed).2 = .state s) : s = graphSpec f := by
  unfold Flow.step at h
  unfold graphSpec
  cases hs : f.st <;> simp only [hs] at h ⊢
  · unfold stepPrepare at h; simp at h; exact h.symm
  · unfold stepSendRequest at h
    cases hc : f.canProceed with
    | error e => simp [hc] at h
    | ok b =>
      cases b with
      | false => simp [hc] at h
      | true =>
        simp only [hc] at h
        by_cases hsb : f.shouldSendBody = true
        · simp only [hsb, if_true] at h ⊢
          by_cases haw : f.await100 = true
          · simp [haw] at h ⊢; exact h.symm
          · simp only [haw, Bool.false_eq_true, if_false] at h ⊢
            unfold enterSendBody at h
            split at h <;> simp at h; exact h.symm
        · simp only [hsb, Bool.false_eq_true, if_false] at h ⊢
          split at h
          · split at h
            · simp at h
            · unfold enterRecvResponse at h; simp at h; exact h.symm
          · simp at h
  · unfold stepAwait100 at h
    by_cases hsb : f.shouldSendBody = true
    · simp only [hsb, if_true] at h ⊢
      unfold enterSendBody at h
      split at h <;> simp at h; exact h.symm
    · simp only [hsb, Bool.false_eq_true, if_false] at h ⊢
      split at h
      · unfold enterRecvResponse at h; simp at h; exact h.symm
      · simp at h
  · unfold stepSendBody at h
    split at h
    · simp at h
    · cases hc : f.canProceed with
      | error e => simp [hc] at h
      | ok b =>
        cases b with
        | false => simp [hc] at h
        | true => simp [hc, enterRecvResponse] at h; exact h.symm
  · unfold stepRecvResponse at h
    cases hc : f.canProceed with
    | error e => simp [hc] at h
    | ok b =>
      cases b with
      | false => simp [hc] at h
      | true =>
        simp only [hc] at h
        by_cases hn : needResponseBody f.call.reader = true
        · simp only [hn, if_true] at h ⊢
          split at h
          · split at h <;> simp at h; exact h.symm
          · simp at h; exact h.symm
        · simp only [hn, Bool.false_eq_true, if_false] at h ⊢
          simp at h; exact h.symm
  · unfold stepRecvBody at h
    cases hc : f.canProceed with
    | error e => simp [hc] at h
    | ok b =>
      cases b with
      | false => simp [hc] at h
      | true => simp [hc] at h; exact h.symm
  · unfold stepRedirect at h; simp at h; exact h.symm
  · unfold stepCleanup at h; simp [notOffered] at h

/-- `Unsent` (Proofs/SendFresh.lean) holds after every history from a well-formed start that has it -/
theorem unsent_history (hack : Bool) (ops : List Op) : ∀ (f : Flow), f.WF → Unsent f → okAlong hack f ops →
    Unsent (runOps hack f ops).1 := by
  induction ops with
  | nil => intro f _ hu _; exact hu
  | cons op ops ih =>
    intro f hwf hu hok
    have hwf' := (wf_step hack f op hwf hok.1).2
    have hu' : Unsent (f.step hack op).1 := by
      by_cases hp : f.preBody
      · exact unsent_step hack f op hwf hu hp
      · intro _ hpre; exact absurd hpre (step_not_preBody hack f op hp)
    exact ih _ hwf' hu' hok.2

/-- **C09 (a flow that advanced is fully usable in its new state — the body state).** After ANY history of
    permitted calls on a fresh flow — header additions, send-body-despite-method, any number of head writes
    including further ones after the head is complete (D12), readiness queries, premature advance attempts,
    `try_read_100` on arbitrary bytes — the step that enters the body state hands over a body writer that has not
    ended: the body state's readiness query is false, so advancing from it yields nothing (`C09_ready`) until the
    caller has written, reported or ended the body there. -/
theorem C09_body_state_fresh (hack : Bool) (m : Method) (v : Version) (u : Uri) (orig : List Hdr) (ops : List Op)
    (hok : okAlong hack (Flow.new m v u orig) ops)
    (he : ((runOps hack (Flow.new m v u orig) ops).1.step hack .proceed).2 = .state .sendBody) :
    ((runOps hack (Flow.new m v u orig) ops).1.step hack .proceed).1.st = .sendBody ∧
    ((runOps hack (Flow.new m v u orig) ops).1.step hack .proceed).1.call.writer.ended = false ∧
    ((runOps hack (Flow.new m v u orig) ops).1.step hack .proceed).1.canProceed = .ok false ∧
    (((runOps hack (Flow.new m v u orig) ops).1.step hack .proceed).1.step hack .proceed).2 = .none := by
  have hwf := (C09_history hack ops _ (Flow.new_wf m v u orig) hok).2
  have hu := unsent_history hack ops _ (Flow.new_wf m v u orig) (Flow.new_unsent m v u orig) hok
  generalize (runOps hack (Flow.new m v u orig) ops).1 = f at hwf hu he ⊢
  -- only SendRequest and Await100 have an edge into the body state, and only with the with-body holder
  have hedge := C09_edges hack f .sendBody he
  have hpre : f.preBody ∧ f.holder = .withBody := by
    have hh := hwf.holder
    have hsd := hwf.send
    unfold graphSpec at hedge
    unfold holderOk at hh
    unfold sendOk at hsd
    unfold Flow.preBody
    cases hs : f.st <;> rw [hs] at hedge hh hsd <;> simp only at hedge hh
    · cases hedge
    · by_cases hb : f.shouldSendBody = true
      · exact ⟨Or.inr (Or.inl rfl), (hsd (Or.inr rfl)).mp hb⟩
      · simp [hb] at hedge
    · exact ⟨Or.inr (Or.inr rfl), hh⟩
    · cases hedge
    · (repeat' split at hedge) <;> cases hedge
    · split at hedge <;> cases hedge
    · cases hedge
    · cases hedge
  obtain ⟨h1, _, h3, h4⟩ := enter_sendBody_fresh hack f hu hpre.1 hpre.2 he
  have hwf2 := (wf_step hack f .proceed hwf (by simp [Op.okFor])).2
  exact ⟨h1, h3, h4, by rw [(C09_ready hack _ hwf2 (Or.inr (Or.inl h1))).1 h4]⟩

/-- **C09 (following a redirect).** The flow produced by `as_new_flow` is well-formed: a complete, usable
    flow in the prepare state. -/
theorem followFlow_wf (prev : AReq) (nm : Method) (uri : Uri) (sameHost : Bool) : (followFlow prev nm uri sameHost).WF := by
  have hw := Flow.new_wf nm prev.version prev.uri prev.orig
  obtain ⟨a1, a2, a3, a4, a5, a6, a6', a7, a8, a9, a10, a11, a12, a13, a14, a15⟩ := hw
  unfold followFlow
  constructor <;> simp_all [holderOk, sendOk, Flow.new, AReq.headers]

theorem C09_follow_wf (f : Flow) (sameHost : Bool) (nf : Flow)
    (h : (f.asNewFlow sameHost).2 = FollowRes.flow nf) : nf.WF := by
  unfold Flow.asNewFlow at h
  repeat' split at h
  all_goals (first | (simp at h; done) | (simp only [FollowRes.flow.injEq] at h; subst h; exact followFlow_wf _ _ _ _))

/-- **D11 witness (evaluated).** After `as_new_flow` returned a flow, a second call on the same redirect
    flow panics (`take_request` left an empty request). -/
def d11Flow : Flow :=
  { (Flow.new .get .h11 { scheme := "http", host := "a.test", port := none, path := "/", query := none } []) with
    st := .redirect, holder := .recvBody, status := some 302, location := some "/x".toUTF8.toList,
    call := { req := { method := .get, version := .h11, uri := { scheme := "http", host := "a.test", port := none, path := "/", query := none }, orig := [] },
              writer := BodyWriter.newNone, reader := some .noBody, analyzed := true } }
#guard (match (d11Flow.asNewFlow false).2 with | .flow _ => true | _ => false)
#guard (match ((d11Flow.asNewFlow false).1.asNewFlow false).2 with | .fault (.panic _) => true | _ => false)

example : (Flow.new .post .h11 { scheme := "http", host := "a", port := none, path := "/", query := none } []).WF := C09_init _ _ _ _

-- the hypotheses of `C09_body_state_fresh` are met by a history that writes the head twice (the D12 shape):
-- POST without framing headers, head written, written again, then advance (evaluated, not kernel-reduced)
def c09FreshExample : Bool :=
  let u : Uri := { scheme := "http", host := "a.test", port := none, path := "/p", query := none }
  let f := (runOps false (Flow.new .post .h11 u []) [.proceed, .write 1000, .write 1000, .canProceed]).1
  match f.step false .proceed with
  | (f', .state .sendBody) => (match f'.canProceed with | .ok false => true | _ => false) && !f'.call.writer.ended
  | _ => false
#guard c09FreshExample
