import Hoot.Model.Flow
import Hoot.Proofs.PropsHead

/-! # C02 — request head on the wire is well-formed and faithful to the request

`writePrelude` is call.rs `try_write_prelude` (both `Call::write`s use it, `Flow<SendRequest>::write`
delegates to them). `headUnits r` are the units it emits atomically: the request line, one unit per
effective header, the blank line glued to the last header; `renderHead r` is the head the property
describes. `r` is the request after analysis (Host / framing header added — `analyzeRequest_spec`). -/

def headPos (c : CallSt) : Nat := phasePos c.req.headers.length c.phase

/-- **C02 (one call).** For every phase and every buffer size a call emits the maximal run of whole
    lines that fits, starting at the current position, and advances by the lines taken; it fails with
    `OutputOverflow` — emitting nothing, changing nothing — exactly when the head is incomplete and
    not even the next line fits. -/
theorem C02_step (c : CallSt) (cap : Nat) (hh : c.req.headers ≠ []) (hv : validPhase c.req.headers.length c.phase) :
    (writePrelude c { out := [], cap := cap }).2.1.out = (greedy ((headUnits c.req).drop (headPos c)) cap).flatten ∧
    headPos (writePrelude c { out := [], cap := cap }).1 = headPos c + (greedy ((headUnits c.req).drop (headPos c)) cap).length ∧
    validPhase c.req.headers.length (writePrelude c { out := [], cap := cap }).1.phase ∧
    (writePrelude c { out := [], cap := cap }).1.req = c.req ∧
    ((writePrelude c { out := [], cap := cap }).2.2 =
      if greedy ((headUnits c.req).drop (headPos c)) cap = [] ∧ headPos c ≤ c.req.headers.length
      then .error (.api .outputOverflow) else .ok ()) ∧
    (greedy ((headUnits c.req).drop (headPos c)) cap = [] → (writePrelude c { out := [], cap := cap }).1 = c) := by
  have hcount : c.req.headers.length ≠ 0 := fun e => hh (List.eq_nil_of_length_eq_zero e)
  have hul : (headerUnits c.req.headers 0 (c.req.headers.length - 1)).length = c.req.headers.length := headerUnits_length _ _ _
  cases hp : c.phase with
  | sendLine =>
    have hpos0 : headPos c = 0 := by simp [headPos, hp, phasePos]
    have hgr : greedy ((headUnits c.req).drop 0) cap =
        if (requestLine c.req).length ≤ cap then
          requestLine c.req :: greedy (headerUnits c.req.headers 0 (c.req.headers.length - 1)) (cap - (requestLine c.req).length)
        else [] := by simp [headUnits, greedy]
    rw [wp_line c cap hp hh, hpos0, hgr]
    by_cases hfit : (requestLine c.req).length ≤ cap
    · simp only [hfit, if_true]
      generalize hg : greedy (headerUnits c.req.headers 0 (c.req.headers.length - 1)) (cap - (requestLine c.req).length) = g1
      have hg1 : g1.length ≤ c.req.headers.length := by
        have := greedy_length_le (headerUnits c.req.headers 0 (c.req.headers.length - 1)) (cap - (requestLine c.req).length)
        rw [hg, hul] at this; exact this
      refine ⟨?_, ?_, ?_, ?_, ?_, ?_⟩
      · simp
      · by_cases he : g1.length = c.req.headers.length
        · simp [he, headPos, phasePos]
        · simp [he, headPos, phasePos]
      · by_cases he : g1.length = c.req.headers.length
        · simp [he, validPhase]
        · simp [he, validPhase]; omega
      · trivial
      · simp
      · simp
    · simp only [hfit, if_false]
      refine ⟨?_, ?_, ?_, ?_, ?_, ?_⟩
      · simp
      · simp [headPos, hp, phasePos]
      · simp [hp, validPhase]
      · trivial
      · simp
      · simp
  | sendHeaders idx =>
    rw [hp] at hv; simp only [validPhase] at hv
    have hposi : headPos c = idx + 1 := by simp [headPos, hp, phasePos]
    have hd : (headUnits c.req).drop (idx + 1) = headerUnits (c.req.headers.drop idx) idx (c.req.headers.length - 1) := by
      simp only [headUnits, List.drop_succ_cons]; rw [headerUnits_drop]; simp
    rw [wp_headers c idx cap hp hh, hposi, hd]
    generalize hg : greedy (headerUnits (c.req.headers.drop idx) idx (c.req.headers.length - 1)) cap = g1
    have hg1 : g1.length ≤ c.req.headers.length - idx := by
      have := greedy_length_le (headerUnits (c.req.headers.drop idx) idx (c.req.headers.length - 1)) cap
      rw [hg, headerUnits_length] at this; simpa using this
    have hposu : ∀ u ∈ headerUnits (c.req.headers.drop idx) idx (c.req.headers.length - 1), 0 < u.length := headerUnits_pos _ _ _
    refine ⟨?_, ?_, ?_, ?_, ?_, ?_⟩
    · rfl
    · by_cases he : idx + g1.length = c.req.headers.length
      · simp [he, headPos, phasePos]; omega
      · simp [he, headPos, phasePos]; omega
    · by_cases he : idx + g1.length = c.req.headers.length
      · simp [he, validPhase]
      · simp [he, validPhase]; omega
    · rfl
    · by_cases hgn : g1 = []
      · subst hgn
        have : ¬ idx = c.req.headers.length := by omega
        simp [this]; omega
      · have hfl : 0 < g1.flatten.length := by rw [← hg] at hgn ⊢; exact greedy_flatten_pos _ _ hposu hgn
        have : g1.flatten.length > 0 := hfl
        simp only [hgn, false_and, if_false]
        have h2 : (decide (g1.flatten.length > 0) || (idx + g1.length == c.req.headers.length)) = true := by
          simp; left; simpa using this
        rw [if_pos h2]
    · intro hgn; subst hgn
      have : ¬ idx = c.req.headers.length := by omega
      simp [this]
      cases c; simp_all
  | sendBody =>
    have hposb : headPos c = c.req.headers.length + 1 := by simp [headPos, hp, phasePos]
    have hd : (headUnits c.req).drop (c.req.headers.length + 1) = [] := by
      apply List.drop_eq_nil_of_le; simp [headUnits, hul]
    rw [wp_body c cap hp, hposb, hd]
    refine ⟨?_, ?_, ?_, ?_, ?_, ?_⟩
    · simp [greedy]
    · simp [greedy, hposb]
    · simp [hp, validPhase]
    · rfl
    · simp [greedy]
    · simp
  | recvResponse => rw [hp] at hv; simp [validPhase] at hv
  | recvBody => rw [hp] at hv; simp [validPhase] at hv

/-- a sequence of calls with the given buffer sizes; collects what was emitted (a failed call emits nothing) -/
def runHead (c : CallSt) : List Nat → CallSt × Bytes
  | [] => (c, [])
  | cap :: caps =>
    ((runHead (writePrelude c { out := [], cap := cap }).1 caps).1,
     (writePrelude c { out := [], cap := cap }).2.1.out ++ (runHead (writePrelude c { out := [], cap := cap }).1 caps).2)

theorem take_flatten_step (l : List Bytes) (p : Nat) (s : Nat) :
    ((l.take p).flatten ++ (greedy (l.drop p) s).flatten) = (l.take (p + (greedy (l.drop p) s).length)).flatten := by
  have hg := greedy_take (l.drop p) s
  rw [List.take_add, List.flatten_append]
  congr 1
  rw [← hg]

/-- **C02 (any schedule).** Over any sequence of output buffer sizes the bytes emitted so far are exactly
    the first `k` whole units of the head, where `k` is the position the writer has reached; so once the
    head is complete (`k` = all units) the concatenation is exactly `renderHead`, and nothing more is
    ever emitted. -/
theorem C02_schedule (caps : List Nat) : ∀ (c : CallSt), c.req.headers ≠ [] → validPhase c.req.headers.length c.phase →
    ((headUnits c.req).take (headPos c)).flatten ++ (runHead c caps).2 =
      ((headUnits c.req).take (headPos (runHead c caps).1)).flatten ∧
    (runHead c caps).1.req = c.req ∧ validPhase c.req.headers.length (runHead c caps).1.phase ∧
    headPos c ≤ headPos (runHead c caps).1 := by
  induction caps with
  | nil => intro c _ hv; simp [runHead, hv]
  | cons cap caps ih =>
    intro c hh hv
    obtain ⟨h1, h2, h3, h4, _, _⟩ := C02_step c cap hh hv
    have hh' : (writePrelude c { out := [], cap := cap }).1.req.headers ≠ [] := by rw [h4]; exact hh
    have hv' : validPhase (writePrelude c { out := [], cap := cap }).1.req.headers.length (writePrelude c { out := [], cap := cap }).1.phase := by
      rw [h4]; exact h3
    obtain ⟨g1, g2, g3, g4⟩ := ih (writePrelude c { out := [], cap := cap }).1 hh' hv'
    simp only [runHead]
    rw [h4] at g1 g2 g3
    refine ⟨?_, g2, g3, by omega⟩
    rw [← List.append_assoc, h1, take_flatten_step, ← h2]
    exact g1

/-- **C02 (complete head).** When the writer has reached the end, what was emitted since the start is
    exactly the rendered head: request line, every effective header on its own line, one empty line. -/
theorem C02_render (caps : List Nat) (c : CallSt) (hh : c.req.headers ≠ []) (hp : c.phase = .sendLine)
    (hdone : (runHead c caps).1.phase = .sendBody) : (runHead c caps).2 = renderHead c.req := by
  obtain ⟨g1, g2, _, _⟩ := C02_schedule caps c hh (by rw [hp]; trivial)
  have h0 : headPos c = 0 := by simp [headPos, hp, phasePos]
  have hend : headPos (runHead c caps).1 = c.req.headers.length + 1 := by simp [headPos, hdone, phasePos, g2]
  rw [h0, hend] at g1
  simp only [List.take_zero, List.flatten_nil, List.nil_append] at g1
  rw [g1, ← headUnits_flatten c.req hh]
  congr 1
  apply List.take_of_length_le
  simp [headUnits, headerUnits_length]

/-- **C02 (after completion).** Once the head is complete every further call emits nothing and succeeds. -/
theorem C02_after (c : CallSt) (cap : Nat) (hp : c.phase = .sendBody) :
    writePrelude c { out := [], cap := cap } = (c, { out := [], cap := cap }, .ok ()) := wp_body c cap hp

/-- non-vacuity -/
example : validPhase 2 .sendLine ∧ validPhase 2 (.sendHeaders 1) := by simp [validPhase]
