import Hoot.Model.Flow
import Hoot.Proofs.PropsWF
import Hoot.Props.C02

/-! # C17 — invalid requests are rejected before a single byte is emitted

`AReq.analyze` is amended.rs `analyze` + ext.rs `verify_version`; `wanted` is the body mode the
constructor asked for (none for `Call::without_body` / bodiless flow methods, chunked for
`Call::with_body`, body methods and `send_body_despite_method`), `skip` the escape hatch. -/

/-- the invalid classes, written from the property text -/
def AReq.invalid (r : AReq) (wanted : BodyWriter) (skip : Bool) : Bool :=
  -- a version other than HTTP/1.0 or 1.1
  (r.version != .h10 && r.version != .h11) ||
  -- a method not defined for the version
  !(r.method.isHttp10 || (r.version == .h11 && r.method.isHttp11)) ||
  -- more than one Host or Content-Length among the effective headers
  decide ((r.getAll "host").length > 1) || decide ((r.getAll "content-length").length > 1) ||
  -- a non-textual Host, a non-numeric Content-Length
  (match (r.getAll "host").head? with | some h => (toStr? h).isNone | none => false) ||
  (match (r.getAll "content-length").head? with | some h => ((toStr? h).bind parseU64).isNone | none => false) ||
  -- a body (framing header or with-body constructor) on a method that takes none, without the escape hatch
  (!skip && !r.method.needBody && (r.hasChunked || (r.getAll "content-length").head?.isSome || wanted.hasBody)) ||
  -- a body-taking method without a body
  (!skip && r.method.needBody && !(r.hasChunked || (r.getAll "content-length").head?.isSome || wanted.hasBody))

theorem bodyModeOf_hasBody (hc : Bool) (cl : Option Nat) (w : BodyWriter) :
    (bodyModeOf hc cl w).hasBody = (hc || cl.isSome || w.hasBody) := by
  unfold bodyModeOf
  cases hc <;> cases cl <;> simp [BodyWriter.hasBody, BodyWriter.newChunked, BodyWriter.newSized]

theorem verifyVersion_ok_iff (m : Method) (v : Version) :
    (verifyVersion m v = .ok ()) ↔
      ((v != .h10 && v != .h11) = false ∧ (!(m.isHttp10 || (v == .h11 && m.isHttp11))) = false) := by
  unfold verifyVersion
  cases v <;> cases m <;> simp [Method.isHttp10, Method.isHttp11]

theorem hostCheck_err_iff (r : AReq) :
    (∃ e, r.hostCheck = .error e) ↔
      (match (r.getAll "host").head? with | some h => (toStr? h).isNone | none => false) = true := by
  unfold AReq.hostCheck
  cases (r.getAll "host").head? with
  | none => simp
  | some h => cases hq : toStr? h <;> simp [hq]

theorem contentLength_err_iff (r : AReq) :
    (∃ e, r.contentLength? = .error e) ↔
      (match (r.getAll "content-length").head? with | some h => ((toStr? h).bind parseU64).isNone | none => false) = true := by
  unfold AReq.contentLength?
  cases (r.getAll "content-length").head? with
  | none => simp
  | some h =>
    simp only []
    cases hq : (toStr? h).bind parseU64 with
    | none => simp
    | some n => simp

theorem contentLength_ok_some (r : AReq) (cl : Option Nat) (h : r.contentLength? = .ok cl) :
    cl.isSome = ((r.getAll "content-length").head?).isSome := by
  unfold AReq.contentLength? at h
  cases hh : (r.getAll "content-length").head? with
  | none => rw [hh] at h; simp at h; subst h; rfl
  | some x =>
    rw [hh] at h
    simp only [] at h
    cases hp : (toStr? x).bind parseU64 with
    | none => rw [hp] at h; simp at h
    | some n => rw [hp] at h; simp at h; subst h; rfl

/-- **C17 (iff).** Request analysis fails exactly on the invalid classes. -/
theorem C17_iff (r : AReq) (wanted : BodyWriter) (skip : Bool) :
    (∃ e, r.analyze wanted skip = .error e) ↔ r.invalid wanted skip = true := by
  unfold AReq.analyze AReq.invalid
  cases hvv : verifyVersion r.method r.version with
  | error e =>
    have : ¬ (verifyVersion r.method r.version = .ok ()) := by rw [hvv]; simp
    rw [verifyVersion_ok_iff] at this
    refine ⟨fun _ => ?_, fun _ => ⟨e, rfl⟩⟩
    simp only [Bool.or_eq_true]
    by_cases h1 : (r.version != .h10 && r.version != .h11) = true
    · simp [h1]
    · have h1' : (r.version != .h10 && r.version != .h11) = false := by simpa using h1
      have h2 : (!(r.method.isHttp10 || (r.version == .h11 && r.method.isHttp11))) = true := by
        cases hq : (!(r.method.isHttp10 || (r.version == .h11 && r.method.isHttp11))) with
        | true => rfl
        | false => exact absurd ⟨h1', hq⟩ this
      simp [h2]
  | ok u =>
    have hv := (verifyVersion_ok_iff r.method r.version).mp (by rw [hvv])
    simp only [hv.1, hv.2, Bool.false_or]
    by_cases hh : (r.getAll "host").length > 1
    · simp [hh]
    · by_cases hc : (r.getAll "content-length").length > 1
      · simp [hh, hc]
      · simp only [hh, hc, if_false, decide_false, Bool.false_or]
        cases hhc : r.hostCheck with
        | error e =>
          have := (hostCheck_err_iff r).mp ⟨e, hhc⟩
          simp [this]
        | ok reqHost =>
          have hne : ¬ ∃ e, r.hostCheck = .error e := by rw [hhc]; simp
          rw [hostCheck_err_iff] at hne
          have hne' : (match (r.getAll "host").head? with | some h => (toStr? h).isNone | none => false) = false := by
            simpa using hne
          simp only [hne', Bool.false_or]
          cases hcl : r.contentLength? with
          | error e =>
            have := (contentLength_err_iff r).mp ⟨e, hcl⟩
            simp [this]
          | ok cl =>
            have hne2 : ¬ ∃ e, r.contentLength? = .error e := by rw [hcl]; simp
            rw [contentLength_err_iff] at hne2
            have hne2' : (match (r.getAll "content-length").head? with | some h => ((toStr? h).bind parseU64).isNone | none => false) = false := by
              simpa using hne2
            have hsome := contentLength_ok_some r cl hcl
            simp only [hne2', Bool.false_or, bodyModeOf_hasBody, hsome]
            cases skip <;> cases r.method.needBody <;>
              cases (r.hasChunked || ((r.getAll "content-length").head?).isSome || wanted.hasBody) <;> simp

/-- **C17 (first write, repeatably).** On an invalid request the write fails with that error, emits
    nothing and leaves the call exactly as it was — so the next attempt does the same, forever, and the
    flow never becomes ready to advance. -/
theorem C17_write_refused (c : CallSt) (hna : c.analyzed = false) (e : ErrKind)
    (h : c.req.analyze c.writer c.skipCheck = .error e) (cap : Nat) (input : Bytes) :
    c.writeNoBody cap = (c, .error (.api e)) ∧ c.writeBody input cap = (c, .error (.api e)) := by
  have ha : c.analyzeRequest = (c, .error (.api e)) := by
    unfold CallSt.analyzeRequest; simp [hna, h]
  unfold CallSt.writeNoBody CallSt.writeBody
  simp [ha]

theorem C17_never_ready (f : Flow) (hs : f.st = .sendRequest) (hp : f.call.phase = .sendLine)
    (hh : f.holder = .withoutBody ∨ f.holder = .withBody) : f.canProceed = .ok false := by
  unfold Flow.canProceed
  rcases hh with h | h <;> simp [hs, h, hp, Phase.isPrelude]

/-- **C17 (accepted).** Every request outside the invalid classes is accepted: the first write succeeds or
    reports `OutputOverflow` (buffer smaller than the request line), never another error, never a panic —
    within the documented budget of added headers. -/
theorem C17_accept (c : CallSt) (hna : c.analyzed = false) (hp : c.phase = .sendLine)
    (hcap : c.req.added.length + 2 ≤ MAX_EXTRA)
    (hvalid : c.req.invalid c.writer c.skipCheck = false) (cap : Nat) :
    (c.writeNoBody cap).2 = .error (.api .outputOverflow) ∨ ∃ out, (c.writeNoBody cap).2 = .ok out := by
  have hok : ∃ info, c.req.analyze c.writer c.skipCheck = .ok info := by
    cases han : c.req.analyze c.writer c.skipCheck with
    | ok info => exact ⟨info, rfl⟩
    | error e =>
      have := (C17_iff c.req c.writer c.skipCheck).mp ⟨e, han⟩
      rw [hvalid] at this; exact absurd this (by simp)
  have hspec := analyzeRequest_spec c (Or.inr hcap)
  simp only [] at hspec
  obtain ⟨hnp, hph, _, _, _, _, _, h8, h9, h10, _⟩ := hspec
  have hres : c.analyzeRequest.2 = .ok () := by
    obtain ⟨info, hi⟩ := hok
    cases hr : c.analyzeRequest.2 with
    | ok u => cases u; rfl
    | error f =>
      exfalso
      have hne : c.analyzeRequest.2 ≠ .ok () := by rw [hr]; simp
      have hsame := h10 hne
      -- an error result can only come from a failed analysis or an ArrayVec overflow: both excluded
      unfold CallSt.analyzeRequest at hr
      simp only [hna, hi] at hr
      have hc1 : c.req.added.length < MAX_EXTRA := by omega
      revert hr
      cases hh : info.reqHostHeader
      · simp only [Bool.not_false, if_true, setHeader_ok c.req _ hc1]
        cases hb : (!info.reqBodyHeader && info.bodyMode.hasBody)
        · simp
        · simp only [if_true]
          cases hbh : info.bodyMode.bodyHeader with
          | none => simp
          | some bh =>
            have hc2 : ({ c.req with added := c.req.added ++ [{ name := "host", value := strBytes c.req.effUri.host }] } : AReq).added.length < MAX_EXTRA := by
              simp; omega
            simp [setHeader_ok _ _ hc2]
      · simp only [Bool.not_true, Bool.false_eq_true, if_false]
        cases hb : (!info.reqBodyHeader && info.bodyMode.hasBody)
        · simp
        · simp only [if_true]
          cases hbh : info.bodyMode.bodyHeader with
          | none => simp
          | some bh => simp [setHeader_ok _ _ hc1]
  have hhd := h9 hres hna
  have hphase : c.analyzeRequest.1.phase = .sendLine := by rw [hph, hp]
  have hstep := C02_step c.analyzeRequest.1 cap hhd (by rw [hphase]; trivial)
  obtain ⟨_, _, _, _, hr, _⟩ := hstep
  unfold CallSt.writeNoBody
  rcases hq : c.analyzeRequest with ⟨c1, r1⟩
  rw [hq] at hres hr
  simp only [] at hres hr
  subst hres
  simp only []
  rcases hw : writePrelude c1 { out := [], cap := cap } with ⟨c2, w2, r2⟩
  rw [hw] at hr
  simp only [] at hr
  split at hr
  · left; subst hr; rfl
  · right; subst hr; exact ⟨w2.out, rfl⟩

example : ({ method := .get, version := .h2, uri := { scheme := "http", host := "a", port := none, path := "/", query := none }, orig := [] } : AReq).invalid BodyWriter.newNone false = true := by
  simp [AReq.invalid]
