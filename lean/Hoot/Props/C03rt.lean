import Hoot.Props.C03
import Hoot.Props.C07

/-! C03 round trip: what the chunked body writer emits is a well-formed coding in the sense of the
    grammar the dechunker is proved against (`V2.Rem`), with payload exactly the chunk data. -/

open V2

theorem hexDigit_facts : ∀ d : Fin 16,
    isHexB (hexDigitB d.val) = true ∧ hexValN (hexDigitB d.val).toNat = d.val ∧ hexDigitB d.val ≠ CR ∧ hexDigitB d.val ≠ 59 := by
  decide

theorem hexDigit_facts' (d : Nat) (h : d < 16) :
    isHexB (hexDigitB d) = true ∧ hexValN (hexDigitB d).toNat = d ∧ hexDigitB d ≠ CR ∧ hexDigitB d ≠ 59 :=
  hexDigit_facts ⟨d, h⟩

theorem toHexB_digits (n : Nat) : ∀ b ∈ toHexB n, isHexB b = true ∧ b ≠ CR ∧ b ≠ 59 := by
  induction n using Nat.strongRecOn with
  | _ n ih =>
    intro b hb
    rw [toHexB] at hb
    by_cases h : n < 16
    · simp only [h, dif_pos, List.mem_singleton] at hb
      subst hb
      obtain ⟨a, _, c, d⟩ := hexDigit_facts' n h
      exact ⟨a, c, d⟩
    · simp only [h, dif_neg, not_false_eq_true, List.mem_append, List.mem_singleton] at hb
      rcases hb with hb | hb
      · exact ih (n / 16) (by omega) b hb
      · subst hb
        obtain ⟨a, _, c, d⟩ := hexDigit_facts' (n % 16) (by omega)
        exact ⟨a, c, d⟩

theorem hexValue_snoc (l : Bytes) (b : UInt8) : hexValue (l ++ [b]) = hexValue l * 16 + hexValN b.toNat := by
  simp [hexValue, List.foldl_append]

theorem hexValue_toHexB (n : Nat) : hexValue (toHexB n) = n := by
  induction n using Nat.strongRecOn with
  | _ n ih =>
    rw [toHexB]
    by_cases h : n < 16
    · simp only [h, dif_pos]
      simp [hexValue, (hexDigit_facts' n h).2.1]
    · simp only [h, dif_neg, not_false_eq_true]
      rw [hexValue_snoc, ih (n / 16) (by omega), (hexDigit_facts' (n % 16) (by omega)).2.1]
      omega

theorem toHexB_ne_nil (n : Nat) : toHexB n ≠ [] := by
  rw [toHexB]; split <;> simp

theorem hexLen_le (k : Nat) : ∀ n, n < 16 ^ (k + 1) → hexLen n ≤ k + 1 := by
  induction k with
  | zero => intro n h; rw [hexLen]; simp at h; simp [h]
  | succ k ih =>
    intro n h
    rw [hexLen]
    by_cases h16 : n < 16
    · simp [h16]
    · simp only [h16, dif_neg, not_false_eq_true]
      have : n / 16 < 16 ^ (k + 1) := by
        rw [Nat.div_lt_iff_lt_mul (by omega)]
        rw [Nat.pow_succ] at h; exact h
      have := ih (n / 16) this
      omega

/-- the size line the writer produces for a chunk of `n` bytes -/
def wLine (n : Nat) : SizeLine := { digits := toHexB n, ext := [], val := n }

theorem wLine_wf (n : Nat) (h : n ≤ USIZE_MAX) : (wLine n).wf := by
  refine ⟨toHexB_ne_nil n, ?_, ?_, Or.inl rfl, by simp [wLine], ?_⟩
  · have := parseSizeField_hex (toHexB n) (toHexB_ne_nil n) (fun b hb => (toHexB_digits n b hb).1)
      (by rw [hexValue_toHexB]; exact h)
    rw [hexValue_toHexB] at this
    exact this
  · intro x hx; exact (toHexB_digits n x hx).2
  · simp only [wLine, List.length_nil, Nat.add_zero]
    rw [toHexB_length]
    have : n < 16 ^ (15 + 1) := by unfold USIZE_MAX at h; omega
    have := hexLen_le 15 n this
    omega

def wChunk (c : Bytes) : Chunk := { line := wLine c.length, data := c }

theorem wChunk_enc (c : Bytes) : (wChunk c).enc = frame c := by
  simp [wChunk, Chunk.enc, SizeLine.enc, wLine, frame, crlf, CR, LF]

theorem wChunk_wf (c : Bytes) (hne : c ≠ []) (h : c.length ≤ USIZE_MAX) : (wChunk c).wf :=
  ⟨wLine_wf c.length h, rfl, List.length_pos_iff.mpr hne⟩

/-- **C03 (round trip).** A finished chunked body as the writer emits it (`wireOf cs true`: complete
    non-empty chunks, one terminator) is a well-formed coding of the dechunker's grammar, positioned at
    its start, whose payload is exactly the chunk data — so by `C07` every arrival / buffer schedule of
    this crate's own decoder reads back exactly the consumed input and stops exactly at its end. -/
theorem C03_roundtrip (cs : List Bytes) (hne : ∀ x ∈ cs, x ≠ []) (hlen : ∀ x ∈ cs, x.length ≤ USIZE_MAX) :
    ∃ r : Rem, r.wf ∧ r.atRest ∧ r.state = .size ∧ r.enc = wireOf cs true ∧ r.payload = cs.flatten := by
  refine ⟨.atSize (cs.map wChunk) (wLine 0) [], ?_, trivial, rfl, ?_, ?_⟩
  · refine ⟨?_, wLine_wf 0 (by unfold USIZE_MAX; omega), rfl, by simp⟩
    intro c hc
    obtain ⟨x, hx, rfl⟩ := List.mem_map.mp hc
    exact wChunk_wf x (hne x hx) (hlen x hx)
  · simp only [Rem.enc, encTail, encChunks, wireOf, if_true, List.map_map]
    congr 1
    · congr 1
      apply List.map_congr_left
      intro c _
      exact wChunk_enc c
    · simp [SizeLine.enc, wLine, encTrailers, termBytes, CR, LF, toHexB, hexDigitB]
  · simp only [Rem.payload, payloadOf, List.map_map]
    congr 1
    simp [Function.comp_def, wChunk]

/-- **C03 (decodes back).** For every finished chunked body the writer can emit and every schedule of
    reads (window sizes, output sizes, boundary stop on or off) of the crate's dechunker: no error, the
    output is a prefix of the consumed input, and the decoder reports the end exactly when it has consumed
    the whole coding — at which point it has returned exactly the consumed input and left the following
    bytes untouched. -/
theorem C03_decodes (cs : List Bytes) (hne : ∀ x ∈ cs, x ≠ []) (hlen : ∀ x ∈ cs, x.length ≤ USIZE_MAX)
    (σ : List ReadStep) (tail : Bytes) :
    ∃ (r' : Rem) (used : Nat) (out : Bytes),
      runReads .size (wireOf cs true ++ tail) σ = some (r'.state, used, out) ∧
      used ≤ (wireOf cs true).length ∧ cs.flatten = out ++ r'.payload ∧
      (r'.state = .ended ↔ used = (wireOf cs true).length) ∧
      (r'.state = .ended → out = cs.flatten ∧ (wireOf cs true ++ tail).drop used = tail) := by
  obtain ⟨r, hwf, hrest, hst, henc, hpay⟩ := C03_roundtrip cs hne hlen
  obtain ⟨r', used, out, h1, h2, h3, h4, h5⟩ := C07 σ r hwf hrest tail
  rw [hst, henc] at h1
  rw [henc] at h2 h4 h5
  rw [hpay] at h3 h5
  exact ⟨r', used, out, h1, h2, h3, h4, h5⟩
