import Hoot.Model.Flow
import Hoot.Proofs.WriterLink

/-! # C18 — the advertised maximum input always fits the output buffer

`calcMaxInput` is body.rs `calculate_max_input`; the write is `CallSt.writeBodyPhase` (guards + body
writer). All statements are for every `n : Nat` (the code's `usize`; nothing here is near 2^64). -/

theorem calcMaxInput_eq (n : Nat) : calcMaxInput n = maxInput n := rfl

/-- **C18 (fits), chunked body.** An input of the advertised maximum size for `n` is consumed
    completely by a single write into an `n`-byte buffer, on any unfinished chunked body. -/
theorem C18_fits_chunked (c : CallSt) (n : Nat) (input : Bytes)
    (hm : c.writer.mode = .chunked) (he : c.writer.ended = false)
    (hlen : input.length = calcMaxInput n) :
    ∃ out, (c.writeBodyPhase input n).2 = .ok (calcMaxInput n, out) ∧ out.length ≤ n := by
  have hw : c.writer = { mode := .chunked, ended := false } := by
    cases hwr : c.writer with | mk m e => rw [hwr] at hm he; simp at hm he; simp [hm, he]
  unfold CallSt.writeBodyPhase
  simp only [hw, BodyWriter.overLimit, BodyWriter.leftToSend, BodyWriter.write, Bool.and_false, Bool.false_eq_true, if_false]
  by_cases hi : input = []
  · subst hi
    simp at hlen
    refine ⟨(({ out := [], cap := n } : W).tryWrite termBytes).1.out, ?_, ?_⟩
    · simp [← hlen]
    · simp [W.tryWrite, W.available, termBytes]; split <;> simp <;> omega
  · have hne : input.isEmpty = false := by cases input <;> simp_all
    simp only [hne, Bool.false_eq_true, if_false]
    obtain ⟨cs, _, _, _, h4, h5, _⟩ := writeChunks_spec input.length input { out := [], cap := n } 0 rfl (by simp)
    refine ⟨_, ?_, by simpa using h4⟩
    rw [h5, hlen, calcMaxInput_eq]
    simp only [W.available, List.length_nil, Nat.sub_zero, Nat.zero_add]
    rw [C18_fits]

/-- **C18 (length-delimited body).** The advertised size is `n` itself, and an input of `n` bytes is
    consumed completely by a single write into an `n`-byte buffer whenever the body still has `n` bytes to
    go (a larger input than the remaining length is refused — that is C04). -/
theorem C18_sized (c : CallSt) (left n : Nat) (input : Bytes)
    (hm : c.writer.mode = .sized left) (hlen : input.length = n) (hfit : n ≤ left)
    (hnf : ¬ (input ≠ [] ∧ c.writer.ended = true)) :
    (if !c.writer.isChunked then n else calcMaxInput n) = n ∧
    ∃ out, (c.writeBodyPhase input n).2 = .ok (n, out) := by
  constructor
  · simp [BodyWriter.isChunked, hm]
  · unfold CallSt.writeBodyPhase
    have h1 : (!input.isEmpty && c.writer.ended) = false := by
      cases input <;> simp_all
    have h2 : decide (input.length > left) = false := by simp; omega
    simp only [h1, BodyWriter.overLimit, BodyWriter.leftToSend, hm, h2, Bool.false_eq_true, if_false, BodyWriter.write, W.available,
      List.length_nil, Nat.sub_zero]
    refine ⟨(({ out := [], cap := n } : W).tryWrite (input.take (min (min n input.length) left))).1.out, ?_⟩
    have : min (min n input.length) left = n := by omega
    simp [this]

/-- **C18 (never exceeds n, never decreases).** -/
theorem C18_le_n (n : Nat) : calcMaxInput n ≤ n := C18_le n
theorem C18_monotone {a b : Nat} (h : a ≤ b) : calcMaxInput a ≤ calcMaxInput b := C18_mono h

-- non-vacuity / boundary values (evaluated: tests, not proofs)
#guard calcMaxInput 10248 == 10240 && calcMaxInput 10257 == 10241 && calcMaxInput 8 == 0 && calcMaxInput 9 == 1
