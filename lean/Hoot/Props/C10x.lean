import Hoot.Props.C01

/-! C10 composed with C01: the recorded close reasons and the `must_close_connection` verdict at the end of a
    whole exchange, for every schedule (`Proofs/ExchangeChain.lean`: `XReasons`, `x_run_reasons`). -/

/-- **C10 over a whole exchange.** However the exchange was scheduled, once it is complete the reasons
    recorded on the flow are exactly: those the request started with (HTTP/1.0, `Connection: close` sent),
    `Connection: close` on the response, a close-delimited body — each present iff its condition holds, none
    twice, and nothing else (in particular no `not-100`: the interim response was a 100). -/
theorem C10_exchange (hack : Bool) (f0 : Flow) (r : AReq) (wr0 : BodyWriter) (P : Bytes) (I H : Head) (b0 : BPos)
    (tail pre : Bytes) (X : XSetup hack f0 r wr0 P I H b0 pre) (htail : b0.isClose = true → tail = []) (σ : List IoStep)
    (hσ : ∀ s ∈ σ, H.safeWin hack s.m) (hd : recvDone (xRun hack P (pre ++ (H.enc ++ b0.enc ++ tail)) f0 σ).1 = true) :
    ReasonsSpec f0 H b0 (xRun hack P (pre ++ (H.enc ++ b0.enc ++ tail)) f0 σ).1.closeReasons := by
  have hout := (C01_exchange_outcome hack f0 r wr0 P I H b0 tail pre X htail σ hσ hd).2.2.1
  exact (x_run_reasons hack f0 r wr0 P I H b0 tail pre X htail σ hσ).2 (by rw [hout]; exact fun h => by cases h)

/-- **C10 over a whole exchange: the verdict.** `must_close_connection()` after a complete exchange, in
    `Redirect` or `Cleanup`, under any schedule: true iff the request started with a reason, or the response
    said `Connection: close`, or the body was close-delimited. -/
theorem C10_exchange_verdict (hack : Bool) (f0 : Flow) (r : AReq) (wr0 : BodyWriter) (P : Bytes) (I H : Head) (b0 : BPos)
    (tail pre : Bytes) (X : XSetup hack f0 r wr0 P I H b0 pre) (htail : b0.isClose = true → tail = []) (σ : List IoStep)
    (hσ : ∀ s ∈ σ, H.safeWin hack s.m) (hd : recvDone (xRun hack P (pre ++ (H.enc ++ b0.enc ++ tail)) f0 σ).1 = true) :
    (!(xRun hack P (pre ++ (H.enc ++ b0.enc ++ tail)) f0 σ).1.closeReasons.isEmpty) =
      (!f0.closeReasons.isEmpty || hasHdr H.parsed.fields "connection" "close" || b0.isClose) := by
  obtain ⟨_, hm⟩ := C10_exchange hack f0 r wr0 P I H b0 tail pre X htail σ hσ hd
  generalize (xRun hack P (pre ++ (H.enc ++ b0.enc ++ tail)) f0 σ).1.closeReasons = l at hm
  cases hl : l with
  | cons c rest =>
    have : c ∈ l := by rw [hl]; simp
    rcases (hm c).1 this with h | ⟨_, h⟩ | ⟨_, h⟩
    · cases h0 : f0.closeReasons with
      | nil => rw [h0] at h; cases h
      | cons _ _ => simp
    · simp [h]
    · simp [h]
  | nil =>
    have hnone : ∀ c, ¬ (c ∈ f0.closeReasons ∨ (c = .serverClose ∧ hasHdr H.parsed.fields "connection" "close" = true) ∨ (c = .closeDelimited ∧ b0.isClose = true)) := by
      intro c hc
      have := (hm c).2 hc
      rw [hl] at this; cases this
    have h1 : f0.closeReasons = [] := by
      cases h0 : f0.closeReasons with
      | nil => rfl
      | cons c _ => exact absurd (Or.inl (by rw [h0]; simp)) (hnone c)
    have h2 : hasHdr H.parsed.fields "connection" "close" = false := by
      cases h : hasHdr H.parsed.fields "connection" "close" with
      | false => rfl
      | true => exact absurd (Or.inr (Or.inl ⟨rfl, h⟩)) (hnone .serverClose)
    have h3 : b0.isClose = false := by
      cases h : b0.isClose with
      | false => rfl
      | true => exact absurd (Or.inr (Or.inr ⟨rfl, h⟩)) (hnone .closeDelimited)
    simp [h1, h2, h3]

/-! non-vacuity: the example exchanges of `Props/C01.lean` (each with its `XSetup` instance there) -/
-- nothing to record: keep-alive request, length-delimited response
#guard (xRun true [] xStream xNew xTiny).1.closeReasons == []
#guard (xRun true [] xStream xNew xHuge).1.closeReasons == []
-- close-delimited body
#guard (xRun true [] xStreamC xNew xTiny).1.closeReasons == [.closeDelimited]
#guard (xRun true [] xStreamC xNew xHuge).1.closeReasons == [.closeDelimited]
-- Expect honoured with a 100 (in time, late, or given up in the middle): no `not-100` reason
#guard (xRun true xPayload xStreamEx xPostEx xHuge).1.closeReasons == []
#guard (xRun true xPayload xStreamEx xPostEx xEarly).1.closeReasons == []
#guard (xRun true xPayload xStreamEx xPostEx xMid).1.closeReasons == []

/-- **C10 (the verdict belongs to one exchange).** The flow `as_new_flow` builds for a redirect starts with
    exactly the reasons the *request* gives — HTTP/1.0, `Connection: close` on the original request — and with
    none of what happened during the exchange that was redirected: not a refused `Expect`, not the server's
    `Connection: close`, not a close-delimited body. (`followFlow` is `Flow.new` on the original request with a
    new method, then the target and the suppression list installed; the reasons are those of `C10_initial`.) -/
theorem C10_follow (prev : AReq) (nm : Method) (uri : Uri) (sameHost : Bool) (r : CloseReason) :
    r ∈ (followFlow prev nm uri sameHost).closeReasons ↔
      (r = .http10 ∧ prev.version = .h10) ∨ (r = .clientClose ∧ hasHdr prev.orig "connection" "close" = true) := by
  have h : (followFlow prev nm uri sameHost).closeReasons = (Flow.new nm prev.version prev.uri prev.orig).closeReasons := rfl
  rw [h]
  exact C10_initial nm prev.version prev.uri prev.orig r

/-- in particular `Not100Continue` never carries over to the next exchange -/
theorem C10_follow_not100 (prev : AReq) (nm : Method) (uri : Uri) (sameHost : Bool) :
    CloseReason.not100 ∉ (followFlow prev nm uri sameHost).closeReasons := by
  intro h
  rcases (C10_follow prev nm uri sameHost .not100).mp h with ⟨h1, _⟩ | ⟨h1, _⟩ <;> cases h1
