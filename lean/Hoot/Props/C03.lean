import Hoot.Model.Flow
import Hoot.Proofs.WriterLink

/-! # C03 — chunked request body is a valid chunked encoding of exactly the consumed input

Statements are about `CallSt.writeBodyPhase` (call.rs `Call<WithBody>::write` in the body phase: the two
guards followed by body.rs `BodyWriter::write`), for every sequence of (input, output size) pairs. -/

/-- run a sequence of body writes; collects the bytes emitted and the input bytes reported consumed.
    A refused write leaves the state as it is and contributes nothing. -/
def runBody (c : CallSt) : List (Bytes × Nat) → CallSt × Bytes × Bytes
  | [] => (c, [], [])
  | (input, cap) :: ops =>
    match c.writeBodyPhase input cap with
    | (c1, .ok (n, out)) =>
      let r := runBody c1 ops
      (r.1, out ++ r.2.1, input.take n ++ r.2.2)
    | (c1, .error _) => runBody c1 ops

def wireOf (cs : List Bytes) (ended : Bool) : Bytes := (cs.map frame).flatten ++ (if ended then termBytes else [])

/-- One write into a chunked, unfinished body. -/
theorem C03_step_open (c : CallSt) (input : Bytes) (cap : Nat)
    (hm : c.writer.mode = .chunked) (he : c.writer.ended = false) :
    ∃ (cs : List Bytes) (n : Nat) (e : Bool),
      (c.writeBodyPhase input cap) = ({ c with writer := { mode := .chunked, ended := e } }, .ok (n, wireOf cs e)) ∧
      (∀ x ∈ cs, x ≠ []) ∧ cs.flatten = input.take n ∧ n ≤ input.length ∧
      (wireOf cs e).length ≤ cap ∧
      (e = true → input = [] ∧ cs = []) ∧ (input = [] → cs = [] ∧ n = 0 ∧ (e = true ↔ 5 ≤ cap)) := by
  have hw : c.writer = { mode := .chunked, ended := false } := by
    cases hwr : c.writer with | mk m e => rw [hwr] at hm he; simp at hm he; simp [hm, he]
  unfold CallSt.writeBodyPhase
  simp only [hw, BodyWriter.overLimit, BodyWriter.leftToSend, BodyWriter.write, Bool.and_false, Bool.false_eq_true, if_false]
  by_cases hi : input = []
  · subst hi
    by_cases h5 : 5 ≤ cap
    · refine ⟨[], 0, true, ?_, by simp, by simp, by simp, ?_, by simp, by simp [h5]⟩
      · simp [W.tryWrite, W.available, termBytes, h5, wireOf]
      · simp [wireOf, termBytes]; omega
    · refine ⟨[], 0, false, ?_, by simp, by simp, by simp, by simp [wireOf], by simp, by simp [h5]⟩
      simp [W.tryWrite, W.available, termBytes, h5, wireOf]
  · have hne : input.isEmpty = false := by cases input <;> simp_all
    simp only [hne, Bool.false_eq_true, if_false]
    obtain ⟨cs, h1, h2, h3, h4, h5, h6⟩ := writeChunks_spec input.length input { out := [], cap := cap } 0 rfl (by simp)
    refine ⟨cs, (writeChunks input { out := [], cap := cap } 10240 0).2, false, ?_, h1, ?_, ?_, ?_, by simp, by simp [hi]⟩
    · simp [wireOf, h2]
    · rw [h6, h5]; simp
    · rw [h5]; simp; exact consumedLen_le _ _
    · simp only [wireOf, Bool.false_eq_true, if_false, List.append_nil]
      have := h4; rw [h2] at this; simpa using this

/-- One write into a finished chunked body: a non-empty write is refused, an empty one emits nothing;
    the state does not change. -/
theorem C03_step_ended (c : CallSt) (input : Bytes) (cap : Nat)
    (hm : c.writer.mode = .chunked) (he : c.writer.ended = true) :
    (input ≠ [] → c.writeBodyPhase input cap = (c, .error (.api .bodyContentAfterFinish))) ∧
    (input = [] → c.writeBodyPhase input cap = (c, .ok (0, []))) := by
  have hw : c.writer = { mode := .chunked, ended := true } := by
    cases hwr : c.writer with | mk m e => rw [hwr] at hm he; simp at hm he; simp [hm, he]
  constructor
  · intro hi
    have hne : input.isEmpty = false := by cases input <;> simp_all
    unfold CallSt.writeBodyPhase
    simp [hw, hne]
  · intro hi
    subst hi
    unfold CallSt.writeBodyPhase
    simp [hw, BodyWriter.overLimit, BodyWriter.leftToSend, BodyWriter.write]
    cases c; simp_all

theorem runBody_ended (ops : List (Bytes × Nat)) : ∀ (c : CallSt),
    c.writer.mode = .chunked → c.writer.ended = true → runBody c ops = (c, [], []) := by
  induction ops with
  | nil => intro c _ _; rfl
  | cons op ops ih =>
    intro c hm he
    obtain ⟨input, cap⟩ := op
    have h := C03_step_ended c input cap hm he
    by_cases hi : input = []
    · simp only [runBody, h.2 hi, ih c hm he]; simp [hi]
    · simp only [runBody, h.1 hi, ih c hm he]

/-- **C03 (wire format).** For every sequence of body writes on a chunked body, the emitted bytes are
    a sequence of complete non-empty chunks, followed by the terminator exactly when the body is
    reported finished; the chunk data is exactly the input reported consumed. -/
theorem C03_wire (ops : List (Bytes × Nat)) : ∀ (c : CallSt),
    c.writer.mode = .chunked → c.writer.ended = false →
    ∃ cs : List Bytes, (∀ x ∈ cs, x ≠ []) ∧
      (runBody c ops).2.1 = wireOf cs (runBody c ops).1.writer.ended ∧
      cs.flatten = (runBody c ops).2.2 ∧
      (runBody c ops).1.writer.mode = .chunked := by
  induction ops with
  | nil => intro c hm he; exact ⟨[], by simp, by simp [runBody, wireOf, he], by simp [runBody], hm⟩
  | cons op ops ih =>
    intro c hm he
    obtain ⟨input, cap⟩ := op
    obtain ⟨cs, n, e, hstep, hne, hfl, hn, _, hterm, _⟩ := C03_step_open c input cap hm he
    simp only [runBody, hstep]
    cases e with
    | false =>
      obtain ⟨cs2, g1, g2, g3, g4⟩ := ih { c with writer := { mode := .chunked, ended := false } } rfl rfl
      refine ⟨cs ++ cs2, ?_, ?_, ?_, g4⟩
      · intro x hx; rcases List.mem_append.mp hx with h | h
        · exact hne x h
        · exact g1 x h
      · rw [g2]; simp [wireOf, List.append_assoc]
      · rw [List.flatten_append, hfl, g3]
    | true =>
      have := hterm rfl
      rw [runBody_ended ops _ rfl rfl]
      refine ⟨cs, hne, by simp, ?_, rfl⟩
      simp [hfl]

/-- **C03 (terminator).** The terminator is emitted only by an empty-input write, at most once: once the
    body is finished every further write emits nothing and changes nothing. -/
theorem C03_after_finish (c : CallSt) (hm : c.writer.mode = .chunked) (he : c.writer.ended = true)
    (ops : List (Bytes × Nat)) : runBody c ops = (c, [], []) := runBody_ended ops c hm he

/-- **C03 (finished iff terminator emitted)** for one write: the body becomes finished exactly when
    this write emitted the complete terminator, which needs an empty input and 5 bytes of space. -/
theorem C03_finished_iff (c : CallSt) (input : Bytes) (cap : Nat)
    (hm : c.writer.mode = .chunked) (he : c.writer.ended = false) :
    (c.writeBodyPhase input cap).1.writer.ended = true ↔ (input = [] ∧ 5 ≤ cap) := by
  obtain ⟨cs, n, e, hstep, _, _, _, _, hterm, hemp⟩ := C03_step_open c input cap hm he
  rw [hstep]
  simp only []
  constructor
  · intro h; have := hterm h; exact ⟨this.1, ((hemp this.1).2.2).mp h⟩
  · intro h; exact ((hemp h.1).2.2).mpr h.2

/-- non-vacuity: a chunked call in the body phase exists, and a concrete run -/
def c03Example : CallSt :=
  { req := { method := .post, version := .h11, uri := { scheme := "http", host := "a", port := none, path := "/", query := none }, orig := [] },
    analyzed := true, phase := .sendBody, writer := BodyWriter.newChunked }

example : c03Example.writer.mode = .chunked ∧ c03Example.writer.ended = false := by decide
-- a test (evaluated by the compiler, not a proof): "3 CRLF 1 2 3 CRLF" then the terminator
#guard (runBody c03Example [([1, 2, 3], 20), ([], 5)]).2.1 == [51, 13, 10, 1, 2, 3, 13, 10, 48, 13, 10, 13, 10]
