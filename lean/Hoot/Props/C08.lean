import Hoot.Model.Flow
import Hoot.Proofs.PropsWF

/-! # C08 — length- and close-delimited response bodies arrive verbatim, never over-read -/

/-- **C08 (one read, length-delimited).** Each read moves `min(input, output space, remaining)` bytes
    unchanged; the remaining count goes down by exactly that. -/
theorem C08_len_step (c : CallSt) (left : Nat) (w : Bytes) (cap : Nat) (h : c.reader = some (.len left)) :
    c.read w cap =
      ({ c with reader := some (.len (left - min (min w.length cap) left)) },
       .ok (min (min w.length cap) left, w.take (min (min w.length cap) left))) := by
  unfold CallSt.read
  simp only [h, readerEnded]
  by_cases h0 : left = 0
  · subst h0; simp; cases c; simp_all
  · have : (left == 0) = false := by simpa using h0
    simp [this]

/-- a caller schedule: (how many of the unconsumed bytes are offered, output space) -/
def runLen (c : CallSt) (stream : Bytes) : List (Nat × Nat) → CallSt × Nat × Bytes
  | [] => (c, 0, [])
  | (m, cap) :: rest =>
    match c.read (stream.take m) cap with
    | (c1, .ok (n, out)) =>
      let r := runLen c1 (stream.drop n) rest
      (r.1, n + r.2.1, out ++ r.2.2)
    | (c1, .error _) => (c1, 0, [])

/-- **C08 (length-delimited).** With `N` bytes remaining, every schedule delivers, unchanged and in
    order, a prefix of the next `N` bytes of the stream; what is consumed equals what is delivered; no
    byte beyond `N` is consumed; and the body is complete exactly when `N` bytes were delivered. -/
theorem C08_len (σ : List (Nat × Nat)) : ∀ (c : CallSt) (N : Nat) (stream : Bytes), c.reader = some (.len N) →
    ∃ k, k ≤ N ∧ (runLen c stream σ).2.1 = k ∧ (runLen c stream σ).2.2 = stream.take k ∧ k ≤ stream.length ∧
      (runLen c stream σ).1.reader = some (.len (N - k)) ∧
      (readerEnded (.len (N - k)) = true ↔ k = N) := by
  induction σ with
  | nil =>
    intro c N stream h
    refine ⟨0, by omega, rfl, by simp [runLen], by omega, by simpa [runLen] using h, ?_⟩
    simp [readerEnded]; omega
  | cons s rest ih =>
    intro c N stream h
    obtain ⟨m, cap⟩ := s
    have hstep := C08_len_step c N (stream.take m) cap h
    simp only [runLen, hstep]
    generalize hk : min (min (stream.take m).length cap) N = k
    have hkm : k ≤ (stream.take m).length := by omega
    have hks : k ≤ stream.length := by simp [List.length_take] at hkm; omega
    obtain ⟨k2, a1, a2, a3, a4, a5, a6⟩ := ih { c with reader := some (.len (N - k)) } (N - k) (stream.drop k) rfl
    refine ⟨k + k2, by omega, by rw [a2], ?_, ?_, ?_, ?_⟩
    · rw [a3]
      have : (stream.take m).take k = stream.take k := by
        rw [List.take_take]; congr 1; simp [List.length_take] at hkm; omega
      rw [this, List.take_add]
    · simp at a4; omega
    · rw [a5]; congr 2; omega
    · simp [readerEnded] at a6 ⊢; omega

/-- **C08 (close-delimited).** Every offered byte that fits the output is passed through unchanged; the
    reader never ends by itself. -/
theorem C08_close_step (c : CallSt) (w : Bytes) (cap : Nat) (h : c.reader = some .close) :
    c.read w cap = (c, .ok (min w.length cap, w.take (min w.length cap))) := by
  unfold CallSt.read
  simp [h, readerEnded]

/-- **C08 (close-delimited, flow).** In the body state of a close-delimited response the flow may
    proceed at any time. -/
theorem C08_close_can_proceed (f : Flow) (hs : f.st = .recvBody) (hh : f.holder = .recvBody) (h : f.call.reader = some .close) :
    f.canProceed = .ok true := by
  unfold Flow.canProceed; simp [hs, hh, h]

/-- **C08 (close-delimited, must close).** Entering the body state of a close-delimited response records
    the close reason, so the connection is marked for closing from then on. -/
theorem C08_close_marks (hack : Bool) (f : Flow) (hs : f.st = .recvResponse) (hh : f.holder = .recvResponse)
    (h : f.call.reader = some .close) (hn : f.closeReasons.Nodup) :
    (stepRecvResponse hack f .proceed).1.st = .recvBody ∧
    CloseReason.closeDelimited ∈ (stepRecvResponse hack f .proceed).1.closeReasons := by
  have hc : f.canProceed = .ok true := by unfold Flow.canProceed; simp [hs, hh, h]
  have hp := pushReason_ok f.closeReasons .closeDelimited hn
  have hm := pushReason_mem f.closeReasons .closeDelimited hp.1
  unfold stepRecvResponse
  simp only [hc, h, needResponseBody]
  cases hq : pushReason f.closeReasons .closeDelimited with
  | mk l r =>
    rw [hq] at hp hm
    simp only [] at hp hm
    obtain ⟨hr, _⟩ := hp
    subst hr
    simp [hm]

/-- the body, redirect and cleanup states never remove a close reason -/
theorem C08_reasons_kept (f : Flow) (op : Op) :
    (stepRecvBody f op).1.closeReasons = f.closeReasons ∧ (stepRedirect f op).1.closeReasons = f.closeReasons ∧
    (stepCleanup f op).1.closeReasons = f.closeReasons := by
  refine ⟨?_, ?_, ?_⟩
  · unfold stepRecvBody; cases op <;> simp [notOffered] <;> (repeat' split) <;> simp_all
  · unfold stepRedirect; cases op <;> simp [notOffered]
  · unfold stepCleanup; cases op <;> simp [notOffered]

example : ({ req := { method := .get, version := .h11, uri := { scheme := "http", host := "a", port := none, path := "/", query := none }, orig := [] },
             writer := BodyWriter.newNone, reader := some (.len 5) } : CallSt).reader = some (.len 5) := rfl
