import Hoot.Model.Uri
import Hoot.Props.C13

/-! # C14 — the redirect target resolves the last Location against the current URI (RFC 3986)

`resolve` (Model/Uri.lean) is RFC 3986 §5.2 (parse reference; merge; remove_dot_segments) with the
normalisations `url::Url` + `http::Uri` apply on the class of references described there (lower-case
scheme and host, default port dropped, empty path → "/", fragment dropped); references outside that class
answer `outOfClass` and are not modelled. That `url::Url::join` agrees with it is checked by the
correspondence (all 42 examples of RFC 3986 §5.4, a base × reference grid, random chains) — the `url`
crate is modelled, not verified. -/

/-- **C14 (last Location).** The value remembered from a response is that of its LAST `location` field. -/
theorem C14_last (fields : List Hdr) (a : Hdr) (rest : List Hdr)
    (hlast : (fields.filter (·.name == "location")) = rest ++ [a]) : lastLocation fields = some a.value := by
  simp [lastLocation, hlast]

/-- **C14 (resolution against the current URI).** When `as_new_flow` returns a flow, the new flow's URI is
    the resolution of the remembered Location against the URI of the request just made — the effective
    one (`effUri`: the override installed by the previous hop if any), not the original. -/
theorem C14_current (f : Flow) (sameHost : Bool) (nf : Flow) (h : (f.asNewFlow sameHost).2 = .flow nf) :
    ∃ locB loc, f.location = some locB ∧ toStr? locB = some loc ∧
      resolve f.call.req.effUri (String.ofList (loc.map fun b => Char.ofNat b.toNat)) = .ok nf.call.req.effUri := by
  unfold Flow.asNewFlow at h
  repeat' split at h
  all_goals (first | (simp at h; done) | skip)
  all_goals
    (simp only [FollowRes.flow.injEq] at h
     subst h
     refine ⟨_, _, ‹f.location = some _›, ‹toStr? _ = some _›, ?_⟩
     simpa [followFlow, Flow.new, AReq.effUri] using ‹resolve _ _ = Res3986.ok _›)

/-- **C14 (errors, never a panic).** A missing Location is `NoLocationHeader`, a non-textual or unresolvable
    one `BadLocationHeader`; on a flow that received a response and has not been followed yet
    `as_new_flow` has no panic outcome. -/
theorem C14_errors (f : Flow) (sameHost : Bool) (hst : f.status.isSome = true) (hnt : f.call.req.taken = false) :
    (f.location = none → (f.asNewFlow sameHost).2 = .fault (.api .noLocationHeader)) ∧
    (∀ l, f.location = some l → toStr? l = none → (f.asNewFlow sameHost).2 = .fault (.api .badLocationHeader)) ∧
    (∀ s, (f.asNewFlow sameHost).2 ≠ .fault (.panic s)) := by
  obtain ⟨st, hs⟩ := Option.isSome_iff_exists.mp hst
  refine ⟨?_, ?_, ?_⟩
  · intro h; unfold Flow.asNewFlow; simp [h]
  · intro l h1 h2; unfold Flow.asNewFlow; simp [h1, h2]
  · intro s
    unfold Flow.asNewFlow
    cases hl : f.location with
    | none => simp
    | some l =>
      simp only []
      cases ht : toStr? l with
      | none => simp
      | some loc =>
        simp only [hnt, hs, Bool.false_eq_true, if_false]
        repeat' split
        all_goals simp

/-- **C14 (wire).** The request line of the next request carries the path-and-query of the effective URI;
    when analysis has to add a Host header it is the effective URI's host. -/
theorem C14_wire_line (r : AReq) :
    requestLine r = strBytes r.method.text ++ (32 :: (strBytes r.effUri.pathAndQuery ++ (32 :: (strBytes r.version.text ++ crlf)))) := rfl

-- RFC 3986 section 5.4.1, base http://a/b/c/d;p?q (evaluated: a test, not a proof)
#guard (match resolve { scheme := "http", host := "a", port := none, path := "/b/c/d;p", query := some "q" } "../g" with | .ok u => u.text == "http://a/b/g" | _ => false)
#guard (match resolve { scheme := "http", host := "a", port := none, path := "/b/c/d;p", query := some "q" } "g;x?y#s" with | .ok u => u.text == "http://a/b/c/g;x?y" | _ => false)

/-- **C14 (an inherited Host header stays on its host; defect D13, repaired).** Among the effective headers of
    the request created for a redirect, a `host` header is one the original request carried only if the target
    is on the host of the original request URI — otherwise it is suppressed like the credentials of C13, no
    effective Host header is left, and request analysis derives the header from the new URI
    (`hostStep`: `host: <effective URI's host>`, with `followFlow_effUri`). (On the pinned tree a Host header
    set on the original request travelled with the request to every host it was redirected to.) -/
theorem C14_host_inherited (prev : AReq) (nm : Method) (uri : Uri) (sameHost : Bool) (h : Hdr)
    (hin : h ∈ (followFlow prev nm uri sameHost).call.req.headers) (hn : h.name = "host") :
    prev.uri.host = uri.host := by
  unfold followFlow AReq.headers at hin
  simp only [Flow.new, List.nil_append, List.mem_filter] at hin
  obtain ⟨_, hf⟩ := hin
  unfold unsetList at hf
  rw [hn] at hf
  by_cases hk : keepHostHeader prev.uri uri = true
  · simpa [keepHostHeader] using hk
  · simp [hk] at hf

/-- the request created for a redirect has the resolved target as its effective URI -/
theorem followFlow_effUri (prev : AReq) (nm : Method) (uri : Uri) (sameHost : Bool) :
    (followFlow prev nm uri sameHost).call.req.effUri = uri := rfl

/-- no `host` among the effective headers of the redirected request when the target left the original host -/
theorem C14_host_suppressed (prev : AReq) (nm : Method) (uri : Uri) (sameHost : Bool)
    (hne : prev.uri.host ≠ uri.host) :
    ∀ h ∈ (followFlow prev nm uri sameHost).call.req.headers, h.name ≠ "host" :=
  fun h hin hn => hne (C14_host_inherited prev nm uri sameHost h hin hn)

example : keepHostHeader { scheme := "http", host := "a", port := none, path := "/", query := none }
    { scheme := "http", host := "b", port := none, path := "/x", query := none } = false := by decide

/-! ## Structural facts about the resolution function, for every base and every Location string -/

/-- **C14 (scheme of the target).** Whatever the Location says, the URI a redirect resolves to has the
    scheme of the current URI or one of `http` / `https` written in the Location itself: resolution never
    produces a third scheme. -/
theorem C14_resolve_scheme (base : Uri) (loc : String) (u : Uri) (h : resolve base loc = .ok u) :
    u.scheme = base.scheme ∨ u.scheme = "http" ∨ u.scheme = "https" := by
  unfold resolve at h
  simp only [] at h
  repeat' split at h
  all_goals (first | (simp at h; done) | skip)
  all_goals (simp only [Res3986.ok.injEq] at h; subst h; first | (simp_all; done) | grind)

/-- **C14 (a target always has a path).** The resolved URI never has an empty path: an empty one is `/`,
    so the request line written for the redirected request always has a target. -/
theorem C14_resolve_path (base : Uri) (loc : String) (u : Uri) (h : resolve base loc = .ok u)
    : u.path.isEmpty = false := by
  unfold resolve at h
  simp only [] at h
  repeat' split at h
  all_goals (first | (simp at h; done) | skip)
  all_goals (simp only [Res3986.ok.injEq] at h; subst h; first | (simp_all; done) | decide | grind)
/-- **C14 (a relative Location stays on the host).** A Location without scheme and without authority
    (path-absolute, path-relative, query-only or empty) resolves to the scheme and the (lower-cased) host
    of the current URI — only a Location that names an authority can move the exchange to another host. -/
theorem C14_resolve_relative (base : Uri) (loc : String) (u : Uri) (h : resolve base loc = .ok u)
    (hs : (parseRef loc).scheme = none) (ha : (parseRef loc).auth = none) :
    u.scheme = base.scheme ∧ u.host = base.host.toLower := by
  unfold resolve at h
  simp only [hs, ha] at h
  repeat' split at h
  all_goals (first | (simp at h; done) | skip)
  all_goals (simp only [Res3986.ok.injEq] at h; subst h; first | (simp_all; done) | grind)

/-- test (compiler-evaluated, not a theorem): the hypotheses are met by an ordinary relative redirect -/
def c14Base : Uri := { scheme := "http", host := "a.test", port := none, path := "/x/y", query := none }
#guard (match resolve c14Base "../z?q" with | .ok u => u.scheme == "http" && u.host == "a.test" && u.path == "/z" | _ => false)
#guard (parseRef "../z?q").scheme == none && (parseRef "../z?q").auth == none
#guard (match resolve c14Base "https://b.test" with | .ok u => u.scheme == "https" && u.host == "b.test" && u.path == "/" | _ => false)
