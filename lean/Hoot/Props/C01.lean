import Hoot.Props.C02
import Hoot.Props.C03
import Hoot.Props.C04
import Hoot.Props.C05
import Hoot.Props.C07
import Hoot.Props.C08
import Hoot.Props.C09
import Hoot.Props.C10
import Hoot.Props.C11

/-! # C01 — the exchange outcome is independent of I/O segmentation and buffer sizes

Claimed as `C01_spec_partial`: the schedule-independence of every phase of an exchange is a theorem
"for every schedule" of that phase —

* request head: `C02_schedule` / `C02_render` (any sequence of buffer sizes ⇒ exactly `renderHead`),
* request body: `C03_wire` (chunked: complete chunks carrying exactly the consumed input, terminator iff
  finished) and `C04_total` / `C04_copy` (sized: verbatim, never more than N),
* Expect handshake: `C11_undecided(_bare)`, `C11_continue`, `C11_refused_*`, `C11_late`,
* response head: `C05_prefix` (nothing consumed, nothing decided before the head is complete) and
  `C05_exact` (then exactly the head, exactly |H| bytes) — at `Call` level `C05_call_prefix_partial`,
* response body: `C07` (chunked, every window/output schedule, ended iff the coding is consumed, next
  message untouched) and `C08_len` (length-delimited),
* successor states: `C09_edges`, verdict: `C10_step` / `C10_verdict`,
* and the read-only queries interleaved anywhere change nothing: `C01_queries_pure` below.

The single composed statement `observe (run cfg stream σ) = specOutcome cfg stream` over a whole-exchange
driver is NOT proved yet; the cross-schedule comparison of whole exchanges is done on the implementation
by the oracle (same exchange under 12 / 24 schedules incl. 1-byte arrivals and tiny buffers). -/

/-- the read-only queries of the API -/
def Op.isQuery : Op → Bool
  | .canProceed | .maxin _ | .isChunked | .keep100 | .boundary | .mode | .mustClose | .reason | .statusQ => true
  | _ => false

/-- **C01 (queries are pure).** Readiness, chunked?, maximum input, keep-awaiting?, boundary?, body mode,
    must-close, reason and status can be interleaved anywhere: they never change the flow. -/
theorem C01_queries_pure (hack : Bool) (f : Flow) (op : Op) (hq : op.isQuery = true) : (f.step hack op).1 = f := by
  unfold Flow.step
  cases hs : f.st <;> cases op <;> simp [Op.isQuery] at hq <;>
    simp [stepPrepare, stepSendRequest, stepAwait100, stepSendBody, stepRecvResponse, stepRecvBody, stepRedirect, stepCleanup, notOffered] <;>
    (repeat' split) <;> simp_all

/-- **C01 (response head: nothing is consumed before it is complete)** — the flow-level form of
    `C05_call_prefix_partial`: a strict prefix of the head leaves the whole flow unchanged and consumes 0
    bytes, so the caller re-presents the same bytes plus what arrived since. -/
theorem C01_head_prefix (f : Flow) (hh : f.holder = .recvResponse) (h : Head) (hw : h.wf) (hs : h.fields.length ≤ 128)
    (hc : 100 ≤ h.codeVal) (hn : h.namesShort)
    (hnot : ¬ (300 ≤ h.codeVal ∧ h.codeVal ≤ 399) ∨
            (fieldsOf (h.fields.map Field.pair)).any (fun x => x.name == "location") = false)
    (n : Nat) (hlt : n < h.enc.length) :
    stepRecvResponse true f (.resp (h.enc.take n)) = (f, .resp 0 none) := by
  unfold stepRecvResponse
  simp [hh, C05_call_prefix_partial f.call h hw hs hc hn hnot n hlt]
  cases f; simp_all
