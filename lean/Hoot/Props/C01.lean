import Hoot.Props.C02
import Hoot.Props.C03
import Hoot.Props.C04
import Hoot.Props.C05
import Hoot.Props.C07
import Hoot.Props.C08
import Hoot.Props.C09
import Hoot.Props.C10
import Hoot.Props.C11
import Hoot.Proofs.ExchangeAll
import Hoot.Proofs.ExchangeRefuse
import Hoot.Proofs.ExchangeChain

/-! # C01 — the exchange outcome is independent of I/O segmentation and buffer sizes

Two layers.

**Per phase** (each a theorem "for every schedule" of that phase): request head `C02_schedule` /
`C02_render`; request body `C03_wire` (chunked) and `C04_total` / `C04_copy` (sized); Expect handshake
`C11_*`; response head `C05_prefix` / `C05_exact` (at `Call` level `C05_call_prefix_partial`); response
body `C07` (chunked) and `C08_len`; successor states `C09_edges`; verdict `C10_step` / `C10_verdict`;
read-only queries interleaved anywhere change nothing: `C01_queries_pure` below.

**Composed** (second half of this file; `Proofs/ExchangeSend.lean`, `Proofs/Exchange.lean`,
`Proofs/ExchangeAll.lean`): a whole-exchange driver `xRun` — the loop a caller writes around the `Flow`
API, parameterised by an arbitrary schedule of (bytes presented, buffer size, give-up) triples — and the
theorems `C01_exchange_any`, `C01_exchange_outcome`, `C01_exchange_independent`: every schedule that
completes the exchange produces the one outcome `SendSpec` / `recvSpec`, consumes exactly the response
message (plus the interim `100`), and ends in the state the status dictates; `C01_recv_live` /
`C01_exchange_live`: once everything has arrived no schedule can wedge the flow. Every theorem quantifies
over the schedules whose windows are *safe* for the response head (`Head.safeWin`): all schedules when the
fallback is absent or the head is not a 3xx with `Location`; with the fallback (the code as it is) and a
redirect, all schedules in which no window ends inside the head after a complete `Location` line — exactly
the schedules the property itself assigns to C05 (finding D10; `call_prefix_before_location` shows every
earlier window is harmless).

What the composed theorems do **not** cover (the claim stays `partial`; these are decided by the
correspondence and the cross-schedule oracle on the implementation): malformed streams, and — for
redirect chains — the composition itself: `C01_follow_setup` shows each hop is again a covered start and
`C01_pipeline` the hand-over of the stream position, the chain as one run is not stated. Close-delimited
response bodies are covered when nothing follows them on the connection (`b0.isClose → tail = []`: the
caller reads until the connection has ended); `C01_exchange_live` covers both directions. A server that
answers an `Expect` request with a final response instead of `100` is covered by `C01_refused_outcome` /
`C01_refused_independent` (`Proofs/ExchangeRefuse.lean`): the response side is schedule-independent, and the
request that went out is one of exactly two — head + whole body (the caller gave up first) or the head alone
(it looked first and `try_read_100` refused). -/

/-- the read-only queries of the API -/
def Op.isQuery : Op → Bool
  | .canProceed | .maxin _ | .isChunked | .keep100 | .boundary | .mode | .mustClose | .reason | .statusQ => true
  | _ => false

/-- **C01 (queries are pure).** Readiness, chunked?, maximum input, keep-awaiting?, boundary?, body mode,
    must-close, reason and status can be interleaved anywhere: they never change the flow. -/
theorem C01_queries_pure (hack : Bool) (f : Flow) (op : Op) (hq : op.isQuery = true) : (f.step hack op).1 = f := by
  unfold Flow.step
  cases hs : f.st <;> cases op <;> simp [Op.isQuery] at hq <;>
    simp [stepPrepare, stepSendRequest, stepAwait100, stepSendBody, stepRecvResponse, stepRecvBody, stepRedirect, stepCleanup, notOffered] <;>
    (repeat' split) <;> simp_all

/-- **C01 (response head: nothing is consumed before it is complete)** — the flow-level form of
    `C05_call_prefix_partial`: a strict prefix of the head leaves the whole flow unchanged and consumes 0
    bytes, so the caller re-presents the same bytes plus what arrived since. -/
theorem C01_head_prefix (f : Flow) (hh : f.holder = .recvResponse) (h : Head) (hw : h.wf) (hs : h.fields.length ≤ 128)
    (hc : 100 ≤ h.codeVal) (hn : h.namesShort)
    (hnot : ¬ (300 ≤ h.codeVal ∧ h.codeVal ≤ 399) ∨
            (fieldsOf (h.fields.map Field.pair)).any (fun x => x.name == "location") = false)
    (n : Nat) (hlt : n < h.enc.length) :
    stepRecvResponse true f (.resp (h.enc.take n)) = (f, .resp 0 none) := by
  unfold stepRecvResponse
  simp [hh, C05_call_prefix_partial f.call h hw hs hc hn hnot n hlt]
  cases f; simp_all

/-! ## The receive side of an exchange, composed (Proofs/Exchange.lean)

`recvRun hack stream f0 σ` is the loop every caller writes: in `RecvResponse` present the unconsumed
server bytes (any number `m` of them, per step) to `try_response` and proceed when a head is returned; in
`RecvBody` present them to `read` with any output space `cap` and proceed when `can_proceed`. The
observation is: server bytes consumed, the head returned, the body bytes delivered, faults.

The exchange: a well-formed head `H` (not 100; at most 128 fields; with the partial-redirect fallback
present — finding D10 — not a 3xx carrying `Location`), whose framing as computed by the code
(`forResponse`) is `b0`: no body, a length-delimited body, or a well-formed chunked coding; followed by
any bytes `tail` of a next message. Close-delimited bodies have no end on the wire and are excluded. -/

/-- **C01 (receive side, every schedule).** Whatever the schedule: no call fails; never more is consumed
    than the response message; the body delivered so far is a prefix of the payload; the head handed out
    is the parsed `H` or not yet there; and a run that is not complete is still in a receive state. -/
theorem C01_recv_any (hack : Bool) (H : Head) (b0 : BPos) (tail : Bytes) (f0 : Flow) (S : RecvSetup hack H b0 f0)
    (htail : b0.isClose = true → tail = []) (σ : List IoStep) (hσ : ∀ s ∈ σ, H.safeWin hack s.m) :
    (recvRun hack (H.enc ++ b0.enc ++ tail) f0 σ).2.faults = 0 ∧
    (recvRun hack (H.enc ++ b0.enc ++ tail) f0 σ).2.consumed ≤ H.enc.length + b0.enc.length ∧
    (recvRun hack (H.enc ++ b0.enc ++ tail) f0 σ).2.body <+: b0.payload ∧
    ((recvRun hack (H.enc ++ b0.enc ++ tail) f0 σ).2.head = none ∨
     (recvRun hack (H.enc ++ b0.enc ++ tail) f0 σ).2.head = some H.parsed) := by
  obtain ⟨h1, h2, h3, h4, _⟩ := recv_safe_of_inv H b0 tail f0 _ _ S.hst (recv_run_inv hack H b0 tail f0 S htail σ hσ)
  exact ⟨h1, h2, h3, h4⟩

/-- **C01 (receive side, outcome).** Every schedule that completes the receive side produces the one
    outcome `recvSpec`: exactly the response message consumed (the next message untouched), the parsed
    head, the whole payload, no fault — and the successor state the status dictates. -/
theorem C01_recv_outcome (hack : Bool) (H : Head) (b0 : BPos) (tail : Bytes) (f0 : Flow) (S : RecvSetup hack H b0 f0)
    (htail : b0.isClose = true → tail = []) (σ : List IoStep) (hσ : ∀ s ∈ σ, H.safeWin hack s.m) (hd : recvDone (recvRun hack (H.enc ++ b0.enc ++ tail) f0 σ).1 = true) :
    (recvRun hack (H.enc ++ b0.enc ++ tail) f0 σ).2 = recvSpec H b0 ∧
    (recvRun hack (H.enc ++ b0.enc ++ tail) f0 σ).1.st = terminalSt H ∧
    (H.enc ++ b0.enc ++ tail).drop (recvRun hack (H.enc ++ b0.enc ++ tail) f0 σ).2.consumed = tail := by
  obtain ⟨h1, h2⟩ := recvSpec_of_done H b0 tail f0 _ _ S.hst (recv_run_inv hack H b0 tail f0 S htail σ hσ) hd
  refine ⟨h1, h2, ?_⟩
  rw [h1]
  show (H.enc ++ b0.enc ++ tail).drop (H.enc.length + b0.enc.length) = tail
  rw [← List.length_append, List.drop_left]

/-- **C01 (receive side, independence).** Any two complete schedules — however the bytes were split,
    whatever the buffer sizes — observe the same thing and end in the same state. -/
theorem C01_recv_independent (hack : Bool) (H : Head) (b0 : BPos) (tail : Bytes) (f0 : Flow) (S : RecvSetup hack H b0 f0)
    (htail : b0.isClose = true → tail = []) (σ₁ σ₂ : List IoStep)
    (hσ₁ : ∀ s ∈ σ₁, H.safeWin hack s.m) (hσ₂ : ∀ s ∈ σ₂, H.safeWin hack s.m)
    (h1 : recvDone (recvRun hack (H.enc ++ b0.enc ++ tail) f0 σ₁).1 = true)
    (h2 : recvDone (recvRun hack (H.enc ++ b0.enc ++ tail) f0 σ₂).1 = true) :
    (recvRun hack (H.enc ++ b0.enc ++ tail) f0 σ₁).2 = (recvRun hack (H.enc ++ b0.enc ++ tail) f0 σ₂).2 ∧
    (recvRun hack (H.enc ++ b0.enc ++ tail) f0 σ₁).1.st = (recvRun hack (H.enc ++ b0.enc ++ tail) f0 σ₂).1.st := by
  obtain ⟨a1, a2, _⟩ := C01_recv_outcome hack H b0 tail f0 S htail σ₁ hσ₁ h1
  obtain ⟨b1, b2, _⟩ := C01_recv_outcome hack H b0 tail f0 S htail σ₂ hσ₂ h2
  exact ⟨by rw [a1, b1], by rw [a2, b2]⟩

/-- **C01 (receive side, completion).** After any schedule whatsoever, once the whole message has
    arrived, `|message| + 2` further calls with at least one byte of output space complete the receive
    side: no schedule can wedge the flow. -/
theorem C01_recv_live (hack : Bool) (H : Head) (b0 : BPos) (tail : Bytes) (f0 : Flow) (S : RecvSetup hack H b0 f0)
    (htail : b0.isClose = true → tail = []) (σ full : List IoStep) (hσ : ∀ s ∈ σ, H.safeWin hack s.m) (hfull : ∀ s ∈ full, H.enc.length + b0.enc.length ≤ s.m ∧ 1 ≤ s.cap)
    (hlen : H.enc.length + b0.enc.length + 2 ≤ full.length) :
    recvDone (recvRun hack (H.enc ++ b0.enc ++ tail) f0 (σ ++ full)).1 = true := by
  unfold recvRun
  rw [List.foldl_append]
  have hinv := recv_run_inv hack H b0 tail f0 S htail σ hσ
  unfold recvRun at hinv
  refine recv_live_aux hack H b0 tail f0 S (H.enc.length + b0.enc.length + 1) _ hinv ?_ full hfull hlen
  right
  unfold recvMeasure
  split <;> omega

/-! non-vacuity: a concrete exchange (`HTTP/1.1 200 OK`, `Content-Length: 5`, body `hello`, then the
    start of a next message) meets `RecvSetup`; two very different schedules complete it (evaluated) -/
def xField : Field := { name := [67,111,110,116,101,110,116,45,76,101,110,103,116,104], pre := [32], value := [53], post := [] }
def xHead : Head := { ver := 1, d1 := 50, d2 := 48, d3 := 48, reason := some [79, 75], fields := [xField] }
/-- the flow the API reaches for `GET http://a/` after the request head was written -/
def xFlow : Flow := ((((Flow.new .get .h11 d10Call.req.uri []).step true .proceed).1.step true (.write 1000)).1.step true .proceed).1
def xBody : BPos := .len [104, 101, 108, 108, 111]
def xTail : Bytes := [72, 84, 84, 80]
def isLen5 : Except Fault BodyReader → Bool | .ok (.len 5) => true | _ => false
theorem isLen5_eq (x : Except Fault BodyReader) (h : isLen5 x = true) : x = .ok (.len 5) := by
  unfold isLen5 at h; split at h <;> simp_all

theorem xRespOk : RespOk true xHead xBody .get where
  hw := Head.wf_of_wfb _ (by decide +kernel)
  hs := by decide +kernel
  hc := by decide +kernel
  h100 := by decide +kernel
  hn := by intro f hf; simp [xHead] at hf; subst hf; simp [xField]
  hb := trivial
  hframe := isLen5_eq _ (by decide +kernel)

example : RecvSetup true xHead xBody xFlow where
  resp := (by decide +kernel : xFlow.call.req.method = .get) ▸ xRespOk
  hst := by decide +kernel
  hh := by decide +kernel
  hnd := by decide +kernel

/-- bytes arrive one at a time (nothing is consumed before the head is complete, so the window grows), one byte of output space -/
def xOneByte : List IoStep := (List.range 60).map fun i => { m := i + 1, cap := 1 }
def xAllAtOnce : List IoStep := [{ m := 1000, cap := 1000 }, { m := 1000, cap := 1000 }]
#guard recvDone (recvRun true (xHead.enc ++ xBody.enc ++ xTail) xFlow xOneByte).1
#guard recvDone (recvRun true (xHead.enc ++ xBody.enc ++ xTail) xFlow xAllAtOnce).1
#guard (recvRun true (xHead.enc ++ xBody.enc ++ xTail) xFlow xOneByte).2 == (recvRun true (xHead.enc ++ xBody.enc ++ xTail) xFlow xAllAtOnce).2
#guard (recvRun true (xHead.enc ++ xBody.enc ++ xTail) xFlow xAllAtOnce).2 == recvSpec xHead xBody

/-! ## A whole exchange, composed (Proofs/ExchangeSend.lean, Proofs/ExchangeAll.lean)

`xRun hack P stream f0 σ` runs the whole caller loop from `Prepare`: proceed; write the request head into
output buffers of the scheduled sizes (a buffer too small for the next line is the repeatable
`OutputOverflow`, nothing emitted); with a body and `Expect: 100-continue`, wait in `Await100` — present
what has arrived to `try_read_100` while the flow says keep waiting, proceed when it says stop or when
the caller's timer fires (`giveUp`, any time); in `SendBody` offer the payload `P` slice by slice
(`m + 1` pending bytes per call, the empty slice only when `P` is exhausted) into buffers of the scheduled
sizes; proceed into `RecvResponse`; then the receive loop above. The request is bodiless, or has
`Content-Length: |P|`, or is chunked (`SendSetup`); the server stream is the response message, preceded by
a bare interim `100` exactly when the request carries `Expect` (`XSetup`; whether the caller sees the 100
in time — in `Await100` — or late — in `RecvResponse` — is part of the schedule). -/

theorem pend_safe (f0 : Flow) (pre : Bytes) (aw : Bool) (o : RecvObs) (h : Pend f0 pre aw o) :
    o.faults = 0 ∧ o.consumed ≤ pre.length ∧ o.body = [] ∧ o.head = none := by
  rcases h with ⟨_, _, rfl⟩ | ⟨_, rfl⟩
  · exact ⟨rfl, Nat.zero_le _, rfl, rfl⟩
  · exact ⟨rfl, by simp [RecvObs.shift], rfl, rfl⟩

/-- **C01 (whole exchange, every schedule).** Whatever the schedule: what is on the wire is a prefix of
    the rendered head, or the whole head followed by body bytes; no more of the payload is accepted than
    there is; and the receive side is within its bounds (nothing consumed beyond the interim response and
    the message, body a prefix of the payload, no fault). -/
theorem C01_exchange_any (hack : Bool) (f0 : Flow) (r : AReq) (wr0 : BodyWriter) (P : Bytes) (I H : Head) (b0 : BPos)
    (tail pre : Bytes) (X : XSetup hack f0 r wr0 P I H b0 pre) (htail : b0.isClose = true → tail = []) (σ : List IoStep) (hσ : ∀ s ∈ σ, H.safeWin hack s.m) :
    ((xRun hack P (pre ++ (H.enc ++ b0.enc ++ tail)) f0 σ).2.1.wire <+: renderHead r ∨
      ∃ bw, (xRun hack P (pre ++ (H.enc ++ b0.enc ++ tail)) f0 σ).2.1.wire = renderHead r ++ bw) ∧
    (xRun hack P (pre ++ (H.enc ++ b0.enc ++ tail)) f0 σ).2.1.off ≤ P.length ∧
    (xRun hack P (pre ++ (H.enc ++ b0.enc ++ tail)) f0 σ).2.2.faults = 0 ∧
    (xRun hack P (pre ++ (H.enc ++ b0.enc ++ tail)) f0 σ).2.2.consumed ≤ pre.length + (H.enc.length + b0.enc.length) ∧
    (xRun hack P (pre ++ (H.enc ++ b0.enc ++ tail)) f0 σ).2.2.body <+: b0.payload := by
  rcases x_run_inv hack f0 r wr0 P I H b0 tail pre X htail σ hσ with
    ⟨hAB, ho⟩ | ⟨_, _, hA, hp⟩ | ⟨hC, hp⟩ | ⟨_, _, _, _, ho, _, _, hspec, hoff⟩ | ⟨hw, hoff, f1, o', S, hsh, hri⟩
  · have hw : (xRun hack P (pre ++ (H.enc ++ b0.enc ++ tail)) f0 σ).2.1.wire <+: renderHead r ∧
        (xRun hack P (pre ++ (H.enc ++ b0.enc ++ tail)) f0 σ).2.1.off = 0 := by
      rcases hAB with ⟨_, h⟩ | hB
      · rw [h]; exact ⟨List.nil_prefix, rfl⟩
      · exact sendB_wire f0 r wr0 X.send.hne _ _ hB
    refine ⟨Or.inl hw.1, by omega, ?_, ?_, ?_⟩ <;> rw [ho]
    · exact Nat.zero_le _
    · exact List.nil_prefix
  · obtain ⟨g1, g2, g3, _⟩ := pend_safe f0 pre _ _ hp
    obtain ⟨_, _, _, _, _, _, _, _, hw, hoff⟩ := hA
    exact ⟨Or.inr ⟨[], by rw [hw]; simp⟩, by omega, g1, by omega, by rw [g3]; exact List.nil_prefix⟩
  · obtain ⟨g1, g2, g3, _⟩ := pend_safe f0 pre _ _ hp
    obtain ⟨w1, w2⟩ := sendC_wire f0 r wr0 P _ _ hC
    exact ⟨Or.inr w1, w2, g1, by omega, by rw [g3]; exact List.nil_prefix⟩
  · refine ⟨Or.inr (sendSpec_head r wr0 P _ hspec), by omega, ?_, ?_, ?_⟩ <;> rw [ho]
    · exact Nat.zero_le _
    · exact List.nil_prefix
  · obtain ⟨h1, h2, h3, _, _⟩ := recv_safe_of_inv H b0 tail f1 _ _ S.hst hri
    refine ⟨Or.inr (sendSpec_head r wr0 P _ hw), by omega, ?_, ?_, ?_⟩ <;> rw [hsh]
    · exact h1
    · show o'.consumed + pre.length ≤ _; omega
    · exact h3

/-- **C01 (whole exchange, outcome).** Every schedule that completes the exchange has put on the wire
    exactly the rendered head followed by nothing / the payload verbatim / a valid chunked coding (complete
    non-empty chunks, one terminator) of exactly the payload (`SendSpec`); has accepted the whole payload;
    has consumed exactly the interim response (if any) and the response message, so that the next message
    is what remains; has handed out the parsed final head — never the interim one — and the whole
    response payload; and has ended in the state the status dictates. -/
theorem C01_exchange_outcome (hack : Bool) (f0 : Flow) (r : AReq) (wr0 : BodyWriter) (P : Bytes) (I H : Head) (b0 : BPos)
    (tail pre : Bytes) (X : XSetup hack f0 r wr0 P I H b0 pre) (htail : b0.isClose = true → tail = []) (σ : List IoStep)
    (hσ : ∀ s ∈ σ, H.safeWin hack s.m) (hd : recvDone (xRun hack P (pre ++ (H.enc ++ b0.enc ++ tail)) f0 σ).1 = true) :
    SendSpec r wr0 P (xRun hack P (pre ++ (H.enc ++ b0.enc ++ tail)) f0 σ).2.1.wire ∧
    (xRun hack P (pre ++ (H.enc ++ b0.enc ++ tail)) f0 σ).2.1.off = P.length ∧
    (xRun hack P (pre ++ (H.enc ++ b0.enc ++ tail)) f0 σ).2.2 = (recvSpec H b0).shift pre.length ∧
    (xRun hack P (pre ++ (H.enc ++ b0.enc ++ tail)) f0 σ).1.st = terminalSt H ∧
    (pre ++ (H.enc ++ b0.enc ++ tail)).drop (xRun hack P (pre ++ (H.enc ++ b0.enc ++ tail)) f0 σ).2.2.consumed = tail := by
  rcases x_run_inv hack f0 r wr0 P I H b0 tail pre X htail σ hσ with
    ⟨hAB, _⟩ | ⟨hst, _⟩ | ⟨hC, _⟩ | ⟨hst, _⟩ | ⟨hw, hoff, f1, o', S, hsh, hri⟩
  · have hst : (xRun hack P (pre ++ (H.enc ++ b0.enc ++ tail)) f0 σ).1.st = .prepare ∨
        (xRun hack P (pre ++ (H.enc ++ b0.enc ++ tail)) f0 σ).1.st = .sendRequest := by
      rcases hAB with ⟨h, _⟩ | hB
      · left; rw [h]; exact X.send.hst
      · right; exact hB.1
    rcases hst with e | e <;> (unfold recvDone at hd; rw [e] at hd; simp at hd)
  · unfold recvDone at hd; rw [hst] at hd; simp at hd
  · unfold recvDone at hd; rw [hC.1] at hd; simp at hd
  · unfold recvDone at hd; rw [hst] at hd; simp at hd
  · obtain ⟨h1, h2⟩ := recvSpec_of_done H b0 tail f1 _ _ S.hst hri hd
    refine ⟨hw, hoff, by rw [hsh, h1], h2, ?_⟩
    rw [hsh, h1]
    show (pre ++ (H.enc ++ b0.enc ++ tail)).drop (H.enc.length + b0.enc.length + pre.length) = tail
    rw [drop_shift, ← List.length_append, List.drop_left]

/-- for a request without body or with `Content-Length`, `SendSpec` determines the wire bytes -/
theorem SendSpec_unique (r : AReq) (wr0 : BodyWriter) (P w₁ w₂ : Bytes) (hm : wr0.mode ≠ .chunked)
    (h1 : SendSpec r wr0 P w₁) (h2 : SendSpec r wr0 P w₂) : w₁ = w₂ := by
  cases hmode : wr0.mode <;> simp only [SendSpec, hmode] at h1 h2
  · rw [h1, h2]
  · rw [h1, h2]
  · exact absurd hmode hm

/-- **C01 (whole exchange, independence).** Any two complete schedules — whatever the buffer sizes,
    however the bytes arrived, whether the `100 Continue` was seen in time or late — agree on everything
    observed of the response and on the terminal state; both have sent the rendered head and delivered
    exactly the payload (`SendSpec`), and — bodiless or `Content-Length` — byte-identical request bytes.
    (For a chunked request body the chunk boundaries follow the buffers; the payload coded is the same.) -/
theorem C01_exchange_independent (hack : Bool) (f0 : Flow) (r : AReq) (wr0 : BodyWriter) (P : Bytes) (I H : Head) (b0 : BPos)
    (tail pre : Bytes) (X : XSetup hack f0 r wr0 P I H b0 pre) (htail : b0.isClose = true → tail = []) (σ₁ σ₂ : List IoStep)
    (hσ₁ : ∀ s ∈ σ₁, H.safeWin hack s.m) (hσ₂ : ∀ s ∈ σ₂, H.safeWin hack s.m)
    (h1 : recvDone (xRun hack P (pre ++ (H.enc ++ b0.enc ++ tail)) f0 σ₁).1 = true)
    (h2 : recvDone (xRun hack P (pre ++ (H.enc ++ b0.enc ++ tail)) f0 σ₂).1 = true) :
    (xRun hack P (pre ++ (H.enc ++ b0.enc ++ tail)) f0 σ₁).2.2 = (xRun hack P (pre ++ (H.enc ++ b0.enc ++ tail)) f0 σ₂).2.2 ∧
    (xRun hack P (pre ++ (H.enc ++ b0.enc ++ tail)) f0 σ₁).1.st = (xRun hack P (pre ++ (H.enc ++ b0.enc ++ tail)) f0 σ₂).1.st ∧
    (wr0.mode ≠ .chunked →
      (xRun hack P (pre ++ (H.enc ++ b0.enc ++ tail)) f0 σ₁).2.1 = (xRun hack P (pre ++ (H.enc ++ b0.enc ++ tail)) f0 σ₂).2.1) := by
  obtain ⟨a1, a2, a3, a4, _⟩ := C01_exchange_outcome hack f0 r wr0 P I H b0 tail pre X htail σ₁ hσ₁ h1
  obtain ⟨b1, b2, b3, b4, _⟩ := C01_exchange_outcome hack f0 r wr0 P I H b0 tail pre X htail σ₂ hσ₂ h2
  refine ⟨by rw [a3, b3], by rw [a4, b4], fun hm => ?_⟩
  have hw := SendSpec_unique r wr0 P _ _ hm a1 b1
  cases hx : (xRun hack P (pre ++ (H.enc ++ b0.enc ++ tail)) f0 σ₁).2.1 with
  | mk w1 o1 =>
    cases hy : (xRun hack P (pre ++ (H.enc ++ b0.enc ++ tail)) f0 σ₂).2.1 with
    | mk w2 o2 =>
      rw [hx] at hw a2; rw [hy] at hw b2
      simp only at hw a2 b2
      rw [hw, a2, b2]

/-- non-vacuity: `GET http://a/` from a fresh flow, answered by the example response; a schedule of tiny
    buffers and one-byte arrivals and a schedule of huge ones both complete it with the same outcome -/
def xNew : Flow := Flow.new .get .h11 d10Call.req.uri []
def isOkUnit : Except Fault Unit → Bool | .ok () => true | _ => false
theorem isOkUnit_eq (x : Except Fault Unit) (h : isOkUnit x = true) : x = .ok () := by
  unfold isOkUnit at h; split at h <;> simp_all
theorem c11Interim : Interim c11Head := ⟨Head.wf_of_wfb _ (by decide +kernel), rfl, by decide +kernel⟩

example : XSetup true xNew xNew.call.analyzeRequest.1.req BodyWriter.newNone [] c11Head xHead xBody [] where
  send := sendSetup_of_new .get .h11 d10Call.req.uri [] rfl (isOkUnit_eq _ (by decide +kernel))
  hnd := by decide +kernel
  resp := xRespOk
  int := c11Interim
  hpre := Or.inr ⟨by decide +kernel, rfl⟩

def xStream : Bytes := xHead.enc ++ xBody.enc ++ xTail
def xTiny : List IoStep := (List.range 90).map fun i => { m := i, cap := 17 + i % 5 }
def xHuge : List IoStep := List.replicate 8 { m := 1000, cap := 1000 }
#guard recvDone (xRun true [] xStream xNew xTiny).1
#guard recvDone (xRun true [] xStream xNew xHuge).1
#guard (xRun true [] xStream xNew xTiny).2 == (xRun true [] xStream xNew xHuge).2
#guard (xRun true [] xStream xNew xHuge).2.1.wire == "GET / HTTP/1.1\r\nhost: a\r\n\r\n".toUTF8.toList

/-- non-vacuity with a body: `POST http://a/` with `Content-Length: 3`, the same request chunked, and with
    `Expect: 100-continue` (the server's `100 Continue` in front of the response) -/
def xPayload : Bytes := [120, 121, 122]
def xPostCL : Flow := Flow.new .post .h11 d10Call.req.uri [{ name := "content-length", value := [51] }]
def xPostCh : Flow := Flow.new .post .h11 d10Call.req.uri []
def xPostEx : Flow := Flow.new .post .h11 d10Call.req.uri [{ name := "expect", value := "100-continue".toUTF8.toList }]
theorem xRespOkPost : RespOk true xHead xBody .post := { xRespOk with hframe := isLen5_eq _ (by decide +kernel) }
def isChunkedW (w : BodyWriter) : Bool := w == BodyWriter.newChunked
def isSized3 (w : BodyWriter) : Bool := w == BodyWriter.newSized 3

example : XSetup true xPostCL xPostCL.call.analyzeRequest.1.req (BodyWriter.newSized xPayload.length) xPayload c11Head xHead xBody [] where
  send := sendSetup_of_new_body .post .h11 d10Call.req.uri _ xPayload _ rfl
    (isOkUnit_eq _ (by decide +kernel)) (by decide +kernel) (Or.inr rfl)
  hnd := by decide +kernel
  resp := xRespOkPost
  int := c11Interim
  hpre := Or.inr ⟨by decide +kernel, rfl⟩

example : XSetup true xPostCh xPostCh.call.analyzeRequest.1.req BodyWriter.newChunked xPayload c11Head xHead xBody [] where
  send := sendSetup_of_new_body .post .h11 d10Call.req.uri _ xPayload _ rfl
    (isOkUnit_eq _ (by decide +kernel)) (by decide +kernel) (Or.inl rfl)
  hnd := by decide +kernel
  resp := xRespOkPost
  int := c11Interim
  hpre := Or.inr ⟨by decide +kernel, rfl⟩

example : XSetup true xPostEx xPostEx.call.analyzeRequest.1.req BodyWriter.newChunked xPayload c11Head xHead xBody c11Head.enc where
  send := sendSetup_of_new_body .post .h11 d10Call.req.uri _ xPayload _ rfl
    (isOkUnit_eq _ (by decide +kernel)) (by decide +kernel) (Or.inl rfl)
  hnd := by decide +kernel
  resp := xRespOkPost
  int := c11Interim
  hpre := Or.inl ⟨by decide +kernel, rfl⟩

#guard recvDone (xRun true xPayload xStream xPostCL xTiny).1
#guard (xRun true xPayload xStream xPostCL xTiny).2 == (xRun true xPayload xStream xPostCL xHuge).2
def xSmall : List IoStep := (List.range 90).map fun i => { m := i, cap := 32 + i % 5 }
#guard recvDone (xRun true xPayload xStream xPostCh xSmall).1
#guard recvDone (xRun true xPayload xStream xPostCh xHuge).1
#guard (xRun true xPayload xStream xPostCh xSmall).2.2 == (xRun true xPayload xStream xPostCh xHuge).2.2
#guard (xRun true xPayload xStream xPostCh xHuge).2.1.wire ==
  "POST / HTTP/1.1\r\nhost: a\r\ntransfer-encoding: chunked\r\n\r\n3\r\nxyz\r\n0\r\n\r\n".toUTF8.toList
-- Expect: the caller sees the 100 in time (xHuge), gives up at once (xEarly: the 100 is skipped later in
-- RecvResponse), or gets it byte by byte and gives up in the middle (xMid)
def xStreamEx : Bytes := c11Head.enc ++ xStream
def xEarly : List IoStep := List.replicate 3 { m := 0, cap := 1000, giveUp := true } ++ List.replicate 8 { m := 1000, cap := 1000 }
def xMid : List IoStep := (List.range 120).map fun i => { m := i / 2, cap := 40, giveUp := i == 20 }
#guard recvDone (xRun true xPayload xStreamEx xPostEx xHuge).1
#guard recvDone (xRun true xPayload xStreamEx xPostEx xEarly).1
#guard recvDone (xRun true xPayload xStreamEx xPostEx xMid).1
#guard (xRun true xPayload xStreamEx xPostEx xHuge).2.2 == (xRun true xPayload xStreamEx xPostEx xEarly).2.2
#guard (xRun true xPayload xStreamEx xPostEx xHuge).2.2 == (xRun true xPayload xStreamEx xPostEx xMid).2.2
#guard (xRun true xPayload xStreamEx xPostEx xHuge).2.2.consumed == c11Head.enc.length + xHead.enc.length + 5

/-- non-vacuity, close-delimited: `HTTP/1.1 200 OK` without framing fields, then `hello`, then the
    connection ends; the body is everything that follows the head, and the connection is marked must-close -/
def xHeadC : Head := { ver := 1, d1 := 50, d2 := 48, d3 := 48, reason := some [79, 75], fields := [] }
def xBodyC : BPos := .close [104, 101, 108, 108, 111]
def isCloseR : Except Fault BodyReader → Bool | .ok .close => true | _ => false
theorem isCloseR_eq (x : Except Fault BodyReader) (h : isCloseR x = true) : x = .ok .close := by
  unfold isCloseR at h; split at h <;> simp_all
theorem xRespOkC : RespOk true xHeadC xBodyC .get where
  hw := Head.wf_of_wfb _ (by decide +kernel)
  hs := by decide +kernel
  hc := by decide +kernel
  h100 := by decide +kernel
  hn := by intro f hf; simp [xHeadC] at hf
  hb := trivial
  hframe := isCloseR_eq _ (by decide +kernel)

example : XSetup true xNew xNew.call.analyzeRequest.1.req BodyWriter.newNone [] c11Head xHeadC xBodyC [] where
  send := sendSetup_of_new .get .h11 d10Call.req.uri [] rfl (isOkUnit_eq _ (by decide +kernel))
  hnd := by decide +kernel
  resp := xRespOkC
  int := c11Interim
  hpre := Or.inr ⟨by decide +kernel, rfl⟩

def xStreamC : Bytes := xHeadC.enc ++ xBodyC.enc
#guard recvDone (xRun true [] xStreamC xNew xTiny).1
#guard recvDone (xRun true [] xStreamC xNew xHuge).1
#guard (xRun true [] xStreamC xNew xTiny).2 == (xRun true [] xStreamC xNew xHuge).2
#guard (xRun true [] xStreamC xNew xHuge).2.2.body == [104, 101, 108, 108, 111]
#guard (xRun true [] xStreamC xNew xTiny).1.closeReasons.contains .closeDelimited

/-- **C01 (whole exchange, completion).** After any schedule whatsoever — buffers too small for a line,
    bytes withheld, a caller that gave up waiting or did not — once everything the server sends for this
    exchange has arrived and the caller's buffer holds the longest head line and the smallest chunk (6
    bytes), a bounded number of further calls (head lines + payload bytes + server bytes + 9) completes the
    exchange: no schedule can wedge the flow, on either side. -/
theorem C01_exchange_live (hack : Bool) (f0 : Flow) (r : AReq) (wr0 : BodyWriter) (P : Bytes) (I H : Head) (b0 : BPos)
    (tail pre : Bytes) (X : XSetup hack f0 r wr0 P I H b0 pre) (htail : b0.isClose = true → tail = []) (σ full : List IoStep) (hσ : ∀ s ∈ σ, H.safeWin hack s.m)
    (hfull : ∀ s ∈ full, s.full r (pre.length + (H.enc.length + b0.enc.length)))
    (hlen : (headUnits r).length + P.length + (pre.length + (H.enc.length + b0.enc.length)) + 9 ≤ full.length) :
    recvDone (xRun hack P (pre ++ (H.enc ++ b0.enc ++ tail)) f0 (σ ++ full)).1 = true := by
  unfold xRun
  rw [List.foldl_append]
  have hinv := x_run_inv hack f0 r wr0 P I H b0 tail pre X htail σ hσ
  unfold xRun at hinv
  exact x_live_aux hack f0 r wr0 P I H b0 tail pre X htail _ _ hinv (Or.inr (xMeasure_le r P _ _)) full hfull (by omega)

/-! C01 across a redirect: the flow `as_new_flow` builds is again a valid start of a (bodiless) exchange, and
    the stream position is handed over exactly. -/

theorem newMethodOf_nobody (m nm : Method) (s : Nat) (h : newMethodOf m s = some nm) : nm.needBody = false := by
  unfold newMethodOf at h
  by_cases hs : (s == 307 || s == 308) = true
  · simp only [hs, if_true] at h
    cases hn : m.needBody with
    | true => simp [hn] at h
    | false =>
      simp only [hn, Bool.false_eq_true, if_false] at h
      split at h
      · cases h
      · injection h with h; rw [← h]; exact hn
  · simp only [hs, Bool.false_eq_true, if_false] at h
    split at h
    · injection h with h
      rename_i hg
      rw [← h]
      cases m <;> simp [Method.needBody] at hg ⊢
    · injection h with h; rw [← h]; rfl

/-- **C01 (next hop).** Whatever redirect was followed — any status of the method table, any resolved
    target, either credentials policy — the new flow is a valid bodiless start (`SendSetup`), provided its
    request passes `analyze_request` (C17 says exactly when): so every theorem of the composed exchange
    applies to each hop of a redirect chain in turn. -/
theorem C01_follow_setup (prev : AReq) (m nm : Method) (s : Nat) (uri : Uri) (sameHost : Bool)
    (hm : newMethodOf m s = some nm)
    (han : (followFlow prev nm uri sameHost).call.analyzeRequest.2 = .ok ()) :
    SendSetup (followFlow prev nm uri sameHost) (followFlow prev nm uri sameHost).call.analyzeRequest.1.req BodyWriter.newNone [] := by
  have hnb := newMethodOf_nobody m nm s hm
  have hspec := analyzeRequest_spec (followFlow prev nm uri sameHost).call (Or.inr (by simp [followFlow, Flow.new, MAX_EXTRA]))
  obtain ⟨_, hph, _, _, _, _, _, hok, hne, _, _, _, hwr⟩ := hspec
  have hw0 : (followFlow prev nm uri sameHost).call.writer = BodyWriter.newNone := by simp [followFlow, Flow.new, hnb]
  refine ⟨rfl, han, rfl, (hok han).1, ?_, by simp [followFlow, Flow.new], ?_, hne han (by simp [followFlow, Flow.new]), ?_⟩
  · rw [hph]; simp [followFlow, Flow.new]
  · exact hwr (by simp [followFlow, Flow.new]) (by simp [followFlow, Flow.new, hnb]) hw0
  · exact Or.inl ⟨by simp [followFlow, Flow.new, hnb], by simp [followFlow, Flow.new, hnb], rfl, rfl⟩

/-- **C01 (hand-over between exchanges).** When the first exchange of a connection completes — under any
    schedule — what remains of the server stream is exactly the stream of the next exchange; so the next
    exchange, run from there under any schedule of its own, has the outcome its own `XSetup` dictates. -/
theorem C01_pipeline (hack : Bool)
    (f₁ : Flow) (r₁ : AReq) (w₁ : BodyWriter) (P₁ : Bytes) (I₁ H₁ : Head) (b₁ : BPos) (pre₁ : Bytes)
    (f₂ : Flow) (r₂ : AReq) (w₂ : BodyWriter) (P₂ : Bytes) (I₂ H₂ : Head) (b₂ : BPos) (pre₂ tail : Bytes)
    (X₁ : XSetup hack f₁ r₁ w₁ P₁ I₁ H₁ b₁ pre₁) (X₂ : XSetup hack f₂ r₂ w₂ P₂ I₂ H₂ b₂ pre₂)
    (hc₁ : b₁.isClose = false) (htail : b₂.isClose = true → tail = [])
    (σ₁ σ₂ : List IoStep) (hσ₁ : ∀ s ∈ σ₁, H₁.safeWin hack s.m) (hσ₂ : ∀ s ∈ σ₂, H₂.safeWin hack s.m)
    (hd₁ : recvDone (xRun hack P₁ (pre₁ ++ (H₁.enc ++ b₁.enc ++ (pre₂ ++ (H₂.enc ++ b₂.enc ++ tail)))) f₁ σ₁).1 = true)
    (hd₂ : recvDone (xRun hack P₂
        ((pre₁ ++ (H₁.enc ++ b₁.enc ++ (pre₂ ++ (H₂.enc ++ b₂.enc ++ tail)))).drop
          (xRun hack P₁ (pre₁ ++ (H₁.enc ++ b₁.enc ++ (pre₂ ++ (H₂.enc ++ b₂.enc ++ tail)))) f₁ σ₁).2.2.consumed) f₂ σ₂).1 = true) :
    (xRun hack P₂
        ((pre₁ ++ (H₁.enc ++ b₁.enc ++ (pre₂ ++ (H₂.enc ++ b₂.enc ++ tail)))).drop
          (xRun hack P₁ (pre₁ ++ (H₁.enc ++ b₁.enc ++ (pre₂ ++ (H₂.enc ++ b₂.enc ++ tail)))) f₁ σ₁).2.2.consumed) f₂ σ₂).2.2
      = (recvSpec H₂ b₂).shift pre₂.length := by
  obtain ⟨_, _, _, _, hrest⟩ := C01_exchange_outcome hack f₁ r₁ w₁ P₁ I₁ H₁ b₁ _ pre₁ X₁ (by rw [hc₁]; intro h; cases h) σ₁ hσ₁ hd₁
  rw [hrest] at hd₂ ⊢
  exact (C01_exchange_outcome hack f₂ r₂ w₂ P₂ I₂ H₂ b₂ tail pre₂ X₂ htail σ₂ hσ₂ hd₂).2.2.1

/-! ## Refused `Expect` (Proofs/ExchangeRefuse.lean): `C01_refused_outcome`, `C01_refused_independent` -/

/-- non-vacuity of the refusal class: `POST` with `Expect`, answered `403` with `Content-Length: 0`, then
    the start of a next message; a caller that gives up at once sends the body, a caller that looks first
    does not — both complete with the same response observations -/
def xField0 : Field := { name := [67,111,110,116,101,110,116,45,76,101,110,103,116,104], pre := [32], value := [48], post := [] }
def xHead403 : Head := { ver := 1, d1 := 52, d2 := 48, d3 := 51, reason := some [78, 111], fields := [xField0] }
def xBody0 : BPos := .len []
def isLen0 : Except Fault BodyReader → Bool | .ok (.len 0) => true | _ => false
theorem isLen0_eq (x : Except Fault BodyReader) (h : isLen0 x = true) : x = .ok (.len 0) := by
  unfold isLen0 at h; split at h <;> simp_all
theorem xRespOk403 : RespOk true xHead403 xBody0 .post where
  hw := Head.wf_of_wfb _ (by decide +kernel)
  hs := by decide +kernel
  hc := by decide +kernel
  h100 := by decide +kernel
  hn := by intro f hf; simp [xHead403] at hf; subst hf; simp [xField0]
  hb := trivial
  hframe := isLen0_eq _ (by decide +kernel)

example : XSetupR true xPostEx xPostEx.call.analyzeRequest.1.req BodyWriter.newChunked xPayload xHead403 xBody0 where
  send := sendSetup_of_new_body .post .h11 d10Call.req.uri _ xPayload _ rfl
    (isOkUnit_eq _ (by decide +kernel)) (by decide +kernel) (Or.inl rfl)
  hnd := by decide +kernel
  resp := xRespOk403
  haw := by decide +kernel

def xStream403 : Bytes := xHead403.enc ++ xBody0.enc ++ xTail
#guard recvDone (xRun true xPayload xStream403 xPostEx xEarly).1
#guard recvDone (xRun true xPayload xStream403 xPostEx xHuge).1
#guard (xRun true xPayload xStream403 xPostEx xEarly).2.2 == (xRun true xPayload xStream403 xPostEx xHuge).2.2
#guard (xRun true xPayload xStream403 xPostEx xEarly).2.1.off == 3      -- gave up: the body went out
#guard (xRun true xPayload xStream403 xPostEx xHuge).2.1.off == 0       -- looked first: refused, no body
#guard (xRun true xPayload xStream403 xPostEx xHuge).1.closeReasons.contains .not100

/-- non-vacuity for a redirect response under the fallback: `302` with `Location`; windows that hold the
    whole head, or end before the end of the Location line, are safe — a schedule of such windows completes
    the exchange in the `Redirect` state -/
def xFieldLoc : Field := { name := [76,111,99,97,116,105,111,110], pre := [32], value := [47,110], post := [] }
def xHead302 : Head := { ver := 1, d1 := 51, d2 := 48, d3 := 50, reason := some [70], fields := [xField0, xFieldLoc] }
theorem xRespOk302 : RespOk true xHead302 xBody0 .get where
  hw := Head.wf_of_wfb _ (by decide +kernel)
  hs := by decide +kernel
  hc := by decide +kernel
  h100 := by decide +kernel
  hn := by intro f hf; simp [xHead302] at hf; rcases hf with rfl | rfl <;> simp [xField0, xFieldLoc]
  hb := trivial
  hframe := isLen0_eq _ (by decide +kernel)

/-- windows of at most 30 bytes end before the end of the Location line (status line 17 + first field 19 +
    Location line 14 bytes), windows of 1000 bytes hold the whole head -/
def xSafe302 : List IoStep := [{ m := 0, cap := 64 }, { m := 20, cap := 64 }, { m := 30, cap := 64 }, { m := 1000, cap := 64 }, { m := 1000, cap := 64 }, { m := 1000, cap := 64 }]
theorem xSafe302_ok : ∀ s ∈ xSafe302, xHead302.safeWin true s.m := by
  have hsmall : ∀ m, m < 49 → xHead302.safeWin true m := by
    intro m hm
    refine Or.inr (Or.inr (Or.inr ⟨[xField0], xFieldLoc, [], rfl, by decide +kernel, ?_⟩))
    have : xHead302.statusLine.length + (encFields [xField0]).length + xFieldLoc.enc.length = 49 := by decide +kernel
    omega
  intro s hs
  simp [xSafe302] at hs
  rcases hs with rfl | rfl | rfl | rfl
  · exact hsmall 0 (by omega)
  · exact hsmall 20 (by omega)
  · exact hsmall 30 (by omega)
  · exact Head.safeWin_full _ _ _ (by decide +kernel)

#guard recvDone (xRun true [] (xHead302.enc ++ xBody0.enc ++ xTail) xNew xSafe302).1
#guard (xRun true [] (xHead302.enc ++ xBody0.enc ++ xTail) xNew xSafe302).1.st == .redirect
#guard (xRun true [] (xHead302.enc ++ xBody0.enc ++ xTail) xNew xSafe302).2.2 == recvSpec xHead302 xBody0

/-! ## Across redirects (Proofs/ExchangeChain.lean): what `as_new_flow` is handed is schedule-independent -/

/-- **C01 (what a redirect hands to the next hop).** However the exchange was scheduled, once it is complete
    the flow holds the analysed request `r`, the status of `H` and the last `Location` field of `H` — the three
    things `as_new_flow` reads. -/
theorem C01_redirect_state (hack : Bool) (f0 : Flow) (r : AReq) (wr0 : BodyWriter) (P : Bytes) (I H : Head) (b0 : BPos)
    (tail pre : Bytes) (X : XSetup hack f0 r wr0 P I H b0 pre) (htail : b0.isClose = true → tail = []) (σ : List IoStep)
    (hσ : ∀ s ∈ σ, H.safeWin hack s.m) (hd : recvDone (xRun hack P (pre ++ (H.enc ++ b0.enc ++ tail)) f0 σ).1 = true) :
    (xRun hack P (pre ++ (H.enc ++ b0.enc ++ tail)) f0 σ).1.call.req = r ∧
    (xRun hack P (pre ++ (H.enc ++ b0.enc ++ tail)) f0 σ).1.location = lastLocation H.parsed.fields ∧
    (xRun hack P (pre ++ (H.enc ++ b0.enc ++ tail)) f0 σ).1.status = some H.codeVal := by
  have hout := (C01_exchange_outcome hack f0 r wr0 P I H b0 tail pre X htail σ hσ hd).2.2.1
  have hrv : recvish (xRun hack P (pre ++ (H.enc ++ b0.enc ++ tail)) f0 σ).1.st := by
    unfold recvDone at hd
    simp only [Bool.or_eq_true, beq_iff_eq] at hd
    rcases hd with h | h
    · exact Or.inr (Or.inr (Or.inl h))
    · exact Or.inr (Or.inr (Or.inr h))
  obtain ⟨h1, h2⟩ := x_run_remembers hack f0 r wr0 P I H b0 tail pre X htail σ hσ hrv
  obtain ⟨h3, h4⟩ := h2 (by rw [hout]; rfl) H.parsed (by rw [hout]; rfl)
  exact ⟨h1, h3, h4⟩

/-- **C01 (the next hop is schedule-independent).** The answer of `as_new_flow` after a complete exchange —
    the new flow with its method, target and inherited headers (C13–C15), or the refusal, or the error — is a
    function of the request and the response head alone. -/
theorem C01_redirect_next (hack : Bool) (f0 : Flow) (r : AReq) (wr0 : BodyWriter) (P : Bytes) (I H : Head) (b0 : BPos)
    (tail pre : Bytes) (X : XSetup hack f0 r wr0 P I H b0 pre) (htail : b0.isClose = true → tail = []) (σ : List IoStep)
    (hσ : ∀ s ∈ σ, H.safeWin hack s.m) (hd : recvDone (xRun hack P (pre ++ (H.enc ++ b0.enc ++ tail)) f0 σ).1 = true)
    (sameHost : Bool) :
    ((xRun hack P (pre ++ (H.enc ++ b0.enc ++ tail)) f0 σ).1.asNewFlow sameHost).2 =
      followRes r (lastLocation H.parsed.fields) (some H.codeVal) sameHost := by
  obtain ⟨h1, h2, h3⟩ := C01_redirect_state hack f0 r wr0 P I H b0 tail pre X htail σ hσ hd
  rw [asNewFlow_res, h1, h2, h3]

/-- **C01 (two hops).** An exchange answered by a redirect, `as_new_flow`, and the exchange of the flow it
    returns (on whatever stream the next connection delivers): under any two complete schedules the second
    request on the wire, the second response as observed and the final state are those the second exchange's
    own setup dictates — the first schedule has no influence beyond having completed. -/
theorem C01_chain2 (hack : Bool)
    (f₁ : Flow) (r₁ : AReq) (w₁ : BodyWriter) (P₁ : Bytes) (I₁ H₁ : Head) (b₁ : BPos) (pre₁ tail₁ : Bytes)
    (X₁ : XSetup hack f₁ r₁ w₁ P₁ I₁ H₁ b₁ pre₁) (ht₁ : b₁.isClose = true → tail₁ = [])
    (sameHost : Bool) (f₂ : Flow) (hnext : followRes r₁ (lastLocation H₁.parsed.fields) (some H₁.codeVal) sameHost = .flow f₂)
    (r₂ : AReq) (w₂ : BodyWriter) (P₂ : Bytes) (I₂ H₂ : Head) (b₂ : BPos) (pre₂ tail₂ : Bytes)
    (X₂ : XSetup hack f₂ r₂ w₂ P₂ I₂ H₂ b₂ pre₂) (ht₂ : b₂.isClose = true → tail₂ = [])
    (σ₁ σ₂ : List IoStep) (hσ₁ : ∀ s ∈ σ₁, H₁.safeWin hack s.m) (hσ₂ : ∀ s ∈ σ₂, H₂.safeWin hack s.m)
    (hd₁ : recvDone (xRun hack P₁ (pre₁ ++ (H₁.enc ++ b₁.enc ++ tail₁)) f₁ σ₁).1 = true) :
    ((xRun hack P₁ (pre₁ ++ (H₁.enc ++ b₁.enc ++ tail₁)) f₁ σ₁).1.asNewFlow sameHost).2 = .flow f₂ ∧
    (recvDone (xRun hack P₂ (pre₂ ++ (H₂.enc ++ b₂.enc ++ tail₂)) f₂ σ₂).1 = true →
      SendSpec r₂ w₂ P₂ (xRun hack P₂ (pre₂ ++ (H₂.enc ++ b₂.enc ++ tail₂)) f₂ σ₂).2.1.wire ∧
      (xRun hack P₂ (pre₂ ++ (H₂.enc ++ b₂.enc ++ tail₂)) f₂ σ₂).2.2 = (recvSpec H₂ b₂).shift pre₂.length ∧
      (xRun hack P₂ (pre₂ ++ (H₂.enc ++ b₂.enc ++ tail₂)) f₂ σ₂).1.st = terminalSt H₂) := by
  refine ⟨?_, ?_⟩
  · rw [C01_redirect_next hack f₁ r₁ w₁ P₁ I₁ H₁ b₁ tail₁ pre₁ X₁ ht₁ σ₁ hσ₁ hd₁ sameHost, hnext]
  · intro hd₂
    obtain ⟨a, _, c, d, _⟩ := C01_exchange_outcome hack f₂ r₂ w₂ P₂ I₂ H₂ b₂ tail₂ pre₂ X₂ ht₂ σ₂ hσ₂ hd₂
    exact ⟨a, c, d⟩

/-- non-vacuity of the two-hop statement: `GET http://a/` answered `302` with `Location: /n`; the flow
    `as_new_flow` returns is `GET http://a/n`, a covered start, and its exchange (answered by the example
    response) completes with the same outcome under a tiny-buffer and a huge-buffer schedule -/
def xReq1 : AReq := xNew.call.analyzeRequest.1.req
def xUri2 : Uri := { scheme := "http", host := "a", port := none, path := "/n", query := none }
def xF2 : Flow := followFlow xReq1 .get xUri2 false

example : XSetup true xNew xReq1 BodyWriter.newNone [] c11Head xHead302 xBody0 [] where
  send := sendSetup_of_new .get .h11 d10Call.req.uri [] rfl (isOkUnit_eq _ (by decide +kernel))
  hnd := by decide +kernel
  resp := xRespOk302
  int := c11Interim
  hpre := Or.inr ⟨by decide +kernel, rfl⟩

example : XSetup true xF2 xF2.call.analyzeRequest.1.req BodyWriter.newNone [] c11Head xHead xBody [] where
  send := C01_follow_setup xReq1 .get .get 302 xUri2 false (by decide) (isOkUnit_eq _ (by decide +kernel))
  hnd := by decide +kernel
  resp := xRespOk
  int := c11Interim
  hpre := Or.inr ⟨by decide +kernel, rfl⟩

-- the hypothesis `hnext` of `C01_chain2` for this instance (evaluated: URL resolution works on `String`s,
-- which the kernel does not reduce), and the whole chain run on the model
#guard (match followRes xReq1 (lastLocation xHead302.parsed.fields) (some xHead302.codeVal) false with
        | .flow f => f == xF2 | _ => false)
#guard (match ((xRun true [] (xHead302.enc ++ xBody0.enc ++ xTail) xNew xSafe302).1.asNewFlow false).2 with
        | .flow g => g == xF2 && recvDone (xRun true [] xStream g xTiny).1 &&
            (xRun true [] xStream g xTiny).2 == (xRun true [] xStream xF2 xHuge).2 &&
            (xRun true [] xStream g xHuge).2.1.wire == "GET /n HTTP/1.1\r\nhost: a\r\n\r\n".toUTF8.toList
        | _ => false)


/-- one hop of a redirect chain: the exchange (request side `r w P`, interim `I pre`, response `H b`, what
    follows it on that connection `tail`), the schedule it is run under, and the credentials policy used when
    following it -/
structure Hop where
  r : AReq
  w : BodyWriter
  P : Bytes
  I : Head
  H : Head
  b : BPos
  pre : Bytes
  tail : Bytes
  σ : List IoStep
  sameHost : Bool

def Hop.stream (h : Hop) : Bytes := h.pre ++ (h.H.enc ++ h.b.enc ++ h.tail)

/-- the caller's loop over a whole chain: run the exchange, ask `as_new_flow`, go on with the flow it returns -/
def chainRun (hack : Bool) : Flow → List Hop → List (Flow × SendObs × RecvObs)
  | _, [] => []
  | f, h :: rest =>
    (xRun hack h.P h.stream f h.σ) ::
      match ((xRun hack h.P h.stream f h.σ).1.asNewFlow h.sameHost).2 with
      | .flow g => chainRun hack g rest
      | _ => []

/-- a chain of covered exchanges: every hop is an `XSetup` of the flow it starts from, its schedule is safe and
    complete, and — unless it is the last — `followRes` of its request and response head is the next flow -/
def ChainOK (hack : Bool) : Flow → List Hop → Prop
  | _, [] => True
  | f, h :: rest =>
    XSetup hack f h.r h.w h.P h.I h.H h.b h.pre ∧ (h.b.isClose = true → h.tail = []) ∧
    (∀ s ∈ h.σ, h.H.safeWin hack s.m) ∧ recvDone (xRun hack h.P h.stream f h.σ).1 = true ∧
    (rest = [] ∨ ∃ g, followRes h.r (lastLocation h.H.parsed.fields) (some h.H.codeVal) h.sameHost = .flow g ∧ ChainOK hack g rest)

/-- what every run of the chain observes, hop by hop -/
def ChainSpec : List Hop → List (Flow × SendObs × RecvObs) → Prop
  | [], [] => True
  | h :: rest, x :: xs =>
    SendSpec h.r h.w h.P x.2.1.wire ∧ x.2.2 = (recvSpec h.H h.b).shift h.pre.length ∧ x.1.st = terminalSt h.H ∧
    ChainSpec rest xs
  | _, _ => False

/-- **C01 (a redirect chain as one run).** Any number of hops: under any complete schedules, hop by hop, the
    request on the wire is the one its setup renders, the response is observed exactly, the state is
    terminal, and the flow `as_new_flow` returns is the next hop's start — so the whole chain's observations
    do not depend on any of the schedules. -/
theorem C01_chain (hack : Bool) (hops : List Hop) : ∀ (f : Flow), ChainOK hack f hops →
    ChainSpec hops (chainRun hack f hops) := by
  induction hops with
  | nil => intro f _; trivial
  | cons h rest ih =>
    intro f hok
    obtain ⟨X, ht, hσ, hd, hnext⟩ := hok
    obtain ⟨a, _, c, d, _⟩ := C01_exchange_outcome hack f h.r h.w h.P h.I h.H h.b h.tail h.pre X ht h.σ hσ hd
    unfold chainRun
    refine ⟨a, c, d, ?_⟩
    rcases hnext with rfl | ⟨g, hg, hrest⟩
    · -- last hop: whatever as_new_flow says, nothing follows
      split
      · unfold chainRun; trivial
      · trivial
    · have hn := C01_redirect_next hack f h.r h.w h.P h.I h.H h.b h.tail h.pre X ht h.σ hσ hd h.sameHost
      unfold Hop.stream
      rw [hn, hg]
      exact ih g hrest

/-- the two-hop instance above as a chain, run as one: both hops observed as specified, under the safe
    windows of the redirect head and a tiny-buffer schedule for the second hop (evaluated) -/
def xHop1 : Hop := { r := xReq1, w := BodyWriter.newNone, P := [], I := c11Head, H := xHead302, b := xBody0, pre := [],
                     tail := xTail, σ := xSafe302, sameHost := false }
def xHop2 (σ : List IoStep) : Hop :=
  { r := xF2.call.analyzeRequest.1.req, w := BodyWriter.newNone, P := [], I := c11Head, H := xHead, b := xBody, pre := [],
    tail := xTail, σ := σ, sameHost := false }
#guard (chainRun true xNew [xHop1, xHop2 xTiny]).map (·.2.2) == [recvSpec xHead302 xBody0, recvSpec xHead xBody]
#guard (chainRun true xNew [xHop1, xHop2 xHuge]).map (·.2.2) == [recvSpec xHead302 xBody0, recvSpec xHead xBody]
#guard (chainRun true xNew [xHop1, xHop2 xTiny]).map (·.1.st) == [.redirect, .cleanup]
