import Hoot.Model.Uri
import Hoot.Props.C09

/-! # C13 — redirects never leak credentials or stale framing to the next request

`followFlow prev nm uri sameHost` is the flow `as_new_flow` builds from the request `prev` inside the
redirect flow. -/

/-- **C13 (chain).** The request inside the new flow is the ORIGINAL request with only the method changed;
    the target lives in the URI override. So at every hop of a chain `prev.uri` is the original URI, and
    the policy comparison below is against the original host and scheme, whatever hosts lie in between. -/
theorem C13_chain (prev : AReq) (nm : Method) (uri : Uri) (sameHost : Bool) :
    (followFlow prev nm uri sameHost).call.req.uri = prev.uri ∧
    (followFlow prev nm uri sameHost).call.req.orig = prev.orig ∧
    (followFlow prev nm uri sameHost).call.req.version = prev.version ∧
    (followFlow prev nm uri sameHost).call.req.method = nm ∧
    (followFlow prev nm uri sameHost).call.req.uriOverride = some uri ∧
    (followFlow prev nm uri sameHost).call.req.added = [] := by
  simp [followFlow, Flow.new]

theorem keepAuthHeader_iff (sameHost : Bool) (o t : Uri) :
    keepAuthHeader sameHost o t = true ↔ (sameHost = true ∧ o.host = t.host ∧ (o.scheme = t.scheme ∨ t.scheme = "https")) := by
  simp [keepAuthHeader]

/-- **C13 (no Cookie, no Content-Length, Authorization only under the policy).** Every effective header of
    the request created for a redirect: it is not named `cookie` or `content-length`; and if it is named
    `authorization` then the caller chose same-host, the target host equals the original host, and the
    target scheme equals the original one or is https. With `never` it is never present. -/
theorem C13 (prev : AReq) (nm : Method) (uri : Uri) (sameHost : Bool) (h : Hdr)
    (hin : h ∈ (followFlow prev nm uri sameHost).call.req.headers) :
    h.name ≠ "cookie" ∧ h.name ≠ "content-length" ∧
    (h.name = "authorization" → sameHost = true ∧ prev.uri.host = uri.host ∧ (prev.uri.scheme = uri.scheme ∨ uri.scheme = "https")) := by
  unfold followFlow AReq.headers at hin
  simp only [Flow.new, List.nil_append, List.mem_filter] at hin
  obtain ⟨_, hf⟩ := hin
  unfold unsetList at hf
  refine ⟨?_, ?_, ?_⟩
  · intro e; rw [e] at hf; simp at hf
  · intro e; rw [e] at hf; simp at hf
  · intro e
    rw [e] at hf
    by_cases hk : keepAuthHeader sameHost prev.uri uri = true
    · exact (keepAuthHeader_iff _ _ _).mp hk
    · simp [hk] at hf

/-- the suppression list never exceeds its four slots (authorization, host, cookie, content-length) -/
theorem C13_cap (b c : Bool) : (unsetList b c).length ≤ 4 := by cases b <;> cases c <;> simp [unsetList]

/-- every flow returned by `as_new_flow` is such a `followFlow` of the request that was just made -/
theorem C13_asNewFlow (f : Flow) (sameHost : Bool) (nf : Flow) (h : (f.asNewFlow sameHost).2 = .flow nf) :
    ∃ nm uri, nf = followFlow f.call.req nm uri sameHost := by
  unfold Flow.asNewFlow at h
  repeat' split at h
  all_goals (first | (simp at h; done) | (simp only [FollowRes.flow.injEq] at h; exact ⟨_, _, h.symm⟩))

example : keepAuthHeader true { scheme := "http", host := "a", port := none, path := "/", query := none }
    { scheme := "https", host := "a", port := none, path := "/x", query := none } = true := by decide
