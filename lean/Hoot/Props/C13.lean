import Hoot.Model.Uri
import Hoot.Props.C09
import Hoot.Proofs.HeadersMap

/-! # C13 — redirects never leak credentials or stale framing to the next request

`followFlow prev nm uri sameHost` is the flow `as_new_flow` builds from the request `prev` inside the
redirect flow. -/

/-- **C13 (chain).** The request inside the new flow is the ORIGINAL request with only the method changed;
    the target lives in the URI override. So at every hop of a chain `prev.uri` is the original URI, and
    the policy comparison below is against the original host and scheme, whatever hosts lie in between. -/
theorem C13_chain (prev : AReq) (nm : Method) (uri : Uri) (sameHost : Bool) :
    (followFlow prev nm uri sameHost).call.req.uri = prev.uri ∧
    (followFlow prev nm uri sameHost).call.req.orig = prev.orig ∧
    (followFlow prev nm uri sameHost).call.req.version = prev.version ∧
    (followFlow prev nm uri sameHost).call.req.method = nm ∧
    (followFlow prev nm uri sameHost).call.req.uriOverride = some uri ∧
    (followFlow prev nm uri sameHost).call.req.added = [] := by
  simp [followFlow, Flow.new]

theorem keepAuthHeader_iff (sameHost : Bool) (o t : Uri) :
    keepAuthHeader sameHost o t = true ↔ (sameHost = true ∧ o.host = t.host ∧ (o.scheme = t.scheme ∨ t.scheme = "https")) := by
  simp [keepAuthHeader]

/-- **C13 (no Cookie, no Content-Length, Authorization only under the policy).** Every effective header of
    the request created for a redirect: it is not named `cookie` or `content-length`; and if it is named
    `authorization` then the caller chose same-host, the target host equals the original host, and the
    target scheme equals the original one or is https. With `never` it is never present. -/
theorem C13 (prev : AReq) (nm : Method) (uri : Uri) (sameHost : Bool) (h : Hdr)
    (hin : h ∈ (followFlow prev nm uri sameHost).call.req.headers) :
    h.name ≠ "cookie" ∧ h.name ≠ "content-length" ∧
    (h.name = "authorization" → sameHost = true ∧ prev.uri.host = uri.host ∧ (prev.uri.scheme = uri.scheme ∨ uri.scheme = "https")) := by
  unfold followFlow AReq.headers at hin
  simp only [Flow.new, List.nil_append, List.mem_filter] at hin
  obtain ⟨_, hf⟩ := hin
  unfold unsetList at hf
  refine ⟨?_, ?_, ?_⟩
  · intro e; rw [e] at hf; simp at hf
  · intro e; rw [e] at hf; simp at hf
  · intro e
    rw [e] at hf
    by_cases hk : keepAuthHeader sameHost prev.uri uri = true
    · exact (keepAuthHeader_iff _ _ _).mp hk
    · simp [hk] at hf

/-- **C13 (as seen through `headers_map()`).** The accessor on a flow created for a redirect — after any
    caller additions `adds` in its prepare state — analyses the request and returns one entry per name.
    Every entry is either one of the new request's own headers (added by the caller for the target, or the
    `Host` / framing header request analysis derives for THIS request), or an inherited header, and then it
    is under C13's rule: not `cookie`, not `content-length`, `authorization` only under the policy. -/
theorem C13_headers_map (prev : AReq) (nm : Method) (uri : Uri) (sameHost : Bool) (c c1 : CallSt) (m : List Hdr)
    (horig : c.req.orig = prev.orig) (hunset : c.req.unset = (followFlow prev nm uri sameHost).call.req.unset)
    (hm : c.headersMap = (c1, .ok m)) (h : Hdr) (hin : h ∈ m) :
    h ∈ c1.req.added ∨
    (h ∈ prev.orig ∧ h.name ≠ "cookie" ∧ h.name ≠ "content-length" ∧
      (h.name = "authorization" → sameHost = true ∧ prev.uri.host = uri.host ∧ (prev.uri.scheme = uri.scheme ∨ uri.scheme = "https"))) := by
  obtain ⟨hc1, rfl⟩ := headersMap_ok hm
  obtain ⟨extra, _, ho, hu, _⟩ := analyzeRequest_extra c
  have hh := headersMapOf_sub hin
  unfold AReq.headers at hh
  rw [List.mem_append] at hh
  rcases hh with hh | hh
  · left; rw [hc1]; exact hh
  · right
    rw [ho, hu, horig, hunset, List.mem_filter] at hh
    have hx : h ∈ (followFlow prev nm uri sameHost).call.req.headers := by
      unfold AReq.headers
      have e1 : (followFlow prev nm uri sameHost).call.req.orig = prev.orig := (C13_chain prev nm uri sameHost).2.1
      rw [List.mem_append]; right
      rw [e1, List.mem_filter]; exact hh
    exact ⟨hh.1, C13 prev nm uri sameHost h hx⟩

/-- … and an entry named `cookie` or `authorization` outside the policy, or `content-length`, is therefore
    one the caller attached to the new request or the new request's own framing. -/
theorem C13_headers_map_cookie (prev : AReq) (nm : Method) (uri : Uri) (sameHost : Bool) (c c1 : CallSt) (m : List Hdr)
    (horig : c.req.orig = prev.orig) (hunset : c.req.unset = (followFlow prev nm uri sameHost).call.req.unset)
    (hm : c.headersMap = (c1, .ok m)) (h : Hdr) (hin : h ∈ m) (hn : h.name = "cookie" ∨ h.name = "content-length") :
    h ∈ c1.req.added := by
  rcases C13_headers_map prev nm uri sameHost c c1 m horig hunset hm h hin with hh | ⟨_, h1, h2, _⟩
  · exact hh
  · rcases hn with e | e
    · exact absurd e h1
    · exact absurd e h2

/-- the suppression list never exceeds its four slots (authorization, host, cookie, content-length) -/
theorem C13_cap (b c : Bool) : (unsetList b c).length ≤ 4 := by cases b <;> cases c <;> simp [unsetList]

/-- every flow returned by `as_new_flow` is such a `followFlow` of the request that was just made -/
theorem C13_asNewFlow (f : Flow) (sameHost : Bool) (nf : Flow) (h : (f.asNewFlow sameHost).2 = .flow nf) :
    ∃ nm uri, nf = followFlow f.call.req nm uri sameHost := by
  unfold Flow.asNewFlow at h
  repeat' split at h
  all_goals (first | (simp at h; done) | (simp only [FollowRes.flow.injEq] at h; exact ⟨_, _, h.symm⟩))

example : keepAuthHeader true { scheme := "http", host := "a", port := none, path := "/", query := none }
    { scheme := "https", host := "a", port := none, path := "/x", query := none } = true := by decide

-- the hypotheses of `C13_headers_map` are met by a concrete redirect (a test: string order does not reduce
-- in the kernel): cross-host hop, caller attaches a cookie for the target; the map shows the caller's cookie,
-- the derived host, the inherited `x-a`, and neither the inherited cookie nor the authorization
def c13MapExample : Bool :=
  let u0 : Uri := { scheme := "http", host := "a", port := none, path := "/", query := none }
  let u1 : Uri := { scheme := "http", host := "b", port := none, path := "/x", query := none }
  let hs : List Hdr := [{ name := "cookie", value := [49] }, { name := "authorization", value := [50] }, { name := "x-a", value := [51] }]
  let prev : AReq := { method := .get, version := .h11, uri := u0, orig := hs }
  let nf := followFlow prev .get u1 true
  let r1 : AReq := { nf.call.req with added := [{ name := "cookie", value := [52] }] }
  let c : CallSt := { nf.call with req := r1 }
  match c.headersMap with
  | (_, .ok m) => m == [{ name := "cookie", value := [52] }, { name := "host", value := [98] }, { name := "x-a", value := [51] }]
  | _ => false
#guard c13MapExample

/-- **C13 (no downgrade).** A request first made over https and redirected to an http target never carries
    the original `Authorization`, on the same host or another, under either policy. -/
theorem C13_no_downgrade (prev : AReq) (nm : Method) (uri : Uri) (sameHost : Bool) (h : Hdr)
    (hin : h ∈ (followFlow prev nm uri sameHost).call.req.headers)
    (hs : prev.uri.scheme = "https") (ht : uri.scheme = "http") : h.name ≠ "authorization" := by
  intro e
  obtain ⟨_, _, h3⟩ := C13 prev nm uri sameHost h hin
  obtain ⟨_, _, h4⟩ := h3 e
  rw [hs, ht] at h4
  rcases h4 with h4 | h4 <;> exact absurd h4 (by decide)

/-- **C13 (other host).** Whatever the policy, a target on a host other than the ORIGINAL request's never
    receives the original `Authorization` — also when an earlier hop of the chain was on that other host. -/
theorem C13_other_host (prev : AReq) (nm : Method) (uri : Uri) (sameHost : Bool) (h : Hdr)
    (hin : h ∈ (followFlow prev nm uri sameHost).call.req.headers)
    (hh : prev.uri.host ≠ uri.host) : h.name ≠ "authorization" := by
  intro e
  obtain ⟨_, _, h3⟩ := C13 prev nm uri sameHost h hin
  exact hh (h3 e).2.1
