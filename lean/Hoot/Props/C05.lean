import Hoot.Model.Flow
import Hoot.Proofs.RespLimit
import Hoot.Proofs.PartialParse
import Hoot.Proofs.RespLoc
import Hoot.Oracle.Heads

/-! # C05 — response head parsing is exact and safe on every prefix

Grammar: `Head` / `Field` (Proofs/RespProof.lean) — version 1.0/1.1, three status digits, optional
reason over HTAB/SP/VCHAR/obs-text, fields `name ":" OWS value OWS CRLF` with token names and values
without leading/trailing whitespace (possibly empty), final CRLF. The scanner theorems `resp_forward`,
`resp_prefix`, `resp_too_many` are lifted here to `tryParseResponse` (parser.rs) and to
`callTryResponse` (call.rs `Call<RecvResponse>::try_response`). -/

/-- the executable well-formedness check used by the oracle implies the grammar's `wf` -/
theorem Field.wf_of_wfb (f : Field) (h : f.wfb = true) : f.wf := by
  simp only [Field.wfb, Bool.and_eq_true] at h
  obtain ⟨⟨⟨⟨⟨⟨h1, h2⟩, h3⟩, h4⟩, h5⟩, h6⟩, h7⟩ := h
  refine ⟨by intro e; simp [e] at h1, by simpa using h2, by simpa using h3, by simpa using h4, by simpa using h5, ?_, ?_⟩
  · intro b hb; simp [hb] at h6; simpa using h6
  · intro b hb; simp [hb] at h7; simpa using h7

theorem Head.wf_of_wfb (h : Head) (hb : h.wfb = true) : h.wf := by
  simp only [Head.wfb, Bool.and_eq_true, decide_eq_true_eq] at hb
  obtain ⟨⟨⟨⟨⟨h1, h2⟩, h3⟩, h4⟩, h5⟩, h6⟩ := hb
  refine ⟨h1, h2, h3, h4, ?_, ?_⟩
  · intro r hr; rw [hr] at h5; simpa using h5
  · intro f hf; exact Field.wf_of_wfb f (by simpa using (List.all_eq_true.mp h6) f hf)

def Head.namesShort (h : Head) : Prop := ∀ f ∈ h.fields, f.name.length ≤ 65535

theorem fields_any_long (h : Head) (hn : h.namesShort) :
    (h.fields.map Field.pair).any (fun f => decide (f.1.length > 65535)) = false := by
  simp only [List.any_eq_false, List.mem_map]
  rintro p ⟨f, hf, rfl⟩
  have := hn f hf
  simp [Field.pair]; omega

/-- **C05 (exact).** Offering a well-formed head `H` (status ≥ 100, at most `N` fields) or more yields
    exactly `H`'s status, version and fields, and consumes exactly `|H|` bytes. -/
theorem C05_exact (h : Head) (hw : h.wf) (N : Nat) (hs : h.fields.length ≤ N) (hc : 100 ≤ h.codeVal)
    (hn : h.namesShort) (rest : Bytes) :
    tryParseResponse N (h.enc ++ rest) =
      .ok (some (h.enc.length, { version := h.ver, status := h.codeVal, fields := fieldsOf (h.fields.map Field.pair) })) := by
  unfold tryParseResponse
  rw [resp_forward h hw N hs rest]
  have : ¬ h.codeVal < 100 := by omega
  simp [this, fields_any_long h hn]

/-- **C05 (prefix).** Every strict prefix of a well-formed head — including the empty one — is "need
    more data": never an error, never a response. -/
theorem C05_prefix (h : Head) (hw : h.wf) (N : Nat) (hs : h.fields.length ≤ N) (n : Nat) (hn : n < h.enc.length) :
    tryParseResponse N (h.enc.take n) = .ok none := by
  obtain ⟨st, hst⟩ := resp_prefix h hw N hs n hn
  unfold tryParseResponse
  rw [hst]

/-- **C05 (limit).** A head with more than `N` fields is rejected with the too-many-headers error (for
    the flow, `N` = 128). -/
theorem C05_limit (h : Head) (hw : h.wf) (N : Nat) (hs : N < h.fields.length) (rest : Bytes) :
    tryParseResponse N (h.enc ++ rest) = .error (.api .httpParseTooManyHeaders) := by
  unfold tryParseResponse
  rw [resp_too_many h hw N hs rest]

/-- **C05 at `Call` level, without the partial-redirect fallback** (`hack = false`): every strict prefix
    yields `None` and leaves the call untouched. With the fallback present in the pinned code
    (`hack = true`) this holds for every head that is not a 3xx with a `Location` field; 3xx heads cut
    after their Location line are the recorded finding D10 (see `C05_D10_witness`). -/
theorem C05_call_prefix_nohack (c : CallSt) (h : Head) (hw : h.wf) (hs : h.fields.length ≤ 128) (n : Nat)
    (hn : n < h.enc.length) : callTryResponse false c (h.enc.take n) = (c, .ok none) := by
  unfold callTryResponse parseWithFallback
  rw [C05_prefix h hw 128 hs n hn]
  simp

/-- **C05 at `Call` level as the code is (fallback present), partial.** For every well-formed head that
    is *not* a 3xx carrying a `Location` field, every strict prefix yields `None` and changes nothing.
    The excluded region — 3xx heads with a Location field — is where the recorded finding D10 lives: a
    cut after the complete Location line is returned as a response (witness below). -/
theorem C05_call_prefix_partial (c : CallSt) (h : Head) (hw : h.wf) (hs : h.fields.length ≤ 128)
    (hc : 100 ≤ h.codeVal) (hn : h.namesShort)
    (hnot : ¬ (300 ≤ h.codeVal ∧ h.codeVal ≤ 399) ∨
            (fieldsOf (h.fields.map Field.pair)).any (fun x => x.name == "location") = false)
    (n : Nat) (hlt : n < h.enc.length) :
    callTryResponse true c (h.enc.take n) = (c, .ok none) :=
  call_prefix_with_fallback c h hw hs hc hn hnot n hlt

/-- **C05 at `Call` level as the code is, delimiting D10.** With the fallback present and for EVERY
    well-formed head — 3xx with `Location` included: a prefix that ends before the end of the first
    `Location` field line (the fields `pre` in front of line `f` carry no `Location`) yields `None` and
    changes nothing. Together with `C05_exact` (the whole head, or more) this leaves exactly one family of
    windows where the code deviates: inside a 3xx head, after a complete `Location` line — finding D10. -/
theorem C05_call_prefix_before_location (c : CallSt) (h : Head) (hw : h.wf) (hs : h.fields.length ≤ 128)
    (hc : 100 ≤ h.codeVal) (hn : h.namesShort)
    (pre : List Field) (f : Field) (post : List Field) (hsplit : h.fields = pre ++ f :: post)
    (hnoloc : (fieldsOf (pre.map Field.pair)).any (fun x => x.name == "location") = false)
    (n : Nat) (hlt : n < h.statusLine.length + (encFields pre).length + f.enc.length) :
    callTryResponse true c (h.enc.take n) = (c, .ok none) :=
  call_prefix_before_location c h hw hs hc hn pre f post hsplit hnoloc n hlt

/-- **D10 witness (evaluated).** With the fallback, the 302 head cut after `Location: /x CRLF Set-Cookie:
    a=b CRLF Content-Le` is returned as a complete response that consumes the whole window. -/
def d10Window : Bytes := "HTTP/1.1 302 Found\r\nLocation: /x\r\nSet-Cookie: a=b\r\nContent-Le".toUTF8.toList
def d10Call : CallSt :=
  { req := { method := .get, version := .h11, uri := { scheme := "http", host := "a", port := none, path := "/", query := none }, orig := [] },
    writer := BodyWriter.newNone }
#guard (match (callTryResponse true d10Call d10Window).2 with | .ok (some (n, r)) => n == d10Window.length && r.status == 302 | _ => false)
#guard (match (callTryResponse false d10Call d10Window).2 with | .ok none => true | _ => false)

/-- non-vacuity: a concrete well-formed head -/
def c05Field : Field := { name := [65], pre := [32], value := [98], post := [] }
def c05Head : Head := { ver := 1, d1 := 50, d2 := 48, d3 := 48, reason := some [79, 75], fields := [c05Field] }
example : c05Head.wf := Head.wf_of_wfb _ (by decide +kernel)
example : 100 ≤ c05Head.codeVal := by decide +kernel
example : c05Head.namesShort := by
  intro f hf; simp [c05Head] at hf; subst hf; simp [c05Field]
