import Hoot.Model.Flow

/-! # C04 — Content-Length request body is forwarded verbatim and never exceeds the length

About `CallSt.writeBodyPhase` / `CallSt.consumeDirect` (call.rs guards + body.rs sized writer) for
every sequence of writes and direct-write reports, every `N`, every input and buffer length. -/

inductive BOp
  | write (input : Bytes) (cap : Nat)
  | direct (n : Nat)

/-- apply one op; returns the new state and the number of bytes it accounted for (0 when refused) -/
def stepSized (c : CallSt) : BOp → CallSt × Nat
  | .write input cap =>
    match c.writeBodyPhase input cap with
    | (c1, .ok (n, _)) => (c1, n)
    | (c1, .error _) => (c1, 0)
  | .direct n =>
    match c.consumeDirect n with
    | (c1, .ok ()) => (c1, n)
    | (c1, .error _) => (c1, 0)

def runSized (c : CallSt) : List BOp → CallSt × Nat
  | [] => (c, 0)
  | op :: ops => ((runSized (stepSized c op).1 ops).1, (stepSized c op).2 + (runSized (stepSized c op).1 ops).2)

theorem take_fits (cap : Nat) (l : Bytes) (k : Nat) (h : k ≤ cap) :
    (({ out := [], cap := cap } : W).tryWrite (l.take k)).1.out = l.take k := by
  unfold W.tryWrite W.available
  have : min k l.length ≤ cap := by omega
  simp [this]

/-- **C04 (copy).** An accepted write copies `min(input, output space, remaining)` bytes unchanged and
    reports that count as consumed; the remaining count goes down by exactly that much and the body
    is finished once it reaches zero. -/
theorem C04_copy (c : CallSt) (left : Nat) (input : Bytes) (cap : Nat)
    (hm : c.writer.mode = .sized left) (hfit : input.length ≤ left)
    (hnf : ¬ (input ≠ [] ∧ c.writer.ended = true)) :
    c.writeBodyPhase input cap =
      ({ c with writer := { mode := .sized (left - min (min cap input.length) left),
                            ended := c.writer.ended || left - min (min cap input.length) left == 0 } },
       .ok (min (min cap input.length) left, input.take (min (min cap input.length) left))) := by
  unfold CallSt.writeBodyPhase
  have h1 : (!input.isEmpty && c.writer.ended) = false := by
    cases input <;> simp_all
  simp only [h1, BodyWriter.overLimit, BodyWriter.leftToSend, hm, Bool.false_eq_true, if_false]
  have h2 : decide (input.length > left) = false := by simp; omega
  simp only [h2, Bool.false_eq_true, if_false, BodyWriter.write, hm, W.available, List.length_nil, Nat.sub_zero]
  rw [take_fits cap input _ (by omega)]

/-- **C04 (refusal: too much).** Offering more than the remaining bytes is refused; nothing is emitted
    or consumed and the state is unchanged. -/
theorem C04_refuse_over (c : CallSt) (left : Nat) (input : Bytes) (cap : Nat)
    (hm : c.writer.mode = .sized left) (hover : input.length > left) (hne : c.writer.ended = false) :
    c.writeBodyPhase input cap = (c, .error (.api .bodyLargerThanContentLength)) := by
  unfold CallSt.writeBodyPhase
  simp [hne, BodyWriter.overLimit, BodyWriter.leftToSend, hm, hover]

/-- **C04 (refusal: after the end).** Any non-empty write after the body is finished is refused with the
    state unchanged (whatever its length). -/
theorem C04_refuse_after (c : CallSt) (input : Bytes) (cap : Nat)
    (hne : input ≠ []) (he : c.writer.ended = true) :
    c.writeBodyPhase input cap = (c, .error (.api .bodyContentAfterFinish)) := by
  unfold CallSt.writeBodyPhase
  have : input.isEmpty = false := by cases input <;> simp_all
  simp [this, he]

/-- **C04 (direct write).** A reported direct write of at most the remaining bytes is accounted in full;
    a larger one is refused with the state unchanged. -/
theorem C04_direct (c : CallSt) (left n : Nat) (hm : c.writer.mode = .sized left) :
    (n ≤ left → c.consumeDirect n =
      ({ c with writer := { mode := .sized (left - n), ended := c.writer.ended || left - n == 0 } }, .ok ())) ∧
    (n > left → c.consumeDirect n = (c, .error (.api .bodyLargerThanContentLength))) := by
  unfold CallSt.consumeDirect
  simp only [hm]
  constructor
  · intro h; have : ¬ n > left := by omega
    simp [this]
  · intro h; simp [h]

/-- the invariant of a Content-Length body: `acc` bytes accounted so far out of `N` -/
def SizedInv (c : CallSt) (N acc : Nat) : Prop :=
  ∃ left, c.writer.mode = .sized left ∧ left + acc = N ∧ (c.writer.ended = true → left = 0)

theorem stepSized_inv (c : CallSt) (N acc : Nat) (op : BOp) (h : SizedInv c N acc) :
    SizedInv (stepSized c op).1 N (acc + (stepSized c op).2) ∧
    ((stepSized c op).2 > 0 ∨ (∃ i cp, op = .write i cp ∧ i.length ≤ N - acc ∧ ¬ (i ≠ [] ∧ c.writer.ended = true)) ∨ op = .direct 0 →
        (N = acc + (stepSized c op).2 → (stepSized c op).1.writer.ended = true)) := by
  obtain ⟨left, hm, hsum, hend⟩ := h
  cases op with
  | write input cap =>
    by_cases hfin : input ≠ [] ∧ c.writer.ended = true
    · have := C04_refuse_after c input cap hfin.1 hfin.2
      simp only [stepSized, this]
      refine ⟨⟨left, hm, by omega, hend⟩, ?_⟩
      intro h; rcases h with h | ⟨i, cp, he, _, hn⟩ | h
      · omega
      · injection he with h1 h2; subst h1; exact absurd hfin hn
      · cases h
    · by_cases hover : input.length > left
      · have hne : c.writer.ended = false := by
          cases he : c.writer.ended with
          | false => rfl
          | true => exfalso; apply hfin; refine ⟨?_, he⟩; intro hi; rw [hi] at hover; simp at hover
        have := C04_refuse_over c left input cap hm hover hne
        simp only [stepSized, this]
        refine ⟨⟨left, hm, by omega, hend⟩, ?_⟩
        intro h; rcases h with h | ⟨i, cp, he, hl, _⟩ | h
        · omega
        · injection he with h1 h2; subst h1; omega
        · cases h
      · have := C04_copy c left input cap hm (by omega) hfin
        simp only [stepSized, this]
        refine ⟨⟨left - min (min cap input.length) left, rfl, by omega, ?_⟩, ?_⟩
        · intro he; simp at he; rcases he with he | he
          · have := hend he; omega
          · omega
        · intro _ hN; simp; right; omega
  | direct n =>
    have hd := C04_direct c left n hm
    by_cases hle : n ≤ left
    · simp only [stepSized, hd.1 hle]
      refine ⟨⟨left - n, rfl, by omega, ?_⟩, ?_⟩
      · intro he; simp at he; rcases he with he | he
        · have := hend he; omega
        · omega
      · intro _ hN; simp; right; omega
    · simp only [stepSized, hd.2 (by omega)]
      refine ⟨⟨left, hm, by omega, hend⟩, ?_⟩
      intro h; rcases h with h | ⟨i, cp, he, _⟩ | h
      · omega
      · cases he
      · injection h with h; omega

/-- **C04 (total).** Over any sequence of writes and direct-write reports on a body declared with
    `Content-Length: N`, the bytes accounted for never exceed `N`, and the body is reported finished
    only when exactly `N` bytes have been accounted for. -/
theorem C04_total (ops : List BOp) : ∀ (c : CallSt) (N acc : Nat), SizedInv c N acc →
    SizedInv (runSized c ops).1 N (acc + (runSized c ops).2) ∧ acc + (runSized c ops).2 ≤ N ∧
    ((runSized c ops).1.writer.ended = true → acc + (runSized c ops).2 = N) := by
  induction ops with
  | nil =>
    intro c N acc h
    obtain ⟨left, hm, hsum, hend⟩ := h
    exact ⟨⟨left, hm, by simpa [runSized] using hsum, by simpa [runSized] using hend⟩, by simp [runSized]; omega,
      by intro he; simp [runSized] at he ⊢; have := hend he; omega⟩
  | cons op ops ih =>
    intro c N acc h
    have h1 := (stepSized_inv c N acc op h).1
    have h2 := ih (stepSized c op).1 N (acc + (stepSized c op).2) h1
    simp only [runSized]
    refine ⟨?_, ?_, ?_⟩
    · have := h2.1; rwa [Nat.add_assoc] at this
    · have := h2.2.1; omega
    · intro he; have := h2.2.2 he; omega

/-- **C04 (finished is reached).** Once `N` bytes are accounted for, the call that reached `N` — or, when
    they already were (in particular `N = 0`), any accepted write (also an empty one) or `direct 0` —
    leaves the body reported finished. -/
theorem C04_finished (c : CallSt) (N acc : Nat) (op : BOp) (h : SizedInv c N acc)
    (hop : (stepSized c op).2 > 0 ∨ (∃ i cp, op = .write i cp ∧ i.length ≤ N - acc ∧ ¬ (i ≠ [] ∧ c.writer.ended = true)) ∨ op = .direct 0)
    (hN : N = acc + (stepSized c op).2) : (stepSized c op).1.writer.ended = true :=
  (stepSized_inv c N acc op h).2 hop hN

/-- non-vacuity: a fresh sized body satisfies the invariant -/
def c04Example (N : Nat) : CallSt :=
  { req := { method := .post, version := .h11, uri := { scheme := "http", host := "a", port := none, path := "/", query := none }, orig := [] },
    analyzed := true, phase := .sendBody, writer := BodyWriter.newSized N }

example (N : Nat) : SizedInv (c04Example N) N 0 := ⟨N, rfl, rfl, by simp [c04Example, BodyWriter.newSized]⟩
