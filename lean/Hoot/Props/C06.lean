import Hoot.Model.Flow
import Hoot.Proofs.PropsFlow
import Hoot.Proofs.PropsWF
import Hoot.Oracle.Heads

/-! # C06 — response body framing follows the HTTP/1.1 message-body-length rules

`rfcFraming` (Proofs/PropsFlow.lean) is the rule list written from the property text; `framingOf` is the
abstract view of the two framing headers the code extracts (first value of each name, `to_str` failure
counts as absent, `u64::from_str`, comma-split / trim / case-insensitive `chunked`). -/

/-- **C06 (mode).** For every method, status, response version and header list the body mode chosen by
    `BodyReader::for_response` is the one the rules give; a non-numeric Content-Length is an error. -/
theorem C06 (respHttp10 : Bool) (m : Method) (status : Nat) (hs : List Hdr) :
    forResponse respHttp10 m status hs = rfcFraming respHttp10 m status (framingOf hs) :=
  C06_mode respHttp10 m status hs

theorem C06_bad_content_length (respHttp10 : Bool) (m : Method) (status : Nat) (hs : List Hdr)
    (h : (framingOf hs).cl = some none) :
    forResponse respHttp10 m status hs = .error (.api .badContentLengthHeader) := by
  rw [C06_mode]; unfold rfcFraming; simp [h]

/-- **C06 (successor).** The state after the head is the body state exactly when a non-empty body is
    expected, else the redirect state for 3xx other than 304, else cleanup. -/
theorem C06_successor (hack : Bool) (f : Flow) (rd : BodyReader)
    (hs : f.st = .recvResponse) (hh : f.holder = .recvResponse) (hr : f.call.reader = some rd)
    (hn : f.closeReasons.Nodup) :
    (stepRecvResponse hack f .proceed).2 =
      .state (if successorSpec rd (f.status.getD 0) = "recvBody" then .recvBody
              else if successorSpec rd (f.status.getD 0) = "redirect" then .redirect else .cleanup) ∧
    (stepRecvResponse hack f .proceed).1.st =
      (if successorSpec rd (f.status.getD 0) = "recvBody" then .recvBody
       else if successorSpec rd (f.status.getD 0) = "redirect" then .redirect else .cleanup) := by
  have hc : f.canProceed = .ok true := by unfold Flow.canProceed; simp [hs, hh, hr]
  have hp := pushReason_ok f.closeReasons .closeDelimited hn
  unfold stepRecvResponse
  simp only [hc, hr]
  cases hq : pushReason f.closeReasons .closeDelimited with
  | mk l r =>
    rw [hq] at hp; simp only [] at hp
    obtain ⟨hr', _⟩ := hp; subst hr'
    cases rd with
    | noBody =>
      simp only [needResponseBody, successorSpec, isRedirectStatus]
      cases hst : f.status with
      | none => simp
      | some v => by_cases h3 : 300 ≤ v ∧ v ≤ 399 ∧ v ≠ 304 <;> simp [h3] <;> (try omega) <;> simp_all <;> omega
    | len n =>
      cases n with
      | zero =>
        simp only [needResponseBody, successorSpec, isRedirectStatus]
        cases hst : f.status with
        | none => simp
        | some v => by_cases h3 : 300 ≤ v ∧ v ≤ 399 ∧ v ≠ 304 <;> simp [h3] <;> (try omega) <;> simp_all <;> omega
      | succ k => simp [needResponseBody, successorSpec]
    | chunked d => simp [needResponseBody, successorSpec]
    | close => simp [needResponseBody, successorSpec]

example : rfcFraming false .get 200 { cl := some (some 5), chunked := true } = .ok (.chunked .size) := by
  simp [rfcFraming]

/-- **C06 (the coding name is compared whole).** The token comparison behind "declares a chunked transfer
    coding" matches only a token of exactly the length of `chunked`: no prefix of the word, no extension of it,
    no empty list element counts as the chunked coding. -/
theorem C06_token_exact (a lit : Bytes) (h : eqLowerAscii a lit = true) : a.length = lit.length := by
  unfold eqLowerAscii at h
  simp only [Bool.and_eq_true, beq_iff_eq] at h
  exact h.1

-- near-misses of the word, evaluated (tests, labelled as tests)
#guard !(eqLowerAscii (strBytes "chunk") (strBytes "chunked"))
#guard !(eqLowerAscii (strBytes "chunked-v2") (strBytes "chunked"))
#guard !(eqLowerAscii (strBytes "") (strBytes "chunked"))
#guard !(eqLowerAscii (trimAscii (strBytes "chunked" ++ [0xc2, 0xa0])) (strBytes "chunked"))   -- U+00A0 is no optional whitespace
#guard (eqLowerAscii (trimAscii (strBytes "chunked ")) (strBytes "chunked"))
#guard (eqLowerAscii (trimAscii (strBytes " \tCHUNKed ")) (strBytes "chunked"))
