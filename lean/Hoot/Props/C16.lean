import Hoot.Model.Flow
import Hoot.Proofs.PropsWF
import Hoot.Props.C02
import Hoot.Proofs.HeadersMap

/-! # C16 — headers the caller adds before sending always reach the wire

The effective headers are `added ++ (original minus inherited-unset)` (amended.rs `headers()`, after
repair D2): the unset list installed by a redirect never touches `added`. By `C02_render` the head lists
the effective headers in this order, so the caller's lines come first, whatever their names. -/

/-- **C16 (order).** The caller-added headers are the first effective headers, in the order added — for
    any unset list (any redirect depth, either auth policy). -/
theorem C16_order (r : AReq) : r.headers.take r.added.length = r.added := by
  unfold AReq.headers; simp

theorem C16_inherited_still_suppressed (r : AReq) (h : Hdr) (hin : h ∈ r.headers.drop r.added.length) :
    r.unset.contains h.name = false := by
  unfold AReq.headers at hin
  simp at hin
  simpa using hin.2

/-- **C16 (adding).** `Flow<Prepare>::header` appends to the added list (within the documented budget of
    64) and changes nothing else of the request. -/
theorem C16_add (f : Flow) (h : Hdr) (hv : validHeaderValue h.value = true) (hl : f.call.req.added.length < MAX_EXTRA) :
    (stepPrepare f (.header h)).1.call.req.added = f.call.req.added ++ [h] ∧
    (stepPrepare f (.header h)).1.call.req.orig = f.call.req.orig ∧
    (stepPrepare f (.header h)).1.call.req.unset = f.call.req.unset ∧
    (stepPrepare f (.header h)).2 = .unit := by
  unfold stepPrepare
  simp [hv, setHeader_ok f.call.req h hl, resOfUnit]

/-- **C16 (analysis keeps them first).** Request analysis only appends (Host, framing header) after the
    caller's additions. -/
theorem C16_analysis_appends (c : CallSt) :
    ∃ extra, c.analyzeRequest.1.req.added = c.req.added ++ extra ∧
      c.analyzeRequest.1.req.orig = c.req.orig ∧ c.analyzeRequest.1.req.unset = c.req.unset := by
  unfold CallSt.analyzeRequest
  by_cases ha : c.analyzed = true
  · simp [ha]
  · simp only [ha]
    cases han : c.req.analyze c.writer c.skipCheck with
    | error e => exact ⟨[], by simp⟩
    | ok info =>
      simp only []
      unfold AReq.setHeader
      (repeat' split) <;> simp_all <;> (try exact ⟨[], by simp⟩)
      all_goals (first | exact ⟨_, rfl⟩ | skip)

/-- **C16 (as seen through `headers_map()`).** Every name the caller added has an entry in the map the
    accessor returns; and when the name is one the redirect suppresses among the inherited headers, that entry
    is one of the request's own (the caller's, or the derived Host / framing header) — never the inherited one,
    and never missing. -/
theorem C16_headers_map (c c1 : CallSt) (m : List Hdr) (hm : c.headersMap = (c1, .ok m))
    (a : Hdr) (ha : a ∈ c.req.added) :
    ∃ h ∈ m, h.name = a.name ∧ (c.req.unset.contains a.name = true → h ∈ c1.req.added) := by
  obtain ⟨hc1, rfl⟩ := headersMap_ok hm
  obtain ⟨extra, hadd, _, hu, _⟩ := analyzeRequest_extra c
  have hin : ∃ h ∈ c.analyzeRequest.1.req.headers, h.name = a.name := by
    refine ⟨a, ?_, rfl⟩
    unfold AReq.headers; rw [hadd]; simp [ha]
  obtain ⟨h, hmem, hname⟩ := headersMapOf_complete hin
  refine ⟨h, hmem, hname, ?_⟩
  intro hs
  have hh := headersMapOf_sub hmem
  unfold AReq.headers at hh
  rw [List.mem_append] at hh
  rcases hh with hh | hh
  · rw [hc1]; exact hh
  · rw [List.mem_filter, hu, hname] at hh
    rw [hs] at hh; simp at hh

/-- the map has one entry per name, and it is the last effective header of that name (what
    `HeaderMap::insert` leaves) -/
theorem C16_headers_map_last (c c1 : CallSt) (m : List Hdr) (hm : c.headersMap = (c1, .ok m)) (a b : Hdr)
    (ha : a ∈ m) (hb : b ∈ m) : (a.name = b.name → a = b) ∧ lastNamed c1.req.headers a.name = some a := by
  obtain ⟨hc1, rfl⟩ := headersMap_ok hm
  exact ⟨headersMapOf_unique ha hb, by rw [hc1]; exact mem_headersMapOf.mp ha⟩

/-- **C16 (on the wire).** The rendered head is: request line, the caller's lines in order, then the
    rest. -/
theorem C16_render (r : AReq) :
    renderHead r = requestLine r ++ ((r.added.map (fun h => strBytes (h.name ++ ": ") ++ h.value ++ crlf)).flatten ++
      ((r.orig.filter (fun h => !r.unset.contains h.name)).map (fun h => strBytes (h.name ++ ": ") ++ h.value ++ crlf)).flatten) ++ crlf := by
  unfold renderHead AReq.headers
  simp [List.map_append, List.flatten_append]

-- a test, not a proof (string order does not reduce in the kernel)
#guard headersMapOf [{ name := "x", value := [49] }, { name := "a", value := [50] }, { name := "x", value := [51] }]
    = [{ name := "a", value := [50] }, { name := "x", value := [51] }]

example : ({ method := .get, version := .h11, uri := { scheme := "http", host := "a", port := none, path := "/", query := none },
             orig := [{ name := "cookie", value := [49] }], added := [{ name := "cookie", value := [50] }], unset := ["cookie"] } : AReq).headers
          = [{ name := "cookie", value := [50] }] := by decide
