import Hoot.Props.C05
import Hoot.Proofs.ReqProof

/-! # C20 — standalone head parsers round-trip well-formed heads and honour their limits

Response side: the scanner theorems hold for every limit `N : Nat` (not only the four the harness can
instantiate). Request side (`parseReq`, Model/ReqParse.lean; grammar `RHead` in Proofs/ReqProof.lean: method token, non-empty
request target over httparse's URI bytes, version 1.0/1.1, fields as for responses): the same three
theorems, for every limit N. -/

/-- **C20 (response, complete).** A well-formed head with at most `N` fields followed by arbitrary bytes:
    status, version, all fields, and exactly the head's length. -/
theorem C20_resp_exact (h : Head) (hw : h.wf) (N : Nat) (hs : h.fields.length ≤ N) (hc : 100 ≤ h.codeVal)
    (hn : h.namesShort) (rest : Bytes) :
    tryParseResponse N (h.enc ++ rest) =
      .ok (some (h.enc.length, { version := h.ver, status := h.codeVal, fields := fieldsOf (h.fields.map Field.pair) })) :=
  C05_exact h hw N hs hc hn rest

/-- **C20 (response, incomplete).** Every strict prefix of a head within the limit is "incomplete". -/
theorem C20_resp_prefix (h : Head) (hw : h.wf) (N : Nat) (hs : h.fields.length ≤ N) (n : Nat) (hn : n < h.enc.length) :
    tryParseResponse N (h.enc.take n) = .ok none := C05_prefix h hw N hs n hn

/-- **C20 (limit, exactly).** The complete head is rejected with too-many-headers iff it has more fields
    than the limit. -/
theorem C20_resp_too_many_iff (h : Head) (hw : h.wf) (N : Nat) (hc : 100 ≤ h.codeVal) (hn : h.namesShort) (rest : Bytes) :
    tryParseResponse N (h.enc ++ rest) = .error (.api .httpParseTooManyHeaders) ↔ N < h.fields.length := by
  constructor
  · intro he
    by_cases hle : h.fields.length ≤ N
    · rw [C05_exact h hw N hle hc hn rest] at he; simp at he
    · omega
  · intro hlt; exact C05_limit h hw N hlt rest

/-- **C20 (partial parser).** On every strict prefix of a well-formed head that respects the limit the
    partial parser never fails, and whatever it reports is the head's status and version with an initial
    segment of the head's own fields (cut at the first empty value) — never a field that is not a complete
    field of the head. -/
theorem C20_partial (h : Head) (hw : h.wf) (N : Nat) (hs : h.fields.length ≤ N) (hc : 100 ≤ h.codeVal)
    (hn : h.namesShort) (n : Nat) (hlt : n < h.enc.length) :
    tryParsePartial N (h.enc.take n) = .ok none ∨
    ∃ (k0 t : List (Bytes' × Bytes')), h.fields.map Field.pair = k0 ++ t ∧
      tryParsePartial N (h.enc.take n) =
        .ok (some { version := h.ver, status := h.codeVal, fields := fieldsOf (keepNonEmpty k0) }) :=
  partial_on_prefix h hw N hs hc hn n hlt

/-- the partial parser on a complete head (or more) -/
theorem C20_partial_complete (h : Head) (hw : h.wf) (N : Nat) (hs : h.fields.length ≤ N) (hc : 100 ≤ h.codeVal)
    (hn : h.namesShort) (rest : Bytes) :
    tryParsePartial N (h.enc ++ rest) =
      .ok (some { version := h.ver, status := h.codeVal, fields := fieldsOf (keepNonEmpty (h.fields.map Field.pair)) }) := by
  unfold tryParsePartial
  rw [resp_forward h hw N hs rest]
  simp only [partialFinish]
  have h1 : ¬ h.codeVal < 100 := by omega
  have h2 : (keepNonEmpty (h.fields.map Field.pair)).any (fun f => decide (f.1.length > 65535)) = false := by
    simp only [List.any_eq_false]
    intro x hx
    have hx' := mem_of_takeWhile _ _ x hx
    obtain ⟨f, hfm, rfl⟩ := List.mem_map.mp hx'
    have := hn f hfm
    simp [Field.pair]; omega
  unfold keepNonEmpty at h2
  simp [h1, h2, keepNonEmpty]

/-! ## requests -/

def RHead.namesShort (h : RHead) : Prop := ∀ f ∈ h.fields, f.name.length ≤ 65535

theorem rfields_any_long (h : RHead) (hn : h.namesShort) :
    (h.fields.map Field.pair).any (fun f => decide (f.1.length > 65535)) = false := by
  simp only [List.any_eq_false, List.mem_map]
  rintro p ⟨f, hf, rfl⟩
  have := hn f hf
  simp [Field.pair]; omega

/-- **C20 (request, complete).** A well-formed request head (method a valid `http::Method`, at most `N`
    fields) followed by arbitrary bytes: the method, the version, all fields, exactly the head's length. -/
theorem C20_req_exact (h : RHead) (hw : h.wf) (N : Nat) (hs : h.fields.length ≤ N)
    (hm : validHttpMethod h.method = true) (hn : h.namesShort) (rest : Bytes) :
    tryParseRequest N (h.enc ++ rest) =
      .ok (some (h.enc.length, { method := h.method, version := h.ver, fields := fieldsOf (h.fields.map Field.pair) })) := by
  unfold tryParseRequest
  rw [req_forward h hw N hs rest]
  simp [hm, rfields_any_long h hn]

/-- **C20 (request, incomplete).** Every strict prefix of a request head within the limit is "incomplete". -/
theorem C20_req_prefix (h : RHead) (hw : h.wf) (N : Nat) (hs : h.fields.length ≤ N) (n : Nat) (hn : n < h.enc.length) :
    tryParseRequest N (h.enc.take n) = .ok none := by
  obtain ⟨st, hst⟩ := req_prefix h hw N hs n hn
  unfold tryParseRequest
  rw [hst]

/-- **C20 (request, limit exactly).** -/
theorem C20_req_too_many_iff (h : RHead) (hw : h.wf) (N : Nat) (hm : validHttpMethod h.method = true)
    (hn : h.namesShort) (rest : Bytes) :
    tryParseRequest N (h.enc ++ rest) = .error (.api .httpParseTooManyHeaders) ↔ N < h.fields.length := by
  constructor
  · intro he
    by_cases hle : h.fields.length ≤ N
    · rw [C20_req_exact h hw N hle hm hn rest] at he; simp at he
    · omega
  · intro hlt
    unfold tryParseRequest
    rw [req_too_many h hw N hlt rest]

/-- non-vacuity: `GET /x HTTP/1.1` with one field -/
def c20Req : RHead := { method := [71, 69, 84], target := [47, 120], ver := 1, fields := [c05Field] }
example : c20Req.wf := by
  refine ⟨by decide, ?_, by decide, ?_, by decide, ?_⟩
  · intro b hb; simp [c20Req] at hb; rcases hb with rfl | rfl | rfl <;> decide
  · intro b hb; simp [c20Req] at hb; rcases hb with rfl | rfl <;> decide
  · intro f hf; simp [c20Req] at hf; subst hf; exact Field.wf_of_wfb _ (by decide +kernel)
