import Hoot.Model.Flow
import Hoot.Proofs.RespLimit
import Hoot.Proofs.RespSlots
import Hoot.Proofs.PropsWF
import Hoot.Props.C05

/-! # C11 — Expect: 100-continue handshake: the body is sent iff the server did not refuse

`try_read_100` parses with zero header slots, so: a bare head (no fields) completes; a head with fields
raises too-many-headers exactly when its first field line is complete; anything shorter is
"need more data". -/

/-- **C11 (undecided).** Input on which the zero-slot parser needs more data decides nothing and
    consumes nothing: no field of the flow changes. In particular (`C05_prefix` with N = 0) every strict
    prefix of a bare status line + blank line. -/
theorem C11_undecided (f : Flow) (w : Bytes) (h : tryParseResponse 0 w = .ok none) :
    stepAwait100 f (.read100 w) = (f, .count 0) := by
  unfold stepAwait100; simp [h]

theorem C11_undecided_bare (f : Flow) (h : Head) (hw : h.wf) (hf : h.fields = []) (n : Nat) (hn : n < h.enc.length) :
    stepAwait100 f (.read100 (h.enc.take n)) = (f, .count 0) :=
  C11_undecided f _ (C05_prefix h hw 0 (by simp [hf]) n hn)

/-- **C11 (undecided, response with fields).** For a head that has fields, input that ends anywhere before
    the end of its FIRST field line — inside the status line, right after it, inside the field — decides
    nothing and consumes nothing (the zero-slot parser only objects when a field line is complete). -/
theorem C11_undecided_fields (fl : Flow) (h : Head) (hw : h.wf) (f : Field) (fs : List Field) (hfs : h.fields = f :: fs)
    (n : Nat) (hn : n < h.statusLine.length + f.enc.length) :
    stepAwait100 fl (.read100 (h.enc.take n)) = (fl, .count 0) := by
  obtain ⟨st, hst⟩ := resp_inside_first_field h hw f fs hfs 0 n hn
  apply C11_undecided
  unfold tryParseResponse
  rw [hst]

/-- **C11 (continue).** A complete bare 100 (any reason phrase) followed by anything is consumed exactly
    and clears the waiting flag; the body is still due. -/
theorem C11_continue (f : Flow) (h : Head) (hw : h.wf) (hf : h.fields = []) (hc : h.codeVal = 100)
    (hsb : f.shouldSendBody = true) (rest : Bytes) :
    stepAwait100 f (.read100 (h.enc ++ rest)) = ({ f with await100 := false }, .count h.enc.length) := by
  have hp := C05_exact h hw 0 (by simp [hf]) (by omega) (by intro g hg; simp [hf] at hg) rest
  unfold stepAwait100
  simp [hp, hc, hsb]

/-- what a refusal does to the flow -/
theorem refuse100_spec (f : Flow) (hn : f.closeReasons.Nodup) :
    (refuse100 f).2 = .count 0 ∧ (refuse100 f).1.shouldSendBody = false ∧
    CloseReason.not100 ∈ (refuse100 f).1.closeReasons ∧ (refuse100 f).1.closeReasons.Nodup ∧
    (refuse100 f).1.st = f.st ∧ (refuse100 f).1.holder = f.holder ∧ (refuse100 f).1.await100 = f.await100 := by
  have hp := pushReason_ok f.closeReasons .not100 hn
  have hm := pushReason_mem f.closeReasons .not100 hp.1
  unfold refuse100
  cases hq : pushReason f.closeReasons .not100 with
  | mk l r =>
    rw [hq] at hp hm; simp only [] at hp hm
    obtain ⟨hr, hnd⟩ := hp; subst hr
    simp [hm, hnd]

/-- **C11 (refused, no fields).** Any other complete status line without fields consumes nothing, the
    body is no longer due, and the connection is marked must-close. -/
theorem C11_refused_bare (f : Flow) (h : Head) (hw : h.wf) (hf : h.fields = []) (hc : h.codeVal ≠ 100)
    (hc1 : 100 ≤ h.codeVal) (hn : f.closeReasons.Nodup) (rest : Bytes) :
    (stepAwait100 f (.read100 (h.enc ++ rest))).2 = .count 0 ∧
    (stepAwait100 f (.read100 (h.enc ++ rest))).1.shouldSendBody = false ∧
    (stepAwait100 f (.read100 (h.enc ++ rest))).1.await100 = false ∧
    CloseReason.not100 ∈ (stepAwait100 f (.read100 (h.enc ++ rest))).1.closeReasons := by
  have hp := C05_exact h hw 0 (by simp [hf]) hc1 (by intro g hg; simp [hf] at hg) rest
  have hr := refuse100_spec { f with await100 := false } hn
  unfold stepAwait100
  simp only [hp]
  have : (h.codeVal == 100) = false := by simpa using hc
  simp only [this, Bool.false_eq_true, if_false]
  exact ⟨hr.1, hr.2.1, hr.2.2.2.2.2.2, hr.2.2.1⟩

/-- **C11 (refused, with fields).** A response with at least one complete field line — whatever its
    status, whatever follows — consumes nothing, the body is no longer due, must-close. -/
theorem C11_refused_fields (f : Flow) (h : Head) (hw : h.wf) (hf : 0 < h.fields.length)
    (hn : f.closeReasons.Nodup) (rest : Bytes) :
    (stepAwait100 f (.read100 (h.enc ++ rest))).2 = .count 0 ∧
    (stepAwait100 f (.read100 (h.enc ++ rest))).1.shouldSendBody = false ∧
    (stepAwait100 f (.read100 (h.enc ++ rest))).1.await100 = false ∧
    CloseReason.not100 ∈ (stepAwait100 f (.read100 (h.enc ++ rest))).1.closeReasons := by
  have hp := C05_limit h hw 0 hf rest
  have hr := refuse100_spec { f with await100 := false } hn
  unfold stepAwait100
  simp only [hp]
  simp only [beq_self_eq_true, if_true]
  exact ⟨hr.1, hr.2.1, hr.2.2.2.2.2.2, hr.2.2.1⟩

/-- **C11 (edges).** Leaving the await state: body still due (100 received, or the caller gave up) ⇒
    SendBody; refused ⇒ RecvResponse with the call holder converted (so the first `try_response` is
    defined), never requesting the body. -/
theorem C11_proceed (f : Flow) (hh : f.holder = .withBody) (ha : f.call.analyzed = true) :
    (f.shouldSendBody = true → (stepAwait100 f .proceed).2 = .state .sendBody ∧ (stepAwait100 f .proceed).1.st = .sendBody) ∧
    (f.shouldSendBody = false → (stepAwait100 f .proceed).2 = .state .recvResponse ∧
        (stepAwait100 f .proceed).1.st = .recvResponse ∧ (stepAwait100 f .proceed).1.holder = .recvResponse) := by
  constructor
  · intro hs
    unfold stepAwait100 enterSendBody CallSt.analyzeRequest
    simp [hs, ha]
  · intro hs
    unfold stepAwait100 enterRecvResponse
    simp [hs, hh]

/-- **C11 (late 100).** In the receive state with the handshake still pending, a complete bare 100 is
    consumed exactly, clears the flag and yields no response — so a second 100 is not skipped. -/
theorem C11_late (hack : Bool) (f : Flow) (hh : f.holder = .recvResponse) (ha : f.await100 = true)
    (h : Head) (hw : h.wf) (hf : h.fields = []) (hc : h.codeVal = 100) (rest : Bytes) :
    stepRecvResponse hack f (.resp (h.enc ++ rest)) = ({ f with await100 := false }, .resp h.enc.length none) := by
  have hp := C05_exact h hw 128 (by simp [hf]) (by omega) (by intro g hg; simp [hf] at hg) rest
  unfold stepRecvResponse callTryResponse parseWithFallback
  simp [hh, hp, hc, hf, fieldsOf, ha]

/-- non-vacuity: the bare `HTTP/1.1 100 Continue` head -/
def c11Head : Head := { ver := 1, d1 := 49, d2 := 48, d3 := 48, reason := some [67], fields := [] }
example : c11Head.wf ∧ c11Head.fields = [] ∧ c11Head.codeVal = 100 :=
  ⟨Head.wf_of_wfb _ (by decide +kernel), rfl, by decide +kernel⟩
