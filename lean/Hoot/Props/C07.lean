import Hoot.Model.Flow
import Hoot.Proofs.ChunkInv2
import Hoot.Proofs.SizeField
import Hoot.Proofs.ChunkTotal

/-! # C07 — chunked response decoding yields exactly the payload and never over-reads

The grammar (`V2.SizeLine`, `V2.Chunk`, `V2.Rem`) and the schedule theorem `V2.C07_schedule` live in
`Hoot/Proofs/ChunkInv2.lean`; this file ties them to the operation the driver replays
(`CallSt.read`, i.e. call.rs `Call<RecvBody>::read` → body.rs `read_chunked` → chunk.rs) and states
the property. -/

open V2

/-- `CallSt.read` on a chunked body is `callReadS` of the schedule theorem. -/
theorem read_chunked_eq (c : CallSt) (d : Dechunker) (h : c.reader = some (.chunked d)) (w : Bytes) (cap : Nat) :
    c.read w cap =
      match callReadS d w cap c.stopBoundary with
      | (d', .ok (i, o)) => ({ c with reader := some (.chunked d') }, .ok (i, o))
      | (d', .error e) => ({ c with reader := some (.chunked d') }, .error (toFault e)) := by
  unfold CallSt.read callReadS
  simp only [h, readerEnded]
  by_cases he : d = .ended
  · subst he; simp; cases c; simp_all
  · have : (d == Dechunker.ended) = false := by simpa using he
    simp only [this, Bool.false_eq_true, if_false]
    rcases hq : readChunkedS (w.length + 2) d w cap c.stopBoundary with ⟨d', r⟩
    cases r with
    | ok v => obtain ⟨i, o⟩ := v; rfl
    | error e => rfl

/-- **C07.** For a valid chunked coding (any chunk sizes, any hex spelling the size parser accepts,
    extensions, trailers) followed by arbitrary bytes of a next message, every schedule of arrival
    windows, output sizes and boundary-stop settings: no read fails; the outputs concatenate to a prefix of
    the chunk data; only bytes of the coding are consumed; the body is reported ended exactly when the
    whole coding including its final CRLF has been consumed, and then the output is exactly the chunk
    data and the next message is untouched. -/
theorem C07 (σ : List ReadStep) (r : Rem) (hr : r.wf) (hrest : r.atRest) (tail : Bytes) :
    ∃ (r' : Rem) (used : Nat) (out : Bytes),
      runReads r.state (r.enc ++ tail) σ = some (r'.state, used, out) ∧
      used ≤ r.enc.length ∧ r.payload = out ++ r'.payload ∧
      (r'.state = .ended ↔ used = r.enc.length) ∧
      (r'.state = .ended → out = r.payload ∧ (r.enc ++ tail).drop used = tail) := by
  obtain ⟨r', used, out, h1, _, _, h4, _, h6, h7, h8⟩ := C07_schedule σ r hr hrest tail
  exact ⟨r', used, out, h1, h4, h6, h7, h8⟩

/-- **C07 (boundary stop).** With stopping on chunk boundaries enabled, a single read — from any valid
    position, on any window of the remaining stream, into any output space — returns only data of the
    current chunk (`Rem.curChunk`: the rest of the open chunk, or the chunk about to start when standing on
    a boundary): never data from two different chunks. -/
theorem C07_boundary (r : Rem) (hr : r.wf) (hrest : r.atRest) (tail : Bytes) (m cap : Nat) :
    ∃ (d' : Dechunker) (n : Nat) (out : Bytes),
      callReadS r.state ((r.enc ++ tail).take m) cap true = (d', .ok (n, out)) ∧ out <+: r.curChunk := by
  unfold callReadS
  by_cases he : r.state = .ended
  · exact ⟨r.state, 0, [], by simp [he], List.nil_prefix⟩
  · have hne : (r.state == Dechunker.ended) = false := by simpa using he
    simp only [hne, Bool.false_eq_true, if_false]
    have htake : (r.enc ++ tail).take m = (r.enc ++ tail).take (min m (r.enc ++ tail).length) := by
      rw [List.take_eq_take_min]
    have hwl : ((r.enc ++ tail).take (min m (r.enc ++ tail).length)).length = min m (r.enc ++ tail).length := by
      rw [List.length_take]; omega
    obtain ⟨r1, n1, o1, hread, _, _, _, _, _, _, _, hb, _⟩ :=
      readChunkedS_inv (((r.enc ++ tail).take (min m (r.enc ++ tail).length)).length + 2) r hr hrest tail
        (min m (r.enc ++ tail).length) cap true (by omega) (by rw [hwl]; omega)
    rw [htake, hread]
    exact ⟨r1.state, n1, o1, rfl, hb rfl⟩

/-- **C07 (progress).** A caller that offers everything that remains of the coding (plus whatever follows)
    with room for at least one byte is never stuck: unless the body has already ended, the read consumes
    at least one byte. Together with `C07` (consumed bytes are coding bytes, at most |coding|) a sane
    caller finishes after finitely many reads. -/
theorem C07_progress (r : Rem) (hr : r.wf) (hrest : r.atRest) (tail : Bytes) (m cap : Nat) (stop : Bool)
    (hm : r.enc.length ≤ m) (hcap : 1 ≤ cap) (hne : r.state ≠ .ended) :
    ∃ (d' : Dechunker) (n : Nat) (out : Bytes),
      callReadS r.state ((r.enc ++ tail).take m) cap stop = (d', .ok (n, out)) ∧ 0 < n := by
  unfold callReadS
  have hne' : (r.state == Dechunker.ended) = false := by simpa using hne
  simp only [hne', Bool.false_eq_true, if_false]
  have htake : (r.enc ++ tail).take m = (r.enc ++ tail).take (min m (r.enc ++ tail).length) := by
    rw [List.take_eq_take_min]
  have hwl : ((r.enc ++ tail).take (min m (r.enc ++ tail).length)).length = min m (r.enc ++ tail).length := by
    rw [List.length_take]; omega
  obtain ⟨r1, n1, o1, hread, _, _, _, _, _, _, _, _, hlive⟩ :=
    readChunkedS_inv (((r.enc ++ tail).take (min m (r.enc ++ tail).length)).length + 2) r hr hrest tail
      (min m (r.enc ++ tail).length) cap stop (by omega) (by rw [hwl]; omega)
  rw [htake, hread]
  exact ⟨r1.state, n1, o1, rfl, hlive (by simp; omega) (Or.inl hcap) hne⟩

/-- **C07 (the rest of the framing needs no output space).** Once the whole payload has been delivered
    (`r.payload = []`: what remains is the CRLF after the last chunk, the last-chunk line, trailers, the final
    CRLF), a caller that offers everything that remains is never stuck *whatever the size of its output
    buffer, zero included*: the read consumes at least one byte and produces nothing. A caller that reads the
    payload into a buffer of exactly the payload's length therefore still sees the body end. -/
theorem C07_progress_tail (r : Rem) (hr : r.wf) (hrest : r.atRest) (tail : Bytes) (m cap : Nat) (stop : Bool)
    (hm : r.enc.length ≤ m) (hpay : r.payload = []) (hne : r.state ≠ .ended) :
    ∃ (d' : Dechunker) (n : Nat),
      callReadS r.state ((r.enc ++ tail).take m) cap stop = (d', .ok (n, [])) ∧ 0 < n := by
  unfold callReadS
  have hne' : (r.state == Dechunker.ended) = false := by simpa using hne
  simp only [hne', Bool.false_eq_true, if_false]
  have htake : (r.enc ++ tail).take m = (r.enc ++ tail).take (min m (r.enc ++ tail).length) := by
    rw [List.take_eq_take_min]
  have hwl : ((r.enc ++ tail).take (min m (r.enc ++ tail).length)).length = min m (r.enc ++ tail).length := by
    rw [List.length_take]; omega
  obtain ⟨r1, n1, o1, hread, _, _, _, _, _, _, hp, _, hlive⟩ :=
    readChunkedS_inv (((r.enc ++ tail).take (min m (r.enc ++ tail).length)).length + 2) r hr hrest tail
      (min m (r.enc ++ tail).length) cap stop (by omega) (by rw [hwl]; omega)
  have ho : o1 = [] := by
    rw [hpay] at hp
    exact (List.append_eq_nil_iff.mp hp.symm).1
  rw [htake, hread, ho]
  exact ⟨r1.state, n1, rfl, hlive (by simp; omega) (Or.inr hpay) hne⟩

/-- The semantic hypothesis of the grammar ("the size field parses to n") is met by every run of hex
    digits, upper or lower case, with leading zeros, whose value fits `usize`. -/
theorem C07_sizefield (ds : Bytes) (hne : ds ≠ []) (h : ∀ b ∈ ds, isHexB b = true) (hle : hexValue ds ≤ USIZE_MAX) :
    parseSizeField ds = .ok (hexValue ds) := parseSizeField_hex ds hne h hle

/-- non-vacuity: the coding `2;x CRLF ab CRLF 0 CRLF T:v CRLF CRLF` is a well-formed position -/
def c07Line2 : SizeLine := { digits := [50], ext := [59, 120], val := 2 }
def c07Last : SizeLine := { digits := [48], ext := [], val := 0 }
def c07Rem : Rem := .atSize [{ line := c07Line2, data := [97, 98] }] c07Last [[84, 58, 118]]

example : c07Rem.atRest := by simp [c07Rem, Rem.atRest]
#guard c07Rem.enc == [50, 59, 120, 13, 10, 97, 98, 13, 10, 48, 13, 10, 84, 58, 118, 13, 10, 13, 10]

/-- non-vacuity of `C07_progress_tail`: standing on the CRLF behind the last data byte of the coding above,
    nothing is left to deliver and the body has not ended; two reads of the model into a zero-byte output
    consume the CRLF (2 bytes), then `0` CRLF `T:v` CRLF CRLF (10 bytes), and the body has ended (evaluated) -/
def c07Tail : Rem := .atCrlf [] c07Last [[84, 58, 118]]
example : c07Tail.atRest ∧ c07Tail.payload = [] ∧ c07Tail.state ≠ .ended := by
  simp [c07Tail, Rem.atRest, Rem.payload, Rem.state, payloadOf]

#guard (match callReadS c07Tail.state (c07Tail.enc ++ [72, 84]) 0 false with
  | (d, .ok (n, out)) => n == 2 && out.isEmpty &&
    (match callReadS d ((c07Tail.enc ++ [72, 84]).drop n) 0 false with
     | (d', .ok (n', out')) => n' == 10 && out'.isEmpty && d' == .ended
     | _ => false)
  | _ => false)
