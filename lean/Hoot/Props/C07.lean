import Hoot.Model.Flow
import Hoot.Proofs.ChunkInv2
import Hoot.Proofs.SizeField
import Hoot.Proofs.ChunkTotal

/-! # C07 — chunked response decoding yields exactly the payload and never over-reads

The grammar (`V2.SizeLine`, `V2.Chunk`, `V2.Rem`) and the schedule theorem `V2.C07_schedule` live in
`Hoot/Proofs/ChunkInv2.lean`; this file ties them to the operation the driver replays
(`CallSt.read`, i.e. call.rs `Call<RecvBody>::read` → body.rs `read_chunked` → chunk.rs) and states
the property. -/

open V2

/-- `CallSt.read` on a chunked body is `callReadS` of the schedule theorem. -/
theorem read_chunked_eq (c : CallSt) (d : Dechunker) (h : c.reader = some (.chunked d)) (w : Bytes) (cap : Nat) :
    c.read w cap =
      match callReadS d w cap c.stopBoundary with
      | (d', .ok (i, o)) => ({ c with reader := some (.chunked d') }, .ok (i, o))
      | (d', .error e) => ({ c with reader := some (.chunked d') }, .error (toFault e)) := by
  unfold CallSt.read callReadS
  simp only [h, readerEnded]
  by_cases he : d = .ended
  · subst he; simp; cases c; simp_all
  · have : (d == Dechunker.ended) = false := by simpa using he
    simp only [this, Bool.false_eq_true, if_false]
    rcases hq : readChunkedS (w.length + 2) d w cap c.stopBoundary with ⟨d', r⟩
    cases r with
    | ok v => obtain ⟨i, o⟩ := v; rfl
    | error e => rfl

/-- **C07.** For a valid chunked coding (any chunk sizes, any hex spelling the size parser accepts,
    extensions, trailers) followed by arbitrary bytes of a next message, every schedule of arrival
    windows, output sizes and boundary-stop settings: no read fails; the outputs concatenate to a prefix of
    the chunk data; only bytes of the coding are consumed; the body is reported ended exactly when the
    whole coding including its final CRLF has been consumed, and then the output is exactly the chunk
    data and the next message is untouched. -/
theorem C07 (σ : List ReadStep) (r : Rem) (hr : r.wf) (hrest : r.atRest) (tail : Bytes) :
    ∃ (r' : Rem) (used : Nat) (out : Bytes),
      runReads r.state (r.enc ++ tail) σ = some (r'.state, used, out) ∧
      used ≤ r.enc.length ∧ r.payload = out ++ r'.payload ∧
      (r'.state = .ended ↔ used = r.enc.length) ∧
      (r'.state = .ended → out = r.payload ∧ (r.enc ++ tail).drop used = tail) := by
  obtain ⟨r', used, out, h1, _, _, h4, _, h6, h7, h8⟩ := C07_schedule σ r hr hrest tail
  exact ⟨r', used, out, h1, h4, h6, h7, h8⟩

/-- The semantic hypothesis of the grammar ("the size field parses to n") is met by every run of hex
    digits, upper or lower case, with leading zeros, whose value fits `usize`. -/
theorem C07_sizefield (ds : Bytes) (hne : ds ≠ []) (h : ∀ b ∈ ds, isHexB b = true) (hle : hexValue ds ≤ USIZE_MAX) :
    parseSizeField ds = .ok (hexValue ds) := parseSizeField_hex ds hne h hle

/-- non-vacuity: the coding `2;x CRLF ab CRLF 0 CRLF T:v CRLF CRLF` is a well-formed position -/
def c07Line2 : SizeLine := { digits := [50], ext := [59, 120], val := 2 }
def c07Last : SizeLine := { digits := [48], ext := [], val := 0 }
def c07Rem : Rem := .atSize [{ line := c07Line2, data := [97, 98] }] c07Last [[84, 58, 118]]

example : c07Rem.atRest := by simp [c07Rem, Rem.atRest]
#guard c07Rem.enc == [50, 59, 120, 13, 10, 97, 98, 13, 10, 48, 13, 10, 84, 58, 118, 13, 10, 13, 10]
