import Hoot.Model.Uri
import Hoot.Proofs.PropsFlow
import Hoot.Props.C09

/-! # C15 — redirect method rewriting follows the documented table -/

/-- **C15 (table).** For every method and every status (any natural number): 307/308 keep the method and
    are not followed for POST, PUT, PATCH, DELETE; every other status keeps HEAD and GET and turns
    everything else into GET. -/
theorem C15 (m : Method) (status : Nat) : newMethodOf m status = tableSpec m status := C15_table m status

/-- **C15 (as_new_flow uses the table).** Whenever `as_new_flow` returns a flow, its method is the table's
    entry for (method of the request just made, status of the response); when the table says "do not
    follow" it returns nothing (unless the Location itself is missing or bad, which is reported first). -/
theorem C15_follow (f : Flow) (sameHost : Bool) (status : Nat) (hst : f.status = some status) :
    (∀ nf, (f.asNewFlow sameHost).2 = .flow nf → tableSpec f.call.req.method status = some nf.call.req.method) ∧
    ((f.asNewFlow sameHost).2 = .none → tableSpec f.call.req.method status = none) := by
  rw [← C15_table]
  unfold Flow.asNewFlow
  simp only [hst]
  constructor
  · intro nf h
    repeat' split at h
    all_goals (first | (simp at h; done) | skip)
    all_goals (simp only [FollowRes.flow.injEq] at h; subst h; simp_all [followFlow, Flow.new])
  · intro h
    repeat' split at h
    all_goals (first | (simp at h; done) | assumption | skip)
    all_goals simp_all

theorem isRedirectStatus_iff (s : Nat) : isRedirectStatus (some s) = true ↔ (300 ≤ s ∧ s ≤ 399 ∧ s ≠ 304) := by
  simp [isRedirectStatus, and_assoc]

/-- **C15 (entering the redirect state).** After the head (no body expected) or after the body, the flow
    enters the redirect state exactly for 3xx other than 304, else cleanup. -/
theorem C15_enter (hack : Bool) (f : Flow) (s : FState) (status : Nat) (hst : f.status = some status)
    (hs : f.st = .recvBody ∨ (f.st = .recvResponse ∧ needResponseBody f.call.reader = false))
    (h : (f.step hack .proceed).2 = .state s) :
    s = (if 300 ≤ status ∧ status ≤ 399 ∧ status ≠ 304 then .redirect else .cleanup) := by
  have := C09_edges hack f s h
  rw [this]
  unfold graphSpec
  rcases hs with hs | ⟨hs, hn⟩
  · simp only [hs, hst]
    by_cases hr : 300 ≤ status ∧ status ≤ 399 ∧ status ≠ 304
    · simp [hr, (isRedirectStatus_iff status).mpr hr]
    · have : isRedirectStatus (some status) = false := by
        cases hq : isRedirectStatus (some status) with
        | false => rfl
        | true => exact absurd ((isRedirectStatus_iff status).mp hq) hr
      simp [hr, this]
  · simp only [hs, hn, hst]
    by_cases hr : 300 ≤ status ∧ status ≤ 399 ∧ status ≠ 304
    · simp [hr, (isRedirectStatus_iff status).mpr hr]
    · have : isRedirectStatus (some status) = false := by
        cases hq : isRedirectStatus (some status) with
        | false => rfl
        | true => exact absurd ((isRedirectStatus_iff status).mp hq) hr
      simp [hr, this]

/-- **C15 (status).** The redirect state reports the status of the response that led to it. -/
theorem C15_status (f : Flow) (status : Nat) (hst : f.status = some status) :
    (stepRedirect f .statusQ).2 = .count status := by
  simp [stepRedirect, hst]

example : tableSpec .post 307 = none ∧ tableSpec .post 302 = some .get ∧ tableSpec .head 301 = some .head := by
  simp [tableSpec]

/-! ## Chains of redirects: the table applied hop after hop -/

/-- the method of the request after a chain of followed redirects with the given statuses
    (`none`: some hop is not followed) — the table applied hop after hop -/
def chainMethod : Method → List Nat → Option Method
  | m, [] => some m
  | m, s :: ss => match newMethodOf m s with
    | none => none
    | some m' => chainMethod m' ss

theorem newMethodOf_orig_or_get (m m' : Method) (s : Nat) (h : newMethodOf m s = some m') : m' = m ∨ m' = .get := by
  unfold newMethodOf at h
  repeat' split at h
  all_goals simp_all

theorem newMethodOf_get (s : Nat) : newMethodOf .get s = some .get := by
  unfold newMethodOf; split <;> simp [Method.needBody]

/-- **C15 (chains: GET absorbs).** Once a request is a GET it stays a GET over every further chain of
    redirects, whatever the statuses, and every hop is followed. -/
theorem C15_chain_get (ss : List Nat) : chainMethod .get ss = some .get := by
  induction ss with
  | nil => rfl
  | cons s ss ih => simp only [chainMethod, newMethodOf_get]; exact ih

/-- **C15 (chains: original or GET).** Over any chain of redirects of any length and any statuses the
    method on the wire is the caller's own method or GET — the table never invents a third method. -/
theorem C15_chain_orig_or_get (ss : List Nat) : ∀ (m m' : Method), chainMethod m ss = some m' → m' = m ∨ m' = .get := by
  induction ss with
  | nil => intro m m' h; simp [chainMethod] at h; exact Or.inl h.symm
  | cons s ss ih =>
    intro m m' h
    simp only [chainMethod] at h
    split at h
    · simp at h
    · rename_i m1 h1
      rcases newMethodOf_orig_or_get m m1 s h1 with e | e
      · subst e; exact ih _ _ h
      · subst e; rw [C15_chain_get] at h; simp at h; exact Or.inr h.symm

/-- **C15 (chains: a body method is never replayed).** A request whose method carries a body (POST, PUT,
    PATCH) — or a DELETE — that is followed through at least one redirect continues as GET, for every
    chain of statuses: no redirect ever makes the client re-issue such a method. -/
theorem C15_chain_unsafe_to_get (m m' : Method) (s : Nat) (ss : List Nat)
    (hm : m.needBody = true ∨ m = .delete) (h : chainMethod m (s :: ss) = some m') : m' = .get := by
  simp only [chainMethod] at h
  split at h
  · simp at h
  · rename_i m1 h1
    have : m1 = .get := by
      cases m <;> simp [Method.needBody] at hm <;>
        (unfold newMethodOf at h1; simp [Method.needBody] at h1; (try split at h1) <;> simp_all)
    subst this; rw [C15_chain_get] at h; simp at h; exact h.symm

/-- non-vacuity: a POST redirected 302 then 307 then 301 ends as GET; a POST at 307 is not followed -/
example : chainMethod .post [302, 307, 301] = some .get := by decide
example : chainMethod .post [307] = none := by decide
example : chainMethod .options [307, 308] = some .options := by decide
