import Hoot.Model.Flow
import Hoot.Proofs.WriterLink

/-! # C19 — sending a body always makes progress when progress is possible -/

/-- the number of input bytes one write of `input` into `cap` bytes consumes (0 when refused) -/
def consumedBy (c : CallSt) (input : Bytes) (cap : Nat) : Nat :=
  match (c.writeBodyPhase input cap).2 with
  | .ok (n, _) => n
  | .error _ => 0

/-- a non-empty write on an unfinished chunked body consumes exactly `consumedLen |input| cap` bytes -/
theorem consumedBy_chunked (c : CallSt) (input : Bytes) (cap : Nat)
    (hm : c.writer.mode = .chunked) (he : c.writer.ended = false) (hi : input ≠ []) :
    consumedBy c input cap = consumedLen input.length cap := by
  have hw : c.writer = { mode := .chunked, ended := false } := by
    cases hwr : c.writer with | mk m e => rw [hwr] at hm he; simp at hm he; simp [hm, he]
  have hne : input.isEmpty = false := by cases input <;> simp_all
  unfold consumedBy CallSt.writeBodyPhase
  simp only [hw, BodyWriter.overLimit, BodyWriter.leftToSend, BodyWriter.write, Bool.and_false, Bool.false_eq_true, if_false, hne]
  obtain ⟨cs, _, _, _, _, h5, _⟩ := writeChunks_spec input.length input { out := [], cap := cap } 0 rfl (by simp)
  rw [h5]; simp [W.available]

/-- **C19 (progress), chunked.** Non-empty input and room for the smallest chunk (6 bytes) ⇒ at least
    one byte is consumed. -/
theorem C19_progress_chunked (c : CallSt) (input : Bytes) (cap : Nat)
    (hm : c.writer.mode = .chunked) (he : c.writer.ended = false) (hi : input ≠ []) (hcap : 6 ≤ cap) :
    0 < consumedBy c input cap := by
  rw [consumedBy_chunked c input cap hm he hi]
  exact C19_progress _ _ (by cases input <;> simp_all) hcap

/-- **C19 (monotone).** Offering more input never reduces progress. -/
theorem C19_more_input (c : CallSt) (a b : Bytes) (cap : Nat)
    (hm : c.writer.mode = .chunked) (he : c.writer.ended = false) (ha : a ≠ []) (hab : a.length ≤ b.length) :
    consumedBy c a cap ≤ consumedBy c b cap := by
  have hb : b ≠ [] := by intro h; subst h; cases a <;> simp_all
  rw [consumedBy_chunked c a cap hm he ha, consumedBy_chunked c b cap hm he hb]
  exact C19_mono cap hab

/-- **C19 (at least the advertised maximum).** A write never consumes less than it would have, had
    only the advertised maximum input for that buffer been offered — which is that maximum itself. -/
theorem C19_at_least_advertised (c : CallSt) (input : Bytes) (cap : Nat)
    (hm : c.writer.mode = .chunked) (he : c.writer.ended = false) (hi : input ≠ [])
    (hge : calcMaxInput cap ≤ input.length) :
    calcMaxInput cap ≤ consumedBy c input cap := by
  rw [consumedBy_chunked c input cap hm he hi]
  have := C19_mono cap hge
  rw [show consumedLen (calcMaxInput cap) cap = calcMaxInput cap from C18_fits cap] at this
  exact this

/-- **C19 (progress), length-delimited.** One byte of room is enough. -/
theorem C19_progress_sized (c : CallSt) (left : Nat) (input : Bytes) (cap : Nat)
    (hm : c.writer.mode = .sized left) (he : c.writer.ended = false)
    (hi : input ≠ []) (hfit : input.length ≤ left) (hcap : 1 ≤ cap) :
    0 < consumedBy c input cap := by
  unfold consumedBy CallSt.writeBodyPhase
  have hl : 0 < input.length := by cases input <;> simp_all
  have h2 : decide (input.length > left) = false := by simp; omega
  simp only [he, Bool.and_false, BodyWriter.overLimit, BodyWriter.leftToSend, hm, h2, Bool.false_eq_true, if_false, BodyWriter.write,
    W.available, List.length_nil, Nat.sub_zero]
  omega

/-- a caller looping with a fixed buffer: `loopLen rem cap fuel` = input still unsent after at most
    `fuel` calls, at the length level (justified by `consumedBy_chunked`) -/
def loopLen (cap : Nat) : Nat → Nat → Nat
  | 0, rem => rem
  | fuel + 1, rem => if rem = 0 then 0 else loopLen cap fuel (rem - consumedLen rem cap)

/-- **C19 (termination).** With a buffer of at least 6 bytes, a caller looping until its input is empty
    is done after at most `|input|` calls. -/
theorem C19_terminates (cap : Nat) (hcap : 6 ≤ cap) : ∀ (fuel rem : Nat), rem ≤ fuel → loopLen cap fuel rem = 0 := by
  intro fuel
  induction fuel with
  | zero => intro rem h; simp [loopLen]; omega
  | succ fuel ih =>
    intro rem h
    simp only [loopLen]
    split
    · rfl
    · have hp := C19_progress rem cap (by omega) hcap
      have hle := consumedLen_le rem cap
      exact ih _ (by omega)

example : (6 : Nat) ≤ 6 ∧ ([1] : Bytes) ≠ [] := by decide
