import Hoot.Model.Flow
import Hoot.Proofs.ChunkTotal
import Hoot.Proofs.RespProof
import Hoot.Props.C09

/-! # C12 — no server byte sequence can panic, hang or desynchronise the client

For ARBITRARY bytes (no grammar hypothesis at all). "Hang" at model level is termination: every model
function is total, the two fuel-driven loops are shown to have enough fuel (`readChunkedS_total` uses
exactly the fuel `CallSt.read` passes). -/

/-- **C12 (body reads).** In any body framing, for arbitrary input bytes and output space, a read either
    fails with an API error or returns counts with consumed ≤ offered, produced ≤ output space and the
    produced bytes a subsequence — copies, in order — of the consumed input; it never panics, and the
    chunk decoder never rests in its transient trailer state (so the `assert!` there is unreachable). -/
theorem C12_read (c : CallSt) (rd : BodyReader) (hr : c.reader = some rd) (htr : rd ≠ .chunked .trailer)
    (w : Bytes) (cap : Nat) :
    (c.read w cap).1.reader ≠ some (.chunked .trailer) ∧
    (c.read w cap).1.reader.isSome = true ∧
    match (c.read w cap).2 with
    | .error (.panic _) => False
    | .error (.api _) => True
    | .ok (n, out) => n ≤ w.length ∧ out.length ≤ cap ∧ out.Sublist (w.take n) := by
  unfold CallSt.read
  simp only [hr]
  cases rd with
  | noBody => simp [readerEnded, hr]
  | len left =>
    by_cases h0 : left = 0
    · subst h0; simp [readerEnded, hr]
    · have : (left == 0) = false := by simpa using h0
      simp only [readerEnded, this, Bool.false_eq_true, if_false]
      refine ⟨by simp, by simp, ?_, ?_, ?_⟩
      · omega
      · simp [List.length_take]; omega
      · exact List.Sublist.refl _
  | close =>
    simp only [readerEnded, Bool.false_eq_true, if_false]
    refine ⟨by simp [hr], by simp [hr], ?_, ?_, ?_⟩
    · omega
    · simp [List.length_take]; omega
    · simp
  | chunked d =>
    have hd : d ≠ .trailer := by intro e; subst e; exact htr rfl
    by_cases he : d = .ended
    · subst he; simp [readerEnded, hr]
    · have : (d == Dechunker.ended) = false := by simpa using he
      simp only [readerEnded, this, Bool.false_eq_true, if_false]
      have hg := readChunkedS_total (w.length + 2) d w cap c.stopBoundary hd (by omega)
      rcases hq : readChunkedS (w.length + 2) d w cap c.stopBoundary with ⟨d', r⟩
      rw [hq] at hg
      obtain ⟨g1, g2⟩ := hg
      cases r with
      | error e =>
        simp only [] at g2 ⊢
        refine ⟨by simpa using g1, by simp, ?_⟩
        cases e <;> simp [toFault] at g2 ⊢
      | ok p =>
        obtain ⟨i, o⟩ := p
        simp only [] at g2 ⊢
        exact ⟨by simpa using g1, by simp, g2⟩

/-- **C12 (head parsing).** For arbitrary bytes the response-head parser (any limit N — 128 for
    `try_response`, 0 for `try_read_100`) returns an API error, "need more data", or a response consuming
    at most what was offered; there is no panic outcome. -/
theorem C12_head (N : Nat) (w : Bytes) :
    match tryParseResponse N w with
    | .error (.panic _) => False
    | .error (.api _) => True
    | .ok none => True
    | .ok (some (n, _)) => n ≤ w.length := by
  unfold tryParseResponse parseResp
  cases hrun : runFrom respStep (respInit N) w 0 with
  | more s => simp
  | error e => cases e <;> simp
  | complete r used =>
    have := complete_used_le respStep (respInit N) w 0 r used hrun
    simp only []
    by_cases h1 : r.code < 100
    · simp [h1]
    · by_cases h2 : (r.fields.any fun f => decide (f.1.length > 65535)) = true
      · simp [h1, h2]
      · simp [h1, h2]; omega

/-- the partial parser used by the redirect fallback has no panic outcome either -/
theorem C12_partial (N : Nat) (w : Bytes) : ∀ s, tryParsePartial N w ≠ .error (.panic s) := by
  intro s
  unfold tryParsePartial partialFinish
  cases runFrom respStep (respInit N) w 0 <;> simp [parseResp] <;> (repeat' split) <;> simp_all

/-- **C12 (afterwards).** Whatever bytes the server-facing calls were given, the state-advancing calls
    made afterwards do not panic either: this is `C09_history`, which quantifies over arbitrary byte
    arguments of every operation. -/
theorem C12_afterwards (hack : Bool) (ops : List Op) (f : Flow) (hwf : f.WF) (hok : okAlong hack f ops) :
    ∀ r ∈ (runOps hack f ops).2, noPanic r := (C09_history hack ops f hwf hok).1
