import Hoot.Props.C02

/-! C02: exactly one Host, exactly the framing header the body uses — after request analysis. -/

theorem getAll_setHeader_len (r : AReq) (h : Hdr) (key : String) (hlt : r.added.length < MAX_EXTRA) :
    ((r.setHeader h).1.getAll key).length = (r.getAll key).length + (if h.name == key then 1 else 0) := by
  unfold AReq.setHeader
  simp only [hlt, if_true]
  unfold AReq.getAll AReq.headers
  simp only [List.filter_append, List.map_append, List.length_append, List.length_map]
  by_cases hk : (h.name == key) = true
  · simp [hk]; omega
  · simp [hk]

theorem setHeader_ok_iff (r : AReq) (h : Hdr) : (r.setHeader h).2 = .ok () ↔ r.added.length < MAX_EXTRA := by
  unfold AReq.setHeader
  by_cases hlt : r.added.length < MAX_EXTRA <;> simp [hlt]

theorem getAll_setHeader_other (r : AReq) (h : Hdr) (key : String) (hne : (h.name == key) = false) :
    (r.setHeader h).1.getAll key = r.getAll key := by
  unfold AReq.setHeader
  by_cases hlt : r.added.length < MAX_EXTRA
  · simp only [hlt, if_true]
    unfold AReq.getAll AReq.headers
    simp [List.filter_append, hne]
  · simp [hlt]

/-- what a successful `analyze` says about the headers it looked at -/
theorem analyze_ok_spec (r : AReq) (w : BodyWriter) (sk : Bool) (info : ReqInfo) (h : r.analyze w sk = .ok info) :
    (r.getAll "host").length ≤ 1 ∧ (r.getAll "content-length").length ≤ 1 ∧
    (info.reqHostHeader = true ↔ (r.getAll "host").length = 1) ∧
    ∃ cl, r.contentLength? = .ok cl ∧ info.bodyMode = bodyModeOf r.hasChunked cl w ∧
      info.reqBodyHeader = (r.hasChunked || cl.isSome) := by
  unfold AReq.analyze at h
  cases hv : verifyVersion r.method r.version with
  | error e => simp [hv] at h
  | ok u =>
    simp only [hv] at h
    by_cases h1 : (r.getAll "host").length > 1
    · simp [h1] at h
    · simp only [h1, if_false] at h
      by_cases h2 : (r.getAll "content-length").length > 1
      · simp [h2] at h
      · simp only [h2, if_false] at h
        cases hh : r.hostCheck with
        | error e => simp [hh] at h
        | ok reqHost =>
          simp only [hh] at h
          cases hc : r.contentLength? with
          | error e => simp [hc] at h
          | ok cl =>
            simp only [hc] at h
            have hhost : reqHost = true ↔ (r.getAll "host").length = 1 := by
              unfold AReq.hostCheck at hh
              cases hq : r.getAll "host" with
              | nil => simp [hq] at hh ⊢; exact hh.symm ▸ rfl
              | cons a rest =>
                simp only [hq, List.head?_cons] at hh
                have hl : rest = [] := by
                  have h1' : (a :: rest).length ≤ 1 := by rw [← hq]; omega
                  simp only [List.length_cons] at h1'
                  exact List.eq_nil_of_length_eq_zero (by omega)
                cases ht : toStr? a with
                | none => simp [ht] at hh
                | some v => simp [ht] at hh; simp [hl, hh.symm]
            split at h
            · cases h
            · split at h
              · cases h
              · injection h with h
                subst h
                exact ⟨by omega, by omega, hhost, cl, rfl, rfl, rfl⟩

/-- the two amendments `analyze_request` makes, as functions -/
def hostStep (r : AReq) (info : ReqInfo) : AReq × Except Fault Unit :=
  if !info.reqHostHeader then r.setHeader { name := "host", value := strBytes r.effUri.host } else (r, .ok ())

def bodyStep (r1 : AReq) (info : ReqInfo) : AReq × Except Fault Unit :=
  if !info.reqBodyHeader && info.bodyMode.hasBody then
    match info.bodyMode.bodyHeader with
    | some h => r1.setHeader h
    | none => (r1, .ok ())
  else (r1, .ok ())

theorem analyzeRequest_eq (c : CallSt) (hna : c.analyzed = false) :
    c.analyzeRequest =
      match c.req.analyze c.writer c.skipCheck with
      | .error e => (c, .error (.api e))
      | .ok info =>
        match hostStep c.req info with
        | (req1, .error f) => ({ c with req := req1 }, .error f)
        | (req1, .ok ()) =>
          match bodyStep req1 info with
          | (req2, .error f) => ({ c with req := req2 }, .error f)
          | (req2, .ok ()) => ({ c with req := req2, writer := info.bodyMode, analyzed := true }, .ok ()) := by
  unfold CallSt.analyzeRequest
  simp only [hna, Bool.false_eq_true, if_false]
  cases c.req.analyze c.writer c.skipCheck with
  | error e => rfl
  | ok info =>
    dsimp only
    rw [show (if (!info.reqHostHeader) = true then c.req.setHeader { name := "host", value := strBytes c.req.effUri.host }
              else (c.req, Except.ok ())) = hostStep c.req info from rfl]
    rcases hostStep c.req info with ⟨req1, r1⟩
    cases r1 with
    | error f => rfl
    | ok u =>
      dsimp only
      unfold bodyStep
      by_cases hc : (!info.reqBodyHeader && info.bodyMode.hasBody) = true
      · simp only [hc, if_true]
        cases info.bodyMode.bodyHeader with
        | none => rfl
        | some h =>
          dsimp only
          rcases req1.setHeader h with ⟨req2, r2⟩
          cases r2 <;> rfl
      · simp only [hc, Bool.false_eq_true, if_false]

theorem hostStep_spec (r : AReq) (info : ReqInfo) (hok : (hostStep r info).2 = .ok ()) :
    ((hostStep r info).1.getAll "host").length = (r.getAll "host").length + (if info.reqHostHeader then 0 else 1) ∧
    (∀ key : String, ("host" == key) = false → (hostStep r info).1.getAll key = r.getAll key) := by
  unfold hostStep at hok ⊢
  cases hh : info.reqHostHeader with
  | true => simp [hh]
  | false =>
    simp only [hh, Bool.not_false, if_true] at hok ⊢
    have hlt := (setHeader_ok_iff _ _).mp hok
    refine ⟨?_, fun key hk => getAll_setHeader_other r _ key hk⟩
    rw [getAll_setHeader_len r _ "host" hlt]
    simp

theorem bodyStep_spec (r1 : AReq) (info : ReqInfo) (hok : (bodyStep r1 info).2 = .ok ()) :
    ((bodyStep r1 info).1 = r1 ∧ (info.reqBodyHeader = true ∨ info.bodyMode.hasBody = false ∨ info.bodyMode.bodyHeader = none)) ∨
    (∃ h, info.reqBodyHeader = false ∧ info.bodyMode.bodyHeader = some h ∧ r1.added.length < MAX_EXTRA ∧
       (bodyStep r1 info).1 = (r1.setHeader h).1) := by
  unfold bodyStep at hok ⊢
  by_cases hc : (!info.reqBodyHeader && info.bodyMode.hasBody) = true
  · simp only [hc, if_true] at hok ⊢
    cases hb : info.bodyMode.bodyHeader with
    | none => simp [hb]
    | some h =>
      simp only [hb] at hok ⊢
      right
      have : info.reqBodyHeader = false := by
        cases hq : info.reqBodyHeader <;> simp [hq] at hc ⊢
      exact ⟨h, this, rfl, (setHeader_ok_iff _ _).mp hok, rfl⟩
  · simp only [hc, Bool.false_eq_true, if_false]
    left
    refine ⟨by trivial, ?_⟩
    cases hq : info.reqBodyHeader with
    | true => exact Or.inl rfl
    | false =>
      right; left
      cases hq2 : info.bodyMode.hasBody with
      | false => rfl
      | true => simp [hq, hq2] at hc

theorem bodyHeader_name (bw : BodyWriter) (h : Hdr) (hb : bw.bodyHeader = some h) :
    (bw.mode = .chunked ∧ h = { name := "transfer-encoding", value := strBytes "chunked" }) ∨
    (∃ n, bw.mode = .sized n ∧ h = { name := "content-length", value := natDec n }) := by
  unfold BodyWriter.bodyHeader at hb
  cases hm : bw.mode with
  | none => simp [hm] at hb
  | sized n => simp [hm] at hb; exact Or.inr ⟨n, rfl, hb.symm⟩
  | chunked => simp [hm] at hb; exact Or.inl ⟨rfl, hb.symm⟩

/-- **C02 (exactly one Host).** After a successful first `analyze_request` the effective headers contain
    exactly one `host` field: the caller's if there was one (on the original request or added on the
    flow), otherwise the one derived from the effective URI. -/
theorem C02_host_once (c : CallSt) (hna : c.analyzed = false) (hok : c.analyzeRequest.2 = .ok ()) :
    (c.analyzeRequest.1.req.getAll "host").length = 1 := by
  rw [analyzeRequest_eq c hna] at hok ⊢
  cases ha : c.req.analyze c.writer c.skipCheck with
  | error e => simp [ha] at hok
  | ok info =>
    simp only [ha] at hok ⊢
    obtain ⟨h1, _, h3, _⟩ := analyze_ok_spec c.req c.writer c.skipCheck info ha
    rcases hq : hostStep c.req info with ⟨req1, r1⟩
    rw [hq] at hok
    cases r1 with
    | error f => simp at hok
    | ok u =>
      dsimp only at hok ⊢
      have hs := hostStep_spec c.req info (by rw [hq])
      rw [hq] at hs
      dsimp only at hs
      rcases hq2 : bodyStep req1 info with ⟨req2, r2⟩
      rw [hq2] at hok
      cases r2 with
      | error f => simp at hok
      | ok u2 =>
        dsimp only
        have hb := bodyStep_spec req1 info (by rw [hq2])
        rw [hq2] at hb
        dsimp only at hb
        have hreq2 : (req2.getAll "host").length = (req1.getAll "host").length := by
          rcases hb with ⟨e, _⟩ | ⟨h, _, hbh, _, e⟩
          · rw [e]
          · rw [e]
            have hnm : (h.name == "host") = false := by
              rcases bodyHeader_name info.bodyMode h hbh with ⟨_, hh⟩ | ⟨n, _, hh⟩
              · rw [hh]; decide
              · rw [hh]; show ("content-length" == "host") = false; decide
            rw [getAll_setHeader_other req1 h "host" hnm]
        rw [hreq2, hs.1]
        cases hrh : info.reqHostHeader with
        | true => simp [(h3.mp hrh)]
        | false =>
          have hne1 : (c.req.getAll "host").length ≠ 1 := by
            intro e; have := h3.mpr e; rw [hrh] at this; cases this
          simp only [Bool.false_eq_true, if_false]
          omega

theorem getAll_setHeader_mem (r : AReq) (h : Hdr) (key : String) (hlt : r.added.length < MAX_EXTRA)
    (hk : (h.name == key) = true) : h.value ∈ (r.setHeader h).1.getAll key := by
  unfold AReq.setHeader
  simp only [hlt, if_true]
  unfold AReq.getAll AReq.headers
  simp [List.filter_append, hk]

theorem chunkedValue_ok : (match toStr? (strBytes "chunked") with
    | some s => eqLowerAscii s (strBytes "chunked") | none => false) = true := by decide +kernel

theorem contentLength_spec (r : AReq) (cl : Option Nat) (h : r.contentLength? = .ok cl) (hle : (r.getAll "content-length").length ≤ 1) :
    (cl = none ∧ r.getAll "content-length" = []) ∨
    (∃ n v, cl = some n ∧ r.getAll "content-length" = [v] ∧ (toStr? v).bind parseU64 = some n) := by
  unfold AReq.contentLength? at h
  cases hq : r.getAll "content-length" with
  | nil => simp [hq] at h; exact Or.inl ⟨h.symm, rfl⟩
  | cons v rest =>
    have hl : rest = [] := by
      have h1' : (v :: rest).length ≤ 1 := by rw [← hq]; exact hle
      simp only [List.length_cons] at h1'
      exact List.eq_nil_of_length_eq_zero (by omega)
    simp only [hq, List.head?_cons] at h
    cases hp : (toStr? v).bind parseU64 with
    | none => simp [hp] at h
    | some n =>
      simp only [hp] at h
      injection h with h
      exact Or.inr ⟨n, v, h.symm, by rw [hl], hp⟩

/-- **C02 (exactly the framing header the body uses).** For a request on which the caller supplied at
    most one of `Content-Length` / `Transfer-Encoding: chunked`, after a successful first
    `analyze_request`: a chunked body ⇔ the head says `Transfer-Encoding: chunked` and has no
    `Content-Length`; a body of `n` bytes ⇔ exactly one `Content-Length` field, with value `n`, and no
    chunked; no body ⇔ neither. -/
theorem C02_framing (c : CallSt) (hna : c.analyzed = false) (hok : c.analyzeRequest.2 = .ok ())
    (hw : c.writer = BodyWriter.newChunked ∨ c.writer = BodyWriter.newNone)
    (hone : ¬ (c.req.hasChunked = true ∧ c.req.getAll "content-length" ≠ [])) :
    (c.analyzeRequest.1.writer.mode = .chunked →
       c.analyzeRequest.1.req.hasChunked = true ∧ c.analyzeRequest.1.req.getAll "content-length" = []) ∧
    (∀ n, c.analyzeRequest.1.writer.mode = .sized n →
       c.analyzeRequest.1.req.hasChunked = false ∧
       ∃ v, c.analyzeRequest.1.req.getAll "content-length" = [v] ∧ (toStr? v).bind parseU64 = some n) ∧
    (c.analyzeRequest.1.writer.mode = .none →
       c.analyzeRequest.1.req.hasChunked = false ∧ c.analyzeRequest.1.req.getAll "content-length" = []) := by
  rw [analyzeRequest_eq c hna] at hok ⊢
  cases ha : c.req.analyze c.writer c.skipCheck with
  | error e => simp [ha] at hok
  | ok info =>
    simp only [ha] at hok ⊢
    obtain ⟨_, h2, _, cl, hcl, hbm, hrb⟩ := analyze_ok_spec c.req c.writer c.skipCheck info ha
    rcases hq : hostStep c.req info with ⟨req1, r1⟩
    rw [hq] at hok
    cases r1 with
    | error f => simp at hok
    | ok u =>
      dsimp only at hok ⊢
      have hs := hostStep_spec c.req info (by rw [hq])
      rw [hq] at hs
      dsimp only at hs
      have hte1 : req1.getAll "transfer-encoding" = c.req.getAll "transfer-encoding" := hs.2 _ (by decide)
      have hcl1 : req1.getAll "content-length" = c.req.getAll "content-length" := hs.2 _ (by decide)
      have hch1 : req1.hasChunked = c.req.hasChunked := by unfold AReq.hasChunked; rw [hte1]
      rcases hq2 : bodyStep req1 info with ⟨req2, r2⟩
      rw [hq2] at hok
      cases r2 with
      | error f => simp at hok
      | ok u2 =>
        dsimp only
        have hb := bodyStep_spec req1 info (by rw [hq2])
        rw [hq2] at hb
        dsimp only at hb
        rcases contentLength_spec c.req cl hcl h2 with ⟨hcn, hcl0⟩ | ⟨n, v, hcn, hclv, hpv⟩
        · -- the caller supplied no Content-Length
          cases hch : c.req.hasChunked with
          | true =>
            -- caller's chunked
            have hmode : info.bodyMode = BodyWriter.newChunked := by rw [hbm, hch]; rfl
            have hrb' : info.reqBodyHeader = true := by rw [hrb, hch]; rfl
            have hreq2 : req2 = req1 := by
              rcases hb with ⟨e, _⟩ | ⟨h, hf, _⟩
              · exact e
              · rw [hrb'] at hf; cases hf
            rw [hreq2, hmode]
            refine ⟨fun _ => ⟨by rw [hch1, hch], by rw [hcl1, hcl0]⟩, (fun n hn => by cases hn), (fun hn => by cases hn)⟩
          | false =>
            have hmode : info.bodyMode = c.writer := by rw [hbm, hch, hcn]; rfl
            have hrb' : info.reqBodyHeader = false := by rw [hrb, hch, hcn]; rfl
            rcases hw with hw | hw
            · -- default chunked: the library adds the header
              have hbh : info.bodyMode.bodyHeader = some { name := "transfer-encoding", value := strBytes "chunked" } := by
                rw [hmode, hw]; rfl
              have hhb : info.bodyMode.hasBody = true := by rw [hmode, hw]; rfl
              rcases hb with ⟨_, hcase⟩ | ⟨h, _, hbh', hlt, e⟩
              · rcases hcase with h | h | h
                · rw [hrb'] at h; cases h
                · rw [hhb] at h; cases h
                · rw [hbh] at h; cases h
              · rw [hbh] at hbh'
                injection hbh' with hbh'
                subst hbh'
                rw [e, hmode, hw]
                refine ⟨fun _ => ⟨?_, ?_⟩, (fun n hn => by cases hn), (fun hn => by cases hn)⟩
                · unfold AReq.hasChunked
                  rw [List.any_eq_true]
                  exact ⟨_, getAll_setHeader_mem req1 _ "transfer-encoding" hlt (by decide), chunkedValue_ok⟩
                · rw [getAll_setHeader_other req1 _ "content-length" (by decide), hcl1, hcl0]
            · -- no body
              have hhb : info.bodyMode.hasBody = false := by rw [hmode, hw]; rfl
              have hreq2 : req2 = req1 := by
                rcases hb with ⟨e, _⟩ | ⟨h, _, hbh', _⟩
                · exact e
                · rw [hmode, hw] at hbh'; cases hbh'
              rw [hreq2, hmode, hw]
              refine ⟨(fun hn => by cases hn), (fun n hn => by cases hn), fun _ => ⟨by rw [hch1, hch], by rw [hcl1, hcl0]⟩⟩
        · -- the caller supplied Content-Length: n  (so, by `hone`, not chunked)
          have hch : c.req.hasChunked = false := by
            cases hq3 : c.req.hasChunked with
            | false => rfl
            | true => exact absurd ⟨hq3, by rw [hclv]; simp⟩ hone
          have hmode : info.bodyMode = BodyWriter.newSized n := by rw [hbm, hch, hcn]; rfl
          have hrb' : info.reqBodyHeader = true := by rw [hrb, hch, hcn]; rfl
          have hreq2 : req2 = req1 := by
            rcases hb with ⟨e, _⟩ | ⟨h, hf, _⟩
            · exact e
            · rw [hrb'] at hf; cases hf
          rw [hreq2, hmode]
          refine ⟨(fun hn => by cases hn), (fun m hm => ?_), (fun hn => by cases hn)⟩
          have : m = n := by simp [BodyWriter.newSized] at hm; exact hm.symm
          subst this
          exact ⟨by rw [hch1, hch], v, by rw [hcl1, hclv], hpv⟩

/-- non-vacuity: a POST without framing headers — the library adds Host and `Transfer-Encoding: chunked` -/
def c02Call : CallSt :=
  { req := { method := .post, version := .h11, uri := { scheme := "http", host := "a", port := none, path := "/", query := none }, orig := [] },
    writer := BodyWriter.newChunked }
def okUnit : Except Fault Unit → Bool | .ok () => true | _ => false
theorem okUnit_eq (x : Except Fault Unit) (h : okUnit x = true) : x = .ok () := by
  unfold okUnit at h; split at h <;> simp_all
example : (c02Call.analyzeRequest.1.req.getAll "host").length = 1 :=
  C02_host_once c02Call rfl (okUnit_eq _ (by decide +kernel))
example : c02Call.analyzeRequest.1.req.hasChunked = true ∧ c02Call.analyzeRequest.1.req.getAll "content-length" = [] :=
  (C02_framing c02Call rfl (okUnit_eq _ (by decide +kernel)) (Or.inl rfl) (by decide +kernel)).1 (by decide +kernel)
