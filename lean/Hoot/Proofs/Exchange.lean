import Hoot.Props.C05
import Hoot.Props.C07
import Hoot.Props.C08
import Hoot.Proofs.ExchangeSend
import Hoot.Proofs.RespLoc
set_option linter.unusedVariables false
set_option linter.unusedSimpArgs false

/-! Composition of the receive side of an exchange (C01): response head, then response body, under an
    arbitrary arrival / buffer schedule. -/

open V2

/-- what remains of a response body: the rest of a length-delimited body, or a position in a chunked coding -/
inductive BPos
  | none
  | len (d : Bytes)
  | chunk (r : Rem)
  | close (d : Bytes)     -- close-delimited: everything until the connection ends

def BPos.enc : BPos → Bytes
  | .none => []
  | .len d => d
  | .chunk r => r.enc
  | .close d => d

def BPos.payload : BPos → Bytes
  | .none => []
  | .len d => d
  | .chunk r => r.payload
  | .close d => d

def BPos.reader : BPos → BodyReader
  | .none => .noBody
  | .len d => .len d.length
  | .chunk r => .chunked r.state
  | .close _ => .close

def BPos.good : BPos → Prop
  | .none => True
  | .len _ => True
  | .chunk r => r.wf ∧ r.atRest
  | .close _ => True

def BPos.isClose : BPos → Bool
  | .close _ => true
  | _ => false

/-- the receive loop is over at this position: the framing says so, or — close-delimited — nothing is left
    of the stream -/
def BPos.over (b : BPos) (tail : Bytes) : Bool :=
  match b with
  | .close d => d.isEmpty && tail.isEmpty
  | _ => readerEnded b.reader

theorem BPos.over_iff (b : BPos) (tail : Bytes) (hb : b.good) (ht : b.isClose = true → tail = []) :
    b.over tail = true ↔ b.enc = [] := by
  cases b with
  | none => simp [BPos.over, BPos.reader, BPos.enc, readerEnded]
  | len d => simp [BPos.over, BPos.reader, BPos.enc, readerEnded]
  | chunk r =>
    simp only [BPos.over, BPos.reader, BPos.enc, readerEnded]
    rw [← rem_state_ended_iff r hb.2]
    simp
  | close d =>
    have := ht rfl
    simp [BPos.over, BPos.enc, this]

theorem BPos.reader_not_trailer (b : BPos) (hb : b.good) : b.reader ≠ .chunked .trailer := by
  cases b with
  | none => simp [BPos.reader]
  | len d => simp [BPos.reader]
  | close d => simp [BPos.reader]
  | chunk r =>
    simp only [BPos.reader]
    intro e
    have : r.state = .trailer := by injection e
    cases r <;> simp [Rem.state, Rem.atRest] at this hb
    exact hb.2

theorem call_eq_of_reader (c : CallSt) (r : Option BodyReader) (h : c.reader = r) : ({ c with reader := r } : CallSt) = c := by
  cases c; simp_all

/-- one read of the body, on any window of what remains (possibly reaching into the next message), into
    any output space: never fails, returns the next piece of the payload, consumes only body bytes -/
theorem body_step (c : CallSt) (b : BPos) (hb : b.good) (hr : c.reader = some b.reader) (tail : Bytes) (m cap : Nat)
    (ht : b.isClose = true → tail = []) :
    ∃ (b' : BPos) (n : Nat) (out : Bytes),
      c.read ((b.enc ++ tail).take m) cap = ({ c with reader := some b'.reader }, .ok (n, out)) ∧
      b'.good ∧ n ≤ b.enc.length ∧ b.enc.drop n = b'.enc ∧ b.payload = out ++ b'.payload ∧ n ≤ m ∧
      b'.isClose = b.isClose ∧
      (b.enc.length ≤ m → 1 ≤ cap → b.enc ≠ [] → 0 < n) := by
  cases b with
  | close d =>
    simp only [BPos.reader, BPos.enc, BPos.payload] at hr ⊢
    rw [C08_close_step c _ cap hr]
    have htl : tail = [] := ht rfl
    subst htl
    generalize hk : min ((d ++ []).take m).length cap = k
    have hwl : ((d ++ []).take m).length = min m d.length := by simp
    have hkd : k ≤ d.length := by omega
    refine ⟨.close (d.drop k), k, d.take k, ?_, trivial, hkd, rfl, by simp [BPos.payload], by omega, rfl, ?_⟩
    · have hcr : ({ c with reader := some BodyReader.close } : CallSt) = c := call_eq_of_reader c _ hr
      show (c, _) = (({ c with reader := some BodyReader.close } : CallSt), _)
      rw [hcr]
      congr 2
      rw [List.take_take]
      have : min k m = k := by omega
      rw [this, List.take_append_of_le_length hkd]
    · intro h1 h2 h3
      have : d.length ≠ 0 := by intro e; exact h3 (List.eq_nil_of_length_eq_zero e)
      omega
  | none =>
    refine ⟨.none, 0, [], ?_, trivial, by simp, by simp [BPos.enc], by simp [BPos.payload], by omega, rfl, by simp [BPos.enc]⟩
    simp only [BPos.reader] at hr ⊢
    unfold CallSt.read
    simp [hr, readerEnded]
    exact (call_eq_of_reader c _ hr).symm
  | len d =>
    simp only [BPos.reader, BPos.enc, BPos.payload] at hr ⊢
    rw [C08_len_step c d.length _ cap hr]
    generalize hk : min (min ((d ++ tail).take m).length cap) d.length = k
    have hkd : k ≤ d.length := by omega
    have hkm : k ≤ m := by
      have : ((d ++ tail).take m).length ≤ m := by simp; omega
      omega
    have hkw : k ≤ ((d ++ tail).take m).length := by omega
    refine ⟨.len (d.drop k), k, d.take k, ?_, trivial, hkd, rfl, by simp [BPos.payload], hkm, rfl, ?_⟩
    · simp only [BPos.reader, List.length_drop]
      congr 2
      rw [List.take_take]
      have : min k m = k := by omega
      rw [this, List.take_append_of_le_length hkd]
    · intro h1 h2 h3
      have : d.length ≠ 0 := by intro e; exact h3 (List.eq_nil_of_length_eq_zero e)
      have hwl : ((d ++ tail).take m).length = min m (d.length + tail.length) := by simp
      omega
  | chunk r =>
    obtain ⟨hwf, hrest⟩ := hb
    simp only [BPos.reader, BPos.enc, BPos.payload] at hr ⊢
    rw [read_chunked_eq c r.state hr]
    unfold callReadS
    by_cases he : r.state = .ended
    · have henc : r.enc = [] := (rem_state_ended_iff r hrest).mp he
      refine ⟨.chunk r, 0, [], ?_, ⟨hwf, hrest⟩, by omega, by simp, by simp [BPos.payload], by omega, rfl, ?_⟩
      · simp [he, BPos.reader]
      · intro _ _ h3; exact absurd henc h3
    · have hne : (r.state == Dechunker.ended) = false := by simpa using he
      simp only [hne, Bool.false_eq_true, if_false]
      have htake : (r.enc ++ tail).take m = (r.enc ++ tail).take (min m (r.enc ++ tail).length) := by
        rw [List.take_eq_take_min]
      have hwl : ((r.enc ++ tail).take (min m (r.enc ++ tail).length)).length = min m (r.enc ++ tail).length := by
        rw [List.length_take]; omega
      obtain ⟨r1, n1, o1, hread, hwf1, hrest1, hn1m, _, hd1, hn1, hp1, _, hlive⟩ :=
        readChunkedS_inv (((r.enc ++ tail).take (min m (r.enc ++ tail).length)).length + 2) r hwf hrest tail
          (min m (r.enc ++ tail).length) cap c.stopBoundary (by omega) (by rw [hwl]; omega)
      rw [htake, hread]
      refine ⟨.chunk r1, n1, o1, rfl, ⟨hwf1, hrest1⟩, hn1, hd1, hp1, by omega, rfl, ?_⟩
      intro h1 h2 _
      exact hlive (by simp; omega) (Or.inl h2) he

theorem BPos.payload_nil (b : BPos) (hb : b.good) (he : b.enc = []) : b.payload = [] := by
  cases b with
  | none => rfl
  | len d => simpa [BPos.enc, BPos.payload] using he
  | close d => simpa [BPos.enc, BPos.payload] using he
  | chunk r =>
    have hs : r.state = .ended := (rem_state_ended_iff r hb.2).mpr he
    cases r <;> simp [Rem.state] at hs
    rfl

/-- readiness in the body state: the body reader has ended — or the body is close-delimited (always ready) -/
theorem canProceed_body (f : Flow) (b : BPos) (hs : f.st = .recvBody) (hh : f.holder = .recvBody)
    (hr : f.call.reader = some b.reader) : f.canProceed = .ok (b.isClose || readerEnded b.reader) := by
  unfold Flow.canProceed
  simp only [hs, hh, hr]
  cases b <;> simp [BPos.reader, BPos.isClose, readerEnded]

theorem reader_is_close (b : BPos) : (some b.reader == some BodyReader.close) = b.isClose := by
  cases b <;> simp [BPos.reader, BPos.isClose]

/-! ## the receive driver -/

/-- everything the caller observes on the receive side -/
structure RecvObs where
  consumed : Nat := 0
  head : Option RespHead := none
  body : Bytes := []
  faults : Nat := 0
  deriving DecidableEq, Repr

/-- the caller's loop body (the loop every user of the crate writes): present the unconsumed bytes to the
    state the flow is in, account for what was consumed and produced, and proceed when the flow says it can -/
def recvStep (hack : Bool) (stream : Bytes) (x : Flow × RecvObs) (s : IoStep) : Flow × RecvObs :=
  match x.1.st with
  | .recvResponse =>
    match x.1.step hack (.resp ((stream.drop x.2.consumed).take s.m)) with
    | (f1, .resp n (some r)) => ((f1.step hack .proceed).1, { x.2 with consumed := x.2.consumed + n, head := some r })
    | (f1, .resp n none) => (f1, { x.2 with consumed := x.2.consumed + n })
    | (f1, _) => (f1, { x.2 with faults := x.2.faults + 1 })
  | .recvBody =>
    match x.1.step hack (.bread ((stream.drop x.2.consumed).take s.m) s.cap) with
    | (f1, .bytes n out) =>
      -- proceed when the flow is ready; a close-delimited body is "ready" at any time, there the caller goes
      -- on until the connection has ended (nothing is left of the stream)
      (if isOkTrue f1.canProceed && (!(f1.call.reader == some .close) || (stream.drop (x.2.consumed + n)).isEmpty)
         then (f1.step hack .proceed).1 else f1,
       { x.2 with consumed := x.2.consumed + n, body := x.2.body ++ out })
    | (f1, _) => (f1, { x.2 with faults := x.2.faults + 1 })
  | _ => x

def recvRun (hack : Bool) (stream : Bytes) (f : Flow) (sched : List IoStep) : Flow × RecvObs :=
  sched.foldl (recvStep hack stream) (f, {})

/-- the parsed form of a grammar head -/
def Head.parsed (h : Head) : RespHead :=
  { version := h.ver, status := h.codeVal, fields := fieldsOf (h.fields.map Field.pair) }

/-- a window of `m` unconsumed bytes, on a stream that starts with head `H`, which the partial-redirect
    fallback (finding D10) cannot misread: the fallback is absent, or the window holds the whole head, or the
    head is not a 3xx carrying `Location`, or the window ends before the end of the first `Location` line.
    (The property itself assigns the remaining windows — inside a 3xx head after a complete Location line —
    to C05.) -/
def Head.safeWin (H : Head) (hack : Bool) (m : Nat) : Prop :=
  hack = false ∨ H.enc.length ≤ m ∨
  (¬ (300 ≤ H.codeVal ∧ H.codeVal ≤ 399) ∨
    (fieldsOf (H.fields.map Field.pair)).any (fun x => x.name == "location") = false) ∨
  (∃ (pre : List Field) (f : Field) (post : List Field), H.fields = pre ++ f :: post ∧
    (fieldsOf (pre.map Field.pair)).any (fun x => x.name == "location") = false ∧
    m < H.statusLine.length + (encFields pre).length + f.enc.length)

theorem Head.safeWin_full (H : Head) (hack : Bool) (m : Nat) (h : H.enc.length ≤ m) : H.safeWin hack m :=
  Or.inr (Or.inl h)

/-- the response message of the exchange: a well-formed head `H` (not 100, at most 128 fields, names within
    the `http` crate's limit), whose framing for a request with method `m` — as the code computes it — is `b0` -/
structure RespOk (hack : Bool) (H : Head) (b0 : BPos) (m : Method) : Prop where
  hw : H.wf
  hs : H.fields.length ≤ 128
  hc : 100 ≤ H.codeVal
  h100 : H.codeVal ≠ 100
  hn : H.namesShort
  hb : b0.good
  hframe : forResponse (H.ver == 0) m H.codeVal (fieldsOf (H.fields.map Field.pair)) = .ok b0.reader

/-- a flow that stands at the start of the receive side of such an exchange -/
structure RecvSetup (hack : Bool) (H : Head) (b0 : BPos) (f0 : Flow) : Prop where
  resp : RespOk hack H b0 f0.call.req.method
  hst : f0.st = .recvResponse
  hh : f0.holder = .recvResponse
  hnd : f0.closeReasons.Nodup

def terminalSt (H : Head) : FState := if isRedirectStatus (some H.codeVal) then .redirect else .cleanup

/-- the invariant of the receive loop -/
def RecvInv (H : Head) (b0 : BPos) (tail : Bytes) (f0 : Flow) (f : Flow) (o : RecvObs) : Prop :=
  -- a close-delimited body ends where the stream ends: nothing follows it
  (b0.isClose = true → tail = []) ∧
  o.faults = 0 ∧
  ((f = f0 ∧ o = {}) ∨
   (∃ b : BPos, b.good ∧ f.st = .recvBody ∧ f.holder = .recvBody ∧ f.call.reader = some b.reader ∧
      f.status = some H.codeVal ∧
      (H.enc ++ b0.enc ++ tail).drop o.consumed = b.enc ++ tail ∧
      o.consumed + b.enc.length = H.enc.length + b0.enc.length ∧
      o.head = some H.parsed ∧ o.body ++ b.payload = b0.payload ∧ b.isClose = b0.isClose) ∨
   (f.st = terminalSt H ∧ o.consumed = H.enc.length + b0.enc.length ∧ o.head = some H.parsed ∧ o.body = b0.payload))

theorem call_head_prefix (hack : Bool) (H : Head) (b0 : BPos) (f0 : Flow) (S : RecvSetup hack H b0 f0) (c : CallSt)
    (n : Nat) (hlt : n < H.enc.length) (hsw : H.safeWin hack n) : callTryResponse hack c (H.enc.take n) = (c, .ok none) := by
  rcases hsw with rfl | hfull | hnot | ⟨pre, f, post, hsplit, hnoloc, hn⟩
  · exact C05_call_prefix_nohack c H S.resp.hw S.resp.hs n hlt
  · omega
  · cases hack with
    | false => exact C05_call_prefix_nohack c H S.resp.hw S.resp.hs n hlt
    | true => exact C05_call_prefix_partial c H S.resp.hw S.resp.hs S.resp.hc S.resp.hn hnot n hlt
  · cases hack with
    | false => exact C05_call_prefix_nohack c H S.resp.hw S.resp.hs n hlt
    | true => exact call_prefix_before_location c H S.resp.hw S.resp.hs S.resp.hc S.resp.hn pre f post hsplit hnoloc n hn

theorem call_head_full (hack : Bool) (H : Head) (b0 : BPos) (f0 : Flow) (S : RecvSetup hack H b0 f0) (rest : Bytes) :
    callTryResponse hack f0.call (H.enc ++ rest) =
      ({ f0.call with reader := some b0.reader }, .ok (some (H.enc.length, H.parsed))) := by
  unfold callTryResponse parseWithFallback
  rw [C05_exact H S.resp.hw 128 S.resp.hs S.resp.hc S.resp.hn rest]
  have : (H.codeVal == 100) = false := by simpa using S.resp.h100
  simp only [this, Bool.false_eq_true, if_false]
  rw [S.resp.hframe]
  rfl

theorem step_resp_full (hack : Bool) (H : Head) (b0 : BPos) (f0 : Flow) (S : RecvSetup hack H b0 f0) (rest : Bytes) :
    ∃ f1 : Flow, stepRecvResponse hack f0 (.resp (H.enc ++ rest)) = (f1, .resp H.enc.length (some H.parsed)) ∧
      f1.st = .recvResponse ∧ f1.holder = .recvResponse ∧ f1.call.reader = some b0.reader ∧
      f1.status = some H.codeVal ∧ f1.closeReasons.Nodup := by
  unfold stepRecvResponse
  have hne : (f0.holder != Holder.recvResponse) = false := by simp [S.hh]
  simp only [hne, Bool.false_eq_true, if_false]
  rw [call_head_full hack H b0 f0 S rest]
  have h1 : (H.parsed.status == 100 && f0.await100) = false := by
    have : (H.parsed.status == 100) = false := by simpa [Head.parsed] using S.resp.h100
    simp [this]
  simp only [h1, Bool.false_eq_true, if_false]
  by_cases hcl : hasHdr H.parsed.fields "connection" "close" = true
  · simp only [hcl, if_true]
    have hp := pushReason_ok f0.closeReasons .serverClose S.hnd
    rcases hq : pushReason f0.closeReasons .serverClose with ⟨l, pr⟩
    rw [hq] at hp
    obtain ⟨hpr, hl⟩ := hp
    dsimp only at hpr hl
    subst hpr
    exact ⟨_, rfl, S.hst, S.hh, rfl, rfl, hl⟩
  · simp only [hcl, Bool.false_eq_true, if_false]
    exact ⟨_, rfl, S.hst, S.hh, rfl, rfl, S.hnd⟩

theorem needBody_false (b0 : BPos) (h : needResponseBody (some b0.reader) = false) : b0.enc = [] ∧ b0.payload = [] := by
  cases b0 with
  | none => exact ⟨rfl, rfl⟩
  | len d =>
    cases d with
    | nil => exact ⟨rfl, rfl⟩
    | cons x xs => simp [needResponseBody, BPos.reader] at h
  | chunk r => simp [needResponseBody, BPos.reader] at h
  | close d => simp [needResponseBody, BPos.reader] at h

theorem flow_step_resp (hack : Bool) (f : Flow) (op : Op) (h : f.st = .recvResponse) :
    f.step hack op = stepRecvResponse hack f op := by unfold Flow.step; simp [h]

theorem flow_step_body (hack : Bool) (f : Flow) (op : Op) (h : f.st = .recvBody) :
    f.step hack op = stepRecvBody f op := by unfold Flow.step; simp [h]

theorem recvStep_head_prefix (hack : Bool) (H : Head) (b0 : BPos) (tail : Bytes) (f0 : Flow) (S : RecvSetup hack H b0 f0)
    (s : IoStep) (hm : s.m < H.enc.length) (hsw : H.safeWin hack s.m) :
    recvStep hack (H.enc ++ b0.enc ++ tail) (f0, {}) s = (f0, {}) := by
  unfold recvStep
  simp only [S.hst]
  rw [flow_step_resp hack f0 _ S.hst]
  have hw : ((H.enc ++ b0.enc ++ tail).drop ({} : RecvObs).consumed).take s.m = H.enc.take s.m := by
    show ((H.enc ++ b0.enc ++ tail).drop 0).take s.m = _
    rw [List.drop_zero, List.append_assoc, List.take_append_of_le_length (by omega)]
  rw [hw]
  have : stepRecvResponse hack f0 (.resp (H.enc.take s.m)) = (f0, .resp 0 none) := by
    unfold stepRecvResponse
    simp [S.hh, call_head_prefix hack H b0 f0 S f0.call s.m hm hsw]
    have := S.hh
    cases f0; simp_all
  rw [this]

theorem recvStep_head_full (hack : Bool) (H : Head) (b0 : BPos) (tail : Bytes) (f0 : Flow) (S : RecvSetup hack H b0 f0)
    (s : IoStep) (hm : H.enc.length ≤ s.m) :
    ∃ f2 : Flow, recvStep hack (H.enc ++ b0.enc ++ tail) (f0, {}) s =
        (f2, { consumed := H.enc.length, head := some H.parsed, body := [], faults := 0 }) ∧
      f2.status = some H.codeVal ∧ f2.call.reader = some b0.reader ∧
      ((needResponseBody (some b0.reader) = true ∧ f2.st = .recvBody ∧ f2.holder = .recvBody) ∨
       (needResponseBody (some b0.reader) = false ∧ f2.st = terminalSt H)) := by
  unfold recvStep
  simp only [S.hst]
  rw [flow_step_resp hack f0 _ S.hst]
  have hw : ((H.enc ++ b0.enc ++ tail).drop ({} : RecvObs).consumed).take s.m = H.enc ++ (b0.enc ++ tail).take (s.m - H.enc.length) := by
    show ((H.enc ++ b0.enc ++ tail).drop 0).take s.m = _
    rw [List.drop_zero, List.append_assoc, List.take_append, List.take_of_length_le hm]
  rw [hw]
  obtain ⟨f1, hstep, h1st, h1h, h1r, h1s, h1c⟩ := step_resp_full hack H b0 f0 S ((b0.enc ++ tail).take (s.m - H.enc.length))
  rw [hstep]
  dsimp only
  rw [flow_step_resp hack f1 _ h1st]
  have hcp : f1.canProceed = .ok true := by unfold Flow.canProceed; simp [h1st, h1h, h1r]
  refine ⟨(stepRecvResponse hack f1 .proceed).1, ?_, ?_⟩
  · simp
  · unfold stepRecvResponse
    simp only [hcp, h1r, reader_is_close]
    cases hnb : needResponseBody (some b0.reader) with
    | true =>
      simp only [if_true]
      cases hcl : b0.isClose with
      | false => simp [h1s, h1r]
      | true =>
        simp only [if_true]
        have hp := pushReason_ok f1.closeReasons .closeDelimited h1c
        rcases hq : pushReason f1.closeReasons .closeDelimited with ⟨l, pr⟩
        rw [hq] at hp
        obtain ⟨hpr, _⟩ := hp
        dsimp only at hpr
        subst hpr
        simp [h1s, h1r]
    | false => simp [h1s, h1r, terminalSt]

theorem recvStep_body (hack : Bool) (stream : Bytes) (f : Flow) (o : RecvObs) (b : BPos) (tail : Bytes) (hb : b.good)
    (hst : f.st = .recvBody) (hh : f.holder = .recvBody) (hr : f.call.reader = some b.reader)
    (hd : stream.drop o.consumed = b.enc ++ tail) (s : IoStep) (ht : b.isClose = true → tail = []) :
    ∃ (f2 : Flow) (b' : BPos) (n : Nat) (out : Bytes),
      recvStep hack stream (f, o) s = (f2, { o with consumed := o.consumed + n, body := o.body ++ out }) ∧
      b'.good ∧ n ≤ b.enc.length ∧ b.enc.drop n = b'.enc ∧ b.payload = out ++ b'.payload ∧ f2.status = f.status ∧
      b'.isClose = b.isClose ∧
      (b.enc.length ≤ s.m → 1 ≤ s.cap → b.enc ≠ [] → 0 < n) ∧
      ((b'.over tail = false ∧ f2.st = .recvBody ∧ f2.holder = .recvBody ∧ f2.call.reader = some b'.reader) ∨
       (b'.over tail = true ∧ f2.st = if isRedirectStatus f.status then .redirect else .cleanup)) := by
  obtain ⟨b', n, out, hread, hb', hn, hdrop, hpay, _, hcl, hlive⟩ := body_step f.call b hb hr tail s.m s.cap ht
  have hd' : stream.drop (o.consumed + n) = b'.enc ++ tail := by
    rw [← List.drop_drop, hd, ← hdrop, List.drop_append_of_le_length hn]
  unfold recvStep
  simp only [hst]
  rw [flow_step_body hack f _ hst, hd]
  have hstep : stepRecvBody f (.bread ((b.enc ++ tail).take s.m) s.cap) =
      ({ f with call := { f.call with reader := some b'.reader } }, .bytes n out) := by
    unfold stepRecvBody
    simp [hh, hread]
  rw [hstep]
  dsimp only
  rw [hd', reader_is_close]
  generalize hf1 : ({ f with call := { f.call with reader := some b'.reader } } : Flow) = f1
  have h1st : f1.st = .recvBody := by rw [← hf1]; exact hst
  have h1h : f1.holder = .recvBody := by rw [← hf1]; exact hh
  have h1r : f1.call.reader = some b'.reader := by rw [← hf1]
  have h1s : f1.status = f.status := by rw [← hf1]
  have hcp := canProceed_body f1 b' h1st h1h h1r
  rw [hcp]
  have hcond : (isOkTrue (Except.ok (b'.isClose || readerEnded b'.reader)) && (!b'.isClose || (b'.enc ++ tail).isEmpty)) = b'.over tail := by
    have hok : ∀ x : Bool, isOkTrue (Except.ok x) = x := by intro x; cases x <;> rfl
    rw [hok]
    cases b' <;> simp [BPos.isClose, BPos.over, BPos.enc, BPos.reader, readerEnded]
    rename_i d
    cases d <;> simp
  rw [hcond]
  cases he : b'.over tail with
  | false =>
    refine ⟨f1, b', n, out, ?_, hb', hn, hdrop, hpay, h1s, hcl, hlive, Or.inl ⟨he, h1st, h1h, h1r⟩⟩
    simp
  | true =>
    have hcan : f1.canProceed = .ok true := by
      rw [hcp]
      cases b' <;> simp [BPos.isClose, BPos.over] at he ⊢ <;> simp [he]
    refine ⟨(f1.step hack .proceed).1, b', n, out, ?_, hb', hn, hdrop, hpay, ?_, hcl, hlive, Or.inr ⟨he, ?_⟩⟩
    · simp
    · rw [flow_step_body hack f1 _ h1st]; unfold stepRecvBody; simp [hcan, h1s]
    · rw [flow_step_body hack f1 _ h1st]; unfold stepRecvBody; simp [hcan, h1s]

theorem recv_step_inv (hack : Bool) (H : Head) (b0 : BPos) (tail : Bytes) (f0 : Flow) (S : RecvSetup hack H b0 f0)
    (f : Flow) (o : RecvObs) (s : IoStep) (h : RecvInv H b0 tail f0 f o) (hsw : H.safeWin hack s.m) :
    RecvInv H b0 tail f0 (recvStep hack (H.enc ++ b0.enc ++ tail) (f, o) s).1
      (recvStep hack (H.enc ++ b0.enc ++ tail) (f, o) s).2 := by
  obtain ⟨htail, hf0, hA | hB | hC⟩ := h
  · -- head not yet returned
    obtain ⟨rfl, rfl⟩ := hA
    by_cases hm : s.m < H.enc.length
    · rw [recvStep_head_prefix hack H b0 tail f S s hm hsw]
      exact ⟨htail, rfl, Or.inl ⟨rfl, rfl⟩⟩
    · obtain ⟨f2, hstep, h2s, h2r, hcase⟩ := recvStep_head_full hack H b0 tail f S s (by omega)
      rw [hstep]
      refine ⟨htail, rfl, Or.inr ?_⟩
      rcases hcase with ⟨hnb, h2st, h2h⟩ | ⟨hnb, h2st⟩
      · refine Or.inl ⟨b0, S.resp.hb, h2st, h2h, h2r, h2s, ?_, rfl, rfl, by simp, rfl⟩
        show (H.enc ++ b0.enc ++ tail).drop H.enc.length = _
        rw [List.append_assoc, List.drop_left]
      · obtain ⟨he, hp⟩ := needBody_false b0 hnb
        refine Or.inr ⟨h2st, ?_, rfl, ?_⟩
        · show H.enc.length = _; rw [he]; simp
        · show [] = _; rw [hp]
  · obtain ⟨b, hb, hst, hh, hr, hstat, hd, hcons, hhead, hbody, hbcl⟩ := hB
    obtain ⟨f2, b', n, out, hstep, hb', hn, hdrop, hpay, h2s, hcl', _, hcase⟩ :=
      recvStep_body hack (H.enc ++ b0.enc ++ tail) f o b tail hb hst hh hr hd s (by rw [hbcl]; exact htail)
    rw [hstep]
    refine ⟨htail, hf0, Or.inr ?_⟩
    have hlen' : b'.enc.length = b.enc.length - n := by rw [← hdrop]; simp
    rcases hcase with ⟨he, h2st, h2h, h2r⟩ | ⟨he, h2st⟩
    · refine Or.inl ⟨b', hb', h2st, h2h, h2r, by rw [h2s, hstat], ?_, ?_, hhead, ?_, by rw [hcl', hbcl]⟩
      · show (H.enc ++ b0.enc ++ tail).drop (o.consumed + n) = _
        rw [← List.drop_drop, hd, ← hdrop, List.drop_append_of_le_length hn]
      · show o.consumed + n + b'.enc.length = _
        omega
      · show o.body ++ out ++ b'.payload = _
        rw [List.append_assoc, ← hpay, hbody]
    · have henc : b'.enc = [] := (BPos.over_iff b' tail hb' (by rw [hcl', hbcl]; exact htail)).mp he
      have hp' : b'.payload = [] := BPos.payload_nil b' hb' henc
      refine Or.inr ⟨?_, ?_, hhead, ?_⟩
      · rw [h2st, hstat]; rfl
      · show o.consumed + n = _
        rw [henc] at hlen'; simp at hlen'; omega
      · show o.body ++ out = _
        rw [← hbody, hpay, hp']; simp
  · -- done: nothing more happens
    obtain ⟨hst, h1, h2, h3⟩ := hC
    have hx : recvStep hack (H.enc ++ b0.enc ++ tail) (f, o) s = (f, o) := by
      unfold recvStep
      have : f.st = .redirect ∨ f.st = .cleanup := by
        rw [hst]; unfold terminalSt; split <;> simp
      rcases this with e | e <;> simp [e]
    rw [hx]
    exact ⟨htail, hf0, Or.inr (Or.inr ⟨hst, h1, h2, h3⟩)⟩

theorem recv_run_inv (hack : Bool) (H : Head) (b0 : BPos) (tail : Bytes) (f0 : Flow) (S : RecvSetup hack H b0 f0)
    (htail : b0.isClose = true → tail = []) (sched : List IoStep) (hσ : ∀ s ∈ sched, H.safeWin hack s.m) :
    RecvInv H b0 tail f0 (recvRun hack (H.enc ++ b0.enc ++ tail) f0 sched).1 (recvRun hack (H.enc ++ b0.enc ++ tail) f0 sched).2 := by
  unfold recvRun
  have gen : ∀ (sched : List IoStep), (∀ s ∈ sched, H.safeWin hack s.m) → ∀ (x : Flow × RecvObs), RecvInv H b0 tail f0 x.1 x.2 →
      RecvInv H b0 tail f0 (sched.foldl (recvStep hack (H.enc ++ b0.enc ++ tail)) x).1
        (sched.foldl (recvStep hack (H.enc ++ b0.enc ++ tail)) x).2 := by
    intro sched
    induction sched with
    | nil => intro _ x hx; exact hx
    | cons s rest ih =>
      intro hσ x hx
      rw [List.foldl_cons]
      exact ih (fun t ht => hσ t (by simp [ht])) _ (recv_step_inv hack H b0 tail f0 S x.1 x.2 s hx (hσ s (by simp)))
  exact gen sched hσ (f0, {}) ⟨htail, rfl, Or.inl ⟨rfl, rfl⟩⟩

/-- the receive side is complete when the flow has left the two receive states -/
def recvDone (f : Flow) : Bool := f.st == .redirect || f.st == .cleanup

/-- the one outcome every complete schedule produces -/
def recvSpec (H : Head) (b0 : BPos) : RecvObs :=
  { consumed := H.enc.length + b0.enc.length, head := some H.parsed, body := b0.payload, faults := 0 }

def recvMeasure (total : Nat) (x : Flow × RecvObs) : Nat :=
  (if x.1.st = .recvResponse then 1 else 0) + (total - x.2.consumed)

theorem terminal_done (H : Head) (f : Flow) (h : f.st = terminalSt H) : recvDone f = true := by
  unfold recvDone; rw [h]; unfold terminalSt; split <;> simp

/-- once everything has arrived, every call with some output space makes progress -/
theorem recv_step_progress (hack : Bool) (H : Head) (b0 : BPos) (tail : Bytes) (f0 : Flow) (S : RecvSetup hack H b0 f0)
    (f : Flow) (o : RecvObs) (s : IoStep) (h : RecvInv H b0 tail f0 f o)
    (hm : H.enc.length + b0.enc.length ≤ s.m) (hcap : 1 ≤ s.cap) :
    recvDone (recvStep hack (H.enc ++ b0.enc ++ tail) (f, o) s).1 = true ∨
    recvMeasure (H.enc.length + b0.enc.length) (recvStep hack (H.enc ++ b0.enc ++ tail) (f, o) s) <
      recvMeasure (H.enc.length + b0.enc.length) (f, o) := by
  obtain ⟨htail, hf0, hA | hB | hC⟩ := h
  · obtain ⟨rfl, rfl⟩ := hA
    obtain ⟨f2, hstep, h2s, h2r, hcase⟩ := recvStep_head_full hack H b0 tail f S s (by omega)
    rw [hstep]
    rcases hcase with ⟨hnb, h2st, h2h⟩ | ⟨hnb, h2st⟩
    · right
      unfold recvMeasure
      simp only [h2st, S.hst]
      show (if FState.recvBody = FState.recvResponse then 1 else 0) + (H.enc.length + b0.enc.length - H.enc.length) <
        (if FState.recvResponse = FState.recvResponse then 1 else 0) + (H.enc.length + b0.enc.length - 0)
      simp; omega
    · left; exact terminal_done H f2 h2st
  · obtain ⟨b, hb, hst, hh, hr, hstat, hd, hcons, hhead, hbody, hbcl⟩ := hB
    obtain ⟨f2, b', n, out, hstep, hb', hn, hdrop, hpay, h2s, hcl', hlive, hcase⟩ :=
      recvStep_body hack (H.enc ++ b0.enc ++ tail) f o b tail hb hst hh hr hd s (by rw [hbcl]; exact htail)
    rw [hstep]
    rcases hcase with ⟨he, h2st, h2h, h2r⟩ | ⟨he, h2st⟩
    · right
      have hbne : b.enc ≠ [] := by
        intro e1
        have e2 : b'.enc = [] := by rw [← hdrop, e1]; simp
        have := (BPos.over_iff b' tail hb' (by rw [hcl', hbcl]; exact htail)).mpr e2
        rw [this] at he; cases he
      have hpos := hlive (by omega) hcap hbne
      unfold recvMeasure
      simp only [h2st, hst]
      show (if FState.recvBody = FState.recvResponse then 1 else 0) + (H.enc.length + b0.enc.length - (o.consumed + n)) <
        (if FState.recvBody = FState.recvResponse then 1 else 0) + (H.enc.length + b0.enc.length - o.consumed)
      simp; omega
    · left
      unfold recvDone; rw [h2st, hstat]; split <;> simp
  · obtain ⟨hst, h1, h2, h3⟩ := hC
    left
    have hx : recvStep hack (H.enc ++ b0.enc ++ tail) (f, o) s = (f, o) := by
      unfold recvStep
      have : f.st = .redirect ∨ f.st = .cleanup := by
        rw [hst]; unfold terminalSt; split <;> simp
      rcases this with e | e <;> simp [e]
    rw [hx]
    exact terminal_done H f hst

theorem recvStep_done (hack : Bool) (stream : Bytes) (x : Flow × RecvObs) (s : IoStep) (h : recvDone x.1 = true) :
    recvStep hack stream x s = x := by
  unfold recvDone at h
  have : x.1.st = .redirect ∨ x.1.st = .cleanup := by simpa using h
  unfold recvStep
  rcases this with e | e <;> simp [e]

theorem recvFold_done (hack : Bool) (stream : Bytes) (sched : List IoStep) (x : Flow × RecvObs) (h : recvDone x.1 = true) :
    sched.foldl (recvStep hack stream) x = x := by
  induction sched with
  | nil => rfl
  | cons s rest ih => rw [List.foldl_cons, recvStep_done hack stream x s h, ih]

theorem recv_live_aux (hack : Bool) (H : Head) (b0 : BPos) (tail : Bytes) (f0 : Flow) (S : RecvSetup hack H b0 f0) :
    ∀ (k : Nat) (x : Flow × RecvObs), RecvInv H b0 tail f0 x.1 x.2 →
      (recvDone x.1 = true ∨ recvMeasure (H.enc.length + b0.enc.length) x ≤ k) →
      ∀ sched : List IoStep, (∀ s ∈ sched, H.enc.length + b0.enc.length ≤ s.m ∧ 1 ≤ s.cap) → k + 1 ≤ sched.length →
      recvDone (sched.foldl (recvStep hack (H.enc ++ b0.enc ++ tail)) x).1 = true := by
  intro k
  induction k with
  | zero =>
    intro x hx hk sched hfull hlen
    obtain ⟨f, o⟩ := x
    rcases hk with hd | hk
    · rw [recvFold_done hack _ sched (f, o) hd]; exact hd
    · cases sched with
      | nil => simp at hlen
      | cons s rest =>
        rw [List.foldl_cons]
        have hs := hfull s (by simp)
        rcases recv_step_progress hack H b0 tail f0 S f o s hx hs.1 hs.2 with hd | hlt
        · rw [recvFold_done hack _ rest _ hd]; exact hd
        · omega
  | succ k ih =>
    intro x hx hk sched hfull hlen
    obtain ⟨f, o⟩ := x
    rcases hk with hd | hk
    · rw [recvFold_done hack _ sched (f, o) hd]; exact hd
    · cases sched with
      | nil => simp at hlen
      | cons s rest =>
        rw [List.foldl_cons]
        have hs := hfull s (by simp)
        have hinv := recv_step_inv hack H b0 tail f0 S f o s hx (H.safeWin_full hack s.m (by have := hs.1; omega))
        refine ih _ hinv ?_ rest (fun t ht => hfull t (by simp [ht])) (by simp at hlen; omega)
        rcases recv_step_progress hack H b0 tail f0 S f o s hx hs.1 hs.2 with hd | hlt
        · exact Or.inl hd
        · right; omega

theorem recvSpec_of_done (H : Head) (b0 : BPos) (tail : Bytes) (f0 f : Flow) (o : RecvObs) (hst0 : f0.st = .recvResponse)
    (h : RecvInv H b0 tail f0 f o) (hd : recvDone f = true) :
    o = recvSpec H b0 ∧ f.st = terminalSt H := by
  obtain ⟨htail, hf0, hA | hB | hC⟩ := h
  · obtain ⟨rfl, rfl⟩ := hA
    simp [recvDone, hst0] at hd
  · obtain ⟨b, hb, hst, _⟩ := hB
    simp [recvDone, hst] at hd
  · obtain ⟨hst, h1, h2, h3⟩ := hC
    refine ⟨?_, hst⟩
    cases o
    simp only [recvSpec] at *
    simp_all

theorem recv_safe_of_inv (H : Head) (b0 : BPos) (tail : Bytes) (f0 f : Flow) (o : RecvObs) (hst0 : f0.st = .recvResponse)
    (h : RecvInv H b0 tail f0 f o) :
    o.faults = 0 ∧ o.consumed ≤ H.enc.length + b0.enc.length ∧ o.body <+: b0.payload ∧
    (o.head = none ∨ o.head = some H.parsed) ∧
    (recvDone f = false → (f.st = .recvResponse ∨ f.st = .recvBody) ∧ o.consumed ≤ H.enc.length + b0.enc.length) := by
  obtain ⟨htail, hf0, hA | hB | hC⟩ := h
  · obtain ⟨rfl, rfl⟩ := hA
    refine ⟨rfl, Nat.zero_le _, List.nil_prefix, Or.inl rfl, fun _ => ⟨Or.inl hst0, Nat.zero_le _⟩⟩
  · obtain ⟨b, hb, hst, hh, hr, hstat, hd, hcons, hhead, hbody, _⟩ := hB
    refine ⟨hf0, by omega, ⟨b.payload, hbody⟩, Or.inr hhead, fun _ => ⟨Or.inr hst, by omega⟩⟩
  · obtain ⟨hst, h1, h2, h3⟩ := hC
    refine ⟨hf0, by omega, by rw [h3]; exact List.prefix_refl _, Or.inr h2, ?_⟩
    intro hnd
    rw [terminal_done H f hst] at hnd; cases hnd

/-! ## bytes consumed before the receive side starts (an interim `100 Continue`) -/

def RecvObs.shift (d : Nat) (o : RecvObs) : RecvObs := { o with consumed := o.consumed + d }

theorem drop_shift (pre s : Bytes) (k : Nat) : (pre ++ s).drop (k + pre.length) = s.drop k := by
  rw [Nat.add_comm, List.drop_append]
  have h1 : pre.drop (pre.length + k) = [] := List.drop_eq_nil_of_le (by omega)
  have h2 : pre.length + k - pre.length = k := by omega
  rw [h1, h2]; rfl

/-- the receive loop only looks at the unconsumed rest of the stream -/
theorem recvStep_shift (hack : Bool) (pre s : Bytes) (f : Flow) (o : RecvObs) (st : IoStep) :
    recvStep hack (pre ++ s) (f, o.shift pre.length) st =
      ((recvStep hack s (f, o) st).1, (recvStep hack s (f, o) st).2.shift pre.length) := by
  unfold recvStep
  have hw : (pre ++ s).drop (o.shift pre.length).consumed = s.drop o.consumed := drop_shift pre s o.consumed
  cases hst : f.st <;> simp only [hst]
  · rw [hw]
    rcases f.step hack (.resp ((s.drop o.consumed).take st.m)) with ⟨f1, res⟩
    cases res <;> try rfl
    rename_i n r
    cases r <;> simp [RecvObs.shift, Nat.add_right_comm]
  · rw [hw]
    rcases f.step hack (.bread ((s.drop o.consumed).take st.m) st.cap) with ⟨f1, res⟩
    cases res <;> try rfl
    rename_i n out
    have hw2 : (pre ++ s).drop ((o.shift pre.length).consumed + n) = s.drop (o.consumed + n) := by
      show (pre ++ s).drop (o.consumed + pre.length + n) = _
      rw [Nat.add_right_comm]; exact drop_shift pre s (o.consumed + n)
    dsimp only
    rw [hw2]
    simp [RecvObs.shift, Nat.add_right_comm]
