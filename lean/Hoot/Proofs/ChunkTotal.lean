import Hoot.Proofs.PropsWF
set_option linter.unusedSimpArgs false
set_option linter.unusedVariables false

/-! C12 (body, chunked): for ARBITRARY bytes the decoder never panics, never runs out of fuel, keeps
    `consumed ≤ offered`, `produced ≤ space`, every produced byte is a copy of a consumed byte in order,
    and it never rests in the transient trailer state. -/

theorem findCrlf_bound : ∀ (src : Bytes) (i : Nat), findCrlf src = some i → i + 2 ≤ src.length := by
  intro src
  induction src with
  | nil => intro i h; simp [findCrlf] at h
  | cons c rest ih =>
    intro i h
    simp only [findCrlf] at h
    by_cases hc : c = CR
    · simp only [hc, if_true] at h
      cases rest with
      | nil => simp at h
      | cons d r =>
        simp only at h
        by_cases hd : d = LF
        · simp [hd] at h; subst h; simp
        · simp [hd] at h
    · simp only [hc, if_false] at h
      cases hq : findCrlf rest with
      | none => simp [hq] at h
      | some j =>
        simp [hq] at h
        have := ih j hq
        subst h; simp; omega

/-- the loop invariant: the transient trailer state always sees its line end -/
def TrOk (st : Dechunker) (src : Bytes) : Prop := st = .trailer → ∃ i, findCrlf src = some i ∧ 0 < i

theorem readSize2_bound (src : Bytes) (st' : Dechunker) (n : Nat) (h : readSize2 src = .ok (some (st', n))) :
    n ≤ src.length ∧ 0 < n ∧ st' ≠ .trailer := by
  simp only [readSize2] at h
  cases hf : findCrlf src with
  | none => simp [hf] at h
  | some i =>
    simp only [hf] at h
    have hb := findCrlf_bound src i hf
    split at h
    · simp at h
    · split at h
      · simp at h
      · simp only [Except.ok.injEq, Option.some.injEq, Prod.mk.injEq] at h
        obtain ⟨h1, h2⟩ := h
        subst h2
        refine ⟨hb, by omega, ?_⟩
        rw [← h1]; split <;> simp

theorem parseSizeField_err (b : Bytes) (e : Err) (h : parseSizeField b = .error e) : e ≠ .panic := by
  unfold parseSizeField at h
  split at h
  · simp at h; subst h; simp
  · split at h <;> simp at h
    subst h; simp

theorem readSize2_err (src : Bytes) (e : Err) (h : readSize2 src = .error e) : e ≠ .panic := by
  simp only [readSize2] at h
  split at h
  · simp at h
  · split at h
    · simp at h; subst h; simp
    · split at h
      · rename_i e' he'
        simp at h; subst h
        exact parseSizeField_err _ _ he'
      · simp at h

/-- one inner step on arbitrary bytes -/
theorem stepOnce2_total (st : Dechunker) (src : Bytes) (cap : Nat) (hq : TrOk st src) :
    (∃ e, stepOnce2 st src cap = .error e ∧ e ≠ .panic) ∨
    (∃ more st' n out, stepOnce2 st src cap = .ok (more, st', n, out) ∧
      n ≤ src.length ∧ out.length ≤ cap ∧ out.Sublist (src.take n) ∧
      (more = true → TrOk st' (src.drop n) ∧ (0 < n ∨ (st = .ending ∧ st' = .trailer))) ∧
      (more = false → st' ≠ .trailer) ∧ (st = .trailer → 0 < n)) := by
  cases st with
  | size =>
    simp only [stepOnce2]
    cases hr : readSize2 src with
    | error e =>
      left; exact ⟨e, by simp [bind, Except.bind], readSize2_err src e hr⟩
    | ok v =>
      right
      cases v with
      | none => exact ⟨false, .size, 0, [], by simp [bind, Except.bind, pure, Except.pure], by omega, by simp, by simp, by simp, by simp, by simp⟩
      | some p =>
        obtain ⟨st', n⟩ := p
        obtain ⟨hn, hpos, hne⟩ := readSize2_bound src st' n hr
        refine ⟨true, st', n, [], by simp [bind, Except.bind, pure, Except.pure], hn, by simp, by simp, ?_, by simp, by simp⟩
        intro _; exact ⟨fun h => absurd h hne, Or.inl hpos⟩
  | chunk left =>
    right
    simp only [stepOnce2, stepOnce, pure, Except.pure]
    refine ⟨_, _, _, _, rfl, ?_, ?_, ?_, ?_, ?_, by simp⟩
    · exact Nat.le_trans (Nat.min_le_left _ _) (Nat.min_le_left _ _)
    · simp; omega
    · exact List.Sublist.refl _
    · intro h
      refine ⟨?_, Or.inl (by simpa using h)⟩
      intro ht; split at ht <;> simp at ht
    · intro _; split <;> simp
  | crlf =>
    simp only [stepOnce2, stepOnce]
    cases hf : findCrlf src with
    | none => right; exact ⟨false, .crlf, 0, [], by simp [pure, Except.pure], by omega, by simp, by simp, by simp, by simp, by simp⟩
    | some i =>
      by_cases hi : i > 0
      · left; exact ⟨.chunkExpectedCrLf, by simp [hi], by simp⟩
      · right
        have := findCrlf_bound src i hf
        exact ⟨false, .size, 2, [], by simp [hi, pure, Except.pure], by omega, by simp, by simp, by simp, by simp, by simp⟩
  | ending =>
    right
    simp only [stepOnce2, stepOnce]
    cases hf : findCrlf src with
    | none => exact ⟨false, .ending, 0, [], by simp [pure, Except.pure], by omega, by simp, by simp, by simp, by simp, by simp⟩
    | some i =>
      have hb := findCrlf_bound src i hf
      by_cases hi : i = 0
      · refine ⟨true, .ended, 2, [], by simp [hi, pure, Except.pure], by omega, by simp, by simp, ?_, by simp, by simp⟩
        intro _; exact ⟨by simp [TrOk], Or.inl (by omega)⟩
      · refine ⟨true, .trailer, 0, [], by simp [hi, pure, Except.pure], by omega, by simp, by simp, ?_, by simp, by simp⟩
        intro _; exact ⟨fun _ => ⟨i, by simpa using hf, by omega⟩, Or.inr (by simp)⟩
  | trailer =>
    right
    obtain ⟨i, hf, hi⟩ := hq rfl
    have hb := findCrlf_bound src i hf
    simp only [stepOnce2, stepOnce, hf]
    have hi0 : ¬ i = 0 := by omega
    refine ⟨true, .ending, i + 2, [], by simp [hi0, pure, Except.pure], hb, by simp, by simp, ?_, by simp, by intro _; omega⟩
    intro _; exact ⟨by simp [TrOk], Or.inl (by omega)⟩
  | ended =>
    right
    exact ⟨false, .ended, 0, [], by simp [stepOnce2, stepOnce, pure, Except.pure], by omega, by simp, by simp, by simp, by simp, by simp⟩

def fuelNeedS (st : Dechunker) (len : Nat) : Nat := 2 * len + (if st = .trailer then 1 else 2)

/-- what a server-facing body read may return, for arbitrary bytes -/
def GoodRead (src : Bytes) (cap : Nat) (res : Dechunker × Except Err (Nat × Bytes)) : Prop :=
  res.1 ≠ .trailer ∧
  match res.2 with
  | .error e => e ≠ .panic
  | .ok (n, out) => n ≤ src.length ∧ out.length ≤ cap ∧ out.Sublist (src.take n)

theorem parseInputS_total (fuel : Nat) : ∀ (st : Dechunker) (src : Bytes) (cap : Nat),
    TrOk st src → fuelNeedS st src.length ≤ fuel → GoodRead src cap (parseInputS fuel st src cap) := by
  induction fuel with
  | zero => intro st src cap _ hf; unfold fuelNeedS at hf; split at hf <;> omega
  | succ fuel ih =>
    intro st src cap hq hf
    rcases stepOnce2_total st src cap hq with ⟨e, he, hne⟩ | ⟨more, st', n, out, hs, hn, ho, hsub, hmore, hrest, htr⟩
    · simp only [parseInputS, he, GoodRead]
      refine ⟨?_, hne⟩
      -- an erroring step leaves the state where it was; it cannot be the transient state
      intro ht
      obtain ⟨i, hf', hi⟩ := hq ht
      subst ht
      simp [stepOnce2, stepOnce, hf'] at he
      have hi0 : ¬ i = 0 := by omega
      simp [hi0, pure, Except.pure] at he
    · cases more with
      | false =>
        simp only [parseInputS, hs, GoodRead]
        exact ⟨hrest rfl, hn, ho, hsub⟩
      | true =>
        obtain ⟨hq', hprog⟩ := hmore rfl
        have hlen : (src.drop n).length = src.length - n := by simp
        have hfuel : fuelNeedS st' (src.drop n).length ≤ fuel := by
          unfold fuelNeedS at hf ⊢
          rw [hlen]
          rcases hprog with hpos | ⟨he, ht⟩
          · split at hf <;> split <;> omega
          · simp [he] at hf; simp [ht]; omega
        have hrec := ih st' (src.drop n) (cap - out.length) hq' hfuel
        simp only [parseInputS, hs, if_true]
        cases hr : parseInputS fuel st' (src.drop n) (cap - out.length) with
        | mk st'' res =>
          rw [hr] at hrec
          cases res with
          | error e => simpa [GoodRead] using hrec
          | ok p =>
            obtain ⟨n', out'⟩ := p
            simp only [GoodRead] at hrec ⊢
            obtain ⟨h1, h2, h3, h4⟩ := hrec
            refine ⟨h1, by rw [hlen] at h2; omega, by simp; omega, ?_⟩
            rw [List.take_add]
            exact List.Sublist.append hsub h4

theorem readChunkedS_total (fuel : Nat) : ∀ (st : Dechunker) (src : Bytes) (cap : Nat) (stop : Bool),
    st ≠ .trailer → src.length + 1 ≤ fuel → GoodRead src cap (readChunkedS fuel st src cap stop) := by
  induction fuel with
  | zero => intro st src cap stop _ hf; omega
  | succ fuel ih =>
    intro st src cap stop hst hf
    have hin := parseInputS_total (2 * src.length + 4) st src cap (fun h => absurd h hst)
      (by unfold fuelNeedS; split <;> omega)
    simp only [readChunkedS]
    cases hr : parseInputS (2 * src.length + 4) st src cap with
    | mk st' res =>
      rw [hr] at hin
      cases res with
      | error e => simpa [GoodRead] using hin
      | ok p =>
        obtain ⟨i, o⟩ := p
        simp only [GoodRead] at hin
        obtain ⟨h1, h2, h3, h4⟩ := hin
        simp only []
        split
        · exact ⟨h1, h2, h3, h4⟩
        · split
          · exact ⟨h1, h2, h3, h4⟩
          · split
            · exact ⟨h1, h2, h3, h4⟩
            · rename_i hbreak _ _
              have hipos : 0 < i := by simp at hbreak; omega
              have hlen : (src.drop i).length = src.length - i := by simp
              have hrec := ih st' (src.drop i) (cap - o.length) stop h1 (by rw [hlen]; omega)
              cases hr2 : readChunkedS fuel st' (src.drop i) (cap - o.length) stop with
              | mk st'' res2 =>
                rw [hr2] at hrec
                cases res2 with
                | error e => simpa [GoodRead] using hrec
                | ok p2 =>
                  obtain ⟨i', o'⟩ := p2
                  simp only [GoodRead] at hrec ⊢
                  obtain ⟨g1, g2, g3, g4⟩ := hrec
                  refine ⟨g1, by rw [hlen] at g2; omega, by simp; omega, ?_⟩
                  rw [List.take_add]
                  exact List.Sublist.append h4 g4

/-- discharges the `ChunkTotal` assumption of PropsWF.lean -/
theorem chunkTotal : ChunkTotal := by
  intro d src cap stop hd
  have := readChunkedS_total (src.length + 2) d src cap stop hd (by omega)
  refine ⟨this.1, ?_⟩
  have h2 := this.2
  cases hr : (readChunkedS (src.length + 2) d src cap stop).2 with
  | error e => rw [hr] at h2; intro he; simp at he; subst he; simp at h2
  | ok p => simp
