import Hoot.Model.HeadersMap

/-! Facts about `headersMapOf`: it is a sub-collection of the effective headers with exactly one entry per
name that occurs, and that entry is the last header of the name. -/

theorem lastNamed_mem {hs : List Hdr} {n : String} {h : Hdr} (e : lastNamed hs n = some h) :
    h ∈ hs ∧ h.name = n := by
  unfold lastNamed at e
  have := List.mem_of_getLast? e
  simpa using this

theorem lastNamed_isSome {hs : List Hdr} {n : String} (hn : ∃ h ∈ hs, h.name = n) :
    ∃ h, lastNamed hs n = some h := by
  obtain ⟨h, hm, rfl⟩ := hn
  unfold lastNamed
  have : hs.filter (·.name == h.name) ≠ [] := by
    intro e
    have : h ∈ hs.filter (·.name == h.name) := by simp [hm]
    rw [e] at this; simp at this
  cases hl : (hs.filter (·.name == h.name)).getLast? with
  | none => rw [List.getLast?_eq_none_iff] at hl; exact absurd hl this
  | some x => exact ⟨x, rfl⟩

theorem mem_headersMapOf {hs : List Hdr} {h : Hdr} :
    h ∈ headersMapOf hs ↔ lastNamed hs h.name = some h := by
  unfold headersMapOf
  simp only [List.mem_filterMap, List.mem_mergeSort, List.mem_eraseDups, List.mem_map]
  constructor
  · rintro ⟨n, _, e⟩
    have := (lastNamed_mem e).2
    rw [this]; exact e
  · intro e
    exact ⟨h.name, ⟨h, (lastNamed_mem e).1, rfl⟩, e⟩

/-- every entry of the map is one of the effective headers -/
theorem headersMapOf_sub {hs : List Hdr} {h : Hdr} (hin : h ∈ headersMapOf hs) : h ∈ hs :=
  (lastNamed_mem (mem_headersMapOf.mp hin)).1

/-- every name that occurs among the effective headers has an entry -/
theorem headersMapOf_complete {hs : List Hdr} {n : String} (hn : ∃ h ∈ hs, h.name = n) :
    ∃ h ∈ headersMapOf hs, h.name = n := by
  obtain ⟨x, e⟩ := lastNamed_isSome hn
  have hx := (lastNamed_mem e).2
  refine ⟨x, ?_, hx⟩
  rw [mem_headersMapOf, hx]; exact e

/-- one entry per name -/
theorem headersMapOf_unique {hs : List Hdr} {a b : Hdr} (ha : a ∈ headersMapOf hs) (hb : b ∈ headersMapOf hs)
    (e : a.name = b.name) : a = b := by
  have h1 := mem_headersMapOf.mp ha
  have h2 := mem_headersMapOf.mp hb
  rw [e, h2] at h1
  exact (Option.some.inj h1).symm

theorem bodyHeader_name_hm {bw : BodyWriter} {h : Hdr} (e : bw.bodyHeader = some h) :
    h.name = "content-length" ∨ h.name = "transfer-encoding" := by
  unfold BodyWriter.bodyHeader at e
  split at e <;> simp at e <;> subst e <;> simp

/-- what request analysis appends to the caller's additions is named `host`, `content-length` or
    `transfer-encoding` (the derived Host and the framing header of THIS request) -/
theorem analyzeRequest_extra (c : CallSt) :
    ∃ extra, c.analyzeRequest.1.req.added = c.req.added ++ extra ∧
      c.analyzeRequest.1.req.orig = c.req.orig ∧ c.analyzeRequest.1.req.unset = c.req.unset ∧
      ∀ h ∈ extra, h.name = "host" ∨ h.name = "content-length" ∨ h.name = "transfer-encoding" := by
  unfold CallSt.analyzeRequest
  by_cases ha : c.analyzed = true
  · simp [ha]
  · simp only [ha]
    cases han : c.req.analyze c.writer c.skipCheck with
    | error e => exact ⟨[], by simp⟩
    | ok info =>
      simp only []
      unfold AReq.setHeader
      (repeat' split) <;> simp_all <;> (try exact ⟨[], by simp⟩)
      all_goals (first | exact ⟨_, rfl, by simp⟩ | skip)
      all_goals (first | (rename_i hb _ _; exact Or.inr (bodyHeader_name_hm hb)) | (rename_i hb _ _ _; exact Or.inr (bodyHeader_name_hm hb)))

theorem headersMap_ok {c c1 : CallSt} {m : List Hdr} (hm : c.headersMap = (c1, .ok m)) :
    c1 = c.analyzeRequest.1 ∧ m = headersMapOf c.analyzeRequest.1.req.headers := by
  unfold CallSt.headersMap at hm
  split at hm
  · rename_i c' e; simp only [Prod.mk.injEq, Except.ok.injEq] at hm; rw [e]; exact ⟨hm.1.symm, hm.2.symm⟩
  · simp at hm
