import Hoot.Model.Uri
set_option linter.unusedSimpArgs false

/-! Prototype property theorems over the Flow-level model (C06, C15 decision tables) -/

/-- the HTTP/1.1 message-body-length rules, written from the property text (C06) -/
def rfcFraming (respHttp10 : Bool) (m : Method) (status : Nat) (fr : Framing) : Except Fault BodyReader :=
  match fr.cl with
  | some none => .error (.api .badContentLengthHeader)
  | _ =>
    let declared : Option Nat := match fr.cl with | some (some n) => some n | _ => none
    let chunked := fr.chunked && !respHttp10
    if m == .head then .ok .noBody
    else if m == .connect && decide (200 ≤ status ∧ status ≤ 299) then .ok .noBody
    else if decide (100 ≤ status ∧ status ≤ 199) || status == 204 || status == 304 then .ok .noBody
    else if chunked then .ok (.chunked .size)
    else match declared with
      | some n => .ok (.len n)
      | none => if decide (300 ≤ status ∧ status ≤ 399) then .ok .noBody else .ok .close

theorem C06_abs (http10 : Bool) (m : Method) (status : Nat) (fr : Framing) :
    forResponseAbs http10 m status fr = rfcFraming http10 m status fr := by
  obtain ⟨cl, ch⟩ := fr
  unfold forResponseAbs rfcFraming
  rcases cl with _ | _ | n <;> cases ch <;> cases http10 <;> cases m <;>
    simp <;> (repeat' split) <;> (first | rfl | omega | simp_all | (simp_all; omega))

theorem C06_mode (respHttp10 : Bool) (m : Method) (status : Nat) (hs : List Hdr) :
    forResponse respHttp10 m status hs = rfcFraming respHttp10 m status (framingOf hs) := by
  unfold forResponse; exact C06_abs _ _ _ _

/-! C15: the redirect method table -/
def tableSpec (m : Method) (status : Nat) : Option Method :=
  if status = 307 ∨ status = 308 then
    (match m with | .post | .put | .patch | .delete => none | other => some other)
  else (match m with | .head => some .head | .get => some .get | _ => some .get)

theorem C15_table (m : Method) (status : Nat) : newMethodOf m status = tableSpec m status := by
  unfold newMethodOf tableSpec
  cases m <;> simp [Method.needBody] <;> split <;> simp_all

/-! C09 (shape test): typestate / holder consistency is preserved by every operation -/
def holderOk (f : Flow) : Prop :=
  match f.st with
  | .prepare | .sendRequest => f.holder = .withoutBody ∨ f.holder = .withBody
  | .await100 | .sendBody => f.holder = .withBody
  | .recvResponse => f.holder = .recvResponse
  | .recvBody | .redirect | .cleanup => f.holder = .recvBody

def sendOk (f : Flow) : Prop :=
  (f.st = .prepare ∨ f.st = .sendRequest) → (f.shouldSendBody = true ↔ f.holder = .withBody)

def noHolderPanic : Res → Prop
  | .fault (.panic s) => ¬ (s.startsWith "holder.rs" ∨ s.startsWith "flow.rs S" ∨ s.startsWith "flow.rs A")
  | _ => True

