import Hoot.Proofs.PropsWF
set_option linter.unusedSimpArgs false
set_option linter.unusedVariables false

/-! C02: the request head on the wire — whole lines only, resumable, exactly `renderHead` in total -/

/-- header lines as written: the blank line is glued to the last header -/
def headerUnits : List Hdr → Nat → Nat → List Bytes
  | [], _, _ => []
  | h :: hs, idx, last => headerLine h (idx == last) :: headerUnits hs (idx + 1) last

/-- greedy prefix of units that fits the remaining space, in order, stopping at the first that does not -/
def greedy : List Bytes → Nat → List Bytes
  | [], _ => []
  | u :: us, space => if u.length ≤ space then u :: greedy us (space - u.length) else []

theorem writeHeaders_greedy : ∀ (hs : List Hdr) (idx last : Nat) (w : W),
    (writeHeaders hs idx last w).2.out = w.out ++ (greedy (headerUnits hs idx last) w.available).flatten ∧
    (writeHeaders hs idx last w).2.cap = w.cap ∧
    (writeHeaders hs idx last w).1 = idx + (greedy (headerUnits hs idx last) w.available).length := by
  intro hs
  induction hs with
  | nil => intro idx last w; simp [writeHeaders, headerUnits, greedy]
  | cons h hs ih =>
    intro idx last w
    simp only [writeHeaders, headerUnits, greedy, W.tryWrite]
    by_cases hfit : (headerLine h (idx == last)).length ≤ w.available
    · simp only [hfit, if_true]
      obtain ⟨h1, h2, h3⟩ := ih (idx + 1) last { w with out := w.out ++ headerLine h (idx == last) }
      have hav : ({ w with out := w.out ++ headerLine h (idx == last) } : W).available =
          w.available - (headerLine h (idx == last)).length := by
        simp [W.available]; omega
      rw [hav] at h1 h3
      refine ⟨?_, ?_, ?_⟩
      · rw [h1]; simp
      · rw [h2]
      · rw [h3]; simp; omega
    · simp [hfit]

/-- all the lines of the head, in order -/
def headUnits (r : AReq) : List Bytes :=
  requestLine r :: headerUnits r.headers 0 (r.headers.length - 1)

/-- position in `headUnits` that a phase stands for -/
def phasePos (count : Nat) : Phase → Nat
  | .sendLine => 0
  | .sendHeaders i => i + 1
  | _ => count + 1

theorem headerUnits_drop : ∀ (hs : List Hdr) (idx last k : Nat),
    (headerUnits hs idx last).drop k = headerUnits (hs.drop k) (idx + k) last := by
  intro hs
  induction hs with
  | nil => intro idx last k; simp [headerUnits]
  | cons h hs ih =>
    intro idx last k
    cases k with
    | zero => simp
    | succ k => simp only [headerUnits, List.drop_succ_cons]; rw [ih]; congr 1; omega

theorem headerUnits_length : ∀ (hs : List Hdr) (idx last : Nat), (headerUnits hs idx last).length = hs.length := by
  intro hs
  induction hs with
  | nil => intro _ _; simp [headerUnits]
  | cons h hs ih => intro idx last; simp [headerUnits, ih]

/-- the head the property describes: request line, every effective header on its own line, blank line -/
def renderHead (r : AReq) : Bytes :=
  requestLine r ++ (r.headers.map (fun h => strBytes (h.name ++ ": ") ++ h.value ++ crlf)).flatten ++ crlf

theorem headerUnits_flatten : ∀ (hs : List Hdr) (idx last : Nat), hs ≠ [] → idx + hs.length = last + 1 →
    (headerUnits hs idx last).flatten = (hs.map (fun h => strBytes (h.name ++ ": ") ++ h.value ++ crlf)).flatten ++ crlf := by
  intro hs
  induction hs with
  | nil => intro _ _ h _; exact absurd rfl h
  | cons h hs ih =>
    intro idx last _ hl
    cases hs with
    | nil =>
      have : idx = last := by simp at hl; omega
      simp [headerUnits, headerLine, this]
    | cons h2 hs2 =>
      have hne : (idx == last) = false := by
        simp at hl ⊢; omega
      have := ih (idx + 1) last (by simp) (by simp at hl ⊢; omega)
      simp only [headerUnits] at this ⊢
      rw [List.flatten_cons, this]
      simp [headerLine, hne]

theorem headUnits_flatten (r : AReq) (h : r.headers ≠ []) : (headUnits r).flatten = renderHead r := by
  unfold headUnits renderHead
  rw [List.flatten_cons, headerUnits_flatten r.headers 0 (r.headers.length - 1) h (by
    have : r.headers.length ≠ 0 := fun e => h (List.eq_nil_of_length_eq_zero e)
    omega)]
  simp

theorem greedy_take : ∀ (l : List Bytes) (s : Nat), greedy l s = l.take (greedy l s).length := by
  intro l
  induction l with
  | nil => intro s; simp [greedy]
  | cons u us ih =>
    intro s
    simp only [greedy]
    split
    · simp only [List.length_cons, List.take_succ_cons]; rw [← ih]
    · simp

theorem greedy_length_le (l : List Bytes) (s : Nat) : (greedy l s).length ≤ l.length := by
  rw [greedy_take l s]; simp; omega

def validPhase (count : Nat) : Phase → Prop
  | .sendLine => True
  | .sendHeaders i => i < count
  | .sendBody => True
  | _ => False

theorem requestLine_pos (r : AReq) : 0 < (requestLine r).length := by
  unfold requestLine crlf; simp; omega

theorem headerLine_pos (h : Hdr) (b : Bool) : 0 < (headerLine h b).length := by
  unfold headerLine crlf; simp; omega

theorem headerUnits_pos : ∀ (hs : List Hdr) (idx last : Nat), ∀ u ∈ headerUnits hs idx last, 0 < u.length := by
  intro hs
  induction hs with
  | nil => intro _ _ u hu; simp [headerUnits] at hu
  | cons h hs ih =>
    intro idx last u hu
    simp only [headerUnits, List.mem_cons] at hu
    rcases hu with e | hu
    · rw [e]; exact headerLine_pos _ _
    · exact ih _ _ u hu

theorem greedy_flatten_pos (l : List Bytes) (s : Nat) (hpos : ∀ u ∈ l, 0 < u.length) (hne : greedy l s ≠ []) :
    0 < (greedy l s).flatten.length := by
  cases l with
  | nil => simp [greedy] at hne
  | cons u us =>
    simp only [greedy] at hne ⊢
    split
    · have := hpos u (by simp)
      simp; omega
    · rename_i h; simp [h] at hne

theorem W_ext (a b : W) (h1 : a.out = b.out) (h2 : a.cap = b.cap) : a = b := by
  cases a; cases b; simp_all

/-- closed form of one call in the header phase -/
theorem wp_headers (c : CallSt) (idx cap : Nat) (hp : c.phase = .sendHeaders idx) (hh : c.req.headers ≠ []) :
    writePrelude c { out := [], cap := cap } =
      ({ c with phase := if idx + (greedy (headerUnits (c.req.headers.drop idx) idx (c.req.headers.length - 1)) cap).length == c.req.headers.length
                         then .sendBody else .sendHeaders (idx + (greedy (headerUnits (c.req.headers.drop idx) idx (c.req.headers.length - 1)) cap).length) },
       { out := (greedy (headerUnits (c.req.headers.drop idx) idx (c.req.headers.length - 1)) cap).flatten, cap := cap },
       if (greedy (headerUnits (c.req.headers.drop idx) idx (c.req.headers.length - 1)) cap).flatten.length > 0 ||
          (idx + (greedy (headerUnits (c.req.headers.drop idx) idx (c.req.headers.length - 1)) cap).length == c.req.headers.length)
       then .ok () else .error (.api .outputOverflow)) := by
  have hcount : c.req.headers.length ≠ 0 := fun e => hh (List.eq_nil_of_length_eq_zero e)
  obtain ⟨h1, h2, h3⟩ := writeHeaders_greedy (c.req.headers.drop idx) idx (c.req.headers.length - 1) { out := [], cap := cap }
  have hav : ({ out := [], cap := cap } : W).available = cap := by simp [W.available]
  rw [hav] at h1 h3
  have hw : (writeHeaders (c.req.headers.drop idx) idx (c.req.headers.length - 1) { out := [], cap := cap }).2 =
      { out := (greedy (headerUnits (c.req.headers.drop idx) idx (c.req.headers.length - 1)) cap).flatten, cap := cap } :=
    W_ext _ _ (by rw [h1]; simp) (by rw [h2])
  unfold writePrelude
  simp only [hp, Bool.not_true, Bool.false_eq_true, if_false, hcount, List.length_nil, Nat.sub_zero]
  rw [show writeHeaders (c.req.headers.drop idx) idx (c.req.headers.length - 1) { out := [], cap := cap } =
      ((writeHeaders (c.req.headers.drop idx) idx (c.req.headers.length - 1) { out := [], cap := cap }).1,
       (writeHeaders (c.req.headers.drop idx) idx (c.req.headers.length - 1) { out := [], cap := cap }).2) from rfl]
  simp only [hw, h3]
  congr 2
  by_cases he : idx + (greedy (headerUnits (c.req.headers.drop idx) idx (c.req.headers.length - 1)) cap).length = c.req.headers.length
  · simp [he]
  · simp [he]

/-- closed form of one call in the request-line phase -/
theorem wp_line (c : CallSt) (cap : Nat) (hp : c.phase = .sendLine) (hh : c.req.headers ≠ []) :
    writePrelude c { out := [], cap := cap } =
      if (requestLine c.req).length ≤ cap then
        ({ c with phase := if (greedy (headerUnits c.req.headers 0 (c.req.headers.length - 1)) (cap - (requestLine c.req).length)).length == c.req.headers.length
                           then .sendBody else .sendHeaders (greedy (headerUnits c.req.headers 0 (c.req.headers.length - 1)) (cap - (requestLine c.req).length)).length },
         { out := requestLine c.req ++ (greedy (headerUnits c.req.headers 0 (c.req.headers.length - 1)) (cap - (requestLine c.req).length)).flatten, cap := cap },
         .ok ())
      else (c, { out := [], cap := cap }, .error (.api .outputOverflow)) := by
  have hcount : c.req.headers.length ≠ 0 := fun e => hh (List.eq_nil_of_length_eq_zero e)
  by_cases hfit : (requestLine c.req).length ≤ cap
  · obtain ⟨h1, h2, h3⟩ := writeHeaders_greedy c.req.headers 0 (c.req.headers.length - 1) { out := requestLine c.req, cap := cap }
    have hav : ({ out := requestLine c.req, cap := cap } : W).available = cap - (requestLine c.req).length := by simp [W.available]
    rw [hav] at h1 h3
    have hw : (writeHeaders c.req.headers 0 (c.req.headers.length - 1) { out := requestLine c.req, cap := cap }).2 =
        { out := requestLine c.req ++ (greedy (headerUnits c.req.headers 0 (c.req.headers.length - 1)) (cap - (requestLine c.req).length)).flatten, cap := cap } :=
      W_ext _ _ (by rw [h1]) (by rw [h2])
    have hrl := requestLine_pos c.req
    unfold writePrelude
    simp only [hp, W.tryWrite, W.available, List.length_nil, Nat.sub_zero, hfit, if_true, List.nil_append,
      Bool.not_true, Bool.false_eq_true, if_false, hcount, List.drop_zero]
    rw [show writeHeaders c.req.headers 0 (c.req.headers.length - 1) { out := requestLine c.req, cap := cap } =
        ((writeHeaders c.req.headers 0 (c.req.headers.length - 1) { out := requestLine c.req, cap := cap }).1,
         (writeHeaders c.req.headers 0 (c.req.headers.length - 1) { out := requestLine c.req, cap := cap }).2) from rfl]
    simp only [hw, h3, Nat.zero_add]
    congr 2
    have : (requestLine c.req ++ (greedy (headerUnits c.req.headers 0 (c.req.headers.length - 1)) (cap - (requestLine c.req).length)).flatten).length > 0 := by
      simp; omega
    simp [this]
    intro he; rw [he] at hrl; simp at hrl
  · unfold writePrelude
    simp [hp, W.tryWrite, W.available, hfit]

/-- closed form once the head is complete -/
theorem wp_body (c : CallSt) (cap : Nat) (hp : c.phase = .sendBody) :
    writePrelude c { out := [], cap := cap } = (c, { out := [], cap := cap }, .ok ()) := by
  unfold writePrelude
  simp [hp]
