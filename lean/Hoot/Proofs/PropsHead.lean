import Hoot.Proofs.PropsWF
set_option linter.unusedSimpArgs false
set_option linter.unusedVariables false

/-! C02: the request head on the wire — whole lines only, resumable, exactly `renderHead` in total -/

/-- header lines as written: the blank line is glued to the last header -/
def headerUnits : List Hdr → Nat → Nat → List Bytes
  | [], _, _ => []
  | h :: hs, idx, last => headerLine h (idx == last) :: headerUnits hs (idx + 1) last

/-- greedy prefix of units that fits the remaining space, in order, stopping at the first that does not -/
def greedy : List Bytes → Nat → List Bytes
  | [], _ => []
  | u :: us, space => if u.length ≤ space then u :: greedy us (space - u.length) else []

theorem writeHeaders_greedy : ∀ (hs : List Hdr) (idx last : Nat) (w : W),
    (writeHeaders hs idx last w).2.out = w.out ++ (greedy (headerUnits hs idx last) w.available).flatten ∧
    (writeHeaders hs idx last w).2.cap = w.cap ∧
    (writeHeaders hs idx last w).1 = idx + (greedy (headerUnits hs idx last) w.available).length := by
  intro hs
  induction hs with
  | nil => intro idx last w; simp [writeHeaders, headerUnits, greedy]
  | cons h hs ih =>
    intro idx last w
    simp only [writeHeaders, headerUnits, greedy, W.tryWrite]
    by_cases hfit : (headerLine h (idx == last)).length ≤ w.available
    · simp only [hfit, if_true]
      obtain ⟨h1, h2, h3⟩ := ih (idx + 1) last { w with out := w.out ++ headerLine h (idx == last) }
      have hav : ({ w with out := w.out ++ headerLine h (idx == last) } : W).available =
          w.available - (headerLine h (idx == last)).length := by
        simp [W.available]; omega
      rw [hav] at h1 h3
      refine ⟨?_, ?_, ?_⟩
      · rw [h1]; simp
      · rw [h2]
      · rw [h3]; simp; omega
    · simp [hfit]

/-- all the lines of the head, in order -/
def headUnits (r : AReq) : List Bytes :=
  requestLine r :: headerUnits r.headers 0 (r.headers.length - 1)

/-- position in `headUnits` that a phase stands for -/
def phasePos (count : Nat) : Phase → Nat
  | .sendLine => 0
  | .sendHeaders i => i + 1
  | _ => count + 1

theorem headerUnits_drop : ∀ (hs : List Hdr) (idx last k : Nat),
    (headerUnits hs idx last).drop k = headerUnits (hs.drop k) (idx + k) last := by
  intro hs
  induction hs with
  | nil => intro idx last k; simp [headerUnits]
  | cons h hs ih =>
    intro idx last k
    cases k with
    | zero => simp
    | succ k => simp only [headerUnits, List.drop_succ_cons]; rw [ih]; congr 1; omega

theorem headerUnits_length : ∀ (hs : List Hdr) (idx last : Nat), (headerUnits hs idx last).length = hs.length := by
  intro hs
  induction hs with
  | nil => intro _ _; simp [headerUnits]
  | cons h hs ih => intro idx last; simp [headerUnits, ih]

/-- the head the property describes: request line, every effective header on its own line, blank line -/
def renderHead (r : AReq) : Bytes :=
  requestLine r ++ (r.headers.map (fun h => strBytes (h.name ++ ": ") ++ h.value ++ crlf)).flatten ++ crlf

theorem headerUnits_flatten : ∀ (hs : List Hdr) (idx last : Nat), hs ≠ [] → idx + hs.length = last + 1 →
    (headerUnits hs idx last).flatten = (hs.map (fun h => strBytes (h.name ++ ": ") ++ h.value ++ crlf)).flatten ++ crlf := by
  intro hs
  induction hs with
  | nil => intro _ _ h _; exact absurd rfl h
  | cons h hs ih =>
    intro idx last _ hl
    cases hs with
    | nil =>
      have : idx = last := by simp at hl; omega
      simp [headerUnits, headerLine, this]
    | cons h2 hs2 =>
      have hne : (idx == last) = false := by
        simp at hl ⊢; omega
      have := ih (idx + 1) last (by simp) (by simp at hl ⊢; omega)
      simp only [headerUnits] at this ⊢
      rw [List.flatten_cons, this]
      simp [headerLine, hne]

theorem headUnits_flatten (r : AReq) (h : r.headers ≠ []) : (headUnits r).flatten = renderHead r := by
  unfold headUnits renderHead
  rw [List.flatten_cons, headerUnits_flatten r.headers 0 (r.headers.length - 1) h (by
    have : r.headers.length ≠ 0 := fun e => h (List.eq_nil_of_length_eq_zero e)
    omega)]
  simp

theorem greedy_take : ∀ (l : List Bytes) (s : Nat), greedy l s = l.take (greedy l s).length := by
  intro l
  induction l with
  | nil => intro s; simp [greedy]
  | cons u us ih =>
    intro s
    simp only [greedy]
    split
    · simp only [List.length_cons, List.take_succ_cons]; rw [← ih]
    · simp

theorem greedy_length_le (l : List Bytes) (s : Nat) : (greedy l s).length ≤ l.length := by
  rw [greedy_take l s]; simp; omega

def validPhase (count : Nat) : Phase → Prop
  | .sendLine => True
  | .sendHeaders i => i < count
  | .sendBody => True
  | _ => False

/-! Not finished in scratch: `writePrelude_units` (one call of the code-shaped `writePrelude` emits
    `(greedy ((headUnits r).drop p) cap).flatten`, moves the position by the number of lines taken, and is
    `OutputOverflow` exactly when no line fits and the head is incomplete) and its fold over a list of
    capacities (`C02_render`). The groundwork above checks. The attempt showed that the prototype's use of
    `String` for the request line (`strBytes (method ++ " " ++ path ++ …)`) makes "every line is non-empty"
    needlessly hard: the framework's model keeps method, version and path as `Bytes` and builds lines with
    list append ending in `[13, 10]`. -/
