import Hoot.Proofs.FlowWF

/-! # The request body is not ended before the body state is entered

`Unsent f`: while a flow that has a body to send stands before its body state (prepare, head being written,
awaiting 100), its body writer has not been ended. Nothing the caller can do in those states ends it — in
particular not a further `write` after the head is complete (repair D12) — so the body state is always entered
with the body still to be written and ended by the caller. -/

def Flow.preBody (f : Flow) : Prop := f.st = .prepare ∨ f.st = .sendRequest ∨ f.st = .await100

def Unsent (f : Flow) : Prop := f.holder = .withBody → f.preBody → f.call.writer.ended = false

theorem bodyModeOf_ended (hc : Bool) (cl : Option Nat) (w : BodyWriter) (h : w.ended = false) :
    (bodyModeOf hc cl w).ended = false := by
  unfold bodyModeOf
  split
  · rfl
  · split
    · rfl
    · exact h

/-- request analysis keeps a writer that has not ended un-ended -/
theorem analyzeRequest_ended (c : CallSt) (h : c.writer.ended = false) : c.analyzeRequest.1.writer.ended = false := by
  unfold CallSt.analyzeRequest
  by_cases ha : c.analyzed = true
  · simp [ha, h]
  · simp only [ha]
    cases han : c.req.analyze c.writer c.skipCheck with
    | error e => simpa using h
    | ok info =>
      obtain ⟨cl, hbm, _, _⟩ := analyze_ok_facts c.req c.writer c.skipCheck info han
      have hi : info.bodyMode.ended = false := by rw [hbm]; exact bodyModeOf_ended _ _ _ h
      simp only []
      unfold AReq.setHeader
      (repeat' split) <;> simp_all

theorem Flow.new_unsent (m : Method) (v : Version) (u : Uri) (orig : List Hdr) : Unsent (Flow.new m v u orig) := by
  unfold Unsent Flow.new
  intro hh _
  simp only at hh ⊢
  split at hh <;> simp_all [BodyWriter.newChunked]

theorem unsent_stepPrepare (f : Flow) (op : Op) (h : Unsent f) (hs : f.st = .prepare) : Unsent (stepPrepare f op).1 := by
  unfold stepPrepare
  cases op <;> simp only [notOffered] <;> try exact h
  case header hd =>
    split
    · exact h
    · unfold AReq.setHeader; split <;> exact h
  case despite =>
    split
    · split
      · exact h
      · intro _ _; rfl
    · exact h
  case proceed =>
    intro hh _
    exact h hh (Or.inl hs)

theorem writeBody_prelude_ended (c : CallSt) (cap : Nat) (hp : c.phase.isPrelude = true) (h : c.writer.ended = false)
    (hcap : c.analyzed = true ∨ c.req.added.length + 2 ≤ MAX_EXTRA) (hh : c.analyzed = true → c.req.headers ≠ []) :
    (c.writeBody [] cap).1.writer.ended = false := by
  have ha := analyzeRequest_ended c h
  have hspec := analyzeRequest_spec c hcap
  simp only [] at hspec
  obtain ⟨_, s2, _, _, _, _, _, _, s9, _, s11, _, _⟩ := hspec
  unfold CallSt.writeBody
  cases hr : c.analyzeRequest with
  | mk c1 r =>
    have e1 : c.analyzeRequest.1 = c1 := by rw [hr]
    have e2 : c.analyzeRequest.2 = r := by rw [hr]
    rw [e1] at ha s2
    cases r with
    | error e => exact ha
    | ok u =>
      cases u
      simp only [s2, hp, if_true]
      have hhd : c1.req.headers ≠ [] := by
        by_cases hca : c.analyzed = true
        · have := (s11 hca).1; rw [e1] at this; rw [this]; exact hh hca
        · have := s9 (by rw [e2]) (by simpa using hca); rw [e1] at this; exact this
      have hw := (writePrelude_spec c1 { out := [], cap := cap } hhd).2.2.2.1
      cases hq : writePrelude c1 { out := [], cap := cap } with
      | mk c2 rest =>
        obtain ⟨w2, r2⟩ := rest
        rw [hq] at hw
        cases r2 with
        | ok u => cases u; simp only; rw [hw]; exact ha
        | error e => simp only; rw [hw]; exact ha

theorem unsent_stepSendRequest (f : Flow) (op : Op) (hwf : f.WF) (h : Unsent f) (hs : f.st = .sendRequest) :
    Unsent (stepSendRequest f op).1 := by
  unfold stepSendRequest
  cases op <;> simp only [notOffered] <;> try exact h
  case write cap =>
    cases hh : f.holder <;> simp only
    case withoutBody =>
      cases f.call.writeNoBody cap with
      | mk c r => cases r <;> (intro h2 _; simp only at h2; cases h2)
    case withBody =>
      split
      · exact h
      · rename_i hp
        have hp' : f.call.phase.isPrelude = true := by simpa using hp
        have he := writeBody_prelude_ended f.call cap hp' (h hh (Or.inr (Or.inl hs))) hwf.cap hwf.hdrs
        cases hq : f.call.writeBody [] cap with
        | mk c r =>
          rw [hq] at he
          cases r with
          | ok v => intro _ _; exact he
          | error e => intro _ _; exact he
    all_goals exact h
  case proceed =>
    cases hc : f.canProceed with
    | error e => exact h
    | ok b =>
      cases b
      · exact h
      · simp only
        split
        · split
          · intro hh _; exact h hh (Or.inr (Or.inl hs))
          · unfold enterSendBody
            cases hq : f.call.analyzeRequest with
            | mk c1 r =>
              cases r <;> (intro _ hpre; simp only [Flow.preBody] at hpre; simp at hpre)
        · cases hh : f.holder <;> simp only <;> try exact h
          split
          · exact h
          · unfold enterRecvResponse; intro h2; simp at h2

theorem unsent_refuse100 (f : Flow) (h : Unsent f) (hst : f.preBody) : Unsent (refuse100 f).1 := by
  unfold refuse100
  cases pushReason f.closeReasons .not100 with
  | mk l r => cases r <;> exact h

theorem unsent_stepAwait100 (f : Flow) (op : Op) (h : Unsent f) (hs : f.st = .await100) :
    Unsent (stepAwait100 f op).1 := by
  have hpre : f.preBody := Or.inr (Or.inr hs)
  have h' : Unsent { f with await100 := false } := h
  unfold stepAwait100
  cases op <;> simp only [notOffered] <;> try exact h
  case read100 w =>
    cases tryParseResponse 0 w with
    | ok o =>
      cases o with
      | none => exact h
      | some p =>
        obtain ⟨used, r⟩ := p
        simp only
        split
        · split <;> exact h'
        · exact unsent_refuse100 _ h' hpre
    | error e =>
      simp only
      split
      · exact unsent_refuse100 _ h' hpre
      · exact h'
  case proceed =>
    split
    · unfold enterSendBody
      cases hq : f.call.analyzeRequest with
      | mk c1 r => cases r <;> (intro _ hp; simp only [Flow.preBody] at hp; simp at hp)
    · cases hh : f.holder <;> simp only <;> try exact h
      unfold enterRecvResponse; intro h2; simp at h2

/-- **before the body state, nothing ends the body**: every step taken in prepare, while the head is written
    or while awaiting 100 keeps `Unsent` -/
theorem unsent_step (hack : Bool) (f : Flow) (op : Op) (hwf : f.WF) (h : Unsent f) (hpre : f.preBody) :
    Unsent (f.step hack op).1 := by
  unfold Flow.step
  rcases hpre with hs | hs | hs <;> rw [hs] <;> simp only
  · exact unsent_stepPrepare f op h hs
  · exact unsent_stepSendRequest f op hwf h hs
  · exact unsent_stepAwait100 f op h hs

/-- … and the step that enters the body state hands over a writer that has not ended: the readiness query of
    the body state is false until the caller writes / reports / ends the body there. -/
theorem enter_sendBody_fresh (hack : Bool) (f : Flow) (h : Unsent f) (hpre : f.preBody) (hb : f.holder = .withBody)
    (he : (f.step hack .proceed).2 = .state .sendBody) :
    (f.step hack .proceed).1.st = .sendBody ∧ (f.step hack .proceed).1.holder = .withBody ∧
    (f.step hack .proceed).1.call.writer.ended = false ∧
    (f.step hack .proceed).1.canProceed = .ok false := by
  have hw := h hb hpre
  have key : (enterSendBody f).2 = .state .sendBody →
      (enterSendBody f).1.st = .sendBody ∧ (enterSendBody f).1.holder = .withBody ∧
      (enterSendBody f).1.call.writer.ended = false ∧ (enterSendBody f).1.canProceed = .ok false := by
    unfold enterSendBody
    have ha := analyzeRequest_ended f.call hw
    cases hq : f.call.analyzeRequest with
    | mk c1 r =>
      rw [hq] at ha
      cases r with
      | error e => intro hx; simp at hx
      | ok u => intro _; simp only at ha; simp [Flow.canProceed, hb, ha]
  unfold Flow.step at he ⊢
  rcases hpre with hs | hs | hs <;> rw [hs] at he ⊢ <;> simp only at he ⊢
  · simp [stepPrepare] at he
  · unfold stepSendRequest at he ⊢
    simp only at he ⊢
    cases hc : f.canProceed with
    | error e => rw [hc] at he; simp at he
    | ok b =>
      rw [hc] at he
      cases b
      · simp at he
      · simp only at he ⊢
        split at he
        · split at he
          · simp at he
          · rename_i h1 h2; simp only [h1, h2, if_true]; exact key he
        · rw [hb] at he; simp at he
  · unfold stepAwait100 at he ⊢
    simp only at he ⊢
    split at he
    · rename_i h1; simp only [h1, if_true]; exact key he
    · rw [hb] at he; simp [enterRecvResponse] at he

/-- a flow that has left the states before the body never comes back to them -/
theorem step_not_preBody (hack : Bool) (f : Flow) (op : Op) (h : ¬ f.preBody) : ¬ (f.step hack op).1.preBody := by
  unfold Flow.preBody at h ⊢
  unfold Flow.step
  cases hs : f.st <;> simp only [hs] at h ⊢ <;> simp at h
  · -- sendBody
    unfold stepSendBody
    split
    · cases op <;> simp [notOffered, hs]
    · cases op <;> simp only [notOffered] <;> (try (simp [hs]; done))
      case bwrite i c => cases f.call.writeBody i c with | mk c r => cases r <;> simp [hs]
      case proceed => cases f.canProceed with
        | error e => simp [hs]
        | ok b => cases b <;> simp [hs, enterRecvResponse]
  · -- recvResponse
    unfold stepRecvResponse
    cases op <;> simp only [notOffered] <;> (try (simp [hs]; done))
    case resp w =>
      split
      · simp [hs]
      · split
        · simp [hs]
        · simp [hs]
        · split
          · simp [hs]
          · split
            · split <;> simp [hs]
            · simp [hs]
    case proceed =>
      cases f.canProceed with
      | error e => simp [hs]
      | ok b =>
        cases b
        · simp [hs]
        · simp only
          split
          · split
            · split <;> simp [hs]
            · simp
          · split <;> simp
  · -- recvBody
    unfold stepRecvBody
    cases op <;> simp only [notOffered] <;> (try (simp [hs]; done))
    case bread w c =>
      split
      · simp [hs]
      · cases f.call.read w c with | mk c r => cases r <;> simp [hs]
    case proceed =>
      cases f.canProceed with
      | error e => simp [hs]
      | ok b => cases b <;> simp [hs] <;> split <;> simp
  · -- redirect
    unfold stepRedirect
    cases op <;> simp [notOffered, hs]
  · -- cleanup
    unfold stepCleanup
    cases op <;> simp [notOffered, hs]
