import Hoot.Proofs.RespMono
set_option linter.unusedVariables false
set_option linter.unusedSimpArgs false

/-! The header-slot count only matters at the end of a field line: on input without LF the scanner
    behaves the same for every slot count. Used for `try_read_100` (zero slots): input that ends inside
    the first field line is still "need more data". -/

def RState.withSlots (s : RState) (j : Nat) : RState := { s with slots := j }

theorem step_slots (s s' : RState) (b : UInt8) (j : Nat) (hb : b ≠ 10) (h : respStep s b = .next s') :
    respStep (s.withSlots j) b = .next (s'.withSlots j) := by
  have hb' : (b == 10) = false := by simpa using hb
  unfold respStep at h ⊢
  unfold RState.withSlots
  cases hp : s.phase <;> simp only [hp] at h ⊢ <;>
    (repeat' split at h) <;> (try (simp at h)) <;> (try subst h) <;> simp_all [endField]
  all_goals (intro hlt; omega)

theorem run_slots : ∀ (inp : Bytes') (s : RState) (k : Nat) (st : RState) (j : Nat), (∀ b ∈ inp, b ≠ 10) →
    runFrom respStep s inp k = .more st → runFrom respStep (s.withSlots j) inp k = .more (st.withSlots j) := by
  intro inp
  induction inp with
  | nil => intro s k st j _ h; simp [runFrom] at h ⊢; rw [h]
  | cons b bs ih =>
    intro s k st j hno h
    simp only [runFrom] at h ⊢
    cases hs : respStep s b with
    | next s' =>
      rw [hs] at h
      rw [step_slots s s' b j (hno b (by simp)) hs]
      exact ih s' (k + 1) st j (fun x hx => hno x (by simp [hx])) h
    | done r => rw [hs] at h; simp at h
    | err e => rw [hs] at h; simp at h

/-- if a longer input runs on without completing or failing, so does every prefix of it -/
theorem prefix_of_more {σ ρ ε : Type} (step : σ → UInt8 → StepR σ ρ ε) (s : σ) (a b : Bytes') (k : Nat) (st : σ)
    (h : runFrom step s (a ++ b) k = .more st) : ∃ st', runFrom step s a k = .more st' := by
  rw [runFrom_append] at h
  cases hp : runFrom step s a k with
  | more s' => exact ⟨s', rfl⟩
  | complete r u => rw [hp] at h; simp at h
  | error e => rw [hp] at h; simp at h

theorem nameTok_ne_lf {b : UInt8} (h : isNameTok b = true) : b ≠ 10 := by
  intro e; subst e; simp [isNameTok] at h
theorem valueTok_ne_lf {b : UInt8} (h : isValueTok b = true) : b ≠ 10 := by
  intro e; subst e; simp [isValueTok] at h
theorem ws_ne_lf {b : UInt8} (h : isWs b = true) : b ≠ 10 := by
  intro e; subst e; simp [isWs] at h

/-- the bytes of a field line before its final LF contain no LF -/
theorem field_body_no_lf (f : Field) (hf : f.wf) :
    ∀ b ∈ f.name ++ (58 :: (f.pre ++ (f.value ++ (f.post ++ [13])))), b ≠ 10 := by
  obtain ⟨_, hname, hpre, hpost, hval, _, _⟩ := hf
  intro b hb
  simp only [List.mem_append, List.mem_cons, List.mem_singleton] at hb
  rcases hb with h | h | h | h | h | h
  · exact nameTok_ne_lf (hname b h)
  · subst h; decide
  · exact ws_ne_lf (hpre b h)
  · exact valueTok_ne_lf (hval b h)
  · exact ws_ne_lf (hpost b h)
  · simp at h; subst h; decide

theorem field_enc_split (f : Field) : f.enc = (f.name ++ (58 :: (f.pre ++ (f.value ++ (f.post ++ [13]))))) ++ [10] := by
  simp [Field.enc]

/-- **Inside the first field line, for every slot count (also zero), the parser needs more data.** -/
theorem resp_inside_first_field (h : Head) (hw : h.wf) (f : Field) (fs : List Field) (hfs : h.fields = f :: fs)
    (slots : Nat) (n : Nat) (hn : n < h.statusLine.length + f.enc.length) :
    ∃ st, parseResp slots (h.enc.take n) = .more st := by
  have hfw : f.wf := hw.2.2.2.2.2 f (by simp [hfs])
  -- the window is a prefix of statusLine ++ (field line without its LF)
  let body := f.name ++ (58 :: (f.pre ++ (f.value ++ (f.post ++ [13]))))
  have hfe : f.enc = body ++ [10] := field_enc_split f
  have hbl : body.length + 1 = f.enc.length := by rw [hfe]; simp
  have henc : h.enc = h.statusLine ++ (body ++ (10 :: (encFields fs ++ [13, 10]))) := by
    simp [Head.enc, hfs, encFields, hfe, List.append_assoc]
  have hwin : h.enc.take n = (h.statusLine ++ body).take n := by
    rw [henc, ← List.append_assoc, List.take_append_of_le_length]
    simp; omega
  rw [hwin]
  -- run with one slot over the whole line body: it goes on (the line is not finished), with no LF inside
  have hone := run_field { phase := .lineStart, version := some h.ver, code := some h.codeVal, fields := [], slots := 1 }
    f hfw (by simp) [] h.statusLine.length
  simp only [RState.at, List.append_nil] at hone
  rw [hfe] at hone
  have hmore : ∃ st1, runFrom respStep { phase := .lineStart, version := some h.ver, code := some h.codeVal, fields := [], slots := 1 }
      body h.statusLine.length = .more st1 := by
    have : ∃ st2, runFrom respStep { phase := .lineStart, version := some h.ver, code := some h.codeVal, fields := [], slots := 1 }
        (body ++ [10]) h.statusLine.length = .more st2 := ⟨_, by rw [hone]; simp only [runFrom]; rfl⟩
    obtain ⟨st2, hst2⟩ := this
    exact prefix_of_more _ _ _ _ _ _ hst2
  obtain ⟨st1, hst1⟩ := hmore
  have hslots := run_slots body _ _ st1 slots (field_body_no_lf f hfw) hst1
  simp only [RState.withSlots] at hslots
  -- the full input statusLine ++ body, any slot count, goes on; so does its prefix of length n
  have hfull : runFrom respStep (respInit slots) (h.statusLine ++ body) 0 = .more { st1 with slots := slots } := by
    rw [run_status h hw slots body]; exact hslots
  have hsplit : h.statusLine ++ body = (h.statusLine ++ body).take n ++ (h.statusLine ++ body).drop n :=
    (List.take_append_drop n _).symm
  rw [hsplit] at hfull
  unfold parseResp
  exact prefix_of_more _ _ _ _ _ _ hfull
