import Hoot.Model.Chunk2
set_option linter.unusedSimpArgs false

/-! concrete size fields: hex digits (either case, leading zeros allowed) parse to their value -/

def isHexN (n : Nat) : Bool := (48 ≤ n && n ≤ 57) || (97 ≤ n && n ≤ 102) || (65 ≤ n && n ≤ 70)
def isHexB (b : UInt8) : Bool := isHexN b.toNat

def hexValN (n : Nat) : Nat := if 48 ≤ n ∧ n ≤ 57 then n - 48 else if 97 ≤ n ∧ n ≤ 102 then n - 87 else n - 55

def hexValue (ds : Bytes) : Nat := ds.foldl (fun acc b => acc * 16 + hexValN b.toNat) 0

theorem isHexN_cases {n : Nat} (h : isHexN n = true) : (48 ≤ n ∧ n ≤ 57) ∨ (97 ≤ n ∧ n ≤ 102) ∨ (65 ≤ n ∧ n ≤ 70) := by
  simp [isHexN] at h
  omega

theorem utf8Decode_ascii (ds : Bytes) (h : ∀ b ∈ ds, b.toNat < 128) :
    ∀ fuel, ds.length ≤ fuel → utf8Decode fuel ds = some (ds.map UInt8.toNat) := by
  induction ds with
  | nil => intro fuel _; cases fuel <;> simp [utf8Decode]
  | cons b bs ih =>
    intro fuel hf
    cases fuel with
    | zero => simp at hf
    | succ fuel =>
      have hb : b.toNat < 128 := h b (by simp)
      have hrec := ih (fun x hx => h x (by simp [hx])) fuel (by simp at hf; omega)
      simp [utf8Decode, utf8Next, hb, hrec]

theorem hexValC_hex {n : Nat} (h : isHexN n = true) : hexValC n = some (hexValN n) := by
  rcases isHexN_cases h with ⟨a, b⟩ | ⟨a, b⟩ | ⟨a, b⟩ <;>
  · unfold hexValC hexValN
    repeat' split
    all_goals first | rfl | omega

theorem isWhite_hex {n : Nat} (h : isHexN n = true) : isWhite n = false := by
  rcases isHexN_cases h with ⟨a, b⟩ | ⟨a, b⟩ | ⟨a, b⟩ <;>
  · unfold isWhite
    simp
    omega

theorem foldl_mono (l : Bytes) : ∀ a : Nat, a ≤ l.foldl (fun a b => a * 16 + hexValN b.toNat) a := by
  induction l with
  | nil => intro a; simp
  | cons x xs ihx => intro a; simp only [List.foldl_cons]; have := ihx (a * 16 + hexValN x.toNat); omega

theorem radix16_hex (ds : Bytes) (h : ∀ b ∈ ds, isHexB b = true) :
    ∀ acc, ds.foldl (fun a b => a * 16 + hexValN b.toNat) acc ≤ USIZE_MAX →
      radix16 (ds.map UInt8.toNat) acc = some (ds.foldl (fun a b => a * 16 + hexValN b.toNat) acc) := by
  induction ds with
  | nil => intro acc _; simp [radix16]
  | cons b bs ih =>
    intro acc hle
    have hb : isHexN b.toNat = true := h b (by simp)
    simp only [List.map_cons, radix16, hexValC_hex hb, List.foldl_cons] at hle ⊢
    have hstep : acc * 16 + hexValN b.toNat ≤ USIZE_MAX := Nat.le_trans (foldl_mono bs _) hle
    simp [hstep]
    exact ih (fun x hx => h x (by simp [hx])) _ hle

theorem dropWhile_head_false {α} (p : α → Bool) (x : α) (xs : List α) (h : p x = false) :
    (x :: xs).dropWhile p = x :: xs := by simp [List.dropWhile, h]

theorem trimChars_id (cs : List Nat) (c0 : Nat) (rest : List Nat) (hcs : cs = c0 :: rest)
    (h0 : isWhite c0 = false) (cl : Nat) (init : List Nat) (hl : cs = init ++ [cl]) (hlw : isWhite cl = false) :
    trimChars cs = cs := by
  unfold trimChars
  have h1 : cs.dropWhile isWhite = cs := by rw [hcs]; exact dropWhile_head_false _ _ _ h0
  rw [h1, hl, List.reverse_append]
  simp only [List.reverse_cons, List.reverse_nil, List.nil_append, List.singleton_append]
  rw [dropWhile_head_false _ _ _ hlw]
  simp

/-- a non-empty run of hex digits whose value fits `usize` parses to that value -/
theorem parseSizeField_hex (ds : Bytes) (hne : ds ≠ []) (h : ∀ b ∈ ds, isHexB b = true)
    (hle : hexValue ds ≤ USIZE_MAX) : parseSizeField ds = .ok (hexValue ds) := by
  have hlt : ∀ b ∈ ds, b.toNat < 128 := by
    intro b hb
    rcases isHexN_cases (h b hb) with ⟨_, x⟩ | ⟨_, x⟩ | ⟨_, x⟩ <;> omega
  obtain ⟨b0, bs, hds⟩ : ∃ b0 bs, ds = b0 :: bs := by
    cases ds with
    | nil => exact absurd rfl hne
    | cons a b => exact ⟨a, b, rfl⟩
  obtain ⟨init, bl, hdl⟩ : ∃ init bl, ds = init ++ [bl] := by
    rcases List.eq_nil_or_concat ds with h' | ⟨i, b, h'⟩
    · exact absurd h' hne
    · exact ⟨i, b, by simpa using h'⟩
  have hb0 : isHexN b0.toNat = true := h b0 (by simp [hds])
  have hbl : isHexN bl.toNat = true := h bl (by simp [hdl])
  have htrim : trimChars (ds.map UInt8.toNat) = ds.map UInt8.toNat :=
    trimChars_id _ b0.toNat (bs.map UInt8.toNat) (by simp [hds]) (isWhite_hex hb0)
      bl.toNat (init.map UInt8.toNat) (by simp [hdl]) (isWhite_hex hbl)
  have hrad := radix16_hex ds h 0 (by simpa [hexValue] using hle)
  unfold parseSizeField
  rw [utf8Decode_ascii ds hlt _ (by omega)]
  simp only [htrim]
  have hne43 : b0.toNat ≠ 43 := by
    intro e; have := hexValC_hex hb0; rw [e] at this; simp [hexValC] at this
  have hne45 : b0.toNat ≠ 45 := by
    intro e; have := hexValC_hex hb0; rw [e] at this; simp [hexValC] at this
  have hfs : fromStrRadix16 (ds.map UInt8.toNat) = radix16 (ds.map UInt8.toNat) 0 := by
    rw [hds]
    simp only [List.map_cons]
    unfold fromStrRadix16
    cases hbs : bs.map UInt8.toNat with
    | nil => simp [hne43, hne45]
    | cons y ys => simp [hne43]
  rw [hfs, hrad]
  simp [hexValue]
