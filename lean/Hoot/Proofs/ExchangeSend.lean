import Hoot.Props.C02
import Hoot.Props.C03
import Hoot.Props.C04
import Hoot.Props.C19
import Hoot.Proofs.PropsWF
set_option linter.unusedVariables false
set_option linter.unusedSimpArgs false

/-! Composition of the send side of an exchange (C01): prepare, the request head under an arbitrary
    schedule of output buffer sizes, then — for a request with body and no `Expect` — the body under an
    arbitrary schedule of input slices and buffer sizes, then the edge into `RecvResponse`. -/

def isOkTrue : Except Fault Bool → Bool
  | .ok true => true
  | _ => false

/-- one I/O event: `m` = how many of the pending bytes the caller presents (of the request payload while
    sending the body, of the unconsumed server stream while receiving), `cap` = the size of the buffer
    handed to the call (output buffer while sending, output space while reading) -/
structure IoStep where
  m : Nat
  cap : Nat
  /-- while awaiting `100 Continue`: the caller stops waiting (timeout) and sends the body -/
  giveUp : Bool := false

/-- what the caller has put on the wire and how much of the payload has been accepted -/
structure SendObs where
  wire : Bytes := []
  off : Nat := 0
  deriving DecidableEq, Repr

/-- the caller's send loop. In `SendBody` the caller offers the next `m + 1` pending payload bytes (an
    empty slice only when the payload is exhausted — the end-of-body signal). -/
def sendStep (hack : Bool) (P : Bytes) (x : Flow × SendObs) (s : IoStep) : Flow × SendObs :=
  match x.1.st with
  | .prepare => ((x.1.step hack .proceed).1, x.2)
  | .sendRequest =>
    match x.1.step hack (.write s.cap) with
    | (f1, .bytes _ out) =>
      (if isOkTrue f1.canProceed then (f1.step hack .proceed).1 else f1, { x.2 with wire := x.2.wire ++ out })
    | (f1, _) => (f1, x.2)
  | .sendBody =>
    match x.1.step hack (.bwrite ((P.drop x.2.off).take (s.m + 1)) s.cap) with
    | (f1, .bytes n out) =>
      (if isOkTrue f1.canProceed then (f1.step hack .proceed).1 else f1,
       { wire := x.2.wire ++ out, off := x.2.off + n })
    | (f1, _) => (f1, x.2)
  | _ => x

def sendRun (hack : Bool) (P : Bytes) (f : Flow) (σ : List IoStep) : Flow × SendObs := σ.foldl (sendStep hack P) (f, {})

/-- a fresh flow whose request analyses to `r` with body writer `wr0`; with or without `Expect` -/
structure SendSetup (f0 : Flow) (r : AReq) (wr0 : BodyWriter) (P : Bytes) : Prop where
  hst : f0.st = .prepare
  han : f0.call.analyzeRequest.2 = .ok ()
  hreq : f0.call.analyzeRequest.1.req = r
  hana : f0.call.analyzeRequest.1.analyzed = true
  hph : f0.call.analyzeRequest.1.phase = .sendLine
  hph0 : f0.call.phase = .sendLine
  hwr : f0.call.analyzeRequest.1.writer = wr0
  hne : r.headers ≠ []
  hkind : (f0.holder = .withoutBody ∧ f0.shouldSendBody = false ∧ wr0 = BodyWriter.newNone ∧ P = []) ∨
          (f0.holder = .withBody ∧ f0.shouldSendBody = true ∧
             (wr0 = BodyWriter.newChunked ∨ wr0 = BodyWriter.newSized P.length))

/-- the part of the call the head writer works on, seen through `analyze_request` (idempotent) -/
def HeadAt (r : AReq) (wr0 : BodyWriter) (c : CallSt) (wire : Bytes) : Prop :=
  c.analyzeRequest.2 = .ok () ∧ c.analyzeRequest.1.req = r ∧ c.analyzeRequest.1.analyzed = true ∧
  validPhase r.headers.length c.analyzeRequest.1.phase ∧ c.analyzeRequest.1.phase.isPrelude = true ∧
  c.analyzeRequest.1.writer = wr0 ∧ c.phase = c.analyzeRequest.1.phase ∧
  wire = ((headUnits r).take (headPos c.analyzeRequest.1)).flatten

/-- the body bytes on the wire so far, against the payload accepted so far -/
def BodyAt (w : BodyWriter) (P : Bytes) (off : Nat) (bw : Bytes) : Prop :=
  match w.mode with
  | .none => False
  | .chunked => ∃ cs : List Bytes, (∀ x ∈ cs, x ≠ []) ∧ bw = wireOf cs w.ended ∧ cs.flatten = P.take off ∧ off ≤ P.length ∧
      (w.ended = true → off = P.length)
  | .sized left => left + off = P.length ∧ bw = P.take off ∧ (w.ended = true → left = 0)

/-- the one request every complete schedule puts on the wire: the rendered head, then nothing / the
    payload verbatim / a valid chunked coding of exactly the payload -/
def SendSpec (r : AReq) (wr0 : BodyWriter) (P : Bytes) (wire : Bytes) : Prop :=
  match wr0.mode with
  | .none => wire = renderHead r
  | .sized _ => wire = renderHead r ++ P
  | .chunked => ∃ cs : List Bytes, (∀ x ∈ cs, x ≠ []) ∧ wire = renderHead r ++ wireOf cs true ∧ cs.flatten = P

/-- the flow stands in `Await100` (or has just left it): the head is out, the body is still due -/
def AwaitAt (f0 : Flow) (r : AReq) (wr0 : BodyWriter) (P : Bytes) (f : Flow) (o : SendObs) : Prop :=
  f.holder = .withBody ∧ f.shouldSendBody = true ∧ f.closeReasons = f0.closeReasons ∧
  f.call.analyzed = true ∧ f.call.req = r ∧ f.call.phase = .sendBody ∧ f.call.writer = wr0 ∧
  (wr0 = BodyWriter.newChunked ∨ wr0 = BodyWriter.newSized P.length) ∧ o.wire = renderHead r ∧ o.off = 0

/-- the stages of the send side -/
def SendA (f0 : Flow) (f : Flow) (o : SendObs) : Prop := f = f0 ∧ o = {}

def SendB (f0 : Flow) (r : AReq) (wr0 : BodyWriter) (f : Flow) (o : SendObs) : Prop :=
  f.st = .sendRequest ∧ f.holder = f0.holder ∧ f.shouldSendBody = f0.shouldSendBody ∧ f.closeReasons = f0.closeReasons ∧
  f.await100 = f0.await100 ∧ o.off = 0 ∧ HeadAt r wr0 f.call o.wire

def SendC (f0 : Flow) (r : AReq) (wr0 : BodyWriter) (P : Bytes) (f : Flow) (o : SendObs) : Prop :=
  f.st = .sendBody ∧ f.holder = .withBody ∧ f.closeReasons = f0.closeReasons ∧
  f.call.analyzed = true ∧ f.call.req = r ∧ f.call.phase = .sendBody ∧ f.call.writer.ended = false ∧
  ((wr0 = BodyWriter.newChunked ∧ f.call.writer.mode = .chunked) ∨
   (wr0 = BodyWriter.newSized P.length ∧ ∃ l, f.call.writer.mode = .sized l)) ∧
  ∃ bw, o.wire = renderHead r ++ bw ∧ BodyAt f.call.writer P o.off bw

def SendD (f0 : Flow) (r : AReq) (wr0 : BodyWriter) (P : Bytes) (f : Flow) (o : SendObs) : Prop :=
  f.st = .recvResponse ∧ f.holder = .recvResponse ∧ f.closeReasons = f0.closeReasons ∧
  f.call.req = r ∧ SendSpec r wr0 P o.wire ∧ o.off = P.length

theorem analyze_of_analyzed (c : CallSt) (h : c.analyzed = true) : c.analyzeRequest = (c, .ok ()) := by
  unfold CallSt.analyzeRequest; simp [h]

/-- one run of the head writer from a call that satisfies `HeadAt` -/
theorem head_prelude (r : AReq) (wr0 : BodyWriter) (hne : r.headers ≠ []) (c : CallSt) (wire : Bytes)
    (h : HeadAt r wr0 c wire) (cap : Nat) :
    ∃ (c2 : CallSt) (w2 : W) (res : Except Fault Unit),
      writePrelude c.analyzeRequest.1 { out := [], cap := cap } = (c2, w2, res) ∧
      c2.analyzed = true ∧ c2.req = r ∧ c2.writer = wr0 ∧ validPhase r.headers.length c2.phase ∧
      ((res = .error (.api .outputOverflow) ∧ HeadAt r wr0 c2 wire) ∨
       (res = .ok () ∧
          ((c2.phase.isPrelude = true ∧ HeadAt r wr0 c2 (wire ++ w2.out)) ∨
           (c2.phase = .sendBody ∧ wire ++ w2.out = renderHead r)))) ∧
      ((∀ u ∈ headUnits r, u.length ≤ cap) → res = .ok () ∧ headPos c.analyzeRequest.1 < headPos c2) := by
  obtain ⟨h1, h2, h3, h4, h5, h6, h6', h7⟩ := h
  generalize hc1 : c.analyzeRequest.1 = c1 at *
  have hh : c1.req.headers ≠ [] := by rw [h2]; exact hne
  have hv : validPhase c1.req.headers.length c1.phase := by rw [h2]; exact h4
  obtain ⟨s1, s2, s3, s4, s5, s6⟩ := C02_step c1 cap hh hv
  obtain ⟨_, p2, p3, p4, _⟩ := writePrelude_spec c1 { out := [], cap := cap } hh
  rcases hwp : writePrelude c1 { out := [], cap := cap } with ⟨c2, w2, res⟩
  rw [hwp] at s1 s2 s3 s4 s5 s6 p2 p3 p4
  dsimp only at s1 s2 s3 s4 s5 s6 p2 p3 p4
  have hc2a : c2.analyzed = true := by rw [p3, h3]
  have hc2r : c2.req = r := by rw [s4, h2]
  have hc2w : c2.writer = wr0 := by rw [p4, h6]
  have hc2v : validPhase r.headers.length c2.phase := by rw [← h2]; exact s3
  have han2 : c2.analyzeRequest = (c2, .ok ()) := analyze_of_analyzed c2 hc2a
  rw [h2] at s1 s2 s5 s6
  have hbigp : (∀ u ∈ headUnits r, u.length ≤ cap) → res = .ok () ∧ headPos c1 < headPos c2 := by
    intro hbig
    have hul : (headUnits r).length = r.headers.length + 1 := by simp [headUnits, headerUnits_length]
    have hpos : headPos c1 ≤ r.headers.length := by
      unfold headPos
      rw [h2]
      cases hq : c1.phase <;> simp [hq, Phase.isPrelude, validPhase, phasePos] at h5 h4 ⊢
      omega
    have hne' : greedy ((headUnits r).drop (headPos c1)) cap ≠ [] := by
      cases hd : (headUnits r).drop (headPos c1) with
      | nil =>
        have : (headUnits r).length ≤ headPos c1 := List.drop_eq_nil_iff.mp hd
        omega
      | cons u rest =>
        have hu : u ∈ headUnits r := List.mem_of_mem_drop (by rw [hd]; simp)
        simp [greedy, hbig u hu]
    constructor
    · rw [s5]; simp [hne']
    · rw [s2]
      have : 0 < (greedy ((headUnits r).drop (headPos c1)) cap).length := List.length_pos_iff.mpr hne'
      omega
  refine ⟨c2, w2, res, rfl, hc2a, hc2r, hc2w, hc2v, ?_, hbigp⟩
  by_cases hov : greedy ((headUnits r).drop (headPos c1)) cap = [] ∧ headPos c1 ≤ r.headers.length
  · rw [if_pos hov] at s5
    have hc2 : c2 = c1 := s6 hov.1
    refine Or.inl ⟨s5, ?_⟩
    unfold HeadAt
    rw [han2]
    refine ⟨rfl, hc2r, hc2a, hc2v, by rw [hc2]; exact h5, hc2w, rfl, by rw [hc2]; exact h7⟩
  · rw [if_neg hov] at s5
    refine Or.inr ⟨s5, ?_⟩
    have hwire : wire ++ w2.out = ((headUnits r).take (headPos c2)).flatten := by
      rw [h7, s1, take_flatten_step, ← s2]
    cases hp : c2.phase.isPrelude with
    | true =>
      left
      refine ⟨rfl, ?_⟩
      unfold HeadAt
      rw [han2]
      exact ⟨rfl, hc2r, hc2a, hc2v, hp, hc2w, rfl, hwire⟩
    | false =>
      right
      have hsb : c2.phase = .sendBody := by
        cases hq : c2.phase <;> simp [hq, Phase.isPrelude, validPhase] at hp hc2v ⊢
      refine ⟨hsb, ?_⟩
      rw [hwire, ← headUnits_flatten r hne]
      congr 1
      apply List.take_of_length_le
      simp [headUnits, headerUnits_length, headPos, hsb, phasePos, hc2r]

theorem flow_step_prepare (hack : Bool) (f : Flow) (op : Op) (h : f.st = .prepare) :
    f.step hack op = stepPrepare f op := by unfold Flow.step; simp [h]

theorem flow_step_sendreq (hack : Bool) (f : Flow) (op : Op) (h : f.st = .sendRequest) :
    f.step hack op = stepSendRequest f op := by unfold Flow.step; simp [h]

theorem flow_step_sendbody (hack : Bool) (f : Flow) (op : Op) (h : f.st = .sendBody) :
    f.step hack op = stepSendBody f op := by unfold Flow.step; simp [h]

/-- `Flow<SendRequest>::write` for either holder, from a call that satisfies `HeadAt` in a prelude phase -/
theorem sendreq_write (r : AReq) (wr0 : BodyWriter) (hne : r.headers ≠ []) (f : Flow) (wire : Bytes)
    (hh : f.holder = .withoutBody ∨ f.holder = .withBody) (hat : HeadAt r wr0 f.call wire) (cap : Nat) :
    ∃ (c2 : CallSt), c2.analyzed = true ∧ c2.req = r ∧ c2.writer = wr0 ∧
      ((stepSendRequest f (.write cap) = ({ f with call := c2 }, .fault (.api .outputOverflow)) ∧ HeadAt r wr0 c2 wire) ∨
       (∃ out, stepSendRequest f (.write cap) = ({ f with call := c2 }, .bytes 0 out) ∧
          ((c2.phase.isPrelude = true ∧ HeadAt r wr0 c2 (wire ++ out)) ∨
           (c2.phase = .sendBody ∧ wire ++ out = renderHead r)))) ∧
      ((∀ u ∈ headUnits r, u.length ≤ cap) →
        (stepSendRequest f (.write cap)).2 ≠ .fault (.api .outputOverflow) ∧ headPos f.call.analyzeRequest.1 < headPos c2) := by
  obtain ⟨c2, w2, res, hwp, hc2a, hc2r, hc2w, hc2v, hcase, hprog⟩ := head_prelude r wr0 hne f.call wire hat cap
  obtain ⟨h1, h2, h3, h4, h5, h6, h6', h7⟩ := hat
  have hsplit : f.call.analyzeRequest = (f.call.analyzeRequest.1, .ok ()) := by rw [← h1]
  have hpre : f.call.phase.isPrelude = true := by rw [h6']; exact h5
  have hmain : ((stepSendRequest f (.write cap) = ({ f with call := c2 }, .fault (.api .outputOverflow)) ∧ res = .error (.api .outputOverflow) ∧ HeadAt r wr0 c2 wire) ∨
       (∃ out, stepSendRequest f (.write cap) = ({ f with call := c2 }, .bytes 0 out) ∧
          ((c2.phase.isPrelude = true ∧ HeadAt r wr0 c2 (wire ++ out)) ∨
           (c2.phase = .sendBody ∧ wire ++ out = renderHead r)))) := by
    rcases hh with hh | hh
    · -- without body
      rcases hcase with ⟨rfl, hat2⟩ | ⟨rfl, hc⟩
      · refine Or.inl ⟨?_, rfl, hat2⟩
        unfold stepSendRequest CallSt.writeNoBody
        simp only [hh]
        rw [hsplit]
        dsimp only
        rw [hwp]
      · refine Or.inr ⟨w2.out, ?_, hc⟩
        unfold stepSendRequest CallSt.writeNoBody
        simp only [hh]
        rw [hsplit]
        dsimp only
        rw [hwp]
    · rcases hcase with ⟨rfl, hat2⟩ | ⟨rfl, hc⟩
      · refine Or.inl ⟨?_, rfl, hat2⟩
        unfold stepSendRequest CallSt.writeBody
        simp only [hh, hpre, Bool.not_true, Bool.false_eq_true, if_false]
        rw [hsplit]
        dsimp only
        simp only [h5, if_true]
        rw [hwp]
      · refine Or.inr ⟨w2.out, ?_, hc⟩
        unfold stepSendRequest CallSt.writeBody
        simp only [hh, hpre, Bool.not_true, Bool.false_eq_true, if_false]
        rw [hsplit]
        dsimp only
        simp only [h5, if_true]
        rw [hwp]
  refine ⟨c2, hc2a, hc2r, hc2w, ?_, ?_⟩
  · rcases hmain with ⟨a, _, b⟩ | h
    · exact Or.inl ⟨a, b⟩
    · exact Or.inr h
  · intro hbig
    obtain ⟨hok, hlt⟩ := hprog hbig
    refine ⟨?_, hlt⟩
    rcases hmain with ⟨_, hres, _⟩ | ⟨out, hst, _⟩
    · rw [hok] at hres; cases hres
    · rw [hst]; simp

theorem wireOf_append_open (cs cs' : List Bytes) (e : Bool) : wireOf cs false ++ wireOf cs' e = wireOf (cs ++ cs') e := by
  simp [wireOf, List.append_assoc]

theorem take_add_drop (P : Bytes) (off n : Nat) : P.take off ++ (P.drop off).take n = P.take (off + n) := by
  rw [List.take_add]

/-- `Flow<SendBody>::write` with the next slice of the payload, from an unfinished body -/
theorem sendbody_write (f : Flow) (P : Bytes) (off : Nat) (bw : Bytes) (k cap : Nat)
    (hh : f.holder = .withBody) (ha : f.call.analyzed = true) (hp : f.call.phase = .sendBody)
    (hne : f.call.writer.ended = false) (hb : BodyAt f.call.writer P off bw) :
    ∃ (c2 : CallSt) (n : Nat) (out : Bytes),
      stepSendBody f (.bwrite ((P.drop off).take (k + 1)) cap) = ({ f with call := c2 }, .bytes n out) ∧
      c2.analyzed = true ∧ c2.req = f.call.req ∧ c2.phase = .sendBody ∧
      BodyAt c2.writer P (off + n) (bw ++ out) ∧
      (f.call.writer.mode = .chunked → c2.writer.mode = .chunked) ∧
      ((∃ l, f.call.writer.mode = .sized l) → ∃ l', c2.writer.mode = .sized l') ∧
      (c2.writer.ended = true → off + n = P.length ∧
         ((f.call.writer.mode = .chunked ∧ ∃ cs : List Bytes, (∀ x ∈ cs, x ≠ []) ∧ bw ++ out = wireOf cs true ∧ cs.flatten = P) ∨
          ((∃ l, f.call.writer.mode = .sized l) ∧ bw ++ out = P))) ∧
      (6 ≤ cap → 0 < n ∨ c2.writer.ended = true) := by
  have hwb : f.call.writeBody ((P.drop off).take (k + 1)) cap = f.call.writeBodyPhase ((P.drop off).take (k + 1)) cap := by
    unfold CallSt.writeBody
    rw [analyze_of_analyzed f.call ha]
    simp [hp, Phase.isPrelude]
  have hne' : (f.holder != Holder.withBody) = false := by simp [hh]
  cases hm : f.call.writer.mode with
  | none => simp [BodyAt, hm] at hb
  | chunked =>
    simp only [BodyAt, hm, hne] at hb
    obtain ⟨cs, hcs, hbw, hfl, hoff, _⟩ := hb
    obtain ⟨cs', n, e, hstep, hcs', hfl', hn, _, hterm, hemp⟩ := C03_step_open f.call ((P.drop off).take (k + 1)) cap hm hne
    have hflat : (cs ++ cs').flatten = P.take (off + n) := by
      rw [List.flatten_append, hfl, hfl', List.take_take, ← take_add_drop]
      congr 2
      have : n ≤ k + 1 := by
        have : ((P.drop off).take (k + 1)).length ≤ k + 1 := by simp; omega
        omega
      omega
    have hlen : ((P.drop off).take (k + 1)).length ≤ P.length - off := by simp; omega
    have hend : e = true → off + n = P.length := by
      intro he
      obtain ⟨hi, _⟩ := hterm he
      have hd : P.drop off = [] := by
        cases hq : P.drop off with
        | nil => rfl
        | cons x xs => rw [hq] at hi; simp at hi
      have : P.length ≤ off := by simpa using hd
      rw [hi] at hn; simp at hn; omega
    have hprog : 6 ≤ cap → 0 < n ∨ e = true := by
      intro hcap
      by_cases hi : (P.drop off).take (k + 1) = []
      · right; exact ((hemp hi).2.2).mpr (by omega)
      · left
        have := C19_progress_chunked f.call _ cap hm hne hi hcap
        simpa [consumedBy, hstep] using this
    refine ⟨{ f.call with writer := { mode := .chunked, ended := e } }, n, wireOf cs' e, ?_, ha, rfl, hp, ?_, fun _ => rfl, fun ⟨l, hl⟩ => by simp [hm] at hl, ?_, hprog⟩
    · unfold stepSendBody
      simp only [hne', Bool.false_eq_true, if_false, hwb, hstep]
    · simp only [BodyAt]
      refine ⟨cs ++ cs', ?_, ?_, hflat, by omega, hend⟩
      · intro x hx; rcases List.mem_append.mp hx with h | h
        · exact hcs x h
        · exact hcs' x h
      · rw [hbw, wireOf_append_open]
    · intro he
      have he' : e = true := he
      refine ⟨hend he', Or.inl ⟨rfl, cs ++ cs', ?_, ?_, ?_⟩⟩
      · intro x hx; rcases List.mem_append.mp hx with h | h
        · exact hcs x h
        · exact hcs' x h
      · rw [hbw, wireOf_append_open, he']
      · rw [hflat, hend he']; simp
  | sized left =>
    simp only [BodyAt, hm] at hb
    obtain ⟨hsum, hbw, _⟩ := hb
    have hfit : ((P.drop off).take (k + 1)).length ≤ left := by simp; omega
    have hcopy := C04_copy f.call left ((P.drop off).take (k + 1)) cap hm hfit (by simp [hne])
    generalize hn : min (min cap ((P.drop off).take (k + 1)).length) left = n at hcopy
    have hnk : n ≤ k + 1 := by
      have : ((P.drop off).take (k + 1)).length ≤ k + 1 := by simp; omega
      omega
    have hout : P.take off ++ ((P.drop off).take (k + 1)).take n = P.take (off + n) := by
      rw [List.take_take, ← take_add_drop]
      congr 2; omega
    refine ⟨{ f.call with writer := { mode := .sized (left - n), ended := f.call.writer.ended || left - n == 0 } }, n, ((P.drop off).take (k + 1)).take n, ?_, ha, rfl, hp, ?_, fun h => by simp [hm] at h, fun _ => ⟨_, rfl⟩, ?_, ?_⟩
    · unfold stepSendBody
      simp only [hne', Bool.false_eq_true, if_false, hwb, hcopy]
    · simp only [BodyAt]
      refine ⟨by omega, by rw [hbw, hout], ?_⟩
      intro he; simp [hne] at he; omega
    · intro he
      have hl : left - n = 0 := by simpa [hne] using he
      have hoffn : off + n = P.length := by omega
      refine ⟨hoffn, Or.inr ⟨⟨left, rfl⟩, ?_⟩⟩
      rw [hbw, hout, hoffn]; simp
    · intro hcap
      by_cases hi : ((P.drop off).take (k + 1)).length = 0
      · right
        have hd : (P.drop off).length = 0 := by
          cases hq : P.drop off with
          | nil => rfl
          | cons x xs => rw [hq] at hi; simp at hi
        have : left = 0 := by simp at hd; omega
        show (f.call.writer.ended || left - n == 0) = true
        simp [this]
      · left; omega

/-- entering `SendBody` from a flow whose head is out and whose body is due -/
theorem enter_body_inv (f0 : Flow) (r : AReq) (wr0 : BodyWriter) (P : Bytes) (f : Flow) (o : SendObs)
    (h : AwaitAt f0 r wr0 P f o) :
    enterSendBody f = ({ f with st := .sendBody }, .state .sendBody) ∧
    SendC f0 r wr0 P { f with st := .sendBody } o := by
  obtain ⟨hh, hsb, hcr, ha, hreq, hp, hw, hk, hwire, hoff⟩ := h
  have he : enterSendBody f = ({ f with st := .sendBody }, .state .sendBody) := by
    unfold enterSendBody
    rw [analyze_of_analyzed f.call ha]
  refine ⟨he, rfl, hh, hcr, ha, hreq, hp, ?_, ?_, [], ?_, ?_⟩
  · show f.call.writer.ended = false
    rw [hw]; rcases hk with e | e <;> rw [e] <;> rfl
  · show (wr0 = BodyWriter.newChunked ∧ f.call.writer.mode = .chunked) ∨ _
    rw [hw]; rcases hk with e | e
    · exact Or.inl ⟨e, by rw [e]; rfl⟩
    · exact Or.inr ⟨e, P.length, by rw [e]; rfl⟩
  · simp [hwire]
  · show BodyAt f.call.writer P o.off []
    rw [hw, hoff]
    rcases hk with e | e <;> rw [e]
    · simp only [BodyAt, BodyWriter.newChunked]
      exact ⟨[], by simp, by simp [wireOf], by simp, by omega, by simp⟩
    · simp only [BodyAt, BodyWriter.newSized]
      exact ⟨by omega, by simp, by simp⟩

/-- `Prepare`: the caller proceeds -/
theorem send_step_A (hack : Bool) (f0 : Flow) (r : AReq) (wr0 : BodyWriter) (P : Bytes) (S : SendSetup f0 r wr0 P)
    (f : Flow) (o : SendObs) (s : IoStep) (h : SendA f0 f o) :
    SendB f0 r wr0 (sendStep hack P (f, o) s).1 (sendStep hack P (f, o) s).2 := by
  obtain ⟨rfl, rfl⟩ := h
  unfold sendStep
  simp only [S.hst]
  rw [flow_step_prepare hack f _ S.hst]
  unfold stepPrepare
  refine ⟨rfl, rfl, rfl, rfl, rfl, rfl, ?_⟩
  unfold HeadAt
  dsimp only
  refine ⟨S.han, S.hreq, S.hana, ?_, ?_, S.hwr, ?_, ?_⟩
  · rw [S.hph]; trivial
  · rw [S.hph]; rfl
  · rw [S.hph, S.hph0]
  · simp [headPos, S.hph, phasePos]

/-- `SendRequest`: one head write, then proceed when ready — to `RecvResponse` (no body), `Await100`
    (body and `Expect`) or `SendBody` -/
theorem send_step_B (hack : Bool) (f0 : Flow) (r : AReq) (wr0 : BodyWriter) (P : Bytes) (S : SendSetup f0 r wr0 P)
    (f : Flow) (o : SendObs) (s : IoStep) (h : SendB f0 r wr0 f o) :
    (SendB f0 r wr0 (sendStep hack P (f, o) s).1 (sendStep hack P (f, o) s).2 ∧
       ((∀ u ∈ headUnits r, u.length ≤ s.cap) →
          headPos f.call.analyzeRequest.1 < headPos (sendStep hack P (f, o) s).1.call.analyzeRequest.1)) ∨
    (SendC f0 r wr0 P (sendStep hack P (f, o) s).1 (sendStep hack P (f, o) s).2 ∧
       (sendStep hack P (f, o) s).1.await100 = false ∧ f0.await100 = false) ∨
    (SendD f0 r wr0 P (sendStep hack P (f, o) s).1 (sendStep hack P (f, o) s).2 ∧
       (sendStep hack P (f, o) s).1.await100 = f0.await100) ∨
    ((sendStep hack P (f, o) s).1.st = .await100 ∧ (sendStep hack P (f, o) s).1.await100 = true ∧ f0.await100 = true ∧
       AwaitAt f0 r wr0 P (sendStep hack P (f, o) s).1 (sendStep hack P (f, o) s).2) := by
  obtain ⟨hst, hh, hsb, hcr, haw, hoff, hat⟩ := h
  have hhold : f.holder = .withoutBody ∨ f.holder = .withBody := by
    rw [hh]; rcases S.hkind with h | h
    · exact Or.inl h.1
    · exact Or.inr h.1
  obtain ⟨c2, hc2a, hc2r, hc2w, hcase, hprog⟩ := sendreq_write r wr0 S.hne f o.wire hhold hat s.cap
  unfold sendStep
  simp only [hst]
  rw [flow_step_sendreq hack f _ hst]
  generalize hf1 : ({ f with call := c2 } : Flow) = f1 at hcase
  have h1st : f1.st = .sendRequest := by rw [← hf1]; exact hst
  have h1h : f1.holder = f0.holder := by rw [← hf1]; exact hh
  have h1sb : f1.shouldSendBody = f0.shouldSendBody := by rw [← hf1]; exact hsb
  have h1cr : f1.closeReasons = f0.closeReasons := by rw [← hf1]; exact hcr
  have h1aw : f1.await100 = f0.await100 := by rw [← hf1]; exact haw
  have h1c : f1.call = c2 := by rw [← hf1]
  rcases hcase with ⟨hstep, hat2⟩ | ⟨out, hstep, hcase2⟩
  · have hov : (stepSendRequest f (.write s.cap)).2 = .fault (.api .outputOverflow) := by rw [hstep]
    rw [hstep]
    refine Or.inl ⟨⟨h1st, h1h, h1sb, h1cr, h1aw, hoff, by rw [h1c]; exact hat2⟩, ?_⟩
    intro hbig
    exact absurd hov (hprog hbig).1
  · rw [hstep]
    dsimp only
    rcases hcase2 with ⟨hpre, hat2⟩ | ⟨hsbp, hwire⟩
    · have hcp : isOkTrue f1.canProceed = false := by
        unfold Flow.canProceed
        rcases hhold with e | e <;> (rw [hh] at e; simp only [h1st, h1h, e, h1c]) <;>
          cases hq : c2.phase <;> simp [hq, Phase.isPrelude, isOkTrue] at hpre ⊢
      simp only [hcp, Bool.false_eq_true, if_false]
      refine Or.inl ⟨⟨h1st, h1h, h1sb, h1cr, h1aw, hoff, by rw [h1c]; exact hat2⟩, ?_⟩
      intro hbig
      rw [h1c, analyze_of_analyzed c2 hc2a]
      exact (hprog hbig).2
    · have hcp : f1.canProceed = .ok true := by
        unfold Flow.canProceed
        rcases hhold with e | e <;> (rw [hh] at e; simp [h1st, h1h, e, h1c, hsbp, Phase.isPrelude])
      simp only [hcp, isOkTrue, if_true]
      rw [flow_step_sendreq hack f1 _ h1st]
      unfold stepSendRequest
      simp only [hcp]
      rcases S.hkind with ⟨k1, k2, k3, k4⟩ | ⟨k1, k2, k4⟩
      · -- no body: straight to RecvResponse
        have hwe : f1.call.writer.ended = true := by rw [h1c, hc2w, k3]; rfl
        simp only [h1sb, k2, h1h, k1, hwe, Bool.not_true, Bool.false_eq_true, if_false]
        unfold enterRecvResponse
        refine Or.inr (Or.inr (Or.inl ⟨⟨rfl, rfl, h1cr, by simp [h1c, hc2r], ?_, ?_⟩, h1aw⟩))
        · simp only [SendSpec, k3, BodyWriter.newNone]; exact hwire
        · show o.off = P.length; rw [hoff, k4]; rfl
      · -- body due
        have hAt : AwaitAt f0 r wr0 P f1 { o with wire := o.wire ++ out } :=
          ⟨by rw [h1h, k1], by rw [h1sb, k2], h1cr, by rw [h1c]; exact hc2a, by rw [h1c]; exact hc2r,
           by rw [h1c]; exact hsbp, by rw [h1c]; exact hc2w, k4, hwire, hoff⟩
        simp only [h1sb, k2, if_true]
        cases haw1 : f1.await100 with
        | true =>
          simp only [if_true]
          obtain ⟨a1, a2, a3, a4, a5, a6, a7, a8, a9, a10⟩ := hAt
          exact Or.inr (Or.inr (Or.inr ⟨by trivial, by trivial, by rw [← h1aw]; exact haw1,
            ⟨a1, by trivial, a3, a4, a5, a6, a7, a8, a9, a10⟩⟩))
        | false =>
          simp only [Bool.false_eq_true, if_false]
          obtain ⟨he, hinv⟩ := enter_body_inv f0 r wr0 P f1 _ hAt
          rw [he]
          exact Or.inr (Or.inl ⟨hinv, haw1, by rw [← h1aw]; exact haw1⟩)

/-- `SendBody`: one body write with the next slice of the payload, then proceed when the body is finished;
    the awaiting-100 flag is not touched -/
theorem send_step_C (hack : Bool) (f0 : Flow) (r : AReq) (wr0 : BodyWriter) (P : Bytes)
    (f : Flow) (o : SendObs) (s : IoStep) (h : SendC f0 r wr0 P f o) :
    ((SendC f0 r wr0 P (sendStep hack P (f, o) s).1 (sendStep hack P (f, o) s).2 ∧
        (6 ≤ s.cap → o.off < (sendStep hack P (f, o) s).2.off)) ∨
     SendD f0 r wr0 P (sendStep hack P (f, o) s).1 (sendStep hack P (f, o) s).2) ∧
    (sendStep hack P (f, o) s).1.await100 = f.await100 := by
  obtain ⟨hst, hh, hcr, ha, hreq, hp, hne, hkind, bw, hw, hb⟩ := h
  obtain ⟨c2, n, out, hstep, hc2a, hc2r, hc2p, hb2, hk1, hk2, hend, hprogC⟩ :=
    sendbody_write f P o.off bw s.m s.cap hh ha hp hne hb
  unfold sendStep
  simp only [hst]
  rw [flow_step_sendbody hack f _ hst, hstep]
  dsimp only
  generalize hf1 : ({ f with call := c2 } : Flow) = f1
  have h1st : f1.st = .sendBody := by rw [← hf1]; exact hst
  have h1h : f1.holder = .withBody := by rw [← hf1]; exact hh
  have h1cr : f1.closeReasons = f0.closeReasons := by rw [← hf1]; exact hcr
  have h1aw : f1.await100 = f.await100 := by rw [← hf1]
  have h1c : f1.call = c2 := by rw [← hf1]
  have hcp : f1.canProceed = .ok c2.writer.ended := by
    unfold Flow.canProceed; simp [h1st, h1h, h1c]
  rw [hcp]
  cases he : c2.writer.ended with
  | false =>
    simp only [isOkTrue, Bool.false_eq_true, if_false]
    refine ⟨Or.inl ⟨⟨h1st, h1h, h1cr, by rw [h1c]; exact hc2a, by rw [h1c, hc2r, hreq],
      by rw [h1c]; exact hc2p, by rw [h1c]; exact he, ?_, bw ++ out, ?_, by rw [h1c]; exact hb2⟩, ?_⟩, h1aw⟩
    · rw [h1c]
      rcases hkind with ⟨e1, e2⟩ | ⟨e1, e2⟩
      · exact Or.inl ⟨e1, hk1 e2⟩
      · exact Or.inr ⟨e1, hk2 e2⟩
    · show o.wire ++ out = renderHead r ++ (bw ++ out); rw [hw, List.append_assoc]
    · intro hcap
      show o.off < o.off + n
      rcases hprogC hcap with h | h
      · omega
      · rw [he] at h; cases h
  | true =>
    simp only [isOkTrue, if_true]
    rw [flow_step_sendbody hack f1 _ h1st]
    unfold stepSendBody
    have hne1 : (f1.holder != Holder.withBody) = false := by simp [h1h]
    simp only [hne1, Bool.false_eq_true, if_false, hcp, he]
    unfold enterRecvResponse
    obtain ⟨hoffn, hfin⟩ := hend he
    refine ⟨Or.inr ⟨rfl, rfl, h1cr, by simp [h1c, hc2r, hreq], ?_, hoffn⟩, h1aw⟩
    show SendSpec r wr0 P (o.wire ++ out)
    rw [hw, List.append_assoc]
    rcases hkind with ⟨e1, e2⟩ | ⟨e1, l, e2⟩
    · rcases hfin with ⟨_, cs, g1, g2, g3⟩ | ⟨⟨l, hl⟩, _⟩
      · simp only [SendSpec, e1, BodyWriter.newChunked]
        exact ⟨cs, g1, by rw [g2], g3⟩
      · rw [e2] at hl; cases hl
    · rcases hfin with ⟨hc, _⟩ | ⟨_, g⟩
      · rw [e2] at hc; cases hc
      · simp only [SendSpec, e1, BodyWriter.newSized]
        rw [g]
