import Hoot.Proofs.RespProof
set_option linter.unusedVariables false
set_option linter.unusedSimpArgs false

/-! The header-slot limit of the response scanner: a complete field line that finds no free slot is the
    `TooManyHeaders` error (used for C05's 128-field limit, C20's N, and C11's N = 0). -/

theorem run_cons_err {s : RState} {b : UInt8} {e : HErr} (h : respStep s b = .err e) (bs : Bytes') (k : Nat) :
    runFrom respStep s (b :: bs) k = .error e := by
  simp [runFrom, h]

theorem run_field_full (s : RState) (f : Field) (hf : f.wf) (hslot : ¬ s.fields.length < s.slots)
    (rest : Bytes') (k : Nat) :
    runFrom respStep (s.at .lineStart) (f.enc ++ rest) k = .error .tooManyHeaders := by
  obtain ⟨hne, hname, hpre, hpost, hval, hhead, hlast⟩ := hf
  obtain ⟨n0, ns, hn⟩ : ∃ n0 ns, f.name = n0 :: ns := by
    cases h : f.name with
    | nil => exact absurd h hne
    | cons a b => exact ⟨a, b, rfl⟩
  have hn0 : isNameTok n0 = true := hname n0 (by simp [hn])
  have hn0_13 : (n0 == 13) = false := by
    cases h : n0 == 13 with
    | false => rfl
    | true => have : n0 = 13 := by simpa using h
              subst this; simp [isNameTok] at hn0
  have hn0_10 : (n0 == 10) = false := by
    cases h : n0 == 10 with
    | false => rfl
    | true => have : n0 = 10 := by simpa using h
              subst this; simp [isNameTok] at hn0
  have hcolon : isNameTok 58 = false := by decide
  -- abbreviations for the wire image after the name
  let A := f.pre ++ (f.value ++ (f.post ++ [13, 10]))
  have hstep0 : respStep (s.at .lineStart) n0 = .next (s.at (.name [n0])) := by
    simp [respStep, RState.at, hn0, hn0_13, hn0_10]
  have hns : ∀ b ∈ ns, isNameTok b = true := fun b hb => hname b (by simp [hn, hb])
  have hname_run : ∀ R k', runFrom respStep (s.at (.name [n0])) (ns ++ R) k' =
      runFrom respStep (s.at (.name (n0 :: ns))) R (k' + ns.length) := by
    intro R k'; simpa using run_name s ns hns [n0] R k'
  have hstepc : respStep (s.at (.name (n0 :: ns))) 58 = .next (s.at (.ows (n0 :: ns))) := by
    simp [respStep, RState.at, hcolon]
  have hlen : f.enc.length = 1 + ns.length + 1 + f.pre.length + f.value.length + f.post.length + 2 := by
    simp [Field.enc, hn]; omega
  have henc : f.enc ++ rest = n0 :: (ns ++ (58 :: (f.pre ++ (f.value ++ (f.post ++ (13 :: 10 :: rest)))))) := by
    simp [Field.enc, hn]
  rw [henc, run_cons_next hstep0, hname_run, run_cons_next hstepc, run_ows s _ f.pre hpre]
  cases hv : f.value with
  | nil =>
    simp only [List.nil_append]
    rw [run_ows s _ f.post hpost]
    have h1 : respStep (s.at (.ows (n0 :: ns))) 13 = .next (s.at (.emptyCR (n0 :: ns))) := by
      simp [respStep, RState.at, isWs, isValueTok]
    have h2 : respStep (s.at (.emptyCR (n0 :: ns))) 10 = .err .tooManyHeaders := by
      simp [respStep, RState.at, endField, hslot]
    rw [run_cons_next h1, run_cons_err h2]
  | cons v0 vs =>
    have hv0 : isValueTok v0 = true := hval v0 (by simp [hv])
    have hv0ws : isWs v0 = false := hhead v0 (by simp [hv])
    have h1 : respStep (s.at (.ows (n0 :: ns))) v0 = .next (s.at (.value (n0 :: ns) [v0])) := by
      simp [respStep, RState.at, hv0, hv0ws]
    have hvs : ∀ b ∈ vs ++ f.post, isValueTok b = true := by
      intro b hb
      rcases List.mem_append.mp hb with h | h
      · exact hval b (by simp [hv, h])
      · exact ws_valueTok (hpost b h)
    have hvalue_run : ∀ R k', runFrom respStep (s.at (.value (n0 :: ns) [v0])) ((vs ++ f.post) ++ R) k' =
        runFrom respStep (s.at (.value (n0 :: ns) (v0 :: (vs ++ f.post)))) R (k' + (vs ++ f.post).length) := by
      intro R k'; simpa using run_value s (n0 :: ns) (vs ++ f.post) hvs [v0] R k'
    have h2 : respStep (s.at (.value (n0 :: ns) (v0 :: (vs ++ f.post)))) 13 =
        .next (s.at (.valueCR (n0 :: ns) (v0 :: (vs ++ f.post)))) := by
      simp [respStep, RState.at, isValueTok]
    have htrim : trimEnd (v0 :: (vs ++ f.post)) = v0 :: vs := by
      have := trimEnd_append_ws (v0 :: vs) f.post hpost (by rw [← hv]; exact hlast)
      simpa using this
    have h3 : respStep (s.at (.valueCR (n0 :: ns) (v0 :: (vs ++ f.post)))) 10 = .err .tooManyHeaders := by
      simp only [respStep, RState.at, endField]
      simp [hslot]
    have hshape : (v0 :: vs) ++ (f.post ++ (13 :: 10 :: rest)) = v0 :: ((vs ++ f.post) ++ (13 :: 10 :: rest)) := by simp
    rw [hshape, run_cons_next h1, hvalue_run, run_cons_next h2, run_cons_err h3]

/-- A head whose field list has more entries than there are slots is rejected with `TooManyHeaders` —
    as soon as the first field line beyond the limit is complete, whatever follows. -/
theorem resp_too_many (h : Head) (hw : h.wf) (slots : Nat) (hs : slots < h.fields.length) (rest : Bytes') :
    parseResp slots (h.enc ++ rest) = .error .tooManyHeaders := by
  have hsplit : h.fields = h.fields.take slots ++ (h.fields.drop slots) := (List.take_append_drop slots h.fields).symm
  obtain ⟨f, fs2, hd⟩ : ∃ f fs2, h.fields.drop slots = f :: fs2 := by
    cases hdr : h.fields.drop slots with
    | nil => have := congrArg List.length hdr; simp at this; omega
    | cons a b => exact ⟨a, b, rfl⟩
  have hwf : ∀ g ∈ h.fields, g.wf := hw.2.2.2.2.2
  have h1wf : ∀ g ∈ h.fields.take slots, g.wf := fun g hg => hwf g (List.mem_of_mem_take hg)
  have hfwf : f.wf := hwf f (by rw [hsplit, hd]; simp)
  unfold parseResp Head.enc
  rw [List.append_assoc, run_status h hw slots]
  have henc : encFields h.fields = encFields (h.fields.take slots) ++ (f.enc ++ encFields fs2) := by
    conv => lhs; rw [hsplit, hd]
    simp [encFields]
  rw [henc]
  have e : encFields (h.fields.take slots) ++ (f.enc ++ encFields fs2) ++ [13, 10] ++ rest
      = encFields (h.fields.take slots) ++ (f.enc ++ (encFields fs2 ++ ([13, 10] ++ rest))) := by
    simp [List.append_assoc]
  rw [e]
  have hf := run_fields (h.fields.take slots) h1wf
    { phase := .lineStart, version := some h.ver, code := some h.codeVal, fields := [], slots := slots }
    (f.enc ++ (encFields fs2 ++ ([13, 10] ++ rest))) h.statusLine.length (by simp; omega)
  simp only [RState.at] at hf
  rw [hf]
  have hfull := run_field_full
    { phase := .lineStart, version := some h.ver, code := some h.codeVal,
      fields := [] ++ (h.fields.take slots).map Field.pair, slots := slots } f hfwf
    (by simp; omega) (encFields fs2 ++ ([13, 10] ++ rest)) (h.statusLine.length + (encFields (h.fields.take slots)).length)
  simp only [RState.at] at hfull
  exact hfull
