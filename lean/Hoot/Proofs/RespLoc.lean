import Hoot.Proofs.RespSlots
import Hoot.Proofs.PartialParse
set_option linter.unusedVariables false
set_option linter.unusedSimpArgs false

/-! Which fields the scanner has completed after a strict prefix: no more than the field lines that are
    completely inside the prefix. -/

theorem step_fields_no_lf (s s' : RState) (b : UInt8) (hb : b ≠ 10) (h : respStep s b = .next s') :
    s'.fields = s.fields := by
  have hb' : (b == 10) = false := by simpa using hb
  unfold respStep at h
  cases hp : s.phase <;> simp only [hp] at h <;>
    (repeat' split at h) <;> (try (simp at h)) <;> (try subst h) <;> simp_all [endField]

theorem run_fields_no_lf : ∀ (inp : Bytes') (s : RState) (k : Nat) (st : RState), (∀ b ∈ inp, b ≠ 10) →
    runFrom respStep s inp k = .more st → st.fields = s.fields := by
  intro inp
  induction inp with
  | nil => intro s k st _ h; simp [runFrom] at h; rw [h]
  | cons b bs ih =>
    intro s k st hno h
    simp only [runFrom] at h
    cases hs : respStep s b with
    | next s' =>
      rw [hs] at h
      rw [ih s' (k + 1) st (fun x hx => hno x (by simp [hx])) h]
      exact step_fields_no_lf s s' b (hno b (by simp)) hs
    | done r => rw [hs] at h; simp at h
    | err e => rw [hs] at h; simp at h

theorem encFields_append (a b : List Field) : encFields (a ++ b) = encFields a ++ encFields b := by
  simp [encFields]

/-- the completed fields after a strict prefix that ends before the end of field line `f` (which follows
    the fields `pre`) are an initial segment of `pre` -/
theorem prefix_state_bound (h : Head) (hw : h.wf) (slots : Nat) (hs : h.fields.length ≤ slots)
    (pre : List Field) (f : Field) (post : List Field) (hsplit : h.fields = pre ++ f :: post)
    (n : Nat) (hn : n < h.statusLine.length + (encFields pre).length + f.enc.length) :
    ∃ st, parseResp slots (h.enc.take n) = .more st ∧ ∃ t, pre.map Field.pair = st.fields ++ t := by
  have hwf : ∀ g ∈ h.fields, g.wf := hw.2.2.2.2.2
  have hprewf : ∀ g ∈ pre, g.wf := fun g hg => hwf g (by rw [hsplit]; simp [hg])
  have hfwf : f.wf := hwf f (by rw [hsplit]; simp)
  let body := f.name ++ (58 :: (f.pre ++ (f.value ++ (f.post ++ [13]))))
  have hfe : f.enc = body ++ [10] := field_enc_split f
  have hbl : body.length + 1 = f.enc.length := by rw [hfe]; simp
  -- the head, split at the LF of line f
  have henc : h.enc = (h.statusLine ++ (encFields pre ++ body)) ++ (10 :: (encFields post ++ [13, 10])) := by
    unfold Head.enc
    rw [hsplit, encFields_append]
    have : encFields (f :: post) = f.enc ++ encFields post := by simp [encFields]
    rw [this, hfe]
    simp [List.append_assoc]
  have hBlen : (h.statusLine ++ (encFields pre ++ body)).length = h.statusLine.length + (encFields pre).length + body.length := by
    simp [List.length_append]; omega
  have hnB : n ≤ (h.statusLine ++ (encFields pre ++ body)).length := by rw [hBlen]; omega
  have htake : h.enc.take n = (h.statusLine ++ (encFields pre ++ body)).take n := by
    rw [henc, List.take_append_of_le_length hnB]
  -- B = statusLine ++ fields pre ++ body of f is itself a strict prefix of the head
  have hBlt : (h.statusLine ++ (encFields pre ++ body)).length < h.enc.length := by
    rw [henc]; simp [List.length_append]
  have hBtake : h.enc.take (h.statusLine ++ (encFields pre ++ body)).length = h.statusLine ++ (encFields pre ++ body) := by
    rw [henc, List.take_left]
  obtain ⟨stB, hstB⟩ := resp_prefix h hw slots hs _ hBlt
  rw [hBtake] at hstB
  -- its completed fields are exactly `pre`
  have hfieldsB : stB.fields = pre.map Field.pair := by
    unfold parseResp at hstB
    rw [run_status h hw slots, runFrom_append] at hstB
    have hpre := run_fields pre hprewf
      { phase := .lineStart, version := some h.ver, code := some h.codeVal, fields := [], slots := slots }
      [] h.statusLine.length (by simp; rw [hsplit] at hs; simp at hs; omega)
    simp only [RState.at, List.append_nil] at hpre
    rw [hpre] at hstB
    simp only [runFrom] at hstB
    have := run_fields_no_lf body _ _ stB (field_body_no_lf f hfwf) hstB
    rw [this]; simp
  -- the prefix in question is a prefix of B
  obtain ⟨st, hst⟩ := resp_prefix h hw slots hs n (by omega)
  refine ⟨st, hst, ?_⟩
  rw [htake] at hst
  have hB2 : h.statusLine ++ (encFields pre ++ body) =
      (h.statusLine ++ (encFields pre ++ body)).take n ++ (h.statusLine ++ (encFields pre ++ body)).drop n :=
    (List.take_append_drop n _).symm
  unfold parseResp at hst hstB
  rw [hB2, runFrom_append, hst] at hstB
  simp only [] at hstB
  obtain ⟨hi, _⟩ := run_more_mono _ _ _ _ (RInv_init slots) hst
  obtain ⟨_, _, _, ⟨t, ht⟩, _⟩ := run_more_mono _ _ _ _ hi hstB
  exact ⟨t, by rw [← hfieldsB, ht]⟩

/-- the partial parser on a prefix that ends before the end of field line `f`: what it reports is made of
    fields of `pre` only -/
theorem partial_before (h : Head) (hw : h.wf) (hs : h.fields.length ≤ 128) (hc : 100 ≤ h.codeVal)
    (hnames : ∀ f ∈ h.fields, f.name.length ≤ 65535)
    (pre : List Field) (f : Field) (post : List Field) (hsplit : h.fields = pre ++ f :: post)
    (n : Nat) (hn : n < h.statusLine.length + (encFields pre).length + f.enc.length) :
    tryParsePartial 128 (h.enc.take n) = .ok none ∨
    ∃ (k0 t : List (Bytes' × Bytes')), pre.map Field.pair = k0 ++ t ∧
      tryParsePartial 128 (h.enc.take n) =
        .ok (some { version := h.ver, status := h.codeVal, fields := fieldsOf (keepNonEmpty k0) }) := by
  have hlt : n < h.enc.length := by
    unfold Head.enc
    rw [hsplit, encFields_append]
    simp [encFields, List.length_append] at hn ⊢
    omega
  obtain ⟨st, hst, t, ht⟩ := prefix_state_bound h hw 128 hs pre f post hsplit n hn
  obtain ⟨st', hst', hv, hcd, _⟩ := prefix_state h hw 128 hs n hlt
  have hsame : st' = st := by rw [hst] at hst'; injection hst' with e; exact e.symm
  subst hsame
  unfold tryParsePartial
  rw [hst]
  simp only []
  unfold partialFinish
  rcases hv with hv | hv
  · left; simp [hv]
  · rcases hcd with hcd | hcd
    · left; simp [hv, hcd]
    · right
      refine ⟨st'.fields, t, ht, ?_⟩
      have h1 : ¬ h.codeVal < 100 := by omega
      have h2 : (keepNonEmpty st'.fields).any (fun f => decide (f.1.length > 65535)) = false := by
        simp only [List.any_eq_false]
        intro x hx
        have hx' : x ∈ pre.map Field.pair := by rw [ht]; exact keep_sub st'.fields t x hx
        obtain ⟨g, hgm, rfl⟩ := List.mem_map.mp hx'
        have := hnames g (by rw [hsplit]; simp [hgm])
        simp [Field.pair]; omega
      simp only [hv, hcd, h1, if_false]
      unfold keepNonEmpty at h2
      simp [h2, keepNonEmpty]

/-- **D10, delimited.** With the partial-redirect fallback present: a prefix of a well-formed head that
    ends before the end of the FIRST `Location` field line (the fields `pre` in front of line `f` carry no
    `Location`) is "need more data" and changes nothing — for every status, 3xx included. So the finding
    D10 lives exactly in the windows that end after a complete `Location` line and before the end of the
    head. -/
theorem call_prefix_before_location (c : CallSt) (h : Head) (hw : h.wf) (hs : h.fields.length ≤ 128)
    (hc : 100 ≤ h.codeVal) (hnames : ∀ f ∈ h.fields, f.name.length ≤ 65535)
    (pre : List Field) (f : Field) (post : List Field) (hsplit : h.fields = pre ++ f :: post)
    (hnoloc : (fieldsOf (pre.map Field.pair)).any (fun x => x.name == "location") = false)
    (n : Nat) (hn : n < h.statusLine.length + (encFields pre).length + f.enc.length) :
    callTryResponse true c (h.enc.take n) = (c, .ok none) := by
  have hlt : n < h.enc.length := by
    unfold Head.enc
    rw [hsplit, encFields_append]
    simp [encFields, List.length_append] at hn ⊢
    omega
  obtain ⟨st, hst⟩ := resp_prefix h hw 128 hs n hlt
  have hfull : tryParseResponse 128 (h.enc.take n) = .ok none := by
    unfold tryParseResponse; rw [hst]
  unfold callTryResponse parseWithFallback
  rw [hfull]
  simp only [Bool.not_true, Bool.false_eq_true, if_false]
  rcases partial_before h hw hs hc hnames pre f post hsplit n hn with hp | ⟨k0, t, hf, hp⟩
  · rw [hp]
  · rw [hp]
    simp only []
    have hany : (fieldsOf (keepNonEmpty k0)).any (fun x => x.name == "location") = false := by
      cases hq : (fieldsOf (keepNonEmpty k0)).any (fun x => x.name == "location") with
      | false => rfl
      | true =>
        rw [List.any_eq_true] at hq
        obtain ⟨y, hy, hqq⟩ := hq
        unfold fieldsOf at hy
        obtain ⟨x, hx, rfl⟩ := List.mem_map.mp hy
        have : (fieldsOf (pre.map Field.pair)).any (fun x => x.name == "location") = true := by
          rw [List.any_eq_true]
          refine ⟨_, ?_, hqq⟩
          unfold fieldsOf
          exact List.mem_map.mpr ⟨x, by rw [hf]; exact keep_sub k0 t x hx, rfl⟩
        rw [hnoloc] at this; cases this
    have : ¬ (300 ≤ h.codeVal ∧ h.codeVal ≤ 399 ∧ (fieldsOf (keepNonEmpty k0)).any (fun x => x.name == "location") = true) := by
      intro hh; rw [hany] at hh; exact absurd hh.2.2 (by simp)
    rw [if_neg (by simpa using this)]
