import Hoot.Proofs.ExchangeAll
import Hoot.Props.C10
import Hoot.Model.Uri

/-! Across a redirect: what `as_new_flow` is given at the end of an exchange — the analysed request, the
    status and the Location the flow remembers — is fixed by the exchange (request `r`, response head `H`),
    not by the schedule it was run under. A parallel invariant over `xRun`; the send stages come from `XInv`. -/

/-- the request the call holds, and what the flow remembers of the last head it handed out -/
def Remembers (r : AReq) (f : Flow) (o : RecvObs) : Prop :=
  f.call.req = r ∧ (o.faults = 0 → ∀ h, o.head = some h → f.location = lastLocation h.fields ∧ f.status = some h.status)

def recvish (s : FState) : Prop := s = .recvResponse ∨ s = .recvBody ∨ s = .redirect ∨ s = .cleanup

theorem read_req (c : CallSt) (w : Bytes) (cap : Nat) : (c.read w cap).1.req = c.req := by
  unfold CallSt.read
  split
  · rfl
  · split
    · rfl
    · split
      · rfl
      · rfl
      · rfl
      · split <;> rfl

theorem tryResponse_req (hack : Bool) (c : CallSt) (w : Bytes) : (callTryResponse hack c w).1.req = c.req := by
  unfold callTryResponse
  split
  · rfl
  · rfl
  · split
    · split <;> rfl
    · split <;> rfl

/-- `proceed` in the two receive states changes neither the request nor what is remembered -/
theorem proceed_recv_frame (hack : Bool) (f : Flow) (h : f.st = .recvResponse ∨ f.st = .recvBody) :
    (f.step hack .proceed).1.call.req = f.call.req ∧ (f.step hack .proceed).1.location = f.location ∧
    (f.step hack .proceed).1.status = f.status := by
  rcases h with h | h
  · rw [flow_step_resp hack f _ h]
    unfold stepRecvResponse
    dsimp only
    split
    · exact ⟨rfl, rfl, rfl⟩
    · exact ⟨rfl, rfl, rfl⟩
    · split
      · split
        · split <;> exact ⟨rfl, rfl, rfl⟩
        · exact ⟨rfl, rfl, rfl⟩
      · exact ⟨rfl, rfl, rfl⟩
  · rw [flow_step_body hack f _ h]
    unfold stepRecvBody
    dsimp only
    split <;> exact ⟨rfl, rfl, rfl⟩

/-- offering bytes in `RecvResponse` -/
theorem resp_frame (hack : Bool) (f : Flow) (w : Bytes) :
    (stepRecvResponse hack f (.resp w)).1.call.req = f.call.req ∧
    (stepRecvResponse hack f (.resp w)).1.st = f.st ∧
    (∀ n rr, (stepRecvResponse hack f (.resp w)).2 = .resp n (some rr) →
       (stepRecvResponse hack f (.resp w)).1.location = lastLocation rr.fields ∧
       (stepRecvResponse hack f (.resp w)).1.status = some rr.status) ∧
    (∀ n, (stepRecvResponse hack f (.resp w)).2 = .resp n none →
       (stepRecvResponse hack f (.resp w)).1.location = f.location ∧
       (stepRecvResponse hack f (.resp w)).1.status = f.status) := by
  have hreq := tryResponse_req hack f.call w
  unfold stepRecvResponse
  dsimp only
  split
  · exact ⟨rfl, rfl, (fun _ _ h => by cases h), (fun _ h => by cases h)⟩
  · generalize hq : callTryResponse hack f.call w = q at hreq
    obtain ⟨c1, res⟩ := q
    dsimp only at hreq ⊢
    cases res with
    | error e => exact ⟨hreq, rfl, (fun _ _ h => by cases h), (fun _ h => by cases h)⟩
    | ok v =>
      cases v with
      | none =>
        refine ⟨hreq, rfl, ?_, ?_⟩
        · intro _ _ h; cases h
        · intro _ _; exact ⟨rfl, rfl⟩
      | some p =>
        obtain ⟨used, r⟩ := p
        dsimp only
        split
        · refine ⟨hreq, rfl, ?_, ?_⟩
          · intro _ _ h; cases h
          · intro _ _; exact ⟨rfl, rfl⟩
        · split
          · split
            · exact ⟨hreq, rfl, (fun _ _ h => by cases h), (fun _ h => by cases h)⟩
            · refine ⟨hreq, rfl, ?_, ?_⟩
              · intro _ _ h; injection h with _ h2; injection h2 with h3; subst h3; exact ⟨rfl, rfl⟩
              · intro _ h; cases h
          · refine ⟨hreq, rfl, ?_, ?_⟩
            · intro _ _ h; injection h with _ h2; injection h2 with h3; subst h3; exact ⟨rfl, rfl⟩
            · intro _ h; cases h

/-- a body read -/
theorem bread_frame (f : Flow) (w : Bytes) (cap : Nat) :
    (stepRecvBody f (.bread w cap)).1.call.req = f.call.req ∧ (stepRecvBody f (.bread w cap)).1.st = f.st ∧
    (stepRecvBody f (.bread w cap)).1.location = f.location ∧ (stepRecvBody f (.bread w cap)).1.status = f.status := by
  have hreq := read_req f.call w cap
  unfold stepRecvBody
  dsimp only
  split
  · exact ⟨rfl, rfl, rfl, rfl⟩
  · generalize hq : f.call.read w cap = q at hreq
    obtain ⟨c, res⟩ := q
    cases res with
    | error e => exact ⟨hreq, rfl, rfl, rfl⟩
    | ok v => obtain ⟨i, o⟩ := v; exact ⟨hreq, rfl, rfl, rfl⟩

/-- one turn of the caller's receive loop keeps what the flow remembers in step with what the caller was told -/
theorem recvStep_remembers (hack : Bool) (stream : Bytes) (r : AReq) (f : Flow) (o : RecvObs) (s : IoStep)
    (h : Remembers r f o) :
    Remembers r (recvStep hack stream (f, o) s).1 (recvStep hack stream (f, o) s).2 := by
  obtain ⟨hreq, hloc⟩ := h
  unfold recvStep
  dsimp only
  split
  · -- RecvResponse
    rename_i hst
    rw [flow_step_resp hack f _ hst]
    obtain ⟨h1, h2, h3, h4⟩ := resp_frame hack f ((stream.drop o.consumed).take s.m)
    generalize hq : stepRecvResponse hack f (.resp ((stream.drop o.consumed).take s.m)) = q at h1 h2 h3 h4
    obtain ⟨f1, res⟩ := q
    dsimp only at h1 h2 h3 h4
    split
    · rename_i f1' n rr heq
      injection heq with e1 e2
      subst e1
      obtain ⟨hl, hs⟩ := h3 n rr e2
      obtain ⟨p1, p2, p3⟩ := proceed_recv_frame hack f1 (Or.inl (by rw [h2]; exact hst))
      refine ⟨by rw [p1, h1]; exact hreq, ?_⟩
      intro _ hh hhe
      injection hhe with hhe
      subst hhe
      exact ⟨by rw [p2]; exact hl, by rw [p3]; exact hs⟩
    · rename_i f1' n heq
      injection heq with e1 e2
      subst e1
      obtain ⟨hl, hs⟩ := h4 n e2
      refine ⟨by rw [h1]; exact hreq, ?_⟩
      intro hf hh hhe
      obtain ⟨a, b⟩ := hloc hf hh hhe
      exact ⟨by rw [hl]; exact a, by rw [hs]; exact b⟩
    · rename_i f1' _ _ _ heq
      injection heq with e1 e2
      subst e1
      refine ⟨by rw [h1]; exact hreq, ?_⟩
      intro hf
      exact absurd hf (by show o.faults + 1 ≠ 0; omega)
  · -- RecvBody
    rename_i hst
    rw [flow_step_body hack f _ hst]
    obtain ⟨h1, h2, h3, h4⟩ := bread_frame f ((stream.drop o.consumed).take s.m) s.cap
    generalize hq : stepRecvBody f (.bread ((stream.drop o.consumed).take s.m) s.cap) = q at h1 h2 h3 h4
    obtain ⟨f1, res⟩ := q
    dsimp only at h1 h2 h3 h4
    split
    · rename_i f1' n out heq
      injection heq with e1 e2
      subst e1
      obtain ⟨p1, p2, p3⟩ := proceed_recv_frame hack f1 (Or.inr (by rw [h2]; exact hst))
      split
      · refine ⟨by rw [p1, h1]; exact hreq, ?_⟩
        intro hf hh hhe
        obtain ⟨a, b⟩ := hloc hf hh hhe
        exact ⟨by rw [p2, h3]; exact a, by rw [p3, h4]; exact b⟩
      · refine ⟨by rw [h1]; exact hreq, ?_⟩
        intro hf hh hhe
        obtain ⟨a, b⟩ := hloc hf hh hhe
        exact ⟨by rw [h3]; exact a, by rw [h4]; exact b⟩
    · rename_i f1' _ _ _ heq
      injection heq with e1 e2
      subst e1
      refine ⟨by rw [h1]; exact hreq, ?_⟩
      intro hf
      exact absurd hf (by show o.faults + 1 ≠ 0; omega)
  · exact ⟨hreq, hloc⟩

theorem recvish_not_send {s : FState} (h : recvish s) : s ≠ .prepare ∧ s ≠ .sendRequest ∧ s ≠ .sendBody ∧ s ≠ .await100 := by
  rcases h with h | h | h | h <;> (rw [h]; exact ⟨by simp, by simp, by simp, by simp⟩)

theorem read100_st (f : Flow) (w : Bytes) : (stepAwait100 f (.read100 w)).1.st = f.st := by
  unfold stepAwait100 refuse100
  dsimp only
  split
  · rfl
  · split
    · split <;> rfl
    · split <;> rfl
  · split
    · split <;> rfl
    · rfl

theorem pend_head (f0 : Flow) (pre : Bytes) (aw : Bool) (o : RecvObs) (h : Pend f0 pre aw o) : o.head = none := by
  rcases h with ⟨_, _, h⟩ | ⟨_, h⟩ <;> rw [h] <;> rfl

/-- one turn of the caller's loop: whenever the flow stands on the receive side, it holds the analysed request
    and remembers the head that was handed out -/
theorem x_step_remembers (hack : Bool) (f0 : Flow) (r : AReq) (wr0 : BodyWriter) (P : Bytes) (I H : Head) (b0 : BPos) (tail pre : Bytes)
    (X : XSetup hack f0 r wr0 P I H b0 pre) (x : Flow × SendObs × RecvObs) (s : IoStep)
    (h : XInv hack f0 r wr0 P H b0 tail pre x) (hK : recvish x.1.st → Remembers r x.1 x.2.2) :
    recvish (xStep hack P (pre ++ (H.enc ++ b0.enc ++ tail)) x s).1.st →
      Remembers r (xStep hack P (pre ++ (H.enc ++ b0.enc ++ tail)) x s).1 (xStep hack P (pre ++ (H.enc ++ b0.enc ++ tail)) x s).2.2 := by
  obtain ⟨f, so, o⟩ := x
  have fromD : ∀ (g : Flow) (go : SendObs), SendD f0 r wr0 P g go → o.head = none → Remembers r g o := by
    intro g go hD hh
    exact ⟨hD.2.2.2.1, fun _ h hhe => by rw [hh] at hhe; cases hhe⟩
  have recvCase : (f.st = .recvResponse ∨ f.st = .recvBody) →
      recvish (xStep hack P (pre ++ (H.enc ++ b0.enc ++ tail)) (f, so, o) s).1.st →
      Remembers r (xStep hack P (pre ++ (H.enc ++ b0.enc ++ tail)) (f, so, o) s).1 (xStep hack P (pre ++ (H.enc ++ b0.enc ++ tail)) (f, so, o) s).2.2 := by
    intro hst _
    have hx : xStep hack P (pre ++ (H.enc ++ b0.enc ++ tail)) (f, so, o) s =
        ((recvStep hack (pre ++ (H.enc ++ b0.enc ++ tail)) (f, o) s).1, so, (recvStep hack (pre ++ (H.enc ++ b0.enc ++ tail)) (f, o) s).2) := by
      unfold xStep; rcases hst with e | e <;> simp [e]
    rw [hx]
    exact recvStep_remembers hack _ r f o s (hK (by rcases hst with e | e; exact Or.inl e; exact Or.inr (Or.inl e)))
  rcases h with ⟨hAB, ho⟩ | ⟨hst, h0, hA, hp⟩ | ⟨hC, hp⟩ | ⟨hst, hh, haw, h0, ho, hnd, hreq, hspec, hoff⟩ | ⟨hw, hoff, f1, o', S, hsh, hri⟩
  · dsimp only at hAB ho
    have hst : f.st = .prepare ∨ f.st = .sendRequest := by
      rcases hAB with hA | hB
      · left; rw [hA.1]; exact X.send.hst
      · right; exact hB.1
    have hx : xStep hack P (pre ++ (H.enc ++ b0.enc ++ tail)) (f, so, o) s =
        ((sendStep hack P (f, so) s).1, (sendStep hack P (f, so) s).2, o) := by
      unfold xStep; rcases hst with e | e <;> simp [e]
    rw [hx]
    intro hrv
    have hns := recvish_not_send hrv
    rcases hAB with hA | hB
    · exact absurd (send_step_A hack f0 r wr0 P X.send f so s hA).1 hns.2.1
    · rcases send_step_B hack f0 r wr0 P X.send f so s hB with hB | ⟨hC, _, _⟩ | ⟨hD, _⟩ | ⟨h1, _, _, _⟩
      · exact absurd hB.1.1 hns.2.1
      · exact absurd hC.1 hns.2.2.1
      · exact fromD _ _ hD (by rw [ho])
      · exact absurd h1 hns.2.2.2
  · dsimp only at hst h0 hA hp
    intro hrv
    have hns := recvish_not_send hrv
    exfalso
    revert hns
    unfold xStep
    simp only [hst]
    by_cases hgo : (!f.await100 || s.giveUp) = true
    · simp only [hgo, if_true]
      rw [flow_step_await hack f _ hst]
      have hpr : stepAwait100 f .proceed = enterSendBody f := by
        unfold stepAwait100; simp [hA.2.1]
      rw [hpr, (enter_body_inv f0 r wr0 P f so hA).1]
      intro hns
      exact hns.2.2.1 rfl
    · simp only [hgo, Bool.false_eq_true, if_false]
      rw [flow_step_await hack f _ hst]
      have h1 := read100_st f (((pre ++ (H.enc ++ b0.enc ++ tail)).drop o.consumed).take s.m)
      generalize stepAwait100 f (.read100 (((pre ++ (H.enc ++ b0.enc ++ tail)).drop o.consumed).take s.m)) = q at h1
      obtain ⟨f1, res⟩ := q
      dsimp only at h1
      intro hns
      split at hns
      · rename_i f1' _ heq
        injection heq with e1 _
        exact hns.2.2.2 (by show f1'.st = .await100; rw [← e1, h1]; exact hst)
      · rename_i f1' _ _ heq
        injection heq with e1 _
        exact hns.2.2.2 (by show f1'.st = .await100; rw [← e1, h1]; exact hst)
  · dsimp only at hC hp
    have hx : xStep hack P (pre ++ (H.enc ++ b0.enc ++ tail)) (f, so, o) s =
        ((sendStep hack P (f, so) s).1, (sendStep hack P (f, so) s).2, o) := by
      unfold xStep; simp [hC.1]
    rw [hx]
    intro hrv
    have hns := recvish_not_send hrv
    obtain ⟨hcase, _⟩ := send_step_C hack f0 r wr0 P f so s hC
    rcases hcase with hC' | hD'
    · exact absurd hC'.1.1 hns.2.2.1
    · exact fromD _ _ hD' (pend_head f0 pre _ o hp)
  · exact recvCase (Or.inl hst)
  · dsimp only at hri
    obtain ⟨_, _, hA | hB | hC⟩ := hri
    · exact recvCase (Or.inl (by rw [hA.1]; exact S.hst))
    · obtain ⟨b, _, hst, _⟩ := hB
      exact recvCase (Or.inr hst)
    · have hd : recvDone f = true := terminal_done H f hC.1
      have hx : xStep hack P (pre ++ (H.enc ++ b0.enc ++ tail)) (f, so, o) s = (f, so, o) := by
        have hs : f.st = .redirect ∨ f.st = .cleanup := by
          rw [hC.1]; unfold terminalSt; split <;> simp
        unfold xStep; rcases hs with e | e <;> simp [e]
      rw [hx]
      exact hK

theorem x_run_remembers (hack : Bool) (f0 : Flow) (r : AReq) (wr0 : BodyWriter) (P : Bytes) (I H : Head) (b0 : BPos) (tail pre : Bytes)
    (X : XSetup hack f0 r wr0 P I H b0 pre) (htail : b0.isClose = true → tail = []) (σ : List IoStep)
    (hσ : ∀ s ∈ σ, H.safeWin hack s.m) :
    recvish (xRun hack P (pre ++ (H.enc ++ b0.enc ++ tail)) f0 σ).1.st →
      Remembers r (xRun hack P (pre ++ (H.enc ++ b0.enc ++ tail)) f0 σ).1 (xRun hack P (pre ++ (H.enc ++ b0.enc ++ tail)) f0 σ).2.2 := by
  unfold xRun
  have gen : ∀ (σ : List IoStep), (∀ s ∈ σ, H.safeWin hack s.m) → ∀ (x : Flow × SendObs × RecvObs),
      XInv hack f0 r wr0 P H b0 tail pre x → (recvish x.1.st → Remembers r x.1 x.2.2) →
      (recvish (σ.foldl (xStep hack P (pre ++ (H.enc ++ b0.enc ++ tail))) x).1.st →
        Remembers r (σ.foldl (xStep hack P (pre ++ (H.enc ++ b0.enc ++ tail))) x).1 (σ.foldl (xStep hack P (pre ++ (H.enc ++ b0.enc ++ tail))) x).2.2) := by
    intro σ
    induction σ with
    | nil => intro _ x _ hk; exact hk
    | cons s rest ih =>
      intro hσ x hx hk
      rw [List.foldl_cons]
      exact ih (fun t ht => hσ t (by simp [ht])) _
        (x_step_inv hack f0 r wr0 P I H b0 tail pre X htail x s hx (hσ s (by simp)))
        (x_step_remembers hack f0 r wr0 P I H b0 tail pre X x s hx hk)
  refine gen σ hσ _ (Or.inl ⟨Or.inl ⟨rfl, rfl⟩, rfl⟩) ?_
  intro hrv
  exact absurd X.send.hst (recvish_not_send hrv).1

/-- what `as_new_flow` answers, as a function of the three things it reads off the flow -/
def followRes (req : AReq) (location : Option Bytes) (status : Option Nat) (sameHost : Bool) : FollowRes :=
  match location with
  | none => .fault (.api .noLocationHeader)
  | some locB =>
    match toStr? locB with
    | none => .fault (.api .badLocationHeader)
    | some loc =>
      if req.taken then .fault (.panic "amended.rs take_request / base uri") else
      match status with
      | none => .fault (.panic "flow.rs status unwrap")
      | some status =>
        match resolve req.effUri (String.ofList (loc.map fun b => Char.ofNat b.toNat)) with
        | .outOfClass => .outOfClass
        | .err => .fault (.api .badLocationHeader)
        | .ok uri =>
          match newMethodOf req.method status with
          | none => .none
          | some nm => .flow (followFlow req nm uri sameHost)

theorem asNewFlow_res (f : Flow) (sameHost : Bool) :
    (f.asNewFlow sameHost).2 = followRes f.call.req f.location f.status sameHost := by
  unfold Flow.asNewFlow followRes
  generalize f.location = L
  cases L with
  | none => rfl
  | some locB =>
    dsimp only
    generalize toStr? locB = T
    cases T with
    | none => rfl
    | some loc =>
      dsimp only
      by_cases ht : f.call.req.taken = true
      · simp only [ht, if_true]
      · simp only [ht, Bool.false_eq_true, if_false]
        generalize f.status = S
        cases S with
        | none => rfl
        | some st =>
          dsimp only
          generalize resolve f.call.req.effUri (String.ofList (loc.map fun b => Char.ofNat b.toNat)) = R
          cases R with
          | outOfClass => rfl
          | err => rfl
          | ok uri =>
            dsimp only
            generalize newMethodOf f.call.req.method st = M
            cases M <;> rfl



/-! The connection-reuse verdict at the end of a whole exchange (C10 composed with C01): a parallel invariant
    over `xRun` for the recorded close reasons. -/

/-- the reasons a complete exchange leaves recorded: the initial ones (HTTP/1.0, `Connection: close` on the
    request), `Connection: close` on the response, a close-delimited body — nothing else -/
def ReasonsSpec (f0 : Flow) (H : Head) (b0 : BPos) (l : List CloseReason) : Prop :=
  l.Nodup ∧ ∀ c, c ∈ l ↔ c ∈ f0.closeReasons ∨
    (c = .serverClose ∧ hasHdr H.parsed.fields "connection" "close" = true) ∨ (c = .closeDelimited ∧ b0.isClose = true)

theorem step_resp_full_reasons (hack : Bool) (H : Head) (b0 : BPos) (f0 : Flow) (S : RecvSetup hack H b0 f0) (rest : Bytes) :
    (stepRecvResponse hack f0 (.resp (H.enc ++ rest))).1.closeReasons =
      if hasHdr H.parsed.fields "connection" "close" then (pushReason f0.closeReasons .serverClose).1 else f0.closeReasons := by
  unfold stepRecvResponse
  have hne : (f0.holder != Holder.recvResponse) = false := by simp [S.hh]
  simp only [hne, Bool.false_eq_true, if_false]
  rw [call_head_full hack H b0 f0 S rest]
  have h1 : (H.parsed.status == 100 && f0.await100) = false := by
    have : (H.parsed.status == 100) = false := by simpa [Head.parsed] using S.resp.h100
    simp [this]
  simp only [h1, Bool.false_eq_true, if_false]
  by_cases hcl : hasHdr H.parsed.fields "connection" "close" = true
  · simp only [hcl, if_true]
    have hp := pushReason_ok f0.closeReasons .serverClose S.hnd
    rcases hq : pushReason f0.closeReasons .serverClose with ⟨l, pr⟩
    rw [hq] at hp
    obtain ⟨hpr, hl⟩ := hp
    dsimp only at hpr hl
    subst hpr
    rfl
  · simp only [hcl, Bool.false_eq_true, if_false]

theorem isClose_needBody (b0 : BPos) (h : b0.isClose = true) : needResponseBody (some b0.reader) = true := by
  cases b0 <;> simp [BPos.isClose] at h
  rfl

/-- the turn of the loop that takes the head: afterwards exactly the specified reasons are recorded -/
theorem recvStep_head_full_reasons (hack : Bool) (H : Head) (b0 : BPos) (tail : Bytes) (f0 : Flow) (S : RecvSetup hack H b0 f0)
    (s : IoStep) (hm : H.enc.length ≤ s.m) :
    ReasonsSpec f0 H b0 (recvStep hack (H.enc ++ b0.enc ++ tail) (f0, {}) s).1.closeReasons := by
  unfold recvStep
  simp only [S.hst]
  rw [flow_step_resp hack f0 _ S.hst]
  have hw : ((H.enc ++ b0.enc ++ tail).drop ({} : RecvObs).consumed).take s.m = H.enc ++ (b0.enc ++ tail).take (s.m - H.enc.length) := by
    show ((H.enc ++ b0.enc ++ tail).drop 0).take s.m = _
    rw [List.drop_zero, List.append_assoc, List.take_append, List.take_of_length_le hm]
  rw [hw]
  obtain ⟨f1, hstep, h1st, h1h, h1r, h1s, h1c⟩ := step_resp_full hack H b0 f0 S ((b0.enc ++ tail).take (s.m - H.enc.length))
  have hcr1 := step_resp_full_reasons hack H b0 f0 S ((b0.enc ++ tail).take (s.m - H.enc.length))
  rw [hstep] at hcr1
  dsimp only at hcr1
  rw [hstep]
  dsimp only
  rw [flow_step_resp hack f1 _ h1st]
  have hcp : f1.canProceed = .ok true := by unfold Flow.canProceed; simp [h1st, h1h, h1r]
  have key : (stepRecvResponse hack f1 .proceed).1.closeReasons =
      if b0.isClose then (pushReason f1.closeReasons .closeDelimited).1 else f1.closeReasons := by
    unfold stepRecvResponse
    simp only [hcp, h1r, reader_is_close]
    cases hcl : b0.isClose with
    | true =>
      simp only [isClose_needBody b0 hcl, if_true]
      have hp := pushReason_ok f1.closeReasons .closeDelimited h1c
      rcases hq : pushReason f1.closeReasons .closeDelimited with ⟨l, pr⟩
      rw [hq] at hp
      obtain ⟨hpr, _⟩ := hp
      dsimp only at hpr
      subst hpr
      rfl
    | false =>
      simp only [Bool.false_eq_true, if_false]
      split <;> rfl
  have m1 : f1.closeReasons.Nodup ∧ ∀ c, c ∈ f1.closeReasons ↔ c ∈ f0.closeReasons ∨ (c = .serverClose ∧ hasHdr H.parsed.fields "connection" "close" = true) := by
    refine ⟨h1c, fun c => ?_⟩
    rw [hcr1]
    by_cases hcl : hasHdr H.parsed.fields "connection" "close" = true
    · simp only [hcl, if_true, and_true]
      exact pushReason_mem_iff f0.closeReasons .serverClose c S.hnd
    · simp [hcl]
  show ReasonsSpec f0 H b0 (stepRecvResponse hack f1 .proceed).1.closeReasons
  rw [key]
  unfold ReasonsSpec
  cases hcl : b0.isClose with
  | true =>
    simp only [if_true]
    refine ⟨(pushReason_ok f1.closeReasons .closeDelimited h1c).2, fun c => ?_⟩
    rw [pushReason_mem_iff f1.closeReasons .closeDelimited c h1c, m1.2 c]
    simp [or_assoc]
  | false =>
    simp only [Bool.false_eq_true, if_false]
    refine ⟨h1c, fun c => ?_⟩
    rw [m1.2 c]
    simp

theorem bread_reasons (f : Flow) (w : Bytes) (cap : Nat) :
    (stepRecvBody f (.bread w cap)).1.closeReasons = f.closeReasons := by
  unfold stepRecvBody
  dsimp only
  split
  · rfl
  · split <;> rfl

theorem proceed_body_reasons (f : Flow) : (stepRecvBody f .proceed).1.closeReasons = f.closeReasons := by
  unfold stepRecvBody
  dsimp only
  split <;> rfl

/-- in the body state a turn of the loop records nothing and hands out no head -/
theorem recvStep_body_reasons (hack : Bool) (stream : Bytes) (f : Flow) (o : RecvObs) (s : IoStep) (hst : f.st = .recvBody) :
    (recvStep hack stream (f, o) s).1.closeReasons = f.closeReasons ∧ (recvStep hack stream (f, o) s).2.head = o.head := by
  unfold recvStep
  simp only [hst]
  rw [flow_step_body hack f _ hst]
  have h1 := bread_reasons f ((stream.drop o.consumed).take s.m) s.cap
  have h2 := (bread_frame f ((stream.drop o.consumed).take s.m) s.cap).2.1
  generalize stepRecvBody f (.bread ((stream.drop o.consumed).take s.m) s.cap) = q at h1 h2
  obtain ⟨f1, res⟩ := q
  dsimp only at h1 h2
  cases res with
  | bytes n out =>
    dsimp only
    split
    · rw [flow_step_body hack f1 _ (by rw [h2]; exact hst), proceed_body_reasons, h1]; exact ⟨rfl, rfl⟩
    · exact ⟨h1, rfl⟩
  | _ => exact ⟨h1, rfl⟩

/-- on the send side of `XInv` the recorded reasons are the initial ones and no head has been handed out -/
theorem xinv_send_reasons (hack : Bool) (f0 : Flow) (r : AReq) (wr0 : BodyWriter) (P : Bytes) (H : Head) (b0 : BPos) (tail pre : Bytes)
    (x : Flow × SendObs × RecvObs)
    (h : XInv hack f0 r wr0 P H b0 tail pre x)
    (hs : x.1.st = .prepare ∨ x.1.st = .sendRequest ∨ x.1.st = .await100 ∨ x.1.st = .sendBody) :
    x.1.closeReasons = f0.closeReasons ∧ x.2.2.head = none := by
  obtain ⟨f, so, o⟩ := x
  rcases h with ⟨hAB, ho⟩ | ⟨hst, h0, hA, hp⟩ | ⟨hC, hp⟩ | ⟨hst, _⟩ | ⟨hw, hoff, f1, o', S, hsh, hri⟩
  · dsimp only at hAB ho
    refine ⟨?_, by rw [ho]⟩
    rcases hAB with hA | hB
    · show f.closeReasons = _; rw [hA.1]
    · exact hB.2.2.2.1
  · exact ⟨hA.2.2.1, pend_head f0 pre _ o hp⟩
  · exact ⟨hC.2.2.1, pend_head f0 pre _ o hp⟩
  · dsimp only at hst hs
    rw [hst] at hs
    rcases hs with h | h | h | h <;> cases h
  · dsimp only at hri hs
    obtain ⟨_, _, hA | hB | hC⟩ := hri
    · rw [hA.1, S.hst] at hs
      rcases hs with h | h | h | h <;> cases h
    · obtain ⟨b, _, hst, _⟩ := hB
      rw [hst] at hs
      rcases hs with h | h | h | h <;> cases h
    · rw [hC.1] at hs
      unfold terminalSt at hs
      split at hs <;> (rcases hs with h | h | h | h <;> cases h)

def XReasons (f0 : Flow) (H : Head) (b0 : BPos) (x : Flow × SendObs × RecvObs) : Prop :=
  (x.2.2.head = none → x.1.closeReasons = f0.closeReasons) ∧ (x.2.2.head ≠ none → ReasonsSpec f0 H b0 x.1.closeReasons)

theorem xreasons_of_send (f0 : Flow) (H : Head) (b0 : BPos) (x : Flow × SendObs × RecvObs)
    (h : x.1.closeReasons = f0.closeReasons ∧ x.2.2.head = none) : XReasons f0 H b0 x :=
  ⟨fun _ => h.1, fun hn => absurd h.2 hn⟩

theorem x_step_reasons (hack : Bool) (f0 : Flow) (r : AReq) (wr0 : BodyWriter) (P : Bytes) (I H : Head) (b0 : BPos) (tail pre : Bytes)
    (X : XSetup hack f0 r wr0 P I H b0 pre) (htail : b0.isClose = true → tail = []) (x : Flow × SendObs × RecvObs) (s : IoStep)
    (h : XInv hack f0 r wr0 P H b0 tail pre x) (hsw : H.safeWin hack s.m) (hK : XReasons f0 H b0 x) :
    XReasons f0 H b0 (xStep hack P (pre ++ (H.enc ++ b0.enc ++ tail)) x s) := by
  have hnext := x_step_inv hack f0 r wr0 P I H b0 tail pre X htail x s h hsw
  obtain ⟨f, so, o⟩ := x
  rcases h with ⟨hAB, ho⟩ | ⟨hst, h0, hA, hp⟩ | ⟨hC, hp⟩ | ⟨hst, hh, haw, h0, ho, hnd, hreq, hspec, hoff⟩ | ⟨hw, hoff, f1, o', S, hsh, hri⟩
  · -- Prepare / SendRequest
    dsimp only at hAB ho
    have hst : f.st = .prepare ∨ f.st = .sendRequest := by
      rcases hAB with hA | hB
      · left; rw [hA.1]; exact X.send.hst
      · right; exact hB.1
    have hx : xStep hack P (pre ++ (H.enc ++ b0.enc ++ tail)) (f, so, o) s =
        ((sendStep hack P (f, so) s).1, (sendStep hack P (f, so) s).2, o) := by
      unfold xStep; rcases hst with e | e <;> simp [e]
    rw [hx]
    apply xreasons_of_send
    refine ⟨?_, by show o.head = none; rw [ho]⟩
    rcases hAB with hA | hB
    · exact (send_step_A hack f0 r wr0 P X.send f so s hA).2.2.2.1
    · rcases send_step_B hack f0 r wr0 P X.send f so s hB with hB | ⟨hC, _, _⟩ | ⟨hD, _⟩ | ⟨_, _, _, h4⟩
      · exact hB.1.2.2.2.1
      · exact hC.2.2.1
      · exact hD.2.2.1
      · exact h4.2.2.1
  · -- Await100: the flow stays there or enters SendBody
    dsimp only at hst h0 hA hp
    apply xreasons_of_send
    apply xinv_send_reasons hack f0 r wr0 P H b0 tail pre _ hnext
    unfold xStep
    simp only [hst]
    by_cases hgo : (!f.await100 || s.giveUp) = true
    · simp only [hgo, if_true]
      rw [flow_step_await hack f _ hst]
      have hpr : stepAwait100 f .proceed = enterSendBody f := by
        unfold stepAwait100; simp [hA.2.1]
      rw [hpr, (enter_body_inv f0 r wr0 P f so hA).1]
      exact Or.inr (Or.inr (Or.inr rfl))
    · simp only [hgo, Bool.false_eq_true, if_false]
      rw [flow_step_await hack f _ hst]
      have h1 := read100_st f (((pre ++ (H.enc ++ b0.enc ++ tail)).drop o.consumed).take s.m)
      generalize stepAwait100 f (.read100 (((pre ++ (H.enc ++ b0.enc ++ tail)).drop o.consumed).take s.m)) = q at h1
      obtain ⟨f1, res⟩ := q
      dsimp only at h1
      refine Or.inr (Or.inr (Or.inl ?_))
      split
      · rename_i f1' _ heq
        injection heq with e1 _
        show f1'.st = .await100; rw [← e1, h1]; exact hst
      · rename_i f1' _ _ heq
        injection heq with e1 _
        show f1'.st = .await100; rw [← e1, h1]; exact hst
  · -- SendBody
    dsimp only at hC hp
    have hx : xStep hack P (pre ++ (H.enc ++ b0.enc ++ tail)) (f, so, o) s =
        ((sendStep hack P (f, so) s).1, (sendStep hack P (f, so) s).2, o) := by
      unfold xStep; simp [hC.1]
    rw [hx]
    apply xreasons_of_send
    refine ⟨?_, pend_head f0 pre _ o hp⟩
    obtain ⟨hcase, _⟩ := send_step_C hack f0 r wr0 P f so s hC
    rcases hcase with hC' | hD'
    · exact hC'.1.2.2.1
    · exact hD'.2.2.1
  · -- RecvResponse with the interim 100 still to come: the flow changes at most its await flag
    dsimp only at hst hh haw h0 ho hnd hreq hspec hoff
    have hcr : f.closeReasons = f0.closeReasons := hK.1 (by show o.head = none; rw [ho])
    have hpreI : pre = I.enc := by
      rcases X.hpre with ⟨_, h⟩ | ⟨h, _⟩
      · exact h
      · rw [h0] at h; cases h
    have hx : xStep hack P (pre ++ (H.enc ++ b0.enc ++ tail)) (f, so, o) s =
        ((recvStep hack (pre ++ (H.enc ++ b0.enc ++ tail)) (f, o) s).1, so, (recvStep hack (pre ++ (H.enc ++ b0.enc ++ tail)) (f, o) s).2) := by
      unfold xStep; simp [hst]
    rw [hx, ho]
    unfold recvStep
    simp only [hst]
    rw [flow_step_resp hack f _ hst]
    have hwin : ((pre ++ (H.enc ++ b0.enc ++ tail)).drop ({} : RecvObs).consumed).take s.m =
        (I.enc ++ (H.enc ++ b0.enc ++ tail)).take s.m := by
      show ((pre ++ (H.enc ++ b0.enc ++ tail)).drop 0).take s.m = _
      rw [List.drop_zero, hpreI]
    rw [hwin]
    by_cases hm : s.m < I.enc.length
    · rw [List.take_append_of_le_length (by omega)]
      have hI : stepRecvResponse hack f (.resp (I.enc.take s.m)) = (f, .resp 0 none) := by
        have hcall : callTryResponse hack f.call (I.enc.take s.m) = (f.call, .ok none) := by
          have hn : I.namesShort := by intro g hg; rw [X.int.hf] at hg; cases hg
          cases hack with
          | false => exact C05_call_prefix_nohack f.call I X.int.hw (by rw [X.int.hf]; simp) s.m hm
          | true =>
            have h3 : ¬ (300 ≤ I.codeVal ∧ I.codeVal ≤ 399) := by rw [X.int.hc]; omega
            exact C05_call_prefix_partial f.call I X.int.hw (by rw [X.int.hf]; simp) (by rw [X.int.hc]; omega) hn (Or.inl h3) s.m hm
        unfold stepRecvResponse
        simp [hh, hcall]
        cases f; simp_all
      rw [hI]
      exact xreasons_of_send f0 H b0 _ ⟨hcr, rfl⟩
    · rw [List.take_append, List.take_of_length_le (by omega),
        C11_late hack f hh haw I X.int.hw X.int.hf X.int.hc]
      exact xreasons_of_send f0 H b0 _ ⟨hcr, rfl⟩
  · -- the receive side proper
    dsimp only at hw hoff hsh hri
    have hstates : f.st = .recvResponse ∨ f.st = .recvBody ∨ f.st = .redirect ∨ f.st = .cleanup := by
      obtain ⟨_, _, hA | hB | hC⟩ := hri
      · left; rw [hA.1]; exact S.hst
      · obtain ⟨b, _, hst, _⟩ := hB; right; left; exact hst
      · right; right; rw [hC.1]; unfold terminalSt; split <;> simp
    have hx : xStep hack P (pre ++ (H.enc ++ b0.enc ++ tail)) (f, so, o) s =
        ((recvStep hack (pre ++ (H.enc ++ b0.enc ++ tail)) (f, o) s).1, so, (recvStep hack (pre ++ (H.enc ++ b0.enc ++ tail)) (f, o) s).2) := by
      unfold xStep
      rcases hstates with e | e | e | e <;> simp [e]
      · rw [recvStep_done hack _ (f, o) s (by simp [recvDone, e])]; exact ⟨rfl, rfl⟩
      · rw [recvStep_done hack _ (f, o) s (by simp [recvDone, e])]; exact ⟨rfl, rfl⟩
    rw [hx]
    obtain ⟨_, _, hA | hB | hC⟩ := hri
    · -- the head is still to come
      obtain ⟨rfl, rfl⟩ := hA
      have ho : o = ({} : RecvObs).shift pre.length := hsh
      have hcr : f.closeReasons = f0.closeReasons := hK.1 (by show o.head = none; rw [ho]; rfl)
      rw [ho, recvStep_shift]
      by_cases hm : s.m < H.enc.length
      · rw [recvStep_head_prefix hack H b0 tail f S s hm hsw]
        exact xreasons_of_send f0 H b0 _ ⟨hcr, rfl⟩
      · have hspec' := recvStep_head_full_reasons hack H b0 tail f S s (by omega)
        obtain ⟨f2, hstep, _⟩ := recvStep_head_full hack H b0 tail f S s (by omega)
        rw [hstep] at hspec' ⊢
        refine ⟨(fun hn => by cases hn), fun _ => ?_⟩
        show ReasonsSpec f0 H b0 f2.closeReasons
        unfold ReasonsSpec at hspec' ⊢
        rw [← hcr]
        exact hspec'
    · obtain ⟨b, _, hst, _, _, _, _, _, hhead, _⟩ := hB
      obtain ⟨h1, h2⟩ := recvStep_body_reasons hack (pre ++ (H.enc ++ b0.enc ++ tail)) f o s hst
      have hoh : o.head ≠ none := by rw [hsh]; show o'.head ≠ none; rw [hhead]; simp
      refine ⟨fun hn => absurd (by rw [← h2]; exact hn) hoh, fun _ => ?_⟩
      show ReasonsSpec f0 H b0 (recvStep hack (pre ++ (H.enc ++ b0.enc ++ tail)) (f, o) s).1.closeReasons
      rw [h1]
      exact hK.2 hoh
    · have hd : recvDone f = true := terminal_done H f hC.1
      rw [recvStep_done hack _ (f, o) s hd]
      exact hK

theorem x_run_reasons (hack : Bool) (f0 : Flow) (r : AReq) (wr0 : BodyWriter) (P : Bytes) (I H : Head) (b0 : BPos) (tail pre : Bytes)
    (X : XSetup hack f0 r wr0 P I H b0 pre) (htail : b0.isClose = true → tail = []) (σ : List IoStep)
    (hσ : ∀ s ∈ σ, H.safeWin hack s.m) :
    XReasons f0 H b0 (xRun hack P (pre ++ (H.enc ++ b0.enc ++ tail)) f0 σ) := by
  unfold xRun
  have gen : ∀ (σ : List IoStep), (∀ s ∈ σ, H.safeWin hack s.m) → ∀ (x : Flow × SendObs × RecvObs),
      XInv hack f0 r wr0 P H b0 tail pre x → XReasons f0 H b0 x →
      XReasons f0 H b0 (σ.foldl (xStep hack P (pre ++ (H.enc ++ b0.enc ++ tail))) x) := by
    intro σ
    induction σ with
    | nil => intro _ x _ hk; exact hk
    | cons s rest ih =>
      intro hσ x hx hk
      rw [List.foldl_cons]
      exact ih (fun t ht => hσ t (by simp [ht])) _
        (x_step_inv hack f0 r wr0 P I H b0 tail pre X htail x s hx (hσ s (by simp)))
        (x_step_reasons hack f0 r wr0 P I H b0 tail pre X htail x s hx (hσ s (by simp)) hk)
  exact gen σ hσ _ (Or.inl ⟨Or.inl ⟨rfl, rfl⟩, rfl⟩) (xreasons_of_send f0 H b0 _ ⟨rfl, rfl⟩)

