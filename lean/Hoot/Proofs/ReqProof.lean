import Hoot.Model.ReqParse
import Hoot.Proofs.RespProof
set_option linter.unusedSimpArgs false
set_option linter.unusedVariables false

/-! Forward simulation of the REQUEST scanner (`reqStep`, httparse `Request::parse`) on well-formed heads.
    The header-field part is the response scanner's proof transcribed (the two scanners share the field
    grammar; `Field`, `Field.wf`, `Field.enc`, `encFields` come from RespProof.lean). -/

def QState.at (s : QState) (p : QPhase) : QState := { s with phase := p }

@[simp] theorem qat_fields (s : QState) (p) : (s.at p).fields = s.fields := rfl
@[simp] theorem qat_slots (s : QState) (p) : (s.at p).slots = s.slots := rfl
@[simp] theorem qat_version (s : QState) (p) : (s.at p).version = s.version := rfl
@[simp] theorem qat_method (s : QState) (p) : (s.at p).method = s.method := rfl
@[simp] theorem qat_path (s : QState) (p) : (s.at p).path = s.path := rfl
@[simp] theorem qat_phase (s : QState) (p) : (s.at p).phase = p := rfl
@[simp] theorem qat_at (s : QState) (p q) : (s.at p).at q = s.at q := rfl

theorem qrun_cons_next {s s' : QState} {b : UInt8} (h : reqStep s b = .next s') (bs : Bytes') (k : Nat) :
    runFrom reqStep s (b :: bs) k = runFrom reqStep s' bs (k + 1) := by
  simp [runFrom, h]

theorem qnameTok_ne_colon {b : UInt8} (h : isNameTok b = true) : True := trivial

/-- absorbing loop: header-name bytes -/
theorem qrun_name (s : QState) (nm : Bytes') (hn : ∀ b ∈ nm, isNameTok b = true) :
    ∀ (acc rest : Bytes') (k : Nat),
    runFrom reqStep (s.at (.name acc)) (nm ++ rest) k =
      runFrom reqStep (s.at (.name (acc ++ nm))) rest (k + nm.length) := by
  induction nm with
  | nil => intro acc rest k; simp
  | cons b bs ih =>
    intro acc rest k
    have hb : isNameTok b = true := hn b (by simp)
    have hstep : reqStep (s.at (.name acc)) b = .next (s.at (.name (acc ++ [b]))) := by
      simp [reqStep, QState.at, hb]
    rw [List.cons_append, qrun_cons_next hstep, ih (fun x hx => hn x (by simp [hx]))]
    simp [Nat.add_assoc, Nat.add_comm 1]

/-- absorbing loop: optional whitespace after the colon -/
theorem qrun_ows (s : QState) (nm ws : Bytes') (hw : ∀ b ∈ ws, isWs b = true) :
    ∀ (rest : Bytes') (k : Nat),
    runFrom reqStep (s.at (.ows nm)) (ws ++ rest) k =
      runFrom reqStep (s.at (.ows nm)) rest (k + ws.length) := by
  induction ws with
  | nil => intro rest k; simp
  | cons b bs ih =>
    intro rest k
    have hb : isWs b = true := hw b (by simp)
    have hstep : reqStep (s.at (.ows nm)) b = .next (s.at (.ows nm)) := by
      simp [reqStep, QState.at, hb]
    rw [List.cons_append, qrun_cons_next hstep, ih (fun x hx => hw x (by simp [hx]))]
    simp [Nat.add_assoc, Nat.add_comm 1]

/-- absorbing loop: header-value bytes (whitespace inside and after the value included) -/
theorem qrun_value (s : QState) (nm v : Bytes') (hv : ∀ b ∈ v, isValueTok b = true) :
    ∀ (acc rest : Bytes') (k : Nat),
    runFrom reqStep (s.at (.value nm acc)) (v ++ rest) k =
      runFrom reqStep (s.at (.value nm (acc ++ v))) rest (k + v.length) := by
  induction v with
  | nil => intro acc rest k; simp
  | cons b bs ih =>
    intro acc rest k
    have hb : isValueTok b = true := hv b (by simp)
    have hstep : reqStep (s.at (.value nm acc)) b = .next (s.at (.value nm (acc ++ [b]))) := by
      simp [reqStep, QState.at, hb]
    rw [List.cons_append, qrun_cons_next hstep, ih (fun x hx => hv x (by simp [hx]))]
    simp [Nat.add_assoc, Nat.add_comm 1]


/-- one well-formed field line moves the scanner from `lineStart` to `lineStart` with the field recorded -/
theorem qrun_field (s : QState) (f : Field) (hf : f.wf) (hslot : s.fields.length < s.slots)
    (rest : Bytes') (k : Nat) :
    runFrom reqStep (s.at .lineStart) (f.enc ++ rest) k =
      runFrom reqStep ({ s with fields := s.fields ++ [(f.name, f.value)] }.at .lineStart) rest (k + f.enc.length) := by
  obtain ⟨hne, hname, hpre, hpost, hval, hhead, hlast⟩ := hf
  obtain ⟨n0, ns, hn⟩ : ∃ n0 ns, f.name = n0 :: ns := by
    cases h : f.name with
    | nil => exact absurd h hne
    | cons a b => exact ⟨a, b, rfl⟩
  have hn0 : isNameTok n0 = true := hname n0 (by simp [hn])
  have hn0_13 : (n0 == 13) = false := by
    cases h : n0 == 13 with
    | false => rfl
    | true => have : n0 = 13 := by simpa using h
              subst this; simp [isNameTok] at hn0
  have hn0_10 : (n0 == 10) = false := by
    cases h : n0 == 10 with
    | false => rfl
    | true => have : n0 = 10 := by simpa using h
              subst this; simp [isNameTok] at hn0
  have hcolon : isNameTok 58 = false := by decide
  -- abbreviations for the wire image after the name
  let A := f.pre ++ (f.value ++ (f.post ++ [13, 10]))
  have hstep0 : reqStep (s.at .lineStart) n0 = .next (s.at (.name [n0])) := by
    simp [reqStep, QState.at, hn0, hn0_13, hn0_10]
  have hns : ∀ b ∈ ns, isNameTok b = true := fun b hb => hname b (by simp [hn, hb])
  have hname_run : ∀ R k', runFrom reqStep (s.at (.name [n0])) (ns ++ R) k' =
      runFrom reqStep (s.at (.name (n0 :: ns))) R (k' + ns.length) := by
    intro R k'; simpa using qrun_name s ns hns [n0] R k'
  have hstepc : reqStep (s.at (.name (n0 :: ns))) 58 = .next (s.at (.ows (n0 :: ns))) := by
    simp [reqStep, QState.at, hcolon]
  have hlen : f.enc.length = 1 + ns.length + 1 + f.pre.length + f.value.length + f.post.length + 2 := by
    simp [Field.enc, hn]; omega
  have henc : f.enc ++ rest = n0 :: (ns ++ (58 :: (f.pre ++ (f.value ++ (f.post ++ (13 :: 10 :: rest)))))) := by
    simp [Field.enc, hn]
  rw [henc, qrun_cons_next hstep0, hname_run, qrun_cons_next hstepc, qrun_ows s _ f.pre hpre]
  cases hv : f.value with
  | nil =>
    simp only [List.nil_append]
    rw [qrun_ows s _ f.post hpost]
    have h1 : reqStep (s.at (.ows (n0 :: ns))) 13 = .next (s.at (.emptyCR (n0 :: ns))) := by
      simp [reqStep, QState.at, isWs, isValueTok]
    have h2 : reqStep (s.at (.emptyCR (n0 :: ns))) 10 =
        .next ({ s with fields := s.fields ++ [(n0 :: ns, [])] }.at .lineStart) := by
      simp [reqStep, QState.at, qEndField, hslot, trimEnd]
    rw [qrun_cons_next h1, qrun_cons_next h2, hlen, hv]
    simp only [hn, List.length_nil]
    congr 1; omega
  | cons v0 vs =>
    have hv0 : isValueTok v0 = true := hval v0 (by simp [hv])
    have hv0ws : isWs v0 = false := hhead v0 (by simp [hv])
    have h1 : reqStep (s.at (.ows (n0 :: ns))) v0 = .next (s.at (.value (n0 :: ns) [v0])) := by
      simp [reqStep, QState.at, hv0, hv0ws]
    have hvs : ∀ b ∈ vs ++ f.post, isValueTok b = true := by
      intro b hb
      rcases List.mem_append.mp hb with h | h
      · exact hval b (by simp [hv, h])
      · exact ws_valueTok (hpost b h)
    have hvalue_run : ∀ R k', runFrom reqStep (s.at (.value (n0 :: ns) [v0])) ((vs ++ f.post) ++ R) k' =
        runFrom reqStep (s.at (.value (n0 :: ns) (v0 :: (vs ++ f.post)))) R (k' + (vs ++ f.post).length) := by
      intro R k'; simpa using qrun_value s (n0 :: ns) (vs ++ f.post) hvs [v0] R k'
    have h2 : reqStep (s.at (.value (n0 :: ns) (v0 :: (vs ++ f.post)))) 13 =
        .next (s.at (.valueCR (n0 :: ns) (v0 :: (vs ++ f.post)))) := by
      simp [reqStep, QState.at, isValueTok]
    have htrim : trimEnd (v0 :: (vs ++ f.post)) = v0 :: vs := by
      have := trimEnd_append_ws (v0 :: vs) f.post hpost (by rw [← hv]; exact hlast)
      simpa using this
    have h3 : reqStep (s.at (.valueCR (n0 :: ns) (v0 :: (vs ++ f.post)))) 10 =
        .next ({ s with fields := s.fields ++ [(n0 :: ns, v0 :: vs)] }.at .lineStart) := by
      simp only [reqStep, QState.at, qEndField]
      simp [hslot, htrim]
    have hshape : (v0 :: vs) ++ (f.post ++ (13 :: 10 :: rest)) = v0 :: ((vs ++ f.post) ++ (13 :: 10 :: rest)) := by simp
    rw [hshape, qrun_cons_next h1, hvalue_run, qrun_cons_next h2, qrun_cons_next h3, hlen, hv]
    simp only [hn, List.length_cons, List.length_append]
    congr 1; omega

theorem qrun_fields (fs : List Field) (hfs : ∀ f ∈ fs, f.wf) :
    ∀ (s : QState) (rest : Bytes') (k : Nat), s.fields.length + fs.length ≤ s.slots →
    runFrom reqStep (s.at .lineStart) (encFields fs ++ rest) k =
      runFrom reqStep ({ s with fields := s.fields ++ fs.map Field.pair }.at .lineStart) rest
        (k + (encFields fs).length) := by
  induction fs with
  | nil =>
    intro s rest k _
    simp [encFields, QState.at]
  | cons f fs ih =>
    intro s rest k hslots
    have hf : f.wf := hfs f (by simp)
    have hrest : ∀ g ∈ fs, g.wf := fun g hg => hfs g (by simp [hg])
    have e : encFields (f :: fs) ++ rest = f.enc ++ (encFields fs ++ rest) := by simp [encFields]
    rw [e, qrun_field s f hf (by simp at hslots; omega)]
    have := ih hrest { s with fields := s.fields ++ [(f.name, f.value)] } rest (k + f.enc.length)
      (by simp at hslots ⊢; omega)
    simp only [QState.at] at this ⊢
    rw [this]
    simp [encFields, Nat.add_assoc, Field.pair]


theorem qrun_cons_err {s : QState} {b : UInt8} {e : HErr} (h : reqStep s b = .err e) (bs : Bytes') (k : Nat) :
    runFrom reqStep s (b :: bs) k = .error e := by
  simp [runFrom, h]

/-- a well-formed request head -/
structure RHead where
  method : Bytes'
  target : Bytes'
  ver : Nat
  fields : List Field

def RHead.wf (h : RHead) : Prop :=
  h.method ≠ [] ∧ (∀ b ∈ h.method, isMethodTok b = true ∧ b ≠ 32) ∧
  h.target ≠ [] ∧ (∀ b ∈ h.target, isUriTok b = true) ∧ h.ver ≤ 1 ∧ (∀ f ∈ h.fields, f.wf)

def RHead.line (h : RHead) : Bytes' :=
  h.method ++ (32 :: (h.target ++ (32 :: [72, 84, 84, 80, 47, 49, 46, (48 + h.ver).toUInt8, 13, 10])))

def RHead.enc (h : RHead) : Bytes' := h.line ++ (encFields h.fields ++ [13, 10])

/-- absorbing loop: method bytes after the first -/
theorem qrun_method (s : QState) (ms : Bytes') (hm : ∀ b ∈ ms, isMethodTok b = true ∧ b ≠ 32) :
    ∀ (acc rest : Bytes') (k : Nat),
    runFrom reqStep (s.at (.method acc)) (ms ++ rest) k =
      runFrom reqStep (s.at (.method (acc ++ ms))) rest (k + ms.length) := by
  induction ms with
  | nil => intro acc rest k; simp
  | cons b bs ih =>
    intro acc rest k
    obtain ⟨hb1, hb2⟩ := hm b (by simp)
    have hne : (b == 32) = false := by simpa using hb2
    have hstep : reqStep (s.at (.method acc)) b = .next (s.at (.method (acc ++ [b]))) := by
      simp [reqStep, QState.at, hb1, hne]
    rw [List.cons_append, qrun_cons_next hstep, ih (fun x hx => hm x (by simp [hx]))]
    simp [Nat.add_assoc, Nat.add_comm 1]

/-- absorbing loop: request-target bytes -/
theorem qrun_uri (s : QState) (m : Bytes') (us : Bytes') (hu : ∀ b ∈ us, isUriTok b = true) :
    ∀ (acc rest : Bytes') (k : Nat),
    runFrom reqStep (s.at (.uri m acc)) (us ++ rest) k =
      runFrom reqStep (s.at (.uri m (acc ++ us))) rest (k + us.length) := by
  induction us with
  | nil => intro acc rest k; simp
  | cons b bs ih =>
    intro acc rest k
    have hb := hu b (by simp)
    have hstep : reqStep (s.at (.uri m acc)) b = .next (s.at (.uri m (acc ++ [b]))) := by
      simp [reqStep, QState.at, hb]
    rw [List.cons_append, qrun_cons_next hstep, ih (fun x hx => hu x (by simp [hx]))]
    simp [Nat.add_assoc, Nat.add_comm 1]

theorem uriTok_ne_space : isUriTok 32 = false := by decide

/-- the request line moves the scanner from the start to `lineStart` with method, target and version set -/
theorem qrun_line (h : RHead) (hw : h.wf) (slots : Nat) (rest : Bytes') :
    runFrom reqStep (reqInit slots) (h.line ++ rest) 0 =
      runFrom reqStep
        { phase := .lineStart, method := some h.method, path := some h.target, version := some h.ver, fields := [], slots := slots }
        rest h.line.length := by
  obtain ⟨hmne, hm, htne, ht, hver, _⟩ := hw
  obtain ⟨m0, ms, hmeq⟩ : ∃ m0 ms, h.method = m0 :: ms := by
    cases hq : h.method with
    | nil => exact absurd hq hmne
    | cons a b => exact ⟨a, b, rfl⟩
  obtain ⟨t0, ts, hteq⟩ : ∃ t0 ts, h.target = t0 :: ts := by
    cases hq : h.target with
    | nil => exact absurd hq htne
    | cons a b => exact ⟨a, b, rfl⟩
  have hm0 := hm m0 (by simp [hmeq])
  have hm0_13 : (m0 == 13) = false := by
    cases hq : m0 == 13 with
    | false => rfl
    | true => have : m0 = 13 := by simpa using hq
              subst this; simp [isMethodTok] at hm0
  have hm0_10 : (m0 == 10) = false := by
    cases hq : m0 == 10 with
    | false => rfl
    | true => have : m0 = 10 := by simpa using hq
              subst this; simp [isMethodTok] at hm0
  have hvb : (48 + h.ver).toUInt8 = 48 ∧ h.ver = 0 ∨ (48 + h.ver).toUInt8 = 49 ∧ h.ver = 1 := by
    rcases Nat.lt_or_ge h.ver 1 with h0 | h1
    · left; have : h.ver = 0 := by omega
      simp [this]
    · right; have : h.ver = 1 := by omega
      simp [this]
  let s0 : QState := reqInit slots
  have hstep0 : reqStep s0 m0 = .next (s0.at (.method [m0])) := by
    simp [s0, reqStep, reqInit, QState.at, hm0.1, hm0_13, hm0_10]
  have hms : ∀ b ∈ ms, isMethodTok b = true ∧ b ≠ 32 := fun b hb => hm b (by simp [hmeq, hb])
  have hsp : reqStep (s0.at (.method (m0 :: ms))) 32 =
      .next ({ s0 with method := some (m0 :: ms) }.at (.uri (m0 :: ms) [])) := by
    simp [reqStep, QState.at]
  let s1 : QState := { s0 with method := some (m0 :: ms) }
  have huri := qrun_uri s1 (m0 :: ms) (t0 :: ts) (by rw [← hteq]; exact ht) []
  have hsp2 : reqStep (s1.at (.uri (m0 :: ms) (t0 :: ts))) 32 =
      .next ({ s1 with path := some (t0 :: ts) }.at (.ver 0)) := by
    simp [reqStep, QState.at, uriTok_ne_space]
  unfold RHead.line
  rw [hmeq, hteq]
  simp only [List.cons_append, List.append_assoc, List.nil_append]
  rw [qrun_cons_next hstep0]
  simp only [Nat.zero_add]
  have hmrun := qrun_method s0 ms hms [m0] (32 :: ((t0 :: ts) ++ (32 :: ([72, 84, 84, 80, 47, 49, 46, (48 + h.ver).toUInt8, 13, 10] ++ rest)))) 1
  simp only [List.cons_append, List.nil_append, List.singleton_append, List.append_assoc] at hmrun
  rw [hmrun, qrun_cons_next hsp]
  have hu2 := huri (32 :: ([72, 84, 84, 80, 47, 49, 46, (48 + h.ver).toUInt8, 13, 10] ++ rest)) (1 + ms.length + 1)
  simp only [List.nil_append, List.cons_append, List.append_assoc, s1] at hu2
  rw [hu2, qrun_cons_next hsp2]
  rcases hvb with ⟨hb, hv⟩ | ⟨hb, hv⟩ <;>
  · simp [runFrom, reqStep, QState.at, verPrefix, hb, hv, s0, reqInit]
    congr 1
    simp [hmeq, hteq]; omega

theorem qrun_end (s : QState) (m p : Bytes') (v : Nat) (hm : s.method = some m) (hp : s.path = some p) (hv : s.version = some v)
    (rest : Bytes') (k : Nat) :
    runFrom reqStep (s.at .lineStart) (13 :: 10 :: rest) k =
      .complete { method := m, path := p, version := v, fields := s.fields } (k + 2) := by
  have h1 : reqStep (s.at .lineStart) 13 = .next (s.at .endCR) := by simp [reqStep, QState.at]
  rw [qrun_cons_next h1]
  simp [runFrom, reqStep, QState.at, qFinish, hm, hp, hv]

/-- forward theorem for requests: a well-formed request head followed by anything parses to exactly that
    head and consumes exactly its length -/
theorem req_forward (h : RHead) (hw : h.wf) (slots : Nat) (hs : h.fields.length ≤ slots) (rest : Bytes') :
    parseReq slots (h.enc ++ rest) =
      .complete { method := h.method, path := h.target, version := h.ver, fields := h.fields.map Field.pair } h.enc.length := by
  unfold parseReq RHead.enc
  rw [List.append_assoc, qrun_line h hw slots]
  have hf := qrun_fields h.fields hw.2.2.2.2.2
    { phase := .lineStart, method := some h.method, path := some h.target, version := some h.ver, fields := [], slots := slots }
    ([13, 10] ++ rest) h.line.length (by simpa using hs)
  simp only [QState.at] at hf
  rw [List.append_assoc, hf]
  have he := qrun_end
    { phase := .lineStart, method := some h.method, path := some h.target, version := some h.ver,
      fields := [] ++ h.fields.map Field.pair, slots := slots }
    h.method h.target h.ver rfl rfl rfl rest (h.line.length + (encFields h.fields).length)
  simp only [QState.at] at he
  simp only [List.cons_append, List.nil_append] at he ⊢
  rw [he]
  simp [Nat.add_assoc]

/-- every strict prefix of a well-formed request head is "need more data" -/
theorem req_prefix (h : RHead) (hw : h.wf) (slots : Nat) (hs : h.fields.length ≤ slots) (n : Nat)
    (hn : n < h.enc.length) : ∃ st, parseReq slots (h.enc.take n) = .more st := by
  have hf := req_forward h hw slots hs []
  simp only [List.append_nil] at hf
  exact strict_prefix_partial reqStep (reqInit slots) h.enc _ hf n hn

theorem qrun_field_full (s : QState) (f : Field) (hf : f.wf) (hslot : ¬ s.fields.length < s.slots)
    (rest : Bytes') (k : Nat) :
    runFrom reqStep (s.at .lineStart) (f.enc ++ rest) k = .error .tooManyHeaders := by
  obtain ⟨hne, hname, hpre, hpost, hval, hhead, hlast⟩ := hf
  obtain ⟨n0, ns, hn⟩ : ∃ n0 ns, f.name = n0 :: ns := by
    cases h : f.name with
    | nil => exact absurd h hne
    | cons a b => exact ⟨a, b, rfl⟩
  have hn0 : isNameTok n0 = true := hname n0 (by simp [hn])
  have hn0_13 : (n0 == 13) = false := by
    cases h : n0 == 13 with
    | false => rfl
    | true => have : n0 = 13 := by simpa using h
              subst this; simp [isNameTok] at hn0
  have hn0_10 : (n0 == 10) = false := by
    cases h : n0 == 10 with
    | false => rfl
    | true => have : n0 = 10 := by simpa using h
              subst this; simp [isNameTok] at hn0
  have hcolon : isNameTok 58 = false := by decide
  -- abbreviations for the wire image after the name
  let A := f.pre ++ (f.value ++ (f.post ++ [13, 10]))
  have hstep0 : reqStep (s.at .lineStart) n0 = .next (s.at (.name [n0])) := by
    simp [reqStep, QState.at, hn0, hn0_13, hn0_10]
  have hns : ∀ b ∈ ns, isNameTok b = true := fun b hb => hname b (by simp [hn, hb])
  have hname_run : ∀ R k', runFrom reqStep (s.at (.name [n0])) (ns ++ R) k' =
      runFrom reqStep (s.at (.name (n0 :: ns))) R (k' + ns.length) := by
    intro R k'; simpa using qrun_name s ns hns [n0] R k'
  have hstepc : reqStep (s.at (.name (n0 :: ns))) 58 = .next (s.at (.ows (n0 :: ns))) := by
    simp [reqStep, QState.at, hcolon]
  have hlen : f.enc.length = 1 + ns.length + 1 + f.pre.length + f.value.length + f.post.length + 2 := by
    simp [Field.enc, hn]; omega
  have henc : f.enc ++ rest = n0 :: (ns ++ (58 :: (f.pre ++ (f.value ++ (f.post ++ (13 :: 10 :: rest)))))) := by
    simp [Field.enc, hn]
  rw [henc, qrun_cons_next hstep0, hname_run, qrun_cons_next hstepc, qrun_ows s _ f.pre hpre]
  cases hv : f.value with
  | nil =>
    simp only [List.nil_append]
    rw [qrun_ows s _ f.post hpost]
    have h1 : reqStep (s.at (.ows (n0 :: ns))) 13 = .next (s.at (.emptyCR (n0 :: ns))) := by
      simp [reqStep, QState.at, isWs, isValueTok]
    have h2 : reqStep (s.at (.emptyCR (n0 :: ns))) 10 = .err .tooManyHeaders := by
      simp [reqStep, QState.at, qEndField, hslot]
    rw [qrun_cons_next h1, qrun_cons_err h2]
  | cons v0 vs =>
    have hv0 : isValueTok v0 = true := hval v0 (by simp [hv])
    have hv0ws : isWs v0 = false := hhead v0 (by simp [hv])
    have h1 : reqStep (s.at (.ows (n0 :: ns))) v0 = .next (s.at (.value (n0 :: ns) [v0])) := by
      simp [reqStep, QState.at, hv0, hv0ws]
    have hvs : ∀ b ∈ vs ++ f.post, isValueTok b = true := by
      intro b hb
      rcases List.mem_append.mp hb with h | h
      · exact hval b (by simp [hv, h])
      · exact ws_valueTok (hpost b h)
    have hvalue_run : ∀ R k', runFrom reqStep (s.at (.value (n0 :: ns) [v0])) ((vs ++ f.post) ++ R) k' =
        runFrom reqStep (s.at (.value (n0 :: ns) (v0 :: (vs ++ f.post)))) R (k' + (vs ++ f.post).length) := by
      intro R k'; simpa using qrun_value s (n0 :: ns) (vs ++ f.post) hvs [v0] R k'
    have h2 : reqStep (s.at (.value (n0 :: ns) (v0 :: (vs ++ f.post)))) 13 =
        .next (s.at (.valueCR (n0 :: ns) (v0 :: (vs ++ f.post)))) := by
      simp [reqStep, QState.at, isValueTok]
    have htrim : trimEnd (v0 :: (vs ++ f.post)) = v0 :: vs := by
      have := trimEnd_append_ws (v0 :: vs) f.post hpost (by rw [← hv]; exact hlast)
      simpa using this
    have h3 : reqStep (s.at (.valueCR (n0 :: ns) (v0 :: (vs ++ f.post)))) 10 = .err .tooManyHeaders := by
      simp only [reqStep, QState.at, qEndField]
      simp [hslot]
    have hshape : (v0 :: vs) ++ (f.post ++ (13 :: 10 :: rest)) = v0 :: ((vs ++ f.post) ++ (13 :: 10 :: rest)) := by simp
    rw [hshape, qrun_cons_next h1, hvalue_run, qrun_cons_next h2, qrun_cons_err h3]


/-- more fields than slots: rejected as soon as the first field line beyond the limit is complete -/
theorem req_too_many (h : RHead) (hw : h.wf) (slots : Nat) (hs : slots < h.fields.length) (rest : Bytes') :
    parseReq slots (h.enc ++ rest) = .error .tooManyHeaders := by
  have hsplit : h.fields = h.fields.take slots ++ (h.fields.drop slots) := (List.take_append_drop slots h.fields).symm
  obtain ⟨f, fs2, hd⟩ : ∃ f fs2, h.fields.drop slots = f :: fs2 := by
    cases hdr : h.fields.drop slots with
    | nil => have := congrArg List.length hdr; simp at this; omega
    | cons a b => exact ⟨a, b, rfl⟩
  have hwf : ∀ g ∈ h.fields, g.wf := hw.2.2.2.2.2
  have h1wf : ∀ g ∈ h.fields.take slots, g.wf := fun g hg => hwf g (List.mem_of_mem_take hg)
  have hfwf : f.wf := hwf f (by rw [hsplit, hd]; simp)
  unfold parseReq RHead.enc
  rw [List.append_assoc, qrun_line h hw slots]
  have henc : encFields h.fields = encFields (h.fields.take slots) ++ (f.enc ++ encFields fs2) := by
    conv => lhs; rw [hsplit, hd]
    simp [encFields]
  rw [henc]
  have e : encFields (h.fields.take slots) ++ (f.enc ++ encFields fs2) ++ [13, 10] ++ rest
      = encFields (h.fields.take slots) ++ (f.enc ++ (encFields fs2 ++ ([13, 10] ++ rest))) := by
    simp [List.append_assoc]
  rw [e]
  have hf := qrun_fields (h.fields.take slots) h1wf
    { phase := .lineStart, method := some h.method, path := some h.target, version := some h.ver, fields := [], slots := slots }
    (f.enc ++ (encFields fs2 ++ ([13, 10] ++ rest))) h.line.length (by simp; omega)
  simp only [QState.at] at hf
  rw [hf]
  have hfull := qrun_field_full
    { phase := .lineStart, method := some h.method, path := some h.target, version := some h.ver,
      fields := [] ++ (h.fields.take slots).map Field.pair, slots := slots } f hfwf
    (by simp; omega) (encFields fs2 ++ ([13, 10] ++ rest)) (h.line.length + (encFields (h.fields.take slots)).length)
  simp only [QState.at] at hfull
  exact hfull
