import Hoot.Proofs.ExchangeAll
set_option linter.unusedVariables false
set_option linter.unusedSimpArgs false

/-! ## An `Expect: 100-continue` request that the server answers with a final response (no interim 100)

Here the outcome legitimately depends on the schedule in ONE respect: whether the caller gave up waiting
(and sent the body) before it looked at a decisive window of the response. Everything else is fixed. -/

def decisiveLen (F : Head) : Nat :=
  match F.fields with
  | [] => F.enc.length
  | f :: _ => F.statusLine.length + f.enc.length

theorem decisiveLen_le (F : Head) : decisiveLen F ≤ F.enc.length := by
  unfold decisiveLen Head.enc
  cases hf : F.fields with
  | nil => simp
  | cons f fs => simp [encFields]

theorem resp_first_field_full (F : Head) (hw : F.wf) (f : Field) (fs : List Field) (hfs : F.fields = f :: fs) (rest : Bytes') :
    parseResp 0 (F.statusLine ++ (f.enc ++ rest)) = .error .tooManyHeaders := by
  have hfwf : f.wf := hw.2.2.2.2.2 f (by simp [hfs])
  unfold parseResp
  rw [run_status F hw 0]
  have hfull := run_field_full
    { phase := .lineStart, version := some F.ver, code := some F.codeVal, fields := [], slots := 0 } f hfwf
    (by simp) rest F.statusLine.length
  simp only [RState.at] at hfull
  exact hfull

theorem await_window (F : Head) (hw : F.wf) (hc : 100 ≤ F.codeVal) (h100 : F.codeVal ≠ 100) (rest : Bytes) (m : Nat) :
    (m < decisiveLen F → tryParseResponse 0 ((F.enc ++ rest).take m) = .ok none) ∧
    (decisiveLen F ≤ m →
      (∃ u resp, tryParseResponse 0 ((F.enc ++ rest).take m) = .ok (some (u, resp)) ∧ resp.status ≠ 100) ∨
      tryParseResponse 0 ((F.enc ++ rest).take m) = .error (.api .httpParseTooManyHeaders)) := by
  have hle := decisiveLen_le F
  cases hf : F.fields with
  | nil =>
    have hD : decisiveLen F = F.enc.length := by simp [decisiveLen, hf]
    constructor
    · intro hm
      rw [hD] at hm
      rw [List.take_append_of_le_length (by omega)]
      exact C05_prefix F hw 0 (by simp [hf]) m hm
    · intro hm
      rw [hD] at hm
      left
      rw [List.take_append, List.take_of_length_le hm]
      have := C05_exact F hw 0 (by simp [hf]) hc (by intro g hg; simp [hf] at hg) (rest.take (m - F.enc.length))
      exact ⟨_, _, this, h100⟩
  | cons f fs =>
    have hD : decisiveLen F = F.statusLine.length + f.enc.length := by simp [decisiveLen, hf]
    have henc : F.enc = F.statusLine ++ (f.enc ++ (encFields fs ++ [13, 10])) := by
      simp [Head.enc, hf, encFields, List.append_assoc]
    constructor
    · intro hm
      rw [hD] at hm
      have hlt : m < F.enc.length := by rw [hD] at hle; omega
      rw [List.take_append_of_le_length (by omega)]
      obtain ⟨st, hst⟩ := resp_inside_first_field F hw f fs hf 0 m hm
      unfold tryParseResponse
      rw [hst]
    · intro hm
      rw [hD] at hm
      right
      have hsplit : (F.enc ++ rest).take m = F.statusLine ++ (f.enc ++ ((encFields fs ++ [13, 10] ++ rest).take (m - (F.statusLine.length + f.enc.length)))) := by
        rw [henc]
        have e : F.statusLine ++ (f.enc ++ (encFields fs ++ [13, 10])) ++ rest =
            (F.statusLine ++ f.enc) ++ (encFields fs ++ [13, 10] ++ rest) := by simp [List.append_assoc]
        rw [e, List.take_append, List.take_of_length_le (by simp; omega)]
        simp [List.append_assoc]
      unfold tryParseResponse
      rw [hsplit, resp_first_field_full F hw f fs hf]

/-- what a refusal leaves behind -/
theorem refuse100_full (f : Flow) (hn : f.closeReasons.Nodup) :
    ∃ l : List CloseReason, l.Nodup ∧ CloseReason.not100 ∈ l ∧
      refuse100 f = ({ f with closeReasons := l, shouldSendBody := false }, .count 0) := by
  have hp := pushReason_ok f.closeReasons .not100 hn
  have hm := pushReason_mem f.closeReasons .not100 hp.1
  unfold refuse100
  rcases hq : pushReason f.closeReasons .not100 with ⟨l, pr⟩
  rw [hq] at hp hm
  obtain ⟨hpr, hl⟩ := hp
  dsimp only at hpr hl hm
  subst hpr
  exact ⟨l, hl, hm, rfl⟩

/-- `try_read_100` on a window of a stream that starts with the final response `F` -/
theorem await_step (f : Flow) (hn : f.closeReasons.Nodup) (F : Head) (hw : F.wf) (hc : 100 ≤ F.codeVal) (h100 : F.codeVal ≠ 100)
    (rest : Bytes) (m : Nat) :
    (m < decisiveLen F → stepAwait100 f (.read100 ((F.enc ++ rest).take m)) = (f, .count 0)) ∧
    (decisiveLen F ≤ m → ∃ l : List CloseReason, l.Nodup ∧ CloseReason.not100 ∈ l ∧
      stepAwait100 f (.read100 ((F.enc ++ rest).take m)) =
        ({ f with await100 := false, closeReasons := l, shouldSendBody := false }, .count 0)) := by
  obtain ⟨h1, h2⟩ := await_window F hw hc h100 rest m
  constructor
  · intro hm
    exact C11_undecided f _ (h1 hm)
  · intro hm
    obtain ⟨l, hl, hmem, hr⟩ := refuse100_full { f with await100 := false } hn
    refine ⟨l, hl, hmem, ?_⟩
    unfold stepAwait100
    rcases h2 hm with ⟨u, resp, hp, hs⟩ | hp
    · have : (resp.status == 100) = false := by simpa using hs
      simp only [hp, this, Bool.false_eq_true, if_false]
      rw [hr]
    · simp only [hp, beq_self_eq_true, if_true]
      rw [hr]

structure XSetupR (hack : Bool) (f0 : Flow) (r : AReq) (wr0 : BodyWriter) (P : Bytes) (F : Head) (b0 : BPos) : Prop where
  send : SendSetup f0 r wr0 P
  hnd : f0.closeReasons.Nodup
  resp : RespOk hack F b0 r.method
  haw : f0.await100 = true

/-- the flow was refused the body while awaiting: head out, nothing of the payload -/
def RefusedAt (r : AReq) (f : Flow) (so : SendObs) : Prop :=
  f.st = .await100 ∧ f.holder = .withBody ∧ f.shouldSendBody = false ∧ f.await100 = false ∧
  f.closeReasons.Nodup ∧ CloseReason.not100 ∈ f.closeReasons ∧ f.call.req = r ∧ so.wire = renderHead r ∧ so.off = 0

def XInvR (hack : Bool) (f0 : Flow) (r : AReq) (wr0 : BodyWriter) (P : Bytes) (F : Head) (b0 : BPos) (tail : Bytes)
    (x : Flow × SendObs × RecvObs) : Prop :=
  ((SendA f0 x.1 x.2.1 ∨ SendB f0 r wr0 x.1 x.2.1) ∧ x.2.2 = {}) ∨
  (x.1.st = .await100 ∧ x.1.await100 = true ∧ AwaitAt f0 r wr0 P x.1 x.2.1 ∧ x.2.2 = {}) ∨
  (RefusedAt r x.1 x.2.1 ∧ x.2.2 = {}) ∨
  (SendC f0 r wr0 P x.1 x.2.1 ∧ x.2.2 = {}) ∨
  (((SendSpec r wr0 P x.2.1.wire ∧ x.2.1.off = P.length) ∨ (x.2.1.wire = renderHead r ∧ x.2.1.off = 0)) ∧
     ∃ f1 : Flow, RecvSetup hack F b0 f1 ∧ RecvInv F b0 tail f1 x.1 x.2.2)

theorem x_step_invR (hack : Bool) (f0 : Flow) (r : AReq) (wr0 : BodyWriter) (P : Bytes) (F : Head) (b0 : BPos) (tail : Bytes)
    (X : XSetupR hack f0 r wr0 P F b0) (htail : b0.isClose = true → tail = []) (x : Flow × SendObs × RecvObs) (s : IoStep)
    (h : XInvR hack f0 r wr0 P F b0 tail x) (hsw : F.safeWin hack s.m) :
    XInvR hack f0 r wr0 P F b0 tail (xStep hack P (F.enc ++ b0.enc ++ tail) x s) := by
  obtain ⟨f, so, o⟩ := x
  have enter : ∀ (g : Flow) (go : SendObs), SendD f0 r wr0 P g go →
      XInvR hack f0 r wr0 P F b0 tail (g, go, {}) := by
    intro g go hD
    obtain ⟨hst, hh, hcr, hreq, hspec, hoff⟩ := hD
    refine Or.inr (Or.inr (Or.inr (Or.inr ⟨Or.inl ⟨hspec, hoff⟩, g, ⟨?_, hst, hh, by rw [hcr]; exact X.hnd⟩, ⟨htail, rfl, Or.inl ⟨rfl, rfl⟩⟩⟩)))
    rw [hreq]; exact X.resp
  rcases h with ⟨hAB, ho⟩ | ⟨hst, haw, hA, ho⟩ | ⟨hR, ho⟩ | ⟨hC, ho⟩ | ⟨hw, f1, S, hri⟩
  · -- Prepare / SendRequest
    dsimp only at hAB ho
    have hst : f.st = .prepare ∨ f.st = .sendRequest := by
      rcases hAB with hA | hB
      · left; rw [hA.1]; exact X.send.hst
      · right; exact hB.1
    have hx : xStep hack P (F.enc ++ b0.enc ++ tail) (f, so, o) s =
        ((sendStep hack P (f, so) s).1, (sendStep hack P (f, so) s).2, o) := by
      unfold xStep; rcases hst with e | e <;> simp [e]
    rw [hx, ho]
    rcases hAB with hA | hB
    · exact Or.inl ⟨Or.inr (send_step_A hack f0 r wr0 P X.send f so s hA), rfl⟩
    · rcases send_step_B hack f0 r wr0 P X.send f so s hB with hB' | ⟨hC, _, _⟩ | ⟨hD, _⟩ | ⟨h1, h2, h3, h4⟩
      · exact Or.inl ⟨Or.inr hB'.1, rfl⟩
      · exact Or.inr (Or.inr (Or.inr (Or.inl ⟨hC, rfl⟩)))
      · exact enter _ _ hD
      · exact Or.inr (Or.inl ⟨h1, h2, h4, rfl⟩)
  · -- Await100, still waiting
    dsimp only at hst haw hA ho
    unfold xStep
    simp only [hst]
    by_cases hgo : (!f.await100 || s.giveUp) = true
    · simp only [hgo, if_true]
      rw [flow_step_await hack f _ hst]
      have hpr : stepAwait100 f .proceed = enterSendBody f := by
        unfold stepAwait100; simp [hA.2.1]
      rw [hpr]
      obtain ⟨he, hinv⟩ := enter_body_inv f0 r wr0 P f so hA
      rw [he]
      exact Or.inr (Or.inr (Or.inr (Or.inl ⟨hinv, ho⟩)))
    · simp only [hgo, Bool.false_eq_true, if_false]
      rw [flow_step_await hack f _ hst, ho]
      have hnd : f.closeReasons.Nodup := by rw [hA.2.2.1]; exact X.hnd
      have hwin : ((F.enc ++ b0.enc ++ tail).drop ({} : RecvObs).consumed).take s.m = (F.enc ++ (b0.enc ++ tail)).take s.m := by
        show ((F.enc ++ b0.enc ++ tail).drop 0).take s.m = _
        rw [List.drop_zero, List.append_assoc]
      rw [hwin]
      obtain ⟨hlo, hhi⟩ := await_step f hnd F X.resp.hw X.resp.hc X.resp.h100 (b0.enc ++ tail) s.m
      by_cases hm : s.m < decisiveLen F
      · rw [hlo hm]
        dsimp only
        exact Or.inr (Or.inl ⟨hst, haw, hA, rfl⟩)
      · obtain ⟨l, hl, hmem, hstep⟩ := hhi (by omega)
        rw [hstep]
        dsimp only
        obtain ⟨a1, a2, a3, a4, a5, a6, a7, a8, a9, a10⟩ := hA
        exact Or.inr (Or.inr (Or.inl ⟨⟨hst, a1, rfl, rfl, hl, hmem, a5, a9, a10⟩, rfl⟩))
  · -- refused: the caller proceeds straight to the response
    dsimp only at hR ho
    obtain ⟨hst, hh, hsb, haw, hnd, hmem, hreq, hwire, hoff⟩ := hR
    unfold xStep
    simp only [hst, haw, Bool.not_false, Bool.true_or, if_true]
    rw [flow_step_await hack f _ hst]
    have hpr : stepAwait100 f .proceed = enterRecvResponse f := by
      unfold stepAwait100; simp [hsb, hh]
    rw [hpr, ho]
    unfold enterRecvResponse
    refine Or.inr (Or.inr (Or.inr (Or.inr ⟨Or.inr ⟨hwire, hoff⟩, { f with st := .recvResponse, holder := .recvResponse, call := { f.call with phase := .recvResponse } }, ⟨?_, rfl, rfl, hnd⟩, ⟨htail, rfl, Or.inl ⟨rfl, rfl⟩⟩⟩)))
    show RespOk hack F b0 f.call.req.method
    rw [hreq]; exact X.resp
  · -- SendBody
    dsimp only at hC ho
    have hx : xStep hack P (F.enc ++ b0.enc ++ tail) (f, so, o) s =
        ((sendStep hack P (f, so) s).1, (sendStep hack P (f, so) s).2, o) := by
      unfold xStep; simp [hC.1]
    rw [hx, ho]
    obtain ⟨hcase, _⟩ := send_step_C hack f0 r wr0 P f so s hC
    rcases hcase with hC' | hD'
    · exact Or.inr (Or.inr (Or.inr (Or.inl ⟨hC'.1, rfl⟩)))
    · exact enter _ _ hD'
  · -- the receive side
    dsimp only at hw hri
    have hstates : f.st = .recvResponse ∨ f.st = .recvBody ∨ f.st = .redirect ∨ f.st = .cleanup := by
      obtain ⟨_, _, hA | hB | hC⟩ := hri
      · left; rw [hA.1]; exact S.hst
      · obtain ⟨b, _, hst, _⟩ := hB; right; left; exact hst
      · right; right; rw [hC.1]; unfold terminalSt; split <;> simp
    have hx : xStep hack P (F.enc ++ b0.enc ++ tail) (f, so, o) s =
        ((recvStep hack (F.enc ++ b0.enc ++ tail) (f, o) s).1, so, (recvStep hack (F.enc ++ b0.enc ++ tail) (f, o) s).2) := by
      unfold xStep
      rcases hstates with e | e | e | e <;> simp [e]
      · rw [recvStep_done hack _ (f, o) s (by simp [recvDone, e])]; exact ⟨rfl, rfl⟩
      · rw [recvStep_done hack _ (f, o) s (by simp [recvDone, e])]; exact ⟨rfl, rfl⟩
    rw [hx]
    exact Or.inr (Or.inr (Or.inr (Or.inr ⟨hw, f1, S, recv_step_inv hack F b0 tail f1 S f o s hri hsw⟩)))

theorem x_run_invR (hack : Bool) (f0 : Flow) (r : AReq) (wr0 : BodyWriter) (P : Bytes) (F : Head) (b0 : BPos) (tail : Bytes)
    (X : XSetupR hack f0 r wr0 P F b0) (htail : b0.isClose = true → tail = []) (σ : List IoStep)
    (hσ : ∀ s ∈ σ, F.safeWin hack s.m) :
    XInvR hack f0 r wr0 P F b0 tail (xRun hack P (F.enc ++ b0.enc ++ tail) f0 σ) := by
  unfold xRun
  have gen : ∀ (σ : List IoStep), (∀ s ∈ σ, F.safeWin hack s.m) → ∀ (x : Flow × SendObs × RecvObs), XInvR hack f0 r wr0 P F b0 tail x →
      XInvR hack f0 r wr0 P F b0 tail (σ.foldl (xStep hack P (F.enc ++ b0.enc ++ tail)) x) := by
    intro σ
    induction σ with
    | nil => intro _ x hx; exact hx
    | cons s rest ih =>
      intro hσ x hx
      rw [List.foldl_cons]
      exact ih (fun t ht => hσ t (by simp [ht])) _ (x_step_invR hack f0 r wr0 P F b0 tail X htail x s hx (hσ s (by simp)))
  exact gen σ hσ _ (Or.inl ⟨Or.inl ⟨rfl, rfl⟩, rfl⟩)

/-- **C01 (refused Expect, outcome).** The request carries `Expect: 100-continue` and a body; the server
    answers with a final response (any status but 100) and no interim one. Every complete schedule consumes
    exactly the response message, hands out its parsed head and whole payload, and ends in the state the
    status dictates; and the request that went out is one of exactly two: the head followed by the whole
    body (`SendSpec`; the caller gave up waiting before it looked at a decisive window), or the head alone
    with nothing of the payload accepted (the response was seen first: `try_read_100` refused). -/
theorem C01_refused_outcome (hack : Bool) (f0 : Flow) (r : AReq) (wr0 : BodyWriter) (P : Bytes) (F : Head) (b0 : BPos) (tail : Bytes)
    (X : XSetupR hack f0 r wr0 P F b0) (htail : b0.isClose = true → tail = []) (σ : List IoStep)
    (hσ : ∀ s ∈ σ, F.safeWin hack s.m)
    (hd : recvDone (xRun hack P (F.enc ++ b0.enc ++ tail) f0 σ).1 = true) :
    (xRun hack P (F.enc ++ b0.enc ++ tail) f0 σ).2.2 = recvSpec F b0 ∧
    (xRun hack P (F.enc ++ b0.enc ++ tail) f0 σ).1.st = terminalSt F ∧
    (F.enc ++ b0.enc ++ tail).drop (xRun hack P (F.enc ++ b0.enc ++ tail) f0 σ).2.2.consumed = tail ∧
    ((SendSpec r wr0 P (xRun hack P (F.enc ++ b0.enc ++ tail) f0 σ).2.1.wire ∧
        (xRun hack P (F.enc ++ b0.enc ++ tail) f0 σ).2.1.off = P.length) ∨
     ((xRun hack P (F.enc ++ b0.enc ++ tail) f0 σ).2.1.wire = renderHead r ∧
        (xRun hack P (F.enc ++ b0.enc ++ tail) f0 σ).2.1.off = 0)) := by
  rcases x_run_invR hack f0 r wr0 P F b0 tail X htail σ hσ with ⟨hAB, _⟩ | ⟨hst, _⟩ | ⟨hR, _⟩ | ⟨hC, _⟩ | ⟨hw, f1, S, hri⟩
  · have hst : (xRun hack P (F.enc ++ b0.enc ++ tail) f0 σ).1.st = .prepare ∨
        (xRun hack P (F.enc ++ b0.enc ++ tail) f0 σ).1.st = .sendRequest := by
      rcases hAB with ⟨h, _⟩ | hB
      · left; rw [h]; exact X.send.hst
      · right; exact hB.1
    rcases hst with e | e <;> (unfold recvDone at hd; rw [e] at hd; simp at hd)
  · unfold recvDone at hd; rw [hst] at hd; simp at hd
  · unfold recvDone at hd; rw [hR.1] at hd; simp at hd
  · unfold recvDone at hd; rw [hC.1] at hd; simp at hd
  · obtain ⟨h1, h2⟩ := recvSpec_of_done F b0 tail f1 _ _ S.hst hri hd
    refine ⟨h1, h2, ?_, hw⟩
    rw [h1]
    show (F.enc ++ b0.enc ++ tail).drop (F.enc.length + b0.enc.length) = tail
    rw [← List.length_append, List.drop_left]

/-- **C01 (refused Expect, independence).** Any two complete schedules observe the same response and end
    in the same state; they can differ only in whether the body went out. -/
theorem C01_refused_independent (hack : Bool) (f0 : Flow) (r : AReq) (wr0 : BodyWriter) (P : Bytes) (F : Head) (b0 : BPos) (tail : Bytes)
    (X : XSetupR hack f0 r wr0 P F b0) (htail : b0.isClose = true → tail = []) (σ₁ σ₂ : List IoStep)
    (hσ₁ : ∀ s ∈ σ₁, F.safeWin hack s.m) (hσ₂ : ∀ s ∈ σ₂, F.safeWin hack s.m)
    (h1 : recvDone (xRun hack P (F.enc ++ b0.enc ++ tail) f0 σ₁).1 = true)
    (h2 : recvDone (xRun hack P (F.enc ++ b0.enc ++ tail) f0 σ₂).1 = true) :
    (xRun hack P (F.enc ++ b0.enc ++ tail) f0 σ₁).2.2 = (xRun hack P (F.enc ++ b0.enc ++ tail) f0 σ₂).2.2 ∧
    (xRun hack P (F.enc ++ b0.enc ++ tail) f0 σ₁).1.st = (xRun hack P (F.enc ++ b0.enc ++ tail) f0 σ₂).1.st := by
  obtain ⟨a1, a2, _⟩ := C01_refused_outcome hack f0 r wr0 P F b0 tail X htail σ₁ hσ₁ h1
  obtain ⟨b1, b2, _⟩ := C01_refused_outcome hack f0 r wr0 P F b0 tail X htail σ₂ hσ₂ h2
  exact ⟨by rw [a1, b1], by rw [a2, b2]⟩
