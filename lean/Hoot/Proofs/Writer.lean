/-! Prototype: length-level model of the (repaired) chunked body writer, C18 / C19 arithmetic -/

def hexLen (n : Nat) : Nat := if h : n < 16 then 1 else 1 + hexLen (n / 16)
termination_by n
decreasing_by omega

theorem hexLen_pos (n : Nat) : 1 ≤ hexLen n := by
  unfold hexLen; split <;> omega

theorem hexLen_lt16 {n : Nat} (h : n < 16) : hexLen n = 1 := by
  unfold hexLen; simp [h]

theorem hexLen_ge16 {n : Nat} (h : 16 ≤ n) : hexLen n = 1 + hexLen (n / 16) := by
  rw [hexLen]; simp [Nat.not_lt.mpr h]

theorem hexLen_mono : ∀ {a b : Nat}, a ≤ b → hexLen a ≤ hexLen b := by
  intro a b
  induction b using Nat.strongRecOn generalizing a with
  | _ b ih =>
    intro hab
    by_cases hb : b < 16
    · rw [hexLen_lt16 hb, hexLen_lt16 (by omega)]; omega
    · by_cases ha : a < 16
      · rw [hexLen_lt16 ha]; exact hexLen_pos b
      · rw [hexLen_ge16 (n := a) (by omega), hexLen_ge16 (n := b) (by omega)]
        have : hexLen (a / 16) ≤ hexLen (b / 16) := ih (b / 16) (by omega) (Nat.div_le_div_right hab)
        omega

theorem hexLen_le4 {n : Nat} (h : n < 65536) : hexLen n ≤ 4 := by
  by_cases h1 : n < 16
  · rw [hexLen_lt16 h1]; omega
  · rw [hexLen_ge16 (by omega)]
    by_cases h2 : n / 16 < 16
    · rw [hexLen_lt16 h2]; omega
    · rw [hexLen_ge16 (by omega)]
      by_cases h3 : n / 16 / 16 < 16
      · rw [hexLen_lt16 h3]; omega
      · rw [hexLen_ge16 (by omega)]
        have h4 : n / 16 / 16 / 16 < 16 := by omega
        rw [hexLen_lt16 h4]; omega

/-- cost of one chunk of n data bytes -/
def frameLen (n : Nat) : Nat := hexLen n + 4 + n

theorem frameLen_mono {a b : Nat} (h : a ≤ b) : frameLen a ≤ frameLen b := by
  unfold frameLen; have := hexLen_mono h; omega

/-- the countdown in the repaired `write_chunk` -/
def fitDown (avail : Nat) : Nat → Nat
  | 0 => 0
  | fit + 1 => if frameLen (fit + 1) > avail then fitDown avail fit else fit + 1

def maxFit (avail : Nat) : Nat := fitDown avail (avail - 5)

theorem fitDown_ok (avail : Nat) : ∀ s, fitDown avail s = 0 ∨ frameLen (fitDown avail s) ≤ avail := by
  intro s
  induction s with
  | zero => left; rfl
  | succ s ih =>
    simp only [fitDown]
    split
    · exact ih
    · right; omega

theorem fitDown_le (avail : Nat) : ∀ s, fitDown avail s ≤ s := by
  intro s
  induction s with
  | zero => simp [fitDown]
  | succ s ih => simp only [fitDown]; split <;> omega

theorem fitDown_max (avail : Nat) : ∀ s n, n ≤ s → frameLen n ≤ avail → n ≤ fitDown avail s := by
  intro s
  induction s with
  | zero => intro n hn _; omega
  | succ s ih =>
    intro n hn hf
    simp only [fitDown]
    split
    · rename_i hgt
      by_cases hns : n ≤ s
      · exact ih n hns hf
      · have : n = s + 1 := by omega
        subst this; omega
    · omega

theorem maxFit_ok (a : Nat) : maxFit a = 0 ∨ frameLen (maxFit a) ≤ a := fitDown_ok a _

theorem maxFit_max (a n : Nat) (hf : frameLen n ≤ a) : n ≤ maxFit a := by
  apply fitDown_max a (a - 5) n _ hf
  have := hexLen_pos n
  unfold frameLen at hf; omega

theorem maxFit_mono {a b : Nat} (h : a ≤ b) : maxFit a ≤ maxFit b := by
  rcases maxFit_ok a with h0 | hf
  · omega
  · exact maxFit_max b _ (by omega)

def MAXC : Nat := 10240

def chunkOf (inLen avail : Nat) : Nat := min inLen (min MAXC (maxFit avail))

/-- bytes of input consumed by one chunked `write` of `inLen` input bytes into `avail` output bytes -/
def consumedLen (inLen avail : Nat) : Nat :=
  if chunkOf inLen avail = 0 then 0
  else if inLen > chunkOf inLen avail then
    chunkOf inLen avail + consumedLen (inLen - chunkOf inLen avail) (avail - frameLen (chunkOf inLen avail))
  else chunkOf inLen avail
termination_by inLen
decreasing_by unfold chunkOf at *; omega

theorem consumedLen_eq (inLen avail : Nat) : consumedLen inLen avail =
    if chunkOf inLen avail = 0 then 0
    else if inLen > chunkOf inLen avail then
      chunkOf inLen avail + consumedLen (inLen - chunkOf inLen avail) (avail - frameLen (chunkOf inLen avail))
    else chunkOf inLen avail := by
  rw [consumedLen]

theorem chunkOf_le (inLen avail : Nat) : chunkOf inLen avail ≤ inLen := by unfold chunkOf; omega

theorem consumedLen_le (inLen avail : Nat) : consumedLen inLen avail ≤ inLen := by
  induction inLen using Nat.strongRecOn generalizing avail with
  | _ n ih =>
    rw [consumedLen_eq]
    have hc := chunkOf_le n avail
    split
    · omega
    · split
      · have := ih (n - chunkOf n avail) (by omega) (avail - frameLen (chunkOf n avail))
        omega
      · omega

/-- C19 progress -/
theorem C19_progress (inLen avail : Nat) (hi : 0 < inLen) (ha : 6 ≤ avail) : 0 < consumedLen inLen avail := by
  have h1 : 1 ≤ maxFit avail := maxFit_max avail 1 (by unfold frameLen; rw [hexLen_lt16 (by omega)]; omega)
  rw [consumedLen_eq]
  have : chunkOf inLen avail ≠ 0 := by unfold chunkOf MAXC; omega
  simp only [this, if_false]
  split <;> omega

/-- C19 monotone in the offered input -/
theorem C19_mono_succ (avail : Nat) : ∀ inLen, consumedLen inLen avail ≤ consumedLen (inLen + 1) avail := by
  intro inLen
  induction inLen using Nat.strongRecOn generalizing avail with
  | _ n ih =>
    rw [consumedLen_eq n, consumedLen_eq (n + 1)]
    unfold chunkOf
    generalize hM : min MAXC (maxFit avail) = M
    by_cases hn : n < M
    · have e1 : min n M = n := by omega
      have e2 : min (n + 1) M = n + 1 := by omega
      rw [e1, e2]
      by_cases hz : n = 0
      · simp [hz]
      · simp [hz]
    · have e1 : min n M = M := by omega
      have e2 : min (n + 1) M = M := by omega
      rw [e1, e2]
      by_cases hz : M = 0
      · simp [hz]
      · simp only [hz, if_false]
        by_cases hgt : n > M
        · have hgt' : n + 1 > M := by omega
          simp only [hgt, hgt', if_true]
          have := ih (n - M) (by omega) (avail - frameLen M)
          have e : n + 1 - M = n - M + 1 := by omega
          rw [e]; omega
        · have hgt' : n + 1 > M := by omega
          simp only [hgt, hgt', if_true, if_false]
          omega

theorem C19_mono {a b : Nat} (avail : Nat) (h : a ≤ b) : consumedLen a avail ≤ consumedLen b avail := by
  induction h with
  | refl => exact Nat.le_refl _
  | step _ ih => exact Nat.le_trans ih (C19_mono_succ avail _)

def maxInput (n : Nat) : Nat :=
  (n / 10248) * 10240 + (if n % 10248 ≤ 8 then 0 else n % 10248 - 8)

theorem hexLen_10240 : hexLen 10240 = 4 := by
  rw [hexLen_ge16 (by omega), hexLen_ge16 (by omega), hexLen_ge16 (by omega), hexLen_lt16 (by omega)]

theorem chunk_full {inLen avail : Nat} (hi : 10240 ≤ inLen) (ha : 10248 ≤ avail) : chunkOf inLen avail = 10240 := by
  have : 10240 ≤ maxFit avail := maxFit_max avail 10240 (by unfold frameLen; rw [hexLen_10240]; omega)
  unfold chunkOf MAXC; omega

theorem chunk_all {inLen avail : Nat} (hi : inLen ≤ 10240) (ha : inLen + 8 ≤ avail) : chunkOf inLen avail = inLen := by
  have : inLen ≤ maxFit avail := maxFit_max avail inLen (by
    unfold frameLen; have := hexLen_le4 (n := inLen) (by omega); omega)
  unfold chunkOf MAXC; omega

theorem blk_sub (k x c : Nat) : (k + 1) * c + x - c = k * c + x := by
  rw [Nat.succ_mul]; omega

theorem consumed_blocks (k t r : Nat) (hr : r < 10248) (ht : t = if r ≤ 8 then 0 else r - 8) :
    consumedLen (k * 10240 + t) (k * 10248 + r) = k * 10240 + t := by
  induction k with
  | zero =>
    simp only [Nat.zero_mul, Nat.zero_add]
    rw [consumedLen_eq]
    by_cases hz : t = 0
    · subst hz; simp [chunkOf]
    · have hr8 : ¬ r ≤ 8 := by intro h; simp [h] at ht; exact hz ht
      simp only [hr8, if_false] at ht
      have hc : chunkOf t r = t := chunk_all (by omega) (by omega)
      simp [hc, hz]
  | succ k ih =>
    have e1 : (k + 1) * 10240 + t - 10240 = k * 10240 + t := blk_sub k t 10240
    have e2 : (k + 1) * 10248 + r - 10248 = k * 10248 + r := blk_sub k r 10248
    have hc : chunkOf ((k + 1) * 10240 + t) ((k + 1) * 10248 + r) = 10240 :=
      chunk_full (by omega) (by omega)
    rw [consumedLen_eq, hc]
    have hf : frameLen 10240 = 10248 := by unfold frameLen; rw [hexLen_10240]
    simp only [hf]
    rw [e1, e2, ih]
    by_cases hgt : (k + 1) * 10240 + t > 10240
    · simp [hgt]; omega
    · simp [hgt]; omega

/-- C18: the advertised maximum input for an n-byte buffer is consumed completely by one write -/
theorem C18_fits (n : Nat) : consumedLen (maxInput n) n = maxInput n := by
  have h := consumed_blocks (n / 10248) (if n % 10248 ≤ 8 then 0 else n % 10248 - 8) (n % 10248)
    (Nat.mod_lt _ (by omega)) rfl
  have hn : n / 10248 * 10248 + n % 10248 = n := by
    have := Nat.div_add_mod n 10248; omega
  rw [hn] at h
  exact h

theorem C18_le (n : Nat) : maxInput n ≤ n := by
  unfold maxInput
  have := Nat.div_add_mod n 10248
  split <;> omega

theorem C18_mono {a b : Nat} (h : a ≤ b) : maxInput a ≤ maxInput b := by
  unfold maxInput
  have ha := Nat.div_add_mod a 10248
  have hb := Nat.div_add_mod b 10248
  have hdiv : a / 10248 ≤ b / 10248 := Nat.div_le_div_right h
  have hma : a % 10248 < 10248 := Nat.mod_lt _ (by omega)
  have hmb : b % 10248 < 10248 := Nat.mod_lt _ (by omega)
  by_cases heq : a / 10248 = b / 10248
  · rw [heq] at ha ⊢
    split <;> split <;> omega
  · have : a / 10248 + 1 ≤ b / 10248 := by omega
    split <;> split <;> omega
