import Hoot.Model.Resp
set_option linter.unusedSimpArgs false

/-! forward simulation of the response scanner on well-formed heads -/

def RState.at (s : RState) (p : RPhase) : RState := { s with phase := p }

@[simp] theorem at_fields (s : RState) (p) : (s.at p).fields = s.fields := rfl
@[simp] theorem at_slots (s : RState) (p) : (s.at p).slots = s.slots := rfl
@[simp] theorem at_version (s : RState) (p) : (s.at p).version = s.version := rfl
@[simp] theorem at_code (s : RState) (p) : (s.at p).code = s.code := rfl
@[simp] theorem at_phase (s : RState) (p) : (s.at p).phase = p := rfl
@[simp] theorem at_at (s : RState) (p q) : (s.at p).at q = s.at q := rfl

theorem run_cons_next {s s' : RState} {b : UInt8} (h : respStep s b = .next s') (bs : Bytes') (k : Nat) :
    runFrom respStep s (b :: bs) k = runFrom respStep s' bs (k + 1) := by
  simp [runFrom, h]

theorem nameTok_ne_colon {b : UInt8} (h : isNameTok b = true) : True := trivial

/-- absorbing loop: header-name bytes -/
theorem run_name (s : RState) (nm : Bytes') (hn : ∀ b ∈ nm, isNameTok b = true) :
    ∀ (acc rest : Bytes') (k : Nat),
    runFrom respStep (s.at (.name acc)) (nm ++ rest) k =
      runFrom respStep (s.at (.name (acc ++ nm))) rest (k + nm.length) := by
  induction nm with
  | nil => intro acc rest k; simp
  | cons b bs ih =>
    intro acc rest k
    have hb : isNameTok b = true := hn b (by simp)
    have hstep : respStep (s.at (.name acc)) b = .next (s.at (.name (acc ++ [b]))) := by
      simp [respStep, RState.at, hb]
    rw [List.cons_append, run_cons_next hstep, ih (fun x hx => hn x (by simp [hx]))]
    simp [Nat.add_assoc, Nat.add_comm 1]

/-- absorbing loop: optional whitespace after the colon -/
theorem run_ows (s : RState) (nm ws : Bytes') (hw : ∀ b ∈ ws, isWs b = true) :
    ∀ (rest : Bytes') (k : Nat),
    runFrom respStep (s.at (.ows nm)) (ws ++ rest) k =
      runFrom respStep (s.at (.ows nm)) rest (k + ws.length) := by
  induction ws with
  | nil => intro rest k; simp
  | cons b bs ih =>
    intro rest k
    have hb : isWs b = true := hw b (by simp)
    have hstep : respStep (s.at (.ows nm)) b = .next (s.at (.ows nm)) := by
      simp [respStep, RState.at, hb]
    rw [List.cons_append, run_cons_next hstep, ih (fun x hx => hw x (by simp [hx]))]
    simp [Nat.add_assoc, Nat.add_comm 1]

/-- absorbing loop: header-value bytes (whitespace inside and after the value included) -/
theorem run_value (s : RState) (nm v : Bytes') (hv : ∀ b ∈ v, isValueTok b = true) :
    ∀ (acc rest : Bytes') (k : Nat),
    runFrom respStep (s.at (.value nm acc)) (v ++ rest) k =
      runFrom respStep (s.at (.value nm (acc ++ v))) rest (k + v.length) := by
  induction v with
  | nil => intro acc rest k; simp
  | cons b bs ih =>
    intro acc rest k
    have hb : isValueTok b = true := hv b (by simp)
    have hstep : respStep (s.at (.value nm acc)) b = .next (s.at (.value nm (acc ++ [b]))) := by
      simp [respStep, RState.at, hb]
    rw [List.cons_append, run_cons_next hstep, ih (fun x hx => hv x (by simp [hx]))]
    simp [Nat.add_assoc, Nat.add_comm 1]

theorem run_reason (s : RState) (r : Bytes') (hr : ∀ b ∈ r, isReasonTok b = true) :
    ∀ (rest : Bytes') (k : Nat),
    runFrom respStep (s.at .reason) (r ++ rest) k = runFrom respStep (s.at .reason) rest (k + r.length) := by
  induction r with
  | nil => intro rest k; simp
  | cons b bs ih =>
    intro rest k
    have hb : isReasonTok b = true := hr b (by simp)
    have h13 : (b == 13) = false := by
      cases h : b == 13 with
      | false => rfl
      | true => have : b = 13 := by simpa using h
                subst this; simp [isReasonTok] at hb
    have h10 : (b == 10) = false := by
      cases h : b == 10 with
      | false => rfl
      | true => have : b = 10 := by simpa using h
                subst this; simp [isReasonTok] at hb
    have hstep : respStep (s.at .reason) b = .next (s.at .reason) := by
      simp [respStep, RState.at, hb, h13, h10]
    rw [List.cons_append, run_cons_next hstep, ih (fun x hx => hr x (by simp [hx]))]
    simp [Nat.add_assoc, Nat.add_comm 1]

/-- a well-formed header field as it appears on the wire -/
structure Field where
  name : Bytes'
  pre : Bytes'     -- OWS after the colon
  value : Bytes'   -- field content, no leading/trailing whitespace, may be empty
  post : Bytes'    -- OWS before CRLF

def Field.wf (f : Field) : Prop :=
  f.name ≠ [] ∧ (∀ b ∈ f.name, isNameTok b = true) ∧
  (∀ b ∈ f.pre, isWs b = true) ∧ (∀ b ∈ f.post, isWs b = true) ∧
  (∀ b ∈ f.value, isValueTok b = true) ∧
  (∀ b, f.value.head? = some b → isWs b = false) ∧
  (∀ b, f.value.getLast? = some b → isWs b = false)

def Field.enc (f : Field) : Bytes' := f.name ++ (58 :: (f.pre ++ (f.value ++ (f.post ++ [13, 10]))))

theorem ws_valueTok {b : UInt8} (h : isWs b = true) : isValueTok b = true := by
  simp [isWs] at h
  rcases h with h | h <;> subst h <;> decide

theorem trimEnd_append_ws (v ws : Bytes') (hws : ∀ b ∈ ws, isWs b = true)
    (hl : ∀ b, v.getLast? = some b → isWs b = false) : trimEnd (v ++ ws) = v := by
  unfold trimEnd
  rw [List.reverse_append]
  have h1 : (ws.reverse ++ v.reverse).dropWhile isWs = v.reverse.dropWhile isWs := by
    rw [List.dropWhile_append_of_pos]
    intro b hb; exact hws b (by simpa using hb)
  rw [h1]
  cases hv : v.reverse with
  | nil => simp at hv; simp [hv]
  | cons x xs =>
    have hx : v.getLast? = some x := by
      rw [List.getLast?_eq_head?_reverse, hv]; rfl
    have := hl x hx
    simp [List.dropWhile, this]
    rw [← List.reverse_cons, ← hv]; simp

/-- one well-formed field line moves the scanner from `lineStart` to `lineStart` with the field recorded -/
theorem run_field (s : RState) (f : Field) (hf : f.wf) (hslot : s.fields.length < s.slots)
    (rest : Bytes') (k : Nat) :
    runFrom respStep (s.at .lineStart) (f.enc ++ rest) k =
      runFrom respStep ({ s with fields := s.fields ++ [(f.name, f.value)] }.at .lineStart) rest (k + f.enc.length) := by
  obtain ⟨hne, hname, hpre, hpost, hval, hhead, hlast⟩ := hf
  obtain ⟨n0, ns, hn⟩ : ∃ n0 ns, f.name = n0 :: ns := by
    cases h : f.name with
    | nil => exact absurd h hne
    | cons a b => exact ⟨a, b, rfl⟩
  have hn0 : isNameTok n0 = true := hname n0 (by simp [hn])
  have hn0_13 : (n0 == 13) = false := by
    cases h : n0 == 13 with
    | false => rfl
    | true => have : n0 = 13 := by simpa using h
              subst this; simp [isNameTok] at hn0
  have hn0_10 : (n0 == 10) = false := by
    cases h : n0 == 10 with
    | false => rfl
    | true => have : n0 = 10 := by simpa using h
              subst this; simp [isNameTok] at hn0
  have hcolon : isNameTok 58 = false := by decide
  -- abbreviations for the wire image after the name
  let A := f.pre ++ (f.value ++ (f.post ++ [13, 10]))
  have hstep0 : respStep (s.at .lineStart) n0 = .next (s.at (.name [n0])) := by
    simp [respStep, RState.at, hn0, hn0_13, hn0_10]
  have hns : ∀ b ∈ ns, isNameTok b = true := fun b hb => hname b (by simp [hn, hb])
  have hname_run : ∀ R k', runFrom respStep (s.at (.name [n0])) (ns ++ R) k' =
      runFrom respStep (s.at (.name (n0 :: ns))) R (k' + ns.length) := by
    intro R k'; simpa using run_name s ns hns [n0] R k'
  have hstepc : respStep (s.at (.name (n0 :: ns))) 58 = .next (s.at (.ows (n0 :: ns))) := by
    simp [respStep, RState.at, hcolon]
  have hlen : f.enc.length = 1 + ns.length + 1 + f.pre.length + f.value.length + f.post.length + 2 := by
    simp [Field.enc, hn]; omega
  have henc : f.enc ++ rest = n0 :: (ns ++ (58 :: (f.pre ++ (f.value ++ (f.post ++ (13 :: 10 :: rest)))))) := by
    simp [Field.enc, hn]
  rw [henc, run_cons_next hstep0, hname_run, run_cons_next hstepc, run_ows s _ f.pre hpre]
  cases hv : f.value with
  | nil =>
    simp only [List.nil_append]
    rw [run_ows s _ f.post hpost]
    have h1 : respStep (s.at (.ows (n0 :: ns))) 13 = .next (s.at (.emptyCR (n0 :: ns))) := by
      simp [respStep, RState.at, isWs, isValueTok]
    have h2 : respStep (s.at (.emptyCR (n0 :: ns))) 10 =
        .next ({ s with fields := s.fields ++ [(n0 :: ns, [])] }.at .lineStart) := by
      simp [respStep, RState.at, endField, hslot, trimEnd]
    rw [run_cons_next h1, run_cons_next h2, hlen, hv]
    simp only [hn, List.length_nil]
    congr 1; omega
  | cons v0 vs =>
    have hv0 : isValueTok v0 = true := hval v0 (by simp [hv])
    have hv0ws : isWs v0 = false := hhead v0 (by simp [hv])
    have h1 : respStep (s.at (.ows (n0 :: ns))) v0 = .next (s.at (.value (n0 :: ns) [v0])) := by
      simp [respStep, RState.at, hv0, hv0ws]
    have hvs : ∀ b ∈ vs ++ f.post, isValueTok b = true := by
      intro b hb
      rcases List.mem_append.mp hb with h | h
      · exact hval b (by simp [hv, h])
      · exact ws_valueTok (hpost b h)
    have hvalue_run : ∀ R k', runFrom respStep (s.at (.value (n0 :: ns) [v0])) ((vs ++ f.post) ++ R) k' =
        runFrom respStep (s.at (.value (n0 :: ns) (v0 :: (vs ++ f.post)))) R (k' + (vs ++ f.post).length) := by
      intro R k'; simpa using run_value s (n0 :: ns) (vs ++ f.post) hvs [v0] R k'
    have h2 : respStep (s.at (.value (n0 :: ns) (v0 :: (vs ++ f.post)))) 13 =
        .next (s.at (.valueCR (n0 :: ns) (v0 :: (vs ++ f.post)))) := by
      simp [respStep, RState.at, isValueTok]
    have htrim : trimEnd (v0 :: (vs ++ f.post)) = v0 :: vs := by
      have := trimEnd_append_ws (v0 :: vs) f.post hpost (by rw [← hv]; exact hlast)
      simpa using this
    have h3 : respStep (s.at (.valueCR (n0 :: ns) (v0 :: (vs ++ f.post)))) 10 =
        .next ({ s with fields := s.fields ++ [(n0 :: ns, v0 :: vs)] }.at .lineStart) := by
      simp only [respStep, RState.at, endField]
      simp [hslot, htrim]
    have hshape : (v0 :: vs) ++ (f.post ++ (13 :: 10 :: rest)) = v0 :: ((vs ++ f.post) ++ (13 :: 10 :: rest)) := by simp
    rw [hshape, run_cons_next h1, hvalue_run, run_cons_next h2, run_cons_next h3, hlen, hv]
    simp only [hn, List.length_cons, List.length_append]
    congr 1; omega

structure Head where
  ver : Nat
  d1 : UInt8
  d2 : UInt8
  d3 : UInt8
  reason : Option Bytes'
  fields : List Field

def isDigit (b : UInt8) : Prop := 48 ≤ b ∧ b ≤ 57

def Head.wf (h : Head) : Prop :=
  h.ver ≤ 1 ∧ isDigit h.d1 ∧ isDigit h.d2 ∧ isDigit h.d3 ∧
  (∀ r, h.reason = some r → ∀ b ∈ r, isReasonTok b = true) ∧ (∀ f ∈ h.fields, f.wf)

def Head.codeVal (h : Head) : Nat :=
  ((0 * 10 + (h.d1.toNat - 48)) * 10 + (h.d2.toNat - 48)) * 10 + (h.d3.toNat - 48)

def Head.reasonBytes (h : Head) : Bytes' := match h.reason with | none => [] | some r => 32 :: r

def Head.statusLine (h : Head) : Bytes' :=
  [72, 84, 84, 80, 47, 49, 46, (48 + h.ver).toUInt8, 32, h.d1, h.d2, h.d3] ++ (h.reasonBytes ++ [13, 10])

def Field.pair (f : Field) : Bytes' × Bytes' := (f.name, f.value)

def encFields (fs : List Field) : Bytes' := (fs.map Field.enc).flatten

def Head.enc (h : Head) : Bytes' := h.statusLine ++ (encFields h.fields ++ [13, 10])

theorem run_fields (fs : List Field) (hfs : ∀ f ∈ fs, f.wf) :
    ∀ (s : RState) (rest : Bytes') (k : Nat), s.fields.length + fs.length ≤ s.slots →
    runFrom respStep (s.at .lineStart) (encFields fs ++ rest) k =
      runFrom respStep ({ s with fields := s.fields ++ fs.map Field.pair }.at .lineStart) rest
        (k + (encFields fs).length) := by
  induction fs with
  | nil =>
    intro s rest k _
    simp [encFields, RState.at]
  | cons f fs ih =>
    intro s rest k hslots
    have hf : f.wf := hfs f (by simp)
    have hrest : ∀ g ∈ fs, g.wf := fun g hg => hfs g (by simp [hg])
    have e : encFields (f :: fs) ++ rest = f.enc ++ (encFields fs ++ rest) := by simp [encFields]
    rw [e, run_field s f hf (by simp at hslots; omega)]
    have := ih hrest { s with fields := s.fields ++ [(f.name, f.value)] } rest (k + f.enc.length)
      (by simp at hslots ⊢; omega)
    simp only [RState.at] at this ⊢
    rw [this]
    simp [encFields, Nat.add_assoc, Field.pair]

theorem run_end (s : RState) (v c : Nat) (hv : s.version = some v) (hc : s.code = some c) (rest : Bytes') (k : Nat) :
    runFrom respStep (s.at .lineStart) (13 :: 10 :: rest) k =
      .complete { version := v, code := c, fields := s.fields } (k + 2) := by
  have h1 : respStep (s.at .lineStart) 13 = .next (s.at .endCR) := by simp [respStep, RState.at]
  rw [run_cons_next h1]
  simp [runFrom, respStep, RState.at, finish, hv, hc]

theorem digit_ok {b : UInt8} (h : isDigit b) : (48 ≤ b && b ≤ 57) = true := by
  simp [isDigit] at h; simp [h.1, h.2]

theorem run_status (h : Head) (hw : h.wf) (slots : Nat) (rest : Bytes') :
    runFrom respStep (respInit slots) (h.statusLine ++ rest) 0 =
      runFrom respStep
        { phase := .lineStart, version := some h.ver, code := some h.codeVal, fields := [], slots := slots }
        rest h.statusLine.length := by
  obtain ⟨hver, hd1, hd2, hd3, hreason, _⟩ := hw
  have hvb : (48 + h.ver).toUInt8 = 48 ∧ h.ver = 0 ∨ (48 + h.ver).toUInt8 = 49 ∧ h.ver = 1 := by
    rcases Nat.lt_or_ge h.ver 1 with h0 | h1
    · left; have : h.ver = 0 := by omega
      simp [this]
    · right; have : h.ver = 1 := by omega
      simp [this]
  have e1 := digit_ok hd1
  have e2 := digit_ok hd2
  have e3 := digit_ok hd3
  unfold Head.statusLine Head.reasonBytes
  cases hr : h.reason with
  | none =>
    rcases hvb with ⟨hb, hv⟩ | ⟨hb, hv⟩ <;>
    · simp [runFrom, respStep, respInit, verPrefix, hb, hv, e1, e2, e3, Head.codeVal]
  | some r =>
    have hrt := hreason r hr
    have hrun := run_reason
      { phase := .reason, version := some h.ver, code := some h.codeVal, fields := [], slots := slots } r hrt
    simp only [RState.at] at hrun
    rcases hvb with ⟨hb, hv⟩ | ⟨hb, hv⟩ <;>
    · simp [runFrom, respStep, respInit, verPrefix, hb, hv, e1, e2, e3, Head.codeVal] 
      simp [hv, Head.codeVal] at hrun
      rw [hrun]
      simp [runFrom, respStep, Nat.add_comm, Nat.add_assoc]
      congr 1; omega

/-- forward theorem: a well-formed head followed by anything parses to exactly that head and
    consumes exactly its length -/
theorem resp_forward (h : Head) (hw : h.wf) (slots : Nat) (hs : h.fields.length ≤ slots) (rest : Bytes') :
    parseResp slots (h.enc ++ rest) =
      .complete { version := h.ver, code := h.codeVal, fields := h.fields.map Field.pair }
        h.enc.length := by
  unfold parseResp Head.enc
  rw [List.append_assoc, run_status h hw slots]
  have hf := run_fields h.fields hw.2.2.2.2.2
    { phase := .lineStart, version := some h.ver, code := some h.codeVal, fields := [], slots := slots }
    ([13, 10] ++ rest) h.statusLine.length (by simpa using hs)
  simp only [RState.at] at hf
  rw [List.append_assoc, hf]
  have he := run_end
    { phase := .lineStart, version := some h.ver, code := some h.codeVal,
      fields := [] ++ h.fields.map Field.pair, slots := slots }
    h.ver h.codeVal rfl rfl rest (h.statusLine.length + (encFields h.fields).length)
  simp only [RState.at] at he
  simp only [List.cons_append, List.nil_append] at he ⊢
  rw [he]
  simp [Nat.add_assoc]

/-- C05/C20 core: every strict prefix of a well-formed head is "need more data" -/
theorem resp_prefix (h : Head) (hw : h.wf) (slots : Nat) (hs : h.fields.length ≤ slots) (n : Nat)
    (hn : n < h.enc.length) : ∃ st, parseResp slots (h.enc.take n) = .more st := by
  have hf := resp_forward h hw slots hs []
  simp only [List.append_nil] at hf
  exact strict_prefix_partial respStep (respInit slots) h.enc _ hf n hn
