import Hoot.Model.Req
import Hoot.Proofs.Writer

/-! Link between the byte-level chunked writer of the model (`writeChunks`, Req.lean) and the
    length-level arithmetic of `Writer.lean`; wire-format lemma for one chunked write. -/

theorem toHexB_length (n : Nat) : (toHexB n).length = hexLen n := by
  induction n using Nat.strongRecOn with
  | _ n ih =>
    rw [toHexB, hexLen]
    by_cases h : n < 16
    · simp [h]
    · simp only [h, dite_false, List.length_append, List.length_cons, List.length_nil]
      rw [ih (n / 16) (by omega)]; omega

theorem hexLenB_eq (n : Nat) : hexLenB n = hexLen n := toHexB_length n

theorem fitDownB_eq (a : Nat) : ∀ s, fitDownB a s = fitDown a s := by
  intro s
  induction s with
  | zero => rfl
  | succ s ih =>
    simp only [fitDownB, fitDown, frameLen, hexLenB_eq, ih]
    rfl

/-- one chunk on the wire -/
def frame (c : Bytes) : Bytes := toHexB c.length ++ crlf ++ c ++ crlf

theorem frame_length (c : Bytes) : (frame c).length = frameLen c.length := by
  simp [frame, crlf, frameLen, toHexB_length]; omega

theorem writeChunks_eq (input : Bytes) (w : W) (maxChunk used : Nat) :
    writeChunks input w maxChunk used =
      (if min input.length (min maxChunk (fitDownB w.available (w.available - 5))) = 0 then (w, used)
       else
         let toWrite := min input.length (min maxChunk (fitDownB w.available (w.available - 5)))
         if !(w.tryWrite (toHexB toWrite ++ crlf ++ input.take toWrite ++ crlf)).2 then (w, used)
         else if input.length > toWrite then
           writeChunks (input.drop toWrite) (w.tryWrite (toHexB toWrite ++ crlf ++ input.take toWrite ++ crlf)).1 maxChunk (used + toWrite)
         else ((w.tryWrite (toHexB toWrite ++ crlf ++ input.take toWrite ++ crlf)).1, used + toWrite)) := by
  rw [writeChunks]
  by_cases h0 : min input.length (min maxChunk (fitDownB w.available (w.available - 5))) = 0
  · simp [h0]
  · simp only [h0, dite_false, if_false]
    generalize w.tryWrite _ = p
    obtain ⟨w', ok⟩ := p
    cases ok <;> simp

theorem tryWrite_fits (w : W) (b : Bytes) (h : b.length ≤ w.available) :
    w.tryWrite b = ({ w with out := w.out ++ b }, true) := by
  unfold W.tryWrite; simp [h]

theorem available_after (w : W) (b : Bytes) (h : b.length ≤ w.available) :
    ({ w with out := w.out ++ b } : W).available = w.available - b.length := by
  simp [W.available]; omega

/-- What a chunked write of non-empty input does, for every input and every buffer: the output grows
    by a sequence of complete non-empty chunks whose data is exactly the consumed prefix of the input,
    and the consumed count is the length-level `consumedLen`. -/
theorem writeChunks_spec : ∀ (n : Nat) (input : Bytes) (w : W) (used : Nat), input.length = n → w.out.length ≤ w.cap →
    ∃ cs : List Bytes,
      (∀ c ∈ cs, c ≠ []) ∧
      (writeChunks input w 10240 used).1.out = w.out ++ (cs.map frame).flatten ∧
      (writeChunks input w 10240 used).1.cap = w.cap ∧
      (writeChunks input w 10240 used).1.out.length ≤ w.cap ∧
      (writeChunks input w 10240 used).2 = used + consumedLen input.length w.available ∧
      cs.flatten = input.take (consumedLen input.length w.available) := by
  intro n
  induction n using Nat.strongRecOn with
  | _ n ih =>
    intro input w used hn hcap
    rw [writeChunks_eq, consumedLen_eq]
    have hfit : fitDownB w.available (w.available - 5) = maxFit w.available := by
      rw [fitDownB_eq]; rfl
    have hco : min input.length (min 10240 (fitDownB w.available (w.available - 5))) = chunkOf input.length w.available := by
      rw [hfit]; rfl
    rw [hco]
    have hle : chunkOf input.length w.available ≤ maxFit w.available := by unfold chunkOf; omega
    have hci : chunkOf input.length w.available ≤ input.length := chunkOf_le _ _
    generalize hk : chunkOf input.length w.available = k at *
    by_cases h0 : k = 0
    · simp only [h0, if_true]
      refine ⟨[], ?_, ?_, ?_, ?_, ?_, ?_⟩ <;> simp [hcap]
    · simp only [h0, if_false]
      -- the chunk fits
      have hmf : frameLen (maxFit w.available) ≤ w.available := by
        rcases maxFit_ok w.available with h | h
        · omega
        · exact h
      have hfl : frameLen k ≤ w.available := Nat.le_trans (frameLen_mono hle) hmf
      have htl : (input.take k).length = k := by
        simp [List.length_take]; omega
      have hfr : toHexB k ++ crlf ++ input.take k ++ crlf = frame (input.take k) := by
        simp [frame, htl]
      rw [hfr]
      have hfrl : (frame (input.take k)).length ≤ w.available := by rw [frame_length, htl]; exact hfl
      rw [tryWrite_fits w _ hfrl]
      simp only [Bool.not_true, Bool.false_eq_true, if_false]
      have hne : input.take k ≠ [] := by
        intro he; rw [he] at htl; simp at htl; omega
      have hav := available_after w _ hfrl
      rw [frame_length, htl] at hav
      have hcap' : ({ w with out := w.out ++ frame (input.take k) } : W).out.length ≤ w.cap := by
        have : (w.out ++ frame (input.take k)).length = w.out.length + frameLen k := by
          rw [List.length_append, frame_length, htl]
        simp only [this]; unfold W.available at hfl; omega
      by_cases hgt : input.length > k
      · simp only [hgt, if_true]
        have hdl : (input.drop k).length = input.length - k := by simp
        obtain ⟨cs, hcs1, hcs2, hcs3, hcs4, hcs5, hcs6⟩ := ih (input.length - k) (by omega)
          (input.drop k) { w with out := w.out ++ frame (input.take k) } (used + k) hdl hcap'
        refine ⟨input.take k :: cs, ?_, ?_, ?_, ?_, ?_, ?_⟩
        · intro c hc
          rcases List.mem_cons.mp hc with h | h
          · rw [h]; exact hne
          · exact hcs1 c h
        · rw [hcs2]; simp [List.append_assoc]
        · rw [hcs3]
        · exact hcs4
        · rw [hcs5, hdl, hav]; omega
        · rw [List.flatten_cons, hcs6, hdl, hav, ← List.take_add]
      · simp only [hgt, if_false]
        refine ⟨[input.take k], ?_, ?_, ?_, ?_, ?_, ?_⟩
        · intro c hc; simp at hc; rw [hc]; exact hne
        · simp
        · simp
        · exact hcap'
        · simp
        · simp
