import Hoot.Proofs.RespProof
set_option linter.unusedVariables false
set_option linter.unusedSimpArgs false

/-! Monotonicity of the response scanner: once set, version and code never change, and the list of
    completed fields only grows at its end. Used for the partial parser (C20) and the `Call`-level
    prefix theorem with the redirect fallback (C05). -/

/-- reachable-state invariant: what has not been scanned yet is not set -/
def RInv (s : RState) : Prop :=
  match s.phase with
  | .skipEmpty | .skipEmptyLF | .ver _ => s.version = none ∧ s.code = none ∧ s.fields = []
  | .verSpace | .code _ _ => s.code = none ∧ s.fields = []
  | .afterCode | .afterCodeCR | .reason | .reasonCR => s.fields = []
  | _ => True

theorem RInv_init (slots : Nat) : RInv (respInit slots) := by simp [RInv, respInit]

def Ext (s s' : RState) : Prop :=
  (∀ v, s.version = some v → s'.version = some v) ∧ (∀ c, s.code = some c → s'.code = some c) ∧
  (∃ t, s'.fields = s.fields ++ t) ∧ s'.slots = s.slots

theorem Ext.refl (s : RState) : Ext s s := ⟨fun _ h => h, fun _ h => h, ⟨[], by simp⟩, rfl⟩
theorem Ext.trans {a b c : RState} (h1 : Ext a b) (h2 : Ext b c) : Ext a c := by
  obtain ⟨v1, c1, ⟨t1, f1⟩, s1⟩ := h1
  obtain ⟨v2, c2, ⟨t2, f2⟩, s2⟩ := h2
  exact ⟨fun v h => v2 v (v1 v h), fun c h => c2 c (c1 c h), ⟨t1 ++ t2, by rw [f2, f1]; simp⟩, by rw [s2, s1]⟩

theorem step_next_mono (s s' : RState) (b : UInt8) (hi : RInv s) (h : respStep s b = .next s') :
    RInv s' ∧ Ext s s' := by
  unfold respStep at h
  unfold RInv at hi
  cases hp : s.phase <;> simp only [hp] at h hi <;>
    (repeat' split at h) <;> (try (simp at h)) <;> (try subst h) <;>
    (try (simp [RInv, Ext, endField] at *)) <;> (try (simp_all [RInv, Ext])) 
  all_goals first
    | (unfold finish at h; split at h <;> simp at h)
    | (split at h <;> simp at h; subst h; simp [RInv, Ext])


theorem step_done_mono (s : RState) (r : RDone) (b : UInt8) (h : respStep s b = .done r) :
    (∀ v, s.version = some v → r.version = v) ∧ (∀ c, s.code = some c → r.code = c) ∧ r.fields = s.fields := by
  unfold respStep at h
  cases hp : s.phase <;> simp only [hp] at h <;>
    (repeat' split at h) <;> (try (simp at h)) <;> (try (simp [endField] at h)) <;>
    (try (split at h <;> simp at h))
  all_goals
    (unfold finish at h; split at h <;> simp at h
     subst h; simp_all)

theorem run_more_mono : ∀ (inp : Bytes') (s : RState) (k : Nat) (st : RState), RInv s →
    runFrom respStep s inp k = .more st → RInv st ∧ Ext s st := by
  intro inp
  induction inp with
  | nil => intro s k st hi h; simp [runFrom] at h; subst h; exact ⟨hi, Ext.refl s⟩
  | cons b bs ih =>
    intro s k st hi h
    simp only [runFrom] at h
    cases hs : respStep s b with
    | next s' =>
      rw [hs] at h
      obtain ⟨hi', he⟩ := step_next_mono s s' b hi hs
      obtain ⟨hi2, he2⟩ := ih s' (k + 1) st hi' h
      exact ⟨hi2, Ext.trans he he2⟩
    | done r => rw [hs] at h; simp at h
    | err e => rw [hs] at h; simp at h

theorem run_complete_mono : ∀ (inp : Bytes') (s : RState) (k : Nat) (r : RDone) (u : Nat), RInv s →
    runFrom respStep s inp k = .complete r u →
    (∀ v, s.version = some v → r.version = v) ∧ (∀ c, s.code = some c → r.code = c) ∧ ∃ t, r.fields = s.fields ++ t := by
  intro inp
  induction inp with
  | nil => intro s k r u hi h; simp [runFrom] at h
  | cons b bs ih =>
    intro s k r u hi h
    simp only [runFrom] at h
    cases hs : respStep s b with
    | next s' =>
      rw [hs] at h
      obtain ⟨hi', hv, hc, ⟨t1, hf⟩, _⟩ := step_next_mono s s' b hi hs
      obtain ⟨gv, gc, ⟨t2, gf⟩⟩ := ih s' (k + 1) r u hi' h
      exact ⟨fun v hv' => gv v (hv v hv'), fun c hc' => gc c (hc c hc'), ⟨t1 ++ t2, by rw [gf, hf]; simp⟩⟩
    | done r' =>
      rw [hs] at h; simp at h
      obtain ⟨h1, _⟩ := h; subst h1
      obtain ⟨a, b', c⟩ := step_done_mono s r' b hs
      exact ⟨a, b', ⟨[], by simp [c]⟩⟩
    | err e => rw [hs] at h; simp at h

/-- The scanner state after any strict prefix of a well-formed head: whatever is set agrees with the
    head, and the completed fields are an initial segment of the head's fields. -/
theorem prefix_state (h : Head) (hw : h.wf) (slots : Nat) (hs : h.fields.length ≤ slots) (n : Nat)
    (hn : n < h.enc.length) :
    ∃ st, parseResp slots (h.enc.take n) = .more st ∧
      (st.version = none ∨ st.version = some h.ver) ∧ (st.code = none ∨ st.code = some h.codeVal) ∧
      ∃ t, h.fields.map Field.pair = st.fields ++ t := by
  obtain ⟨st, hst⟩ := resp_prefix h hw slots hs n hn
  refine ⟨st, hst, ?_⟩
  have hf := resp_forward h hw slots hs []
  simp only [List.append_nil] at hf
  have hsplit : h.enc = h.enc.take n ++ h.enc.drop n := (List.take_append_drop n h.enc).symm
  unfold parseResp at hf hst
  rw [hsplit, runFrom_append, hst] at hf
  simp only [] at hf
  obtain ⟨hi, _⟩ := run_more_mono _ _ _ _ (RInv_init slots) hst
  obtain ⟨gv, gc, ⟨t, gf⟩⟩ := run_complete_mono _ _ _ _ _ hi hf
  refine ⟨?_, ?_, ⟨t, by simpa using gf⟩⟩
  · cases hv : st.version with
    | none => left; rfl
    | some v => right; have := gv v hv; simp at this; rw [this]
  · cases hc : st.code with
    | none => left; rfl
    | some c => right; have := gc c hc; simp at this; rw [this]
