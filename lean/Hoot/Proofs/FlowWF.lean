import Hoot.Proofs.PropsWF
import Hoot.Proofs.ChunkTotal
set_option linter.unusedVariables false
set_option linter.unusedSimpArgs false
set_option maxHeartbeats 800000

/-! Well-formedness of flows is preserved by every public operation, and no operation on a well-formed
    flow panics (C09 / C12). One lemma per typestate. -/

def noPanic (r : Res) : Prop := isPanic r = false

macro "np" : tactic => `(tactic| first | trivial | rfl | (simp [noPanic, isPanic, resOfUnit, resOfBool]; done))

theorem wf_stepPrepare (f : Flow) (op : Op) (hwf : f.WF) (hs : f.st = .prepare) (hok : op.okFor f) :
    noPanic (stepPrepare f op).2 ∧ (stepPrepare f op).1.WF := by
  have hwf0 := hwf
  obtain ⟨a1, a2, a3, a4, a5, a6, a6', a7, a8, a9, a10, a11, a12, a13, a14, a15⟩ := hwf
  have hpre := a6 hs
  unfold stepPrepare
  cases op <;> simp only [notOffered, noPanic, isPanic] <;> (try (exact ⟨by np, hwf0⟩))
  · -- header
    rename_i h
    by_cases hv : validHeaderValue h.value = true
    · simp only [hv, Bool.not_true, Bool.false_eq_true, if_false]
      simp only [Op.okFor] at hok
      have hl : f.call.req.added.length < MAX_EXTRA := by omega
      rw [setHeader_ok f.call.req h hl]
      refine ⟨by np, ?_⟩
      constructor <;> simp_all [holderOk, sendOk, AReq.headers] <;> omega
    · simp only [hv, Bool.not_false, if_true]
      exact ⟨by np, hwf0⟩
  · -- despite
    by_cases hh : f.holder = .withoutBody
    · simp only [hh, beq_self_eq_true, if_true, hpre.1, Bool.false_eq_true, if_false]
      refine ⟨by np, ?_⟩
      constructor <;> simp_all [holderOk, sendOk, BodyWriter.newChunked]
    · have : (f.holder == Holder.withoutBody) = false := by simpa using hh
      simp only [this, Bool.false_eq_true, if_false]
      refine ⟨by np, ?_⟩
      simp only [holderOk, hs] at a1
      have hwb : f.holder = .withBody := by rcases a1 with h | h; exact absurd h hh; exact h
      constructor <;> simp_all [holderOk, sendOk]
  · -- proceed
    refine ⟨by np, ?_⟩
    constructor <;> simp_all [holderOk, sendOk]

/-- the call-level part of the invariant -/
structure CallInv (c : CallSt) : Prop where
  cap : c.analyzed = true ∨ c.req.added.length + 2 ≤ MAX_EXTRA
  hdrs : c.analyzed = true → c.req.headers ≠ []
  ph : c.phase ≠ .sendLine → c.analyzed = true

/-- what the head-writing part of a call preserves -/
structure CallKeeps (c c' : CallSt) : Prop where
  inv : CallInv c'
  reader : c'.reader = c.reader
  skip : c'.skipCheck = c.skipCheck
  stop : c'.stopBoundary = c.stopBoundary
  meth : c'.req.method = c.req.method
  mode : c.writer.mode ≠ .none → c'.writer.mode ≠ .none
  none : c.skipCheck = false → c.req.method.needBody = false → c.writer = BodyWriter.newNone → c'.writer = BodyWriter.newNone
  prel : c.phase.isPrelude = false → c'.phase = c.phase

theorem CallKeeps.refl (c : CallSt) (h : CallInv c) : CallKeeps c c :=
  ⟨h, rfl, rfl, rfl, rfl, fun x => x, fun _ _ x => x, fun _ => rfl⟩

theorem writePrelude_phase_keep (c : CallSt) (w : W) (h : c.phase.isPrelude = false) :
    (writePrelude c w).1.phase = c.phase := by
  unfold writePrelude
  cases hp : c.phase <;> simp [hp, Phase.isPrelude] at h ⊢

theorem prelude_keeps (c : CallSt) (cap : Nat) (h : CallInv c) :
    (∀ s, (c.writeNoBody cap).2 ≠ .error (.panic s)) ∧ CallKeeps c (c.writeNoBody cap).1 := by
  obtain ⟨h1, h2, h3⟩ := h
  have hspec := analyzeRequest_spec c h1
  simp only [] at hspec
  obtain ⟨s1, s2, s3, s4, s5, s6, s7, s8, s9, s10, s11, s12, s13⟩ := hspec
  unfold CallSt.writeNoBody
  rcases hq : c.analyzeRequest with ⟨c1, r1⟩
  rw [hq] at s1 s2 s3 s4 s5 s6 s7 s8 s9 s10 s11 s12 s13
  simp only [] at s1 s2 s3 s4 s5 s6 s7 s8 s9 s10 s11 s12 s13
  cases r1 with
  | error e =>
    have hsame : c1 = c := s10 (by simp)
    subst hsame
    refine ⟨?_, CallKeeps.refl _ ⟨h1, h2, h3⟩⟩
    intro s he; simp at he; exact s1 s (by rw [he])
  | ok u =>
    cases u
    simp only []
    have han : c1.analyzed = true := (s8 rfl).1
    have hhd : c1.req.headers ≠ [] := by
      by_cases ha : c.analyzed = true
      · have := (s11 ha).1; rw [this]; exact h2 ha
      · exact s9 rfl (by simpa using ha)
    obtain ⟨w1, w2, w3, w4, w5, w6, w7⟩ := writePrelude_spec c1 { out := [], cap := cap } hhd
    rcases hw : writePrelude c1 { out := [], cap := cap } with ⟨c2, w2', r2⟩
    rw [hw] at w1 w2 w3 w4 w5 w6 w7
    simp only [] at w1 w2 w3 w4 w5 w6 w7
    have hprel : c.phase.isPrelude = false → c2.phase = c.phase := by
      intro hp
      have h12 : c2 = (writePrelude c1 { out := [], cap := cap }).1 := by rw [hw]
      rw [h12, writePrelude_phase_keep c1 _ (by rw [s2]; exact hp), s2]
    cases r2 with
    | error e =>
      refine ⟨by intro s he; simp at he; exact w1 s (by rw [he]), ?_⟩
      exact ⟨⟨Or.inl (by rw [w3]; exact han), by intro _; rw [w2]; exact hhd, by intro _; rw [w3]; exact han⟩,
        by rw [w5, s3], by rw [w6, s4], by rw [w7, s5], by rw [w2, s6], by intro hm; rw [w4]; exact s12 hm,
        by intro a b cc; rw [w4]; exact s13 a b cc, hprel⟩
    | ok u2 =>
      cases u2
      refine ⟨by intro s he; simp at he, ?_⟩
      exact ⟨⟨Or.inl (by rw [w3]; exact han), by intro _; rw [w2]; exact hhd, by intro _; rw [w3]; exact han⟩,
        by rw [w5, s3], by rw [w6, s4], by rw [w7, s5], by rw [w2, s6], by intro hm; rw [w4]; exact s12 hm,
        by intro a b cc; rw [w4]; exact s13 a b cc, hprel⟩

theorem CallKeeps.trans {a b c : CallSt} (h1 : CallKeeps a b) (h2 : CallKeeps b c)
    (hph : b.phase = a.phase) : CallKeeps a c :=
  ⟨h2.inv, by rw [h2.reader, h1.reader], by rw [h2.skip, h1.skip], by rw [h2.stop, h1.stop], by rw [h2.meth, h1.meth],
   fun hm => h2.mode (h1.mode hm),
   fun x y z => h2.none (by rw [h1.skip]; exact x) (by rw [h1.meth]; exact y) (h1.none x y z),
   fun hp => by rw [h2.prel (by rw [hph]; exact hp), hph]⟩

theorem analyze_keeps (c : CallSt) (h : CallInv c) :
    (∀ s, c.analyzeRequest.2 ≠ .error (.panic s)) ∧
    (c.analyzeRequest.2 ≠ .ok () → c.analyzeRequest.1 = c) ∧
    (c.analyzeRequest.2 = .ok () → CallKeeps c c.analyzeRequest.1 ∧ c.analyzeRequest.1.analyzed = true ∧
        c.analyzeRequest.1.req.headers ≠ [] ∧ c.analyzeRequest.1.phase = c.phase) := by
  obtain ⟨h1, h2, h3⟩ := h
  have hspec := analyzeRequest_spec c h1
  simp only [] at hspec
  obtain ⟨s1, s2, s3, s4, s5, s6, s7, s8, s9, s10, s11, s12, s13⟩ := hspec
  refine ⟨s1, s10, ?_⟩
  intro hok
  have han := (s8 hok).1
  have hhd : c.analyzeRequest.1.req.headers ≠ [] := by
    by_cases ha : c.analyzed = true
    · have := (s11 ha).1; rw [this]; exact h2 ha
    · exact s9 hok (by simpa using ha)
  exact ⟨⟨⟨Or.inl han, fun _ => hhd, fun _ => han⟩, s3, s4, s5, s6, s12, s13, fun _ => s2⟩, han, hhd, s2⟩

theorem writePrelude_keeps (c : CallSt) (cap : Nat) (han : c.analyzed = true) (hhd : c.req.headers ≠ []) :
    (∀ s, (writePrelude c { out := [], cap := cap }).2.2 ≠ .error (.panic s)) ∧
    CallKeeps c (writePrelude c { out := [], cap := cap }).1 := by
  obtain ⟨w1, w2, w3, w4, w5, w6, w7⟩ := writePrelude_spec c { out := [], cap := cap } hhd
  refine ⟨w1, ⟨⟨Or.inl (by rw [w3]; exact han), by intro _; rw [w2]; exact hhd, by intro _; rw [w3]; exact han⟩,
    w5, w6, w7, by rw [w2], by intro hm; rw [w4]; exact hm, by intro _ _ z; rw [w4]; exact z,
    fun hp => writePrelude_phase_keep c _ hp⟩⟩

/-- the body writer keeps a body mode a body mode and never panics on one -/
theorem bodyWrite_mode (bw : BodyWriter) (input : Bytes) (w : W) (hm : bw.mode ≠ .none) :
    (bw.write input w).1.mode ≠ .none ∧ (∀ s, (bw.write input w).2.2 ≠ .error (.panic s)) := by
  unfold BodyWriter.write
  cases hmm : bw.mode with
  | none => exact absurd hmm hm
  | sized left => simp
  | chunked =>
    simp only []
    split
    · split <;> simp [hmm]
    · simp [hmm]

theorem writeBodyPhase_keeps (c : CallSt) (input : Bytes) (cap : Nat) (hm : c.writer.mode ≠ .none) :
    (∀ s, (c.writeBodyPhase input cap).2 ≠ .error (.panic s)) ∧
    ∃ bw, (c.writeBodyPhase input cap).1 = { c with writer := bw } ∧ bw.mode ≠ .none := by
  unfold CallSt.writeBodyPhase
  by_cases g1 : (!input.isEmpty && c.writer.ended) = true
  · simp only [g1, if_true]
    exact ⟨by intro s he; simp at he, c.writer, by cases c; rfl, hm⟩
  · simp only [g1, Bool.false_eq_true, if_false]
    by_cases g2 : c.writer.overLimit input.length = true
    · simp only [g2, if_true]
      exact ⟨by intro s he; simp at he, c.writer, by cases c; rfl, hm⟩
    · simp only [g2, Bool.false_eq_true, if_false]
      obtain ⟨m1, m2⟩ := bodyWrite_mode c.writer input { out := [], cap := cap } hm
      rcases hw : c.writer.write input { out := [], cap := cap } with ⟨bw, w2, r⟩
      rw [hw] at m1 m2
      simp only [] at m1 m2
      cases r with
      | ok n => exact ⟨by intro s he; simp at he, bw, rfl, m1⟩
      | error e => exact ⟨by intro s he; simp at he; exact m2 s (by rw [he]), bw, rfl, m1⟩

theorem writeBody_keeps (c : CallSt) (input : Bytes) (cap : Nat) (h : CallInv c) (hm : c.writer.mode ≠ .none) :
    (∀ s, (c.writeBody input cap).2 ≠ .error (.panic s)) ∧ CallInv (c.writeBody input cap).1 ∧
    (c.writeBody input cap).1.reader = c.reader ∧ (c.writeBody input cap).1.skipCheck = c.skipCheck ∧
    (c.writeBody input cap).1.stopBoundary = c.stopBoundary ∧ (c.writeBody input cap).1.req.method = c.req.method ∧
    (c.writeBody input cap).1.writer.mode ≠ .none ∧
    (c.phase.isPrelude = false → (c.writeBody input cap).1.phase = c.phase) := by
  obtain ⟨a1, a2, a3⟩ := analyze_keeps c h
  unfold CallSt.writeBody
  rcases hq : c.analyzeRequest with ⟨c1, r1⟩
  rw [hq] at a1 a2 a3
  simp only [] at a1 a2 a3
  cases r1 with
  | error e =>
    have hsame : c1 = c := a2 (by simp)
    subst hsame
    exact ⟨by intro s he; simp at he; exact a1 s (by rw [he]), h, rfl, rfl, rfl, rfl, hm, fun _ => rfl⟩
  | ok u =>
    cases u
    obtain ⟨k1, han, hhd, hph⟩ := a3 rfl
    simp only []
    by_cases hpre : c1.phase.isPrelude = true
    · simp only [hpre, if_true]
      obtain ⟨p1, p2⟩ := writePrelude_keeps c1 cap han hhd
      rcases hw : writePrelude c1 { out := [], cap := cap } with ⟨c2, w2, r2⟩
      rw [hw] at p1 p2
      simp only [] at p1 p2
      have kk := CallKeeps.trans k1 p2 hph
      cases r2 with
      | error e => exact ⟨by intro s he; simp at he; exact p1 s (by rw [he]), kk.inv, kk.reader, kk.skip, kk.stop, kk.meth, kk.mode hm, kk.prel⟩
      | ok u2 => cases u2; exact ⟨by intro s he; simp at he, kk.inv, kk.reader, kk.skip, kk.stop, kk.meth, kk.mode hm, kk.prel⟩
    · have hpre' : c1.phase.isPrelude = false := by simpa using hpre
      simp only [hpre', Bool.false_eq_true, if_false]
      by_cases hb : (c1.phase == Phase.sendBody) = true
      · simp only [hb, if_true]
        have hm1 : c1.writer.mode ≠ .none := k1.mode hm
        obtain ⟨q1, bw, q2, q3⟩ := writeBodyPhase_keeps c1 input cap hm1
        refine ⟨q1, ?_⟩
        rw [q2]
        exact ⟨⟨k1.inv.cap, k1.inv.hdrs, k1.inv.ph⟩, k1.reader, k1.skip, k1.stop, k1.meth, q3, fun _ => hph⟩
      · simp only [hb, Bool.false_eq_true, if_false]
        exact ⟨by intro s he; simp at he, k1.inv, k1.reader, k1.skip, k1.stop, k1.meth, k1.mode hm, fun _ => hph⟩

theorem callInv_of_wf (f : Flow) (h : f.WF) : CallInv f.call := ⟨h.cap, h.hdrs, h.ph⟩

theorem wf_stepSendRequest (f : Flow) (op : Op) (hwf : f.WF) (hs : f.st = .sendRequest) :
    noPanic (stepSendRequest f op).2 ∧ (stepSendRequest f op).1.WF := by
  have hwf0 := hwf
  obtain ⟨a1, a2, a3, a4, a5, a6, a6', a7, a8, a9, a10, a11, a12, a13, a14, a15⟩ := hwf
  have hinv := callInv_of_wf f hwf0
  have hhold : f.holder = .withoutBody ∨ f.holder = .withBody := by simpa [holderOk, hs] using a1
  have hsend : f.shouldSendBody = true ↔ f.holder = .withBody := a2 (Or.inr hs)
  unfold stepSendRequest
  cases op <;> simp only [notOffered] <;> (try (refine ⟨?_, hwf0⟩; np))
  case write cap =>
    rcases hhold with hh | hh
    · obtain ⟨p1, p2⟩ := prelude_keeps f.call cap hinv
      have hnb := a7 hh
      rcases hw : f.call.writeNoBody cap with ⟨c', r⟩
      rw [hw] at p1 p2
      simp only [] at p1 p2
      have hwf' : ({ f with call := c' } : Flow).WF := by
        constructor <;> simp_all [holderOk, sendOk]
        · exact p2.inv.cap
        · exact p2.inv.hdrs
        · exact p2.inv.ph
        · exact ⟨by rw [p2.skip]; exact hnb.1, by rw [p2.meth]; exact hnb.2.1, p2.none hnb.1 hnb.2.1 hnb.2.2⟩
        · rw [p2.reader]; exact a12
        · rw [p2.reader]; exact a13
      rw [hh]
      simp only [hw]
      cases r with
      | ok out => exact ⟨by np, by simp only []; rw [← hh]; exact hwf'⟩
      | error e =>
        refine ⟨?_, by simp only []; rw [← hh]; exact hwf'⟩
        cases e with
        | api k => np
        | panic s => exact absurd rfl (p1 s)
    · rw [hh]
      simp only []
      by_cases hp : f.call.phase.isPrelude = true
      · simp only [hp, Bool.not_true, Bool.false_eq_true, if_false]
        obtain ⟨p1, pinv, prd, psk, pst, pme, pmo, ppr⟩ := writeBody_keeps f.call [] cap hinv (a8 hh)
        rcases hw : f.call.writeBody [] cap with ⟨c', r⟩
        rw [hw] at p1 pinv prd psk pst pme pmo ppr
        simp only [] at p1 pinv prd psk pst pme pmo ppr
        have hwf' : ({ f with call := c' } : Flow).WF := by
          constructor <;> simp_all [holderOk, sendOk]
          · exact pinv.cap
          · exact pinv.hdrs
          · exact pinv.ph
        cases r with
        | ok v => obtain ⟨n, out⟩ := v; exact ⟨by np, by simp only []; rw [← hh]; exact hwf'⟩
        | error e =>
          refine ⟨?_, by simp only []; rw [← hh]; exact hwf'⟩
          cases e with
          | api k => np
          | panic s => exact absurd rfl (p1 s)
      · simp only [hp, Bool.not_false, if_true]
        exact ⟨by np, hwf0⟩
  case canProceed =>
    obtain ⟨b, hb⟩ := canProceed_ok f hwf0
    rw [hb]; exact ⟨by np, hwf0⟩
  case proceed =>
    obtain ⟨b, hb⟩ := canProceed_ok f hwf0
    rw [hb]
    cases b with
    | false => exact ⟨by np, hwf0⟩
    | true =>
      simp only []
      by_cases hsb : f.shouldSendBody = true
      · have hwb : f.holder = .withBody := hsend.mp hsb
        have hphase : f.call.phase = .sendBody := by
          unfold Flow.canProceed at hb; simp [hs, hwb] at hb; exact hb
        have han : f.call.analyzed = true := a6' (by rw [hphase]; simp)
        simp only [hsb, if_true]
        by_cases haw : f.await100 = true
        · simp only [haw, if_true]
          refine ⟨by np, ?_⟩
          constructor <;> simp_all [holderOk, sendOk]
        · simp only [haw, Bool.false_eq_true, if_false]
          unfold enterSendBody CallSt.analyzeRequest
          simp only [han, if_true]
          refine ⟨by np, ?_⟩
          constructor <;> simp_all [holderOk, sendOk]
      · have hnb : f.holder = .withoutBody := by
          rcases hhold with h | h
          · exact h
          · exact absurd (hsend.mpr h) hsb
        have hw := (a7 hnb).2.2
        have hphase : f.call.phase ≠ .sendLine := by
          unfold Flow.canProceed at hb; simp [hs, hnb] at hb
          intro e; rw [e] at hb; simp [Phase.isPrelude] at hb
        have han := a6' hphase
        simp only [hsb, Bool.false_eq_true, if_false, hnb, hw, BodyWriter.newNone, Bool.not_true]
        unfold enterRecvResponse
        refine ⟨by np, ?_⟩
        constructor <;> simp_all [holderOk, sendOk, BodyWriter.newNone]

theorem tryParseResponse_noPanic (N : Nat) (w : Bytes) : ∀ s, tryParseResponse N w ≠ .error (.panic s) := by
  intro s
  unfold tryParseResponse
  cases parseResp N w with
  | more st => simp
  | error e => cases e <;> simp
  | complete r used => simp only []; (repeat' split) <;> simp

theorem refuse100_wf (f : Flow) (hwf : f.WF) (hs : f.st = .await100) (ha : f.await100 = false) :
    noPanic (refuse100 f).2 ∧ (refuse100 f).1.WF := by
  obtain ⟨a1, a2, a3, a4, a5, a6, a6', a7, a8, a9, a10, a11, a12, a13, a14, a15⟩ := hwf
  have hp := pushReason_ok f.closeReasons .not100 a3
  unfold refuse100
  rcases hq : pushReason f.closeReasons .not100 with ⟨l, r⟩
  rw [hq] at hp
  simp only [] at hp
  obtain ⟨hr, hnd⟩ := hp
  subst hr
  simp only []
  refine ⟨by np, ?_⟩
  constructor <;> simp_all [holderOk, sendOk]

theorem wf_stepAwait100 (f : Flow) (op : Op) (hwf : f.WF) (hs : f.st = .await100) (hok : op.okFor f) :
    noPanic (stepAwait100 f op).2 ∧ (stepAwait100 f op).1.WF := by
  have hwf0 := hwf
  obtain ⟨a1, a2, a3, a4, a5, a6, a6', a7, a8, a9, a10, a11, a12, a13, a14, a15⟩ := hwf
  have hhold : f.holder = .withBody := by simpa [holderOk, hs] using a1
  unfold stepAwait100
  cases op <;> simp only [notOffered] <;> (try (refine ⟨?_, hwf0⟩; np))
  case read100 w =>
    simp only [Op.okFor] at hok
    have hsb := a14 hs hok
    have hwf1 : ({ f with await100 := false } : Flow).WF := by
      constructor <;> simp_all [holderOk, sendOk]
    have hnp := tryParseResponse_noPanic 0 w
    cases hp : tryParseResponse 0 w with
    | ok v =>
      cases v with
      | none => exact ⟨by np, hwf0⟩
      | some p =>
        obtain ⟨used, r⟩ := p
        simp only []
        by_cases h100 : (r.status == 100) = true
        · have hns : (!f.shouldSendBody) = false := by simp [hsb]
          simp only [h100, if_true, hns, Bool.false_eq_true, if_false]
          exact ⟨by np, hwf1⟩
        · simp only [h100, Bool.false_eq_true, if_false]
          exact refuse100_wf _ hwf1 hs rfl
    | error e =>
      simp only []
      by_cases hte : (e == Fault.api ErrKind.httpParseTooManyHeaders) = true
      · simp only [hte, if_true]
        exact refuse100_wf _ hwf1 hs rfl
      · simp only [hte, Bool.false_eq_true, if_false]
        refine ⟨?_, hwf1⟩
        cases e with
        | api k => np
        | panic s => exact absurd hp (hnp s)
  case proceed =>
    obtain ⟨han, hph⟩ := a10 hs
    by_cases hsb : f.shouldSendBody = true
    · simp only [hsb, if_true]
      unfold enterSendBody CallSt.analyzeRequest
      simp only [han, if_true]
      refine ⟨by np, ?_⟩
      constructor <;> simp_all [holderOk, sendOk]
    · simp only [hsb, Bool.false_eq_true, if_false, hhold]
      unfold enterRecvResponse
      refine ⟨by np, ?_⟩
      constructor <;> simp_all [holderOk, sendOk]

theorem wf_stepSendBody (f : Flow) (op : Op) (hwf : f.WF) (hs : f.st = .sendBody) :
    noPanic (stepSendBody f op).2 ∧ (stepSendBody f op).1.WF := by
  have hwf0 := hwf
  obtain ⟨a1, a2, a3, a4, a5, a6, a6', a7, a8, a9, a10, a11, a12, a13, a14, a15⟩ := hwf
  have hinv := callInv_of_wf f hwf0
  have hhold : f.holder = .withBody := by simpa [holderOk, hs] using a1
  obtain ⟨hph, han⟩ := a9 hs
  unfold stepSendBody
  have hne : (f.holder != Holder.withBody) = false := by simp [hhold]
  simp only [hne, Bool.false_eq_true, if_false]
  cases op <;> simp only [notOffered] <;> (try (refine ⟨?_, hwf0⟩; np))
  case bwrite input cap =>
    obtain ⟨p1, pinv, prd, psk, pst, pme, pmo, ppr⟩ := writeBody_keeps f.call input cap hinv (a8 hhold)
    rcases hw : f.call.writeBody input cap with ⟨c', r⟩
    rw [hw] at p1 pinv prd psk pst pme pmo ppr
    simp only [] at p1 pinv prd psk pst pme pmo ppr
    have hph' : c'.phase = .sendBody := by rw [ppr (by rw [hph]; rfl), hph]
    have hwf' : ({ f with call := c' } : Flow).WF := by
      constructor <;> simp_all [holderOk, sendOk]
      · exact pinv.cap
      · exact pinv.hdrs
      · exact pinv.ph (by rw [hph']; simp)
      · exact pinv.ph (by rw [hph']; simp)
    cases r with
    | ok v => obtain ⟨n, out⟩ := v; exact ⟨by np, hwf'⟩
    | error e =>
      refine ⟨?_, hwf'⟩
      cases e with
      | api k => np
      | panic s => exact absurd rfl (p1 s)
  case direct n =>
    unfold CallSt.consumeDirect
    cases hm : f.call.writer.mode with
    | none => exact absurd hm (a8 hhold)
    | chunked => exact ⟨by np, hwf0⟩
    | sized left =>
      simp only []
      split
      · exact ⟨by np, hwf0⟩
      · refine ⟨by np, ?_⟩
        constructor <;> simp_all [holderOk, sendOk]
  case canProceed =>
    obtain ⟨b, hb⟩ := canProceed_ok f hwf0
    rw [hb]; exact ⟨by np, hwf0⟩
  case proceed =>
    obtain ⟨b, hb⟩ := canProceed_ok f hwf0
    rw [hb]
    cases b with
    | false => exact ⟨by np, hwf0⟩
    | true =>
      simp only []
      unfold enterRecvResponse
      refine ⟨by np, ?_⟩
      constructor <;> simp_all [holderOk, sendOk]

theorem forResponse_not_trailer (h10 : Bool) (m : Method) (st : Nat) (hs : List Hdr) (rd : BodyReader)
    (h : forResponse h10 m st hs = .ok rd) : rd ≠ .chunked .trailer := by
  unfold forResponse forResponseAbs at h
  intro e; subst e
  split at h
  · simp at h
  · simp only [] at h
    split at h <;> simp at h
    all_goals (split at h <;> simp at h)
    all_goals (try (split at h <;> simp at h))

theorem tryParsePartial_noPanic (N : Nat) (w : Bytes) : ∀ s, tryParsePartial N w ≠ .error (.panic s) := by
  intro s
  unfold tryParsePartial partialFinish
  cases parseResp N w <;> simp <;> (repeat' split) <;> simp_all

theorem parseWithFallback_noPanic (hack : Bool) (w : Bytes) : ∀ s, parseWithFallback hack w ≠ .error (.panic s) := by
  intro s
  unfold parseWithFallback
  have h1 := tryParseResponse_noPanic 128 w s
  have h2 := tryParsePartial_noPanic 128 w s
  cases hp : tryParseResponse 128 w with
  | error f => simp only []; intro e; apply h1; rw [hp]; simpa using e
  | ok v =>
    cases v with
    | some x => simp
    | none =>
      simp only []
      split
      · simp
      · cases hq : tryParsePartial 128 w with
        | error f => simp only []; intro e; apply h2; rw [hq]; simpa using e
        | ok u => cases u <;> simp only [] <;> (try split) <;> simp

theorem callTryResponse_spec (hack : Bool) (c : CallSt) (w : Bytes) (htr : c.reader ≠ some (.chunked .trailer)) :
    (∀ s, (callTryResponse hack c w).2 ≠ .error (.panic s)) ∧
    (callTryResponse hack c w).1.req = c.req ∧ (callTryResponse hack c w).1.analyzed = c.analyzed ∧
    (callTryResponse hack c w).1.phase = c.phase ∧ (callTryResponse hack c w).1.writer = c.writer ∧
    (callTryResponse hack c w).1.skipCheck = c.skipCheck ∧ (callTryResponse hack c w).1.stopBoundary = c.stopBoundary ∧
    (callTryResponse hack c w).1.reader ≠ some (.chunked .trailer) ∧
    ((callTryResponse hack c w).1 = c ∨
      ∃ u r, (callTryResponse hack c w).2 = .ok (some (u, r)) ∧ (r.status == 100) = false ∧ (callTryResponse hack c w).1.reader.isSome = true) := by
  have hnp := parseWithFallback_noPanic hack w
  unfold callTryResponse
  cases hp : parseWithFallback hack w with
  | error f =>
    dsimp only
    exact ⟨by intro s e; apply hnp s; rw [hp]; simpa using e, rfl, rfl, rfl, rfl, rfl, rfl, htr, Or.inl rfl⟩
  | ok v =>
    cases v with
    | none => dsimp only; exact ⟨by intro s e; simp at e, rfl, rfl, rfl, rfl, rfl, rfl, htr, Or.inl rfl⟩
    | some p =>
      obtain ⟨used, r⟩ := p
      dsimp only
      by_cases h100 : (r.status == 100) = true
      · simp only [h100, if_true]
        split
        · exact ⟨by intro s e; simp at e, rfl, rfl, rfl, rfl, rfl, rfl, htr, Or.inl rfl⟩
        · exact ⟨by intro s e; simp at e, rfl, rfl, rfl, rfl, rfl, rfl, htr, Or.inl rfl⟩
      · have h100' : (r.status == 100) = false := by simpa using h100
        simp only [h100', Bool.false_eq_true, if_false]
        cases hf : forResponse (r.version == 0) c.req.method r.status r.fields with
        | error f =>
          dsimp only
          refine ⟨?_, rfl, rfl, rfl, rfl, rfl, rfl, htr, Or.inl rfl⟩
          intro s e; simp at e; subst e
          unfold forResponse forResponseAbs at hf
          split at hf
          · simp at hf
          · simp at hf
        | ok rd =>
          dsimp only
          have := forResponse_not_trailer _ _ _ _ rd hf
          exact ⟨by intro s e; simp at e, rfl, rfl, rfl, rfl, rfl, rfl, by simpa using this, Or.inr ⟨used, r, rfl, h100', rfl⟩⟩

theorem wf_stepRecvResponse (hack : Bool) (f : Flow) (op : Op) (hwf : f.WF) (hs : f.st = .recvResponse) :
    noPanic (stepRecvResponse hack f op).2 ∧ (stepRecvResponse hack f op).1.WF := by
  have hwf0 := hwf
  obtain ⟨a1, a2, a3, a4, a5, a6, a6', a7, a8, a9, a10, a11, a12, a13, a14, a15⟩ := hwf
  have hhold : f.holder = .recvResponse := by simpa [holderOk, hs] using a1
  unfold stepRecvResponse
  cases op <;> simp only [notOffered] <;> (try (refine ⟨?_, hwf0⟩; np))
  case resp w =>
    have hne : (f.holder != Holder.recvResponse) = false := by simp [hhold]
    simp only [hne, Bool.false_eq_true, if_false]
    obtain ⟨p1, p2, p3, p4, p5, p6, p7, p8, p9⟩ := callTryResponse_spec hack f.call w a13
    rcases hq : callTryResponse hack f.call w with ⟨c1, r1⟩
    rw [hq] at p1 p2 p3 p4 p5 p6 p7 p8 p9
    dsimp only at p1 p2 p3 p4 p5 p6 p7 p8 p9
    have hbase : ∀ (st : Option Nat) (loc : Option Bytes) (aw : Bool) (l : List CloseReason), l.Nodup →
        (c1.reader.isSome = true → st.isSome = true) →
        ({ f with call := c1, status := st, location := loc, await100 := aw, closeReasons := l } : Flow).WF := by
      intro st loc aw l hl hst
      constructor <;> simp_all [holderOk, sendOk]
    cases r1 with
    | error e =>
      have hsame : c1 = f.call := by
        rcases p9 with h | ⟨u, r, h, _⟩
        · exact h
        · simp at h
      subst hsame
      refine ⟨?_, hwf0⟩
      cases e with
      | api k => np
      | panic s => exact absurd rfl (p1 s)
    | ok v =>
      cases v with
      | none =>
        have hsame : c1 = f.call := by
          rcases p9 with h | ⟨u, r, h, _⟩
          · exact h
          · simp at h
        subst hsame
        exact ⟨by np, hwf0⟩
      | some p =>
        obtain ⟨used, r⟩ := p
        dsimp only
        by_cases hlate : (r.status == 100 && f.await100) = true
        · simp only [hlate, if_true]
          have hsame : c1 = f.call := by
            rcases p9 with h | ⟨u, r', h, h100, _⟩
            · exact h
            · simp at h; obtain ⟨_, rfl⟩ := h; simp [h100] at hlate
          subst hsame
          refine ⟨by np, ?_⟩
          constructor <;> simp_all [holderOk, sendOk]
        · simp only [hlate, Bool.false_eq_true, if_false]
          have hst : c1.reader.isSome = true → (some r.status).isSome = true := by intro _; rfl
          split
          · have hp := pushReason_ok f.closeReasons .serverClose a3
            rcases hpr : pushReason f.closeReasons .serverClose with ⟨l, pr⟩
            rw [hpr] at hp
            dsimp only at hp
            obtain ⟨hr, hnd⟩ := hp
            subst hr
            dsimp only
            exact ⟨by np, by have := hbase (some r.status) (lastLocation r.fields) f.await100 l hnd hst; simpa using this⟩
          · exact ⟨by np, by have := hbase (some r.status) (lastLocation r.fields) f.await100 f.closeReasons a3 hst; simpa using this⟩
  case canProceed =>
    obtain ⟨b, hb⟩ := canProceed_ok f hwf0
    rw [hb]; exact ⟨by np, hwf0⟩
  case proceed =>
    obtain ⟨b, hb⟩ := canProceed_ok f hwf0
    rw [hb]
    cases b with
    | false => exact ⟨by np, hwf0⟩
    | true =>
      dsimp only
      have hrd : f.call.reader.isSome = true := by
        unfold Flow.canProceed at hb; simp [hs, hhold] at hb; exact hb
      have han : f.call.analyzed = true := a15 (Or.inl hs)
      split
      · split
        · have hp := pushReason_ok f.closeReasons .closeDelimited a3
          rcases hpr : pushReason f.closeReasons .closeDelimited with ⟨l, pr⟩
          rw [hpr] at hp
          dsimp only at hp
          obtain ⟨hr, hnd⟩ := hp
          subst hr
          dsimp only
          refine ⟨by np, ?_⟩
          constructor <;> simp_all [holderOk, sendOk]
        · refine ⟨by np, ?_⟩
          constructor <;> simp_all [holderOk, sendOk]
      · by_cases hred : isRedirectStatus f.status = true
        · simp only [hred, if_true]
          refine ⟨by np, ?_⟩
          constructor <;> simp_all [holderOk, sendOk]
        · simp only [hred, Bool.false_eq_true, if_false]
          refine ⟨by np, ?_⟩
          constructor <;> simp_all [holderOk, sendOk]

theorem read_spec (c : CallSt) (w : Bytes) (cap : Nat) (rd : BodyReader) (hr : c.reader = some rd)
    (htr : rd ≠ .chunked .trailer) :
    (∀ s, (c.read w cap).2 ≠ .error (.panic s)) ∧
    (c.read w cap).1.reader.isSome = true ∧ (c.read w cap).1.reader ≠ some (.chunked .trailer) ∧
    (c.read w cap).1.req = c.req ∧ (c.read w cap).1.analyzed = c.analyzed ∧ (c.read w cap).1.phase = c.phase ∧
    (c.read w cap).1.writer = c.writer ∧ (c.read w cap).1.skipCheck = c.skipCheck := by
  unfold CallSt.read
  simp only [hr]
  cases rd with
  | noBody => simp [readerEnded, hr]
  | len left =>
    by_cases h0 : left = 0
    · subst h0; simp [readerEnded, hr]
    · have : (left == 0) = false := by simpa using h0
      simp [readerEnded, this]
  | close => simp [readerEnded, hr]
  | chunked d =>
    have hd : d ≠ .trailer := by intro e; subst e; exact htr rfl
    by_cases he : d = .ended
    · subst he; simp [readerEnded, hr]
    · have : (d == Dechunker.ended) = false := by simpa using he
      simp only [readerEnded, this, Bool.false_eq_true, if_false]
      have hg := readChunkedS_total (w.length + 2) d w cap c.stopBoundary hd (by omega)
      rcases hq : readChunkedS (w.length + 2) d w cap c.stopBoundary with ⟨d', r⟩
      rw [hq] at hg
      obtain ⟨g1, g2⟩ := hg
      cases r with
      | error e =>
        dsimp only at g2 ⊢
        refine ⟨?_, by simp, by simpa using g1, rfl, rfl, rfl, rfl, rfl⟩
        intro s; cases e <;> simp [toFault] at g2 ⊢
      | ok p =>
        obtain ⟨i, o⟩ := p
        dsimp only
        exact ⟨by intro s; simp, by simp, by simpa using g1, rfl, rfl, rfl, rfl, rfl⟩

theorem wf_stepRecvBody (f : Flow) (op : Op) (hwf : f.WF) (hs : f.st = .recvBody) :
    noPanic (stepRecvBody f op).2 ∧ (stepRecvBody f op).1.WF := by
  have hwf0 := hwf
  obtain ⟨a1, a2, a3, a4, a5, a6, a6', a7, a8, a9, a10, a11, a12, a13, a14, a15⟩ := hwf
  have hhold : f.holder = .recvBody := by simpa [holderOk, hs] using a1
  have hrd : f.call.reader.isSome = true := a11 (Or.inl hs)
  unfold stepRecvBody
  cases op <;> simp only [notOffered] <;> (try (refine ⟨?_, hwf0⟩; np))
  case bread w cap =>
    have hne : (f.holder != Holder.recvBody) = false := by simp [hhold]
    simp only [hne, Bool.false_eq_true, if_false]
    obtain ⟨rd, hr⟩ := Option.isSome_iff_exists.mp hrd
    obtain ⟨p1, p2, p3, p4, p5, p6, p7, p8⟩ := read_spec f.call w cap rd hr (by intro e; subst e; exact a13 hr)
    rcases hq : f.call.read w cap with ⟨c', r⟩
    rw [hq] at p1 p2 p3 p4 p5 p6 p7 p8
    dsimp only at p1 p2 p3 p4 p5 p6 p7 p8
    have hwf' : ({ f with call := c' } : Flow).WF := by
      constructor <;> simp_all [holderOk, sendOk]
    cases r with
    | ok v => obtain ⟨i, o⟩ := v; exact ⟨by np, hwf'⟩
    | error e =>
      refine ⟨?_, hwf'⟩
      cases e with
      | api k => np
      | panic s => exact absurd rfl (p1 s)
  case stopb b =>
    refine ⟨by np, ?_⟩
    constructor <;> simp_all [holderOk, sendOk]
  case canProceed =>
    obtain ⟨b, hb⟩ := canProceed_ok f hwf0
    rw [hb]; exact ⟨by np, hwf0⟩
  case proceed =>
    obtain ⟨b, hb⟩ := canProceed_ok f hwf0
    rw [hb]
    cases b with
    | false => exact ⟨by np, hwf0⟩
    | true =>
      dsimp only
      by_cases hred : isRedirectStatus f.status = true
      · simp only [hred, if_true]
        refine ⟨by np, ?_⟩
        constructor <;> simp_all [holderOk, sendOk]
      · simp only [hred, Bool.false_eq_true, if_false]
        refine ⟨by np, ?_⟩
        constructor <;> simp_all [holderOk, sendOk]

theorem wf_stepRedirect (f : Flow) (op : Op) (hwf : f.WF) (hs : f.st = .redirect) :
    noPanic (stepRedirect f op).2 ∧ (stepRedirect f op).1.WF := by
  have hwf0 := hwf
  obtain ⟨a1, a2, a3, a4, a5, a6, a6', a7, a8, a9, a10, a11, a12, a13, a14, a15⟩ := hwf
  unfold stepRedirect
  cases op <;> simp only [notOffered] <;> (try (refine ⟨?_, hwf0⟩; np))
  case statusQ =>
    have := a12 (a11 (Or.inr (Or.inl hs)))
    obtain ⟨v, hv⟩ := Option.isSome_iff_exists.mp this
    rw [hv]; exact ⟨by np, hwf0⟩
  case proceed =>
    refine ⟨by np, ?_⟩
    constructor <;> simp_all [holderOk, sendOk]

theorem wf_stepCleanup (f : Flow) (op : Op) (hwf : f.WF) :
    noPanic (stepCleanup f op).2 ∧ (stepCleanup f op).1.WF := by
  unfold stepCleanup
  cases op <;> simp only [notOffered] <;> (refine ⟨?_, hwf⟩; np)

/-- **Every public operation on a well-formed flow returns without panicking and leaves a well-formed
    flow** — for every state, every operation, arbitrary byte arguments and buffer sizes. -/
theorem wf_step (hack : Bool) (f : Flow) (op : Op) (hwf : f.WF) (hok : op.okFor f) :
    noPanic (f.step hack op).2 ∧ (f.step hack op).1.WF := by
  unfold Flow.step
  cases hs : f.st with
  | prepare => exact wf_stepPrepare f op hwf hs hok
  | sendRequest => exact wf_stepSendRequest f op hwf hs
  | await100 => exact wf_stepAwait100 f op hwf hs hok
  | sendBody => exact wf_stepSendBody f op hwf hs
  | recvResponse => exact wf_stepRecvResponse hack f op hwf hs
  | recvBody => exact wf_stepRecvBody f op hwf hs
  | redirect => exact wf_stepRedirect f op hwf hs
  | cleanup => exact wf_stepCleanup f op hwf
