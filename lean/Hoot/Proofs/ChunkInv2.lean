import Hoot.Model.Chunk2
set_option linter.unusedSimpArgs false
set_option linter.unusedVariables false

namespace V2

/-! grammar of valid codings and the resumable-position invariant -/

structure SizeLine where
  digits : Bytes
  ext : Bytes
  val : Nat

def isHexDigit (c : UInt8) : Prop := (hexVal c).isSome

def SizeLine.wf (l : SizeLine) : Prop :=
  l.digits ≠ [] ∧ parseSizeField l.digits = .ok l.val ∧
  (∀ x ∈ l.digits, x ≠ CR ∧ x ≠ 59) ∧
  (l.ext = [] ∨ l.ext.head? = some 59) ∧ (∀ x ∈ l.ext, x ≠ CR) ∧
  l.digits.length + l.ext.length ≤ 20

def SizeLine.enc (l : SizeLine) : Bytes := l.digits ++ l.ext ++ [CR, LF]

structure Chunk where
  line : SizeLine
  data : Bytes

def Chunk.wf (c : Chunk) : Prop := c.line.wf ∧ c.line.val = c.data.length ∧ 0 < c.data.length
def Chunk.enc (c : Chunk) : Bytes := c.line.enc ++ c.data ++ [CR, LF]

def encChunks (cs : List Chunk) : Bytes := (cs.map Chunk.enc).flatten
def payloadOf (cs : List Chunk) : Bytes := (cs.map Chunk.data).flatten

def trailerWf (t : Bytes) : Prop := t ≠ [] ∧ ∀ x ∈ t, x ≠ CR
def encTrailers (ts : List Bytes) : Bytes := (ts.map (· ++ [CR, LF])).flatten

/-- where we are inside a valid coding -/
inductive Rem
  | atSize (cs : List Chunk) (last : SizeLine) (trs : List Bytes)
  | inChunk (d : Bytes) (cs : List Chunk) (last : SizeLine) (trs : List Bytes)
  | atCrlf (cs : List Chunk) (last : SizeLine) (trs : List Bytes)
  | atEnding (trs : List Bytes)
  | atTrailer (t : Bytes) (trs : List Bytes)
  | done

def tailWf (cs : List Chunk) (last : SizeLine) (trs : List Bytes) : Prop :=
  (∀ c ∈ cs, c.wf) ∧ last.wf ∧ last.val = 0 ∧ (∀ t ∈ trs, trailerWf t)

def Rem.wf : Rem → Prop
  | .atSize cs last trs => tailWf cs last trs
  | .inChunk d cs last trs => 0 < d.length ∧ tailWf cs last trs
  | .atCrlf cs last trs => tailWf cs last trs
  | .atEnding trs => ∀ t ∈ trs, trailerWf t
  | .atTrailer t trs => trailerWf t ∧ ∀ t ∈ trs, trailerWf t
  | .done => True

def encTail (cs : List Chunk) (last : SizeLine) (trs : List Bytes) : Bytes :=
  encChunks cs ++ (last.enc ++ (encTrailers trs ++ [CR, LF]))

def Rem.enc : Rem → Bytes
  | .atSize cs last trs => encTail cs last trs
  | .inChunk d cs last trs => d ++ ([CR, LF] ++ encTail cs last trs)
  | .atCrlf cs last trs => [CR, LF] ++ encTail cs last trs
  | .atEnding trs => encTrailers trs ++ [CR, LF]
  | .atTrailer t trs => t ++ ([CR, LF] ++ (encTrailers trs ++ [CR, LF]))
  | .done => []

def Rem.payload : Rem → Bytes
  | .atSize cs _ _ => payloadOf cs
  | .inChunk d cs _ _ => d ++ payloadOf cs
  | .atCrlf cs _ _ => payloadOf cs
  | .atEnding _ => []
  | .atTrailer _ _ => []
  | .done => []

def Rem.state : Rem → Dechunker
  | .atSize _ _ _ => .size
  | .inChunk d _ _ _ => .chunk d.length
  | .atCrlf _ _ _ => .crlf
  | .atEnding _ => .ending
  | .atTrailer _ _ => .trailer
  | .done => .ended

/-- the data still to come from the chunk the position is in (or about to enter) -/
def Rem.curChunk : Rem → Bytes
  | .atSize (c :: _) _ _ => c.data
  | .inChunk d _ _ _ => d
  | _ => []

/-- window precondition: a transient trailer state always sees its line end -/
def Rem.winOk : Rem → Nat → Prop
  | .atTrailer t _, m => t.length + 2 ≤ m
  | _, _ => True

def Rem.atRest : Rem → Prop
  | .atTrailer _ _ => False
  | _ => True

theorem encTrailers_cons (t : Bytes) (ts : List Bytes) :
    encTrailers (t :: ts) = t ++ ([CR, LF] ++ encTrailers ts) := by
  simp [encTrailers]

theorem encChunks_cons (c : Chunk) (cs : List Chunk) :
    encChunks (c :: cs) = c.line.digits ++ (c.line.ext ++ ([CR, LF] ++ (c.data ++ ([CR, LF] ++ encChunks cs)))) := by
  simp [encChunks, Chunk.enc, SizeLine.enc]

theorem payloadOf_cons (c : Chunk) (cs : List Chunk) : payloadOf (c :: cs) = c.data ++ payloadOf cs := by
  simp [payloadOf]

theorem firstIdx_ge (c : UInt8) (a b : Bytes) (h : ∀ x ∈ a, x ≠ c) :
    ∀ p, firstIdx c (a ++ b) = some p → a.length ≤ p := by
  induction a with
  | nil => intro p _; simp
  | cons x xs ih =>
    intro p hp
    have hx : x ≠ c := h x (by simp)
    simp only [List.cons_append, firstIdx, hx, if_false] at hp
    cases hq : firstIdx c (xs ++ b) with
    | none => simp [hq] at hp
    | some q =>
      simp [hq] at hp
      have := ih (fun y hy => h y (by simp [hy])) q hq
      simp; omega

theorem firstIdx_hit (c : UInt8) (a b : Bytes) (h : ∀ x ∈ a, x ≠ c) :
    firstIdx c (a ++ c :: b) = some a.length := by
  induction a with
  | nil => simp [firstIdx]
  | cons x xs ih =>
    have hx : x ≠ c := h x (by simp)
    simp [firstIdx, hx, ih (fun y hy => h y (by simp [hy]))]

theorem take_take_min (l : Bytes) (a b : Nat) : (l.take a).take b = l.take (min b a) := by
  simp [List.take_take]

theorem readSize2_line (l : SizeLine) (hl : l.wf) (rest : Bytes) (m : Nat) :
    readSize2 ((l.digits ++ (l.ext ++ ([CR, LF] ++ rest))).take m) =
      if l.digits.length + l.ext.length + 2 ≤ m then
        .ok (some (if l.val = 0 then .ending else .chunk l.val, l.digits.length + l.ext.length + 2))
      else .ok none := by
  obtain ⟨hne, hparse, hdig, hext, hextcr, hlen⟩ := hl
  have hnocr : ∀ x ∈ l.digits ++ l.ext, x ≠ CR := by
    intro x hx
    rcases List.mem_append.mp hx with h | h
    · exact (hdig x h).1
    · exact hextcr x h
  have hfc := findCrlf_take (l.digits ++ l.ext) rest hnocr m
  have hre : (l.digits ++ l.ext ++ CR :: LF :: rest) = (l.digits ++ (l.ext ++ ([CR, LF] ++ rest))) := by simp
  rw [hre] at hfc
  unfold readSize2
  rw [hfc]
  simp only [List.length_append]
  by_cases hm : l.digits.length + l.ext.length + 2 ≤ m
  · simp only [hm, if_true]
    have h20 : ¬ (l.digits.length + l.ext.length > 20) := by omega
    simp only [h20, if_false]
    -- lenEnd = digits.length
    have hend : min ((firstIdx 59 (((l.digits ++ (l.ext ++ ([CR, LF] ++ rest))).take m).take 100)).getD 21)
        (l.digits.length + l.ext.length) = l.digits.length := by
      rw [take_take_min]
      rcases hext with he | he
      · -- no extension
        simp only [he, List.length_nil, Nat.add_zero, List.nil_append]
        cases hq : firstIdx 59 ((l.digits ++ ([CR, LF] ++ rest)).take (min 100 m)) with
        | none => simp; omega
        | some q =>
          have hsplit : (l.digits ++ ([CR, LF] ++ rest)).take (min 100 m) =
              l.digits ++ (([CR, LF] ++ rest).take (min 100 m - l.digits.length)) := by
            rw [List.take_append]
            have : l.digits.take (min 100 m) = l.digits := by
              apply List.take_of_length_le; omega
            rw [this]
          rw [hsplit] at hq
          have := firstIdx_ge 59 l.digits _ (fun x hx => (hdig x hx).2) q hq
          simp; omega
      · -- extension starts with ';'
        obtain ⟨e, he'⟩ : ∃ e, l.ext = 59 :: e := by
          cases hx : l.ext with
          | nil => simp [hx] at he
          | cons a e => simp [hx] at he; exact ⟨e, by rw [he]⟩
        have hsplit : (l.digits ++ (l.ext ++ ([CR, LF] ++ rest))).take (min 100 m) =
            l.digits ++ 59 :: ((e ++ ([CR, LF] ++ rest)).take (min 100 m - l.digits.length - 1)) := by
          rw [he', List.take_append]
          have : l.digits.take (min 100 m) = l.digits := by
            apply List.take_of_length_le; omega
          rw [this]
          have hpos : min 100 m - l.digits.length = (min 100 m - l.digits.length - 1) + 1 := by
            rw [he'] at hm hlen; simp at hm hlen; omega
          rw [hpos]; simp
        rw [hsplit, firstIdx_hit 59 l.digits _ (fun x hx => (hdig x hx).2)]
        simp
    rw [hend]
    have htk : ((l.digits ++ (l.ext ++ ([CR, LF] ++ rest))).take m).take l.digits.length = l.digits := by
      rw [take_take_min, List.take_append]
      have : min l.digits.length m = l.digits.length := by omega
      rw [this]; simp
    rw [htk, hparse]
  · simp [hm]


theorem drop_len_append (a b : Bytes) (k : Nat) (h : k = a.length) : (a ++ b).drop k = b := by
  subst h; simp

/-- the result of one inner-loop step from a valid position, on any window and any output space -/
theorem stepOnce2_inv (r : Rem) (hr : r.wf) (tail : Bytes) (m cap : Nat) (hw : r.winOk m) :
    ∃ (more : Bool) (r' : Rem) (n : Nat) (out : Bytes),
      stepOnce2 r.state ((r.enc ++ tail).take m) cap = .ok (more, r'.state, n, out) ∧
      r'.wf ∧ n ≤ m ∧ out.length ≤ cap ∧
      r.enc.drop n = r'.enc ∧ n ≤ r.enc.length ∧
      r.payload = out ++ r'.payload ∧
      r'.winOk (m - n) ∧ (more = false → r'.atRest) ∧
      (more = true → 0 < n ∨ (r.state = .ending ∧ r'.state = .trailer)) ∧
      out <+: r.curChunk ∧ (r'.state = .size ∨ r.curChunk = out ++ r'.curChunk) ∧ (more = true → r'.state ≠ .size) ∧
      (r.enc.length ≤ m → (1 ≤ cap ∨ r.payload = []) → r.state ≠ .ended → 0 < n ∨ (more = true ∧ r'.state = .trailer)) := by
  cases r with
  | done =>
    refine ⟨false, .done, 0, [], ?_⟩
    simp [Rem.state, stepOnce2, stepOnce, Rem.wf, Rem.enc, Rem.payload, Rem.winOk, Rem.atRest, Rem.curChunk, pure, Except.pure]
  | atCrlf cs last trs =>
    have h := findCrlf_take [] (encTail cs last trs ++ tail) (by simp) m
    by_cases hm : 2 ≤ m
    · refine ⟨false, .atSize cs last trs, 2, [], ?_⟩
      simp [Rem.state, stepOnce2, stepOnce, Rem.enc] at h ⊢
      simp [h, hm, pure, Except.pure, Rem.wf, Rem.payload, Rem.winOk, Rem.atRest, Rem.curChunk]
      exact hr
    · refine ⟨false, .atCrlf cs last trs, 0, [], ?_⟩
      simp [Rem.state, stepOnce2, stepOnce, Rem.enc] at h ⊢
      simp [h, hm, pure, Except.pure, Rem.wf, Rem.payload, Rem.winOk, Rem.atRest, Rem.curChunk]
      refine ⟨hr, ?_⟩
      intro h1; omega
  | inChunk d cs last trs =>
    obtain ⟨hd, ht⟩ := hr
    let w := ((d ++ ([CR, LF] ++ encTail cs last trs)) ++ tail).take m
    let n := min (min w.length cap) d.length
    have hnd : n ≤ d.length := Nat.min_le_right _ _
    have hwl : w.length ≤ m := by simp [w]; omega
    have hnm : n ≤ m := by
      have : n ≤ w.length := Nat.le_trans (Nat.min_le_left _ _) (Nat.min_le_left _ _)
      omega
    have hncap : n ≤ cap := Nat.le_trans (Nat.min_le_left _ _) (Nat.min_le_right _ _)
    have htake : w.take n = d.take n := by
      simp only [w]
      rw [take_take_min, List.append_assoc, List.take_append]
      have : min n m = n := by omega
      rw [this]
      have : n - d.length = 0 := by omega
      simp [this]
    have hdrop : (d ++ ([CR, LF] ++ encTail cs last trs)).drop n = d.drop n ++ ([CR, LF] ++ encTail cs last trs) := by
      rw [List.drop_append]
      have : n - d.length = 0 := by omega
      simp [this]
    by_cases hfull : d.length - n = 0
    · have hn : n = d.length := by omega
      refine ⟨decide (n > 0), .atCrlf cs last trs, n, d.take n, ?_⟩
      simp only [Rem.state, stepOnce2, stepOnce, Rem.enc, pure, Except.pure]
      refine ⟨?_, ht, hnm, by simp; omega, ?_, by simp; omega, ?_, trivial, fun _ => trivial, ?_, List.take_prefix _ _, ?_, by simp [Rem.state], ?_⟩
      · show Except.ok (decide (n > 0), (if d.length - n = 0 then Dechunker.crlf else Dechunker.chunk (d.length - n)), n, w.take n) = _
        simp [hfull, htake, Rem.state]
      · rw [hdrop, hn]; simp
      · rw [hn]; simp [Rem.payload]
      · intro _; left; omega
      · right; rw [hn]; simp [Rem.curChunk]
      · intro h1 h2 _; left
        have h2 : 1 ≤ cap := by
          rcases h2 with h2 | h2
          · exact h2
          · simp [Rem.payload] at h2; rw [h2.1] at hd; simp at hd
        have hwl2 : w.length = min m ((d ++ ([CR, LF] ++ encTail cs last trs)) ++ tail).length := by simp [w]
        simp [Rem.enc] at h1
        simp at hwl2
        omega
    · refine ⟨decide (n > 0), .inChunk (d.drop n) cs last trs, n, d.take n, ?_⟩
      simp only [Rem.state, stepOnce2, stepOnce, Rem.enc, pure, Except.pure]
      refine ⟨?_, ⟨by simp; omega, ht⟩, hnm, by simp; omega, hdrop, by simp; omega, ?_, trivial, fun _ => trivial, ?_, List.take_prefix _ _, ?_, by simp [Rem.state], ?_⟩
      · show Except.ok (decide (n > 0), (if d.length - n = 0 then Dechunker.crlf else Dechunker.chunk (d.length - n)), n, w.take n) = _
        simp [hfull, htake, Rem.state]
      · simp only [Rem.payload]; rw [← List.append_assoc, List.take_append_drop]
      · intro h; left; simpa using h
      · right; simp [Rem.curChunk]
      · intro h1 h2 _; left
        have h2 : 1 ≤ cap := by
          rcases h2 with h2 | h2
          · exact h2
          · simp [Rem.payload] at h2; rw [h2.1] at hd; simp at hd
        have hwl2 : w.length = min m ((d ++ ([CR, LF] ++ encTail cs last trs)) ++ tail).length := by simp [w]
        simp [Rem.enc] at h1
        simp at hwl2
        omega
  | atSize cs last trs =>
    obtain ⟨hcs, hlast, hzero, htrs⟩ := hr
    cases cs with
    | nil =>
      have h := readSize2_line last hlast (encTrailers trs ++ [CR, LF] ++ tail) m
      have hre : (Rem.atSize [] last trs).enc ++ tail =
          (last.digits ++ (last.ext ++ ([CR, LF] ++ (encTrailers trs ++ [CR, LF] ++ tail)))) := by
        simp [Rem.enc, encTail, encChunks, SizeLine.enc]
      have henc : (Rem.atSize [] last trs).enc = (last.digits ++ last.ext ++ [CR, LF]) ++ (encTrailers trs ++ [CR, LF]) := by
        simp [Rem.enc, encTail, encChunks, SizeLine.enc]
      rw [hre]
      by_cases hm : last.digits.length + last.ext.length + 2 ≤ m
      · refine ⟨true, .atEnding trs, last.digits.length + last.ext.length + 2, [], ?_⟩
        have hstep : stepOnce2 (Rem.atSize [] last trs).state
            ((last.digits ++ (last.ext ++ ([CR, LF] ++ (encTrailers trs ++ [CR, LF] ++ tail)))).take m) cap =
            .ok (true, (Rem.atEnding trs).state, last.digits.length + last.ext.length + 2, []) := by
          simp only [Rem.state, stepOnce2, stepOnce]; rw [h]; simp [hm, hzero, bind, Except.bind, pure, Except.pure]
        refine ⟨hstep, htrs, hm, by simp, ?_, ?_, by simp [Rem.payload, payloadOf], trivial, by simp, by intro _; left; omega, by simp [Rem.curChunk, Rem.state], by simp [Rem.curChunk, Rem.state], by simp [Rem.curChunk, Rem.state], by intro _ _ _; left; omega⟩
        · rw [henc]; exact drop_len_append _ _ _ (by simp; omega)
        · rw [henc]; simp; omega
      · refine ⟨false, .atSize [] last trs, 0, [], ?_⟩
        have hstep : stepOnce2 (Rem.atSize [] last trs).state
            ((last.digits ++ (last.ext ++ ([CR, LF] ++ (encTrailers trs ++ [CR, LF] ++ tail)))).take m) cap =
            .ok (false, (Rem.atSize [] last trs).state, 0, []) := by
          simp only [Rem.state, stepOnce2, stepOnce]; rw [h]; simp [hm, bind, Except.bind, pure, Except.pure]
        exact ⟨hstep, ⟨hcs, hlast, hzero, htrs⟩, by omega, by simp, by simp, by omega, by simp, trivial, fun _ => trivial, by simp, by simp [Rem.curChunk, Rem.state], by simp [Rem.curChunk, Rem.state], by simp [Rem.curChunk, Rem.state], by intro h1 _ _; rw [henc] at h1; simp at h1; omega⟩
    | cons c cs =>
      have hc : c.wf := hcs c (by simp)
      obtain ⟨hcl, hcv, hcpos⟩ := hc
      have h := readSize2_line c.line hcl (c.data ++ ([CR, LF] ++ (encChunks cs ++ (last.enc ++ (encTrailers trs ++ [CR, LF])))) ++ tail) m
      have hre : (Rem.atSize (c :: cs) last trs).enc ++ tail =
          (c.line.digits ++ (c.line.ext ++ ([CR, LF] ++ (c.data ++ ([CR, LF] ++ (encChunks cs ++ (last.enc ++ (encTrailers trs ++ [CR, LF])))) ++ tail)))) := by
        simp [Rem.enc, encTail, encChunks_cons]
      have henc : (Rem.atSize (c :: cs) last trs).enc = (c.line.digits ++ c.line.ext ++ [CR, LF]) ++ (Rem.inChunk c.data cs last trs).enc := by
        simp [Rem.enc, encTail, encChunks_cons]
      rw [hre]
      have hnz : c.line.val ≠ 0 := by omega
      by_cases hm : c.line.digits.length + c.line.ext.length + 2 ≤ m
      · refine ⟨true, .inChunk c.data cs last trs, c.line.digits.length + c.line.ext.length + 2, [], ?_⟩
        have hstep : stepOnce2 (Rem.atSize (c :: cs) last trs).state
            ((c.line.digits ++ (c.line.ext ++ ([CR, LF] ++ (c.data ++ ([CR, LF] ++ (encChunks cs ++ (last.enc ++ (encTrailers trs ++ [CR, LF])))) ++ tail)))).take m) cap =
            .ok (true, (Rem.inChunk c.data cs last trs).state, c.line.digits.length + c.line.ext.length + 2, []) := by
          simp only [Rem.state, stepOnce2, stepOnce]; rw [h]; simp [hm, hnz, hcv, bind, Except.bind, pure, Except.pure]
          intro he; simp [he] at hcpos
        refine ⟨hstep, ⟨hcpos, fun x hx => hcs x (by simp [hx]), hlast, hzero, htrs⟩, hm, by simp, ?_, ?_, by simp [Rem.payload, payloadOf_cons], trivial, by simp, by intro _; left; omega, by simp [Rem.curChunk, Rem.state], by simp [Rem.curChunk, Rem.state], by simp [Rem.curChunk, Rem.state], by intro _ _ _; left; omega⟩
        · rw [henc]; exact drop_len_append _ _ _ (by simp; omega)
        · rw [henc]; simp; omega
      · refine ⟨false, .atSize (c :: cs) last trs, 0, [], ?_⟩
        have hstep : stepOnce2 (Rem.atSize (c :: cs) last trs).state
            ((c.line.digits ++ (c.line.ext ++ ([CR, LF] ++ (c.data ++ ([CR, LF] ++ (encChunks cs ++ (last.enc ++ (encTrailers trs ++ [CR, LF])))) ++ tail)))).take m) cap =
            .ok (false, (Rem.atSize (c :: cs) last trs).state, 0, []) := by
          simp only [Rem.state, stepOnce2, stepOnce]; rw [h]; simp [hm, bind, Except.bind, pure, Except.pure]
        exact ⟨hstep, ⟨hcs, hlast, hzero, htrs⟩, by omega, by simp, by simp, by omega, by simp, trivial, fun _ => trivial, by simp, by simp [Rem.curChunk, Rem.state], by simp [Rem.curChunk, Rem.state], by simp [Rem.curChunk, Rem.state], by intro h1 _ _; rw [henc] at h1; simp at h1; omega⟩
  | atEnding trs =>
    cases trs with
    | nil =>
      have h := findCrlf_take [] tail (by simp) m
      have hre : (Rem.atEnding []).enc ++ tail = ([] : Bytes) ++ CR :: LF :: tail := by simp [Rem.enc, encTrailers]
      rw [hre]
      by_cases hm : 2 ≤ m
      · refine ⟨true, .done, 2, [], ?_⟩
        have hstep : stepOnce2 (Rem.atEnding []).state ((([] : Bytes) ++ CR :: LF :: tail).take m) cap = .ok (true, Rem.done.state, 2, []) := by
          simp only [Rem.state, stepOnce2, stepOnce]; rw [h]; simp [hm, pure, Except.pure]
        exact ⟨hstep, trivial, hm, by simp, by simp [Rem.enc, encTrailers], by simp [Rem.enc, encTrailers], by simp [Rem.payload], trivial, by simp, by intro _; left; omega, by simp [Rem.curChunk, Rem.state], by simp [Rem.curChunk, Rem.state], by simp [Rem.curChunk, Rem.state], by intro _ _ _; left; omega⟩
      · refine ⟨false, .atEnding [], 0, [], ?_⟩
        have hstep : stepOnce2 (Rem.atEnding []).state ((([] : Bytes) ++ CR :: LF :: tail).take m) cap = .ok (false, (Rem.atEnding []).state, 0, []) := by
          simp only [Rem.state, stepOnce2, stepOnce]; rw [h]; simp [hm, pure, Except.pure]
        exact ⟨hstep, hr, by omega, by simp, by simp, by omega, by simp, trivial, fun _ => trivial, by simp, by simp [Rem.curChunk, Rem.state], by simp [Rem.curChunk, Rem.state], by simp [Rem.curChunk, Rem.state], by intro h1 _ _; simp [Rem.enc, encTrailers] at h1; omega⟩
    | cons t ts =>
      have ht : trailerWf t := hr t (by simp)
      have hts : ∀ x ∈ ts, trailerWf x := fun x hx => hr x (by simp [hx])
      have h := findCrlf_take t (encTrailers ts ++ [CR, LF] ++ tail) ht.2 m
      have hre : (Rem.atEnding (t :: ts)).enc ++ tail = t ++ CR :: LF :: (encTrailers ts ++ [CR, LF] ++ tail) := by
        simp [Rem.enc, encTrailers_cons]
      have htpos : 0 < t.length := by
        cases hq : t with
        | nil => exact absurd hq ht.1
        | cons _ _ => simp
      rw [hre]
      by_cases hm : t.length + 2 ≤ m
      · refine ⟨true, .atTrailer t ts, 0, [], ?_⟩
        have hstep : stepOnce2 (Rem.atEnding (t :: ts)).state ((t ++ CR :: LF :: (encTrailers ts ++ [CR, LF] ++ tail)).take m) cap = .ok (true, (Rem.atTrailer t ts).state, 0, []) := by
          simp only [Rem.state, stepOnce2, stepOnce]; rw [h]; simp [hm, pure, Except.pure]; exact ht.1
        exact ⟨hstep, ⟨ht, hts⟩, by omega, by simp, by simp [Rem.enc, encTrailers_cons], by omega, by simp [Rem.payload], by simpa [Rem.winOk] using hm, by simp, by intro _; right; simp [Rem.state], by simp [Rem.curChunk, Rem.state], by simp [Rem.curChunk, Rem.state], by simp [Rem.curChunk, Rem.state], by intro _ _ _; right; simp [Rem.state]⟩
      · refine ⟨false, .atEnding (t :: ts), 0, [], ?_⟩
        have hstep : stepOnce2 (Rem.atEnding (t :: ts)).state ((t ++ CR :: LF :: (encTrailers ts ++ [CR, LF] ++ tail)).take m) cap = .ok (false, (Rem.atEnding (t :: ts)).state, 0, []) := by
          simp only [Rem.state, stepOnce2, stepOnce]; rw [h]; simp [hm, pure, Except.pure]
        exact ⟨hstep, hr, by omega, by simp, by simp, by omega, by simp, trivial, fun _ => trivial, by simp, by simp [Rem.curChunk, Rem.state], by simp [Rem.curChunk, Rem.state], by simp [Rem.curChunk, Rem.state], by intro h1 _ _; simp [Rem.enc, encTrailers_cons] at h1; omega⟩
  | atTrailer t ts =>
    obtain ⟨ht, hts⟩ := hr
    have hm : t.length + 2 ≤ m := hw
    have h := findCrlf_take t (encTrailers ts ++ [CR, LF] ++ tail) ht.2 m
    have hre : (Rem.atTrailer t ts).enc ++ tail = t ++ CR :: LF :: (encTrailers ts ++ [CR, LF] ++ tail) := by
      simp [Rem.enc]
    have htpos : 0 < t.length := by
      cases hq : t with
      | nil => exact absurd hq ht.1
      | cons _ _ => simp
    rw [hre]
    refine ⟨true, .atEnding ts, t.length + 2, [], ?_⟩
    have hstep : stepOnce2 (Rem.atTrailer t ts).state ((t ++ CR :: LF :: (encTrailers ts ++ [CR, LF] ++ tail)).take m) cap = .ok (true, (Rem.atEnding ts).state, t.length + 2, []) := by
      simp only [Rem.state, stepOnce2, stepOnce]; rw [h]; simp [hm, pure, Except.pure]; exact ht.1
    refine ⟨hstep, hts, hm, by simp, ?_, by simp [Rem.enc], by simp [Rem.payload], trivial, by simp, by intro _; left; omega, by simp [Rem.curChunk, Rem.state], by simp [Rem.curChunk, Rem.state], by simp [Rem.curChunk, Rem.state], by intro _ _ _; left; omega⟩
    have : (Rem.atTrailer t ts).enc = (t ++ [CR, LF]) ++ (Rem.atEnding ts).enc := by simp [Rem.enc]
    rw [this]; exact drop_len_append _ _ _ (by simp)

theorem window_advance (e e' tail : Bytes) (n m : Nat) (hd : e.drop n = e') (hn : n ≤ e.length) :
    ((e ++ tail).take m).drop n = (e' ++ tail).take (m - n) := by
  rw [List.drop_take, List.drop_append]
  have : n - e.length = 0 := by omega
  simp [this, hd]


def fuelNeed (r : Rem) (m : Nat) : Nat := 2 * m + (if r.state = .trailer then 1 else 2)

/-- C07 core on the faithful, state-carrying decoder: from any valid position, on any window of the remaining
    stream (possibly reaching into the next message) and any output space, with the fuel the driver passes,
    the inner loop does not err, emits a prefix of the remaining payload, consumes only bytes of the coding,
    and rests on a valid position (never in the transient trailer state). -/
theorem parseInputS_inv (fuel : Nat) : ∀ (r : Rem), r.wf → ∀ (tail : Bytes) (m cap : Nat), r.winOk m →
    fuelNeed r m ≤ fuel →
    ∃ (r' : Rem) (n : Nat) (out : Bytes),
      parseInputS fuel r.state ((r.enc ++ tail).take m) cap = (r'.state, .ok (n, out)) ∧
      r'.wf ∧ n ≤ m ∧ out.length ≤ cap ∧ r.enc.drop n = r'.enc ∧ n ≤ r.enc.length ∧
      r.payload = out ++ r'.payload ∧ r'.atRest ∧
      out <+: r.curChunk ∧ (r'.state = .size ∨ r.curChunk = out ++ r'.curChunk) ∧
      (r.enc.length ≤ m → (1 ≤ cap ∨ r.payload = []) → r.state ≠ .ended → 0 < n) := by
  induction fuel with
  | zero =>
    intro r hr tail m cap _ hf
    unfold fuelNeed at hf; split at hf <;> omega
  | succ fuel ih =>
    intro r hr tail m cap hw hf
    obtain ⟨more, r1, n1, o1, hstep, hwf1, hn1m, ho1, hd1, hn1, hp1, hw1, hrest, hprog, hck1, hck2, hck3, hlive⟩ := stepOnce2_inv r hr tail m cap hw
    cases more with
    | false =>
      refine ⟨r1, n1, o1, ?_, hwf1, hn1m, ho1, hd1, hn1, hp1, hrest rfl, hck1, hck2, ?_⟩
      · simp [parseInputS, hstep]
      · intro h1 h2 h3
        rcases hlive h1 h2 h3 with h | ⟨h, _⟩
        · exact h
        · simp at h
    | true =>
      have hfuel1 : fuelNeed r1 (m - n1) ≤ fuel := by
        unfold fuelNeed at hf ⊢
        rcases hprog rfl with hpos | ⟨he, ht⟩
        · split at hf <;> split <;> omega
        · simp [he] at hf; simp [ht]; omega
      obtain ⟨r2, n2, o2, hrec, hwf2, hn2m, ho2, hd2, hn2, hp2, hrest2, hk1, hk2, hk3⟩ :=
        ih r1 hwf1 tail (m - n1) (cap - o1.length) hw1 hfuel1
      have hcur : r.curChunk = o1 ++ r1.curChunk := by
        rcases hck2 with h | h
        · exact absurd h (hck3 rfl)
        · exact h
      refine ⟨r2, n1 + n2, o1 ++ o2, ?_, hwf2, by omega, by simp; omega, ?_, ?_, ?_, hrest2, ?_, ?_, ?_⟩
      · simp only [parseInputS, hstep, if_true]
        rw [window_advance r.enc r1.enc tail n1 m hd1 hn1, hrec]
      · rw [← List.drop_drop, hd1, hd2]
      · have : r1.enc.length = r.enc.length - n1 := by rw [← hd1]; simp
        omega
      · rw [hp1, hp2]; simp
      · rw [hcur]; exact (List.prefix_append_right_inj o1).mpr hk1
      · rcases hk2 with h | h
        · exact Or.inl h
        · right; rw [hcur, h]; simp
      · intro h1 h2 h3
        rcases hlive h1 h2 h3 with h | ⟨_, htr⟩
        · omega
        · -- the step only recognised a trailer line (n1 = 0, no output): the next step consumes it
          have hn0 : n1 = 0 ∨ 0 < n1 := by omega
          rcases hn0 with hz | hp
          · have ho : o1 = [] := by
              rcases hck2 with hh | hh
              · rw [htr] at hh; simp at hh
              · have := hck1; cases r <;> simp_all [Rem.curChunk, Rem.state]
            have he1 : r1.enc = r.enc := by rw [← hd1, hz]; simp
            have hp1' : r.payload = r1.payload := by rw [hp1, ho]; simp
            have := hk3 (by rw [he1, hz]; simpa using h1) (by rw [ho, ← hp1']; simpa using h2) (by rw [htr]; simp)
            omega
          · omega

theorem rem_state_ended_iff (r : Rem) (hr : r.atRest) : r.state = .ended ↔ r.enc = [] := by
  cases r <;> simp [Rem.state, Rem.enc, encTail, SizeLine.enc, Rem.atRest] at hr ⊢

theorem winOk_of_atRest (r : Rem) (h : r.atRest) (m : Nat) : r.winOk m := by
  cases r <;> simp [Rem.winOk, Rem.atRest] at h ⊢

theorem fuelNeed_le (r : Rem) (m : Nat) : fuelNeed r m ≤ 2 * m + 4 := by
  unfold fuelNeed; split <;> omega

/-- the outer `read_chunked` loop (boundary stop on or off) preserves the same invariant -/
theorem readChunkedS_inv (fuel : Nat) : ∀ (r : Rem), r.wf → r.atRest → ∀ (tail : Bytes) (m cap : Nat) (stop : Bool),
    m ≤ (r.enc ++ tail).length → m + 1 ≤ fuel →
    ∃ (r' : Rem) (n : Nat) (out : Bytes),
      readChunkedS fuel r.state ((r.enc ++ tail).take m) cap stop = (r'.state, .ok (n, out)) ∧
      r'.wf ∧ r'.atRest ∧ n ≤ m ∧ out.length ≤ cap ∧ r.enc.drop n = r'.enc ∧ n ≤ r.enc.length ∧
      r.payload = out ++ r'.payload ∧ (stop = true → out <+: r.curChunk) ∧
      (r.enc.length ≤ m → (1 ≤ cap ∨ r.payload = []) → r.state ≠ .ended → 0 < n) := by
  induction fuel with
  | zero => intro r _ _ tail m cap stop _ hf; omega
  | succ fuel ih =>
    intro r hr hrest tail m cap stop hm hf
    have hlen : ((r.enc ++ tail).take m).length = m := by rw [List.length_take]; omega
    obtain ⟨r1, n1, o1, hin, hwf1, hn1m, ho1, hd1, hn1, hp1, hrest1, hq1, hq2, hq4⟩ :=
      parseInputS_inv (2 * ((r.enc ++ tail).take m).length + 4) r hr tail m cap (winOk_of_atRest r hrest m)
        (by rw [hlen]; exact fuelNeed_le r m)
    simp only [readChunkedS, hin]
    by_cases hbreak : (n1 == 0 || n1 == ((r.enc ++ tail).take m).length || o1.length == cap) = true
    · simp only [hbreak, if_true]
      exact ⟨r1, n1, o1, rfl, hwf1, hrest1, hn1m, ho1, hd1, hn1, hp1, fun _ => hq1, hq4⟩
    · simp only [hbreak, if_false]
      by_cases hend : (r1.state == Dechunker.ended) = true
      · simp only [hend, if_true]
        exact ⟨r1, n1, o1, rfl, hwf1, hrest1, hn1m, ho1, hd1, hn1, hp1, fun _ => hq1, hq4⟩
      · simp only [hend, if_false]
        by_cases hstop : (stop && r1.state == Dechunker.size) = true
        · simp only [hstop, if_true]
          exact ⟨r1, n1, o1, rfl, hwf1, hrest1, hn1m, ho1, hd1, hn1, hp1, fun _ => hq1, hq4⟩
        · simp only [hstop, if_false]
          have hn1pos : 0 < n1 := by
            simp at hbreak; omega
          have hm1 : m - n1 ≤ (r1.enc ++ tail).length := by
            rw [← hd1]; simp at hm ⊢; omega
          obtain ⟨r2, n2, o2, hrec, hwf2, hrest2, hn2m, ho2, hd2, hn2, hp2, hq3, _⟩ :=
            ih r1 hwf1 hrest1 tail (m - n1) (cap - o1.length) stop hm1 (by omega)
          rw [window_advance r.enc r1.enc tail n1 m hd1 hn1, hrec]
          refine ⟨r2, n1 + n2, o1 ++ o2, rfl, hwf2, hrest2, by omega, by simp; omega, ?_, ?_, ?_, ?_, fun _ _ _ => by omega⟩
          · rw [← List.drop_drop, hd1, hd2]
          · have : r1.enc.length = r.enc.length - n1 := by rw [← hd1]; simp
            omega
          · rw [hp1, hp2]; simp
          · intro hs
            have hns : r1.state ≠ .size := by
              intro e; rw [hs, e] at hstop; simp at hstop
            rcases hq2 with h | h
            · exact absurd h hns
            · rw [h]; exact (List.prefix_append_right_inj o1).mpr (hq3 hs)

/-- one caller step: offer the next `m` unconsumed bytes (clamped to what exists), `cap` bytes of output -/
structure ReadStep where
  m : Nat
  cap : Nat
  stop : Bool

/-- `Call::read` on a chunked body: short-circuit when ended -/
def callReadS (d : Dechunker) (w : Bytes) (cap : Nat) (stop : Bool) : Dechunker × Except Err (Nat × Bytes) :=
  if d == .ended then (d, .ok (0, [])) else readChunkedS (w.length + 2) d w cap stop

/-- the caller protocol: consumed bytes are dropped, the rest is re-presented -/
def runReads : Dechunker → Bytes → List ReadStep → Option (Dechunker × Nat × Bytes)
  | d, _, [] => some (d, 0, [])
  | d, stream, s :: rest =>
    match callReadS d (stream.take s.m) s.cap s.stop with
    | (d', .ok (n, out)) =>
      (runReads d' (stream.drop n) rest).map fun (d'', n', out') => (d'', n + n', out ++ out')
    | (_, .error _) => none

/-- **C07**: for a valid coding followed by arbitrary bytes, every schedule of windows, output sizes and
    boundary-stop settings decodes a prefix of the payload, consumes only bytes of the coding, never errs,
    and the decoder reports `ended` exactly when the whole coding has been consumed — at which point the
    output is the whole payload and the bytes of the next message are untouched. -/
theorem C07_schedule (σ : List ReadStep) : ∀ (r : Rem), r.wf → r.atRest → ∀ (tail : Bytes),
    ∃ (r' : Rem) (used : Nat) (out : Bytes),
      runReads r.state (r.enc ++ tail) σ = some (r'.state, used, out) ∧
      r'.wf ∧ r'.atRest ∧ used ≤ r.enc.length ∧ r.enc.drop used = r'.enc ∧ r.payload = out ++ r'.payload ∧
      (r'.state = .ended ↔ used = r.enc.length) ∧
      (r'.state = .ended → out = r.payload ∧ (r.enc ++ tail).drop used = tail) := by
  induction σ with
  | nil =>
    intro r hr hrest tail
    refine ⟨r, 0, [], rfl, hr, hrest, by omega, by simp, by simp, ?_, ?_⟩
    · rw [rem_state_ended_iff r hrest]
      constructor
      · intro h; simp [h]
      · intro h; exact List.eq_nil_of_length_eq_zero h.symm
    · intro h
      have he : r.enc = [] := (rem_state_ended_iff r hrest).mp h
      cases r <;> simp_all [Rem.payload, Rem.enc, Rem.state, encTail, SizeLine.enc]
  | cons s rest ih =>
    intro r hr hrest tail
    by_cases hend : r.state = .ended
    · -- already ended: the call returns (0, []) and nothing changes
      obtain ⟨r', used, out, hrun, h1, h2, h3, h4, h5, h6, h7⟩ := ih r hr hrest tail
      refine ⟨r', used, out, ?_, h1, h2, h3, h4, h5, h6, h7⟩
      rw [hend] at hrun
      simp [runReads, callReadS, hend, hrun]
    · let m := min s.m (r.enc ++ tail).length
      have htake : (r.enc ++ tail).take s.m = (r.enc ++ tail).take m := by
        simp only [m]
        rw [List.take_eq_take_min]
      have hwl : ((r.enc ++ tail).take m).length = m := by
        rw [List.length_take]; simp only [m]; omega
      obtain ⟨r1, n1, o1, hread, hwf1, hrest1, hn1m, ho1, hd1, hn1, hp1, _, _⟩ :=
        readChunkedS_inv (((r.enc ++ tail).take m).length + 2) r hr hrest tail m s.cap s.stop
          (by simp only [m]; omega) (by rw [hwl]; omega)
      have hdrop : (r.enc ++ tail).drop n1 = r1.enc ++ tail := by
        rw [List.drop_append, hd1]
        have : n1 - r.enc.length = 0 := by omega
        simp [this]
      obtain ⟨r', used, out, hrun, h1, h2, h3, h4, h5, h6, h7⟩ := ih r1 hwf1 hrest1 tail
      have hl1 : r1.enc.length = r.enc.length - n1 := by rw [← hd1]; simp
      refine ⟨r', n1 + used, o1 ++ out, ?_, h1, h2, by omega, ?_, ?_, ?_, ?_⟩
      · have hne : (r.state == Dechunker.ended) = false := by simpa using hend
        simp only [runReads, callReadS, hne, htake, Bool.false_eq_true, if_false]
        rw [hread]
        simp only []
        rw [hdrop, hrun]
        rfl
      · rw [← List.drop_drop, hd1, h4]
      · rw [hp1, h5]; simp
      · rw [h6]; omega
      · intro he
        obtain ⟨ho, hd⟩ := h7 he
        refine ⟨by rw [hp1, ho], ?_⟩
        rw [← List.drop_drop, hdrop, hd]

end V2
