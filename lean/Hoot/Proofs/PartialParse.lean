import Hoot.Model.Flow
import Hoot.Proofs.RespMono

/-! The partial response parser on strict prefixes of a well-formed head (C20), and the `Call`-level
    prefix theorem in the presence of the partial-redirect fallback (C05). -/

def keepNonEmpty (fs : List (Bytes' × Bytes')) : List (Bytes' × Bytes') :=
  fs.takeWhile (fun f => !f.1.isEmpty && !f.2.isEmpty)

theorem mem_of_takeWhile {α} (p : α → Bool) : ∀ (l : List α) (x : α), x ∈ l.takeWhile p → x ∈ l := by
  intro l
  induction l with
  | nil => intro x hx; simp at hx
  | cons a as ih =>
    intro x hx
    simp only [List.takeWhile] at hx
    split at hx
    · rcases List.mem_cons.mp hx with h | h
      · simp [h]
      · exact List.mem_cons_of_mem _ (ih x h)
    · simp at hx

theorem keep_sub (a t : List (Bytes' × Bytes')) : ∀ x ∈ keepNonEmpty a, x ∈ a ++ t := by
  intro x hx
  exact List.mem_append_left _ (mem_of_takeWhile _ a x hx)

/-- On every strict prefix of a well-formed head (status ≥ 100, field names within the `http` crate's
    limit, at most `N` fields) the partial parser never fails: it reports nothing, or the head's status and
    version together with an initial segment of the head's fields (cut at the first empty value) —
    each reported field is exactly a field of the head. -/
theorem partial_on_prefix (h : Head) (hw : h.wf) (N : Nat) (hs : h.fields.length ≤ N) (hc : 100 ≤ h.codeVal)
    (hnames : ∀ f ∈ h.fields, f.name.length ≤ 65535) (n : Nat) (hn : n < h.enc.length) :
    tryParsePartial N (h.enc.take n) = .ok none ∨
    ∃ (k0 t : List (Bytes' × Bytes')), h.fields.map Field.pair = k0 ++ t ∧
      tryParsePartial N (h.enc.take n) =
        .ok (some { version := h.ver, status := h.codeVal, fields := fieldsOf (keepNonEmpty k0) }) := by
  obtain ⟨st, hst, hv, hcd, ⟨t, hf⟩⟩ := prefix_state h hw N hs n hn
  unfold tryParsePartial
  rw [hst]
  simp only []
  unfold partialFinish
  rcases hv with hv | hv
  · left; simp [hv]
  · rcases hcd with hcd | hcd
    · left; simp [hv, hcd]
    · right
      refine ⟨st.fields, t, hf, ?_⟩
      have h1 : ¬ h.codeVal < 100 := by omega
      have h2 : (keepNonEmpty st.fields).any (fun f => decide (f.1.length > 65535)) = false := by
        simp only [List.any_eq_false]
        intro x hx
        have hx' : x ∈ h.fields.map Field.pair := by rw [hf]; exact keep_sub st.fields t x hx
        obtain ⟨f, hfm, rfl⟩ := List.mem_map.mp hx'
        have := hnames f hfm
        simp [Field.pair]; omega
      simp only [hv, hcd, h1, if_false]
      unfold keepNonEmpty at h2
      simp [h2, keepNonEmpty]

/-- the parse step with the fallback present: on every strict prefix of a head that is not (a 3xx carrying
    a `Location` field) it asks for more data -/
theorem fallback_prefix (h : Head) (hw : h.wf) (hs : h.fields.length ≤ 128)
    (hc : 100 ≤ h.codeVal) (hnames : ∀ f ∈ h.fields, f.name.length ≤ 65535)
    (hnot : ¬ (300 ≤ h.codeVal ∧ h.codeVal ≤ 399) ∨
            (fieldsOf (h.fields.map Field.pair)).any (fun x => x.name == "location") = false)
    (n : Nat) (hn : n < h.enc.length) :
    parseWithFallback true (h.enc.take n) = .ok none := by
  obtain ⟨st, hst⟩ := resp_prefix h hw 128 hs n hn
  have hfull : tryParseResponse 128 (h.enc.take n) = .ok none := by
    unfold tryParseResponse; rw [hst]
  unfold parseWithFallback
  rw [hfull]
  simp only [Bool.not_true, Bool.false_eq_true, if_false]
  rcases partial_on_prefix h hw 128 hs hc hnames n hn with hp | ⟨k0, t, hf, hp⟩
  · rw [hp]
  · rw [hp]
    simp only []
    have hany : (fieldsOf (keepNonEmpty k0)).any (fun x => x.name == "location") = true →
        (fieldsOf (h.fields.map Field.pair)).any (fun x => x.name == "location") = true := by
      intro ha
      rw [List.any_eq_true] at ha ⊢
      obtain ⟨y, hy, hq⟩ := ha
      unfold fieldsOf at hy
      obtain ⟨x, hx, rfl⟩ := List.mem_map.mp hy
      refine ⟨_, ?_, hq⟩
      unfold fieldsOf
      exact List.mem_map.mpr ⟨x, by rw [hf]; exact keep_sub k0 t x hx, rfl⟩
    rcases hnot with h3 | hloc
    · have : ¬ (300 ≤ h.codeVal ∧ h.codeVal ≤ 399 ∧ (fieldsOf (keepNonEmpty k0)).any (fun x => x.name == "location") = true) := by
        intro hh; exact h3 ⟨hh.1, hh.2.1⟩
      rw [if_neg (by simpa using this)]
    · have : ¬ (300 ≤ h.codeVal ∧ h.codeVal ≤ 399 ∧ (fieldsOf (keepNonEmpty k0)).any (fun x => x.name == "location") = true) := by
        intro hh; have := hany hh.2.2; rw [hloc] at this; exact absurd this (by simp)
      rw [if_neg (by simpa using this)]

/-- `Call<RecvResponse>::try_response` with the partial-redirect fallback in place: for a head that is
    not (a 3xx carrying a `Location` field), every strict prefix yields `None` and changes nothing. -/
theorem call_prefix_with_fallback (c : CallSt) (h : Head) (hw : h.wf) (hs : h.fields.length ≤ 128)
    (hc : 100 ≤ h.codeVal) (hnames : ∀ f ∈ h.fields, f.name.length ≤ 65535)
    (hnot : ¬ (300 ≤ h.codeVal ∧ h.codeVal ≤ 399) ∨
            (fieldsOf (h.fields.map Field.pair)).any (fun x => x.name == "location") = false)
    (n : Nat) (hn : n < h.enc.length) :
    callTryResponse true c (h.enc.take n) = (c, .ok none) := by
  unfold callTryResponse
  rw [fallback_prefix h hw hs hc hnames hnot n hn]
