import Hoot.Proofs.Exchange
import Hoot.Props.C11
set_option linter.unusedVariables false
set_option linter.unusedSimpArgs false

/-! ## A whole exchange: request head and body out, `100 Continue` handshake, response head and body in -/

/-- the caller's loop. `cap` is the buffer handed to whichever call is due (output buffer while sending,
    output space while reading), `m` the pending bytes presented (payload while sending the body,
    unconsumed server bytes otherwise). In `Await100` the caller presents what has arrived to
    `try_read_100` while the flow says keep waiting, and proceeds when it says stop — or when the caller's
    own timer fires (`giveUp`). -/
def xStep (hack : Bool) (P stream : Bytes) (x : Flow × SendObs × RecvObs) (s : IoStep) : Flow × SendObs × RecvObs :=
  match x.1.st with
  | .prepare | .sendRequest | .sendBody => ((sendStep hack P (x.1, x.2.1) s).1, (sendStep hack P (x.1, x.2.1) s).2, x.2.2)
  | .await100 =>
    if !x.1.await100 || s.giveUp then ((x.1.step hack .proceed).1, x.2.1, x.2.2)
    else
      match x.1.step hack (.read100 ((stream.drop x.2.2.consumed).take s.m)) with
      | (f1, .count n) => (f1, x.2.1, { x.2.2 with consumed := x.2.2.consumed + n })
      | (f1, _) => (f1, x.2.1, { x.2.2 with faults := x.2.2.faults + 1 })
  | .recvResponse | .recvBody => ((recvStep hack stream (x.1, x.2.2) s).1, x.2.1, (recvStep hack stream (x.1, x.2.2) s).2)
  | _ => x

def xRun (hack : Bool) (P stream : Bytes) (f : Flow) (σ : List IoStep) : Flow × SendObs × RecvObs :=
  σ.foldl (xStep hack P stream) (f, {}, {})

/-- a bare interim `100` head (any version, any reason phrase) -/
structure Interim (I : Head) : Prop where
  hw : I.wf
  hf : I.fields = []
  hc : I.codeVal = 100

/-- the exchange: request (`SendSetup`), response (`RespOk`), and — exactly when the request carries
    `Expect: 100-continue` — the server's interim `100` in front of the response (`pre`) -/
structure XSetup (hack : Bool) (f0 : Flow) (r : AReq) (wr0 : BodyWriter) (P : Bytes) (I H : Head) (b0 : BPos) (pre : Bytes) : Prop where
  send : SendSetup f0 r wr0 P
  hnd : f0.closeReasons.Nodup
  resp : RespOk hack H b0 r.method
  int : Interim I
  hpre : (f0.await100 = true ∧ pre = I.enc) ∨ (f0.await100 = false ∧ pre = [])

/-- whether the interim response is still to come: the flag is up and nothing was consumed, or it is down
    and exactly the interim bytes were consumed -/
def Pend (f0 : Flow) (pre : Bytes) (aw : Bool) (o : RecvObs) : Prop :=
  (aw = true ∧ f0.await100 = true ∧ o = {}) ∨ (aw = false ∧ o = ({} : RecvObs).shift pre.length)

def XInv (hack : Bool) (f0 : Flow) (r : AReq) (wr0 : BodyWriter) (P : Bytes) (H : Head) (b0 : BPos) (tail pre : Bytes)
    (x : Flow × SendObs × RecvObs) : Prop :=
  ((SendA f0 x.1 x.2.1 ∨ SendB f0 r wr0 x.1 x.2.1) ∧ x.2.2 = {}) ∨
  (x.1.st = .await100 ∧ f0.await100 = true ∧ AwaitAt f0 r wr0 P x.1 x.2.1 ∧ Pend f0 pre x.1.await100 x.2.2) ∨
  (SendC f0 r wr0 P x.1 x.2.1 ∧ Pend f0 pre x.1.await100 x.2.2) ∨
  (x.1.st = .recvResponse ∧ x.1.holder = .recvResponse ∧ x.1.await100 = true ∧ f0.await100 = true ∧ x.2.2 = {} ∧
     x.1.closeReasons.Nodup ∧ x.1.call.req = r ∧ SendSpec r wr0 P x.2.1.wire ∧ x.2.1.off = P.length) ∨
  (SendSpec r wr0 P x.2.1.wire ∧ x.2.1.off = P.length ∧
     ∃ (f1 : Flow) (o' : RecvObs), RecvSetup hack H b0 f1 ∧ x.2.2 = o'.shift pre.length ∧ RecvInv H b0 tail f1 x.1 o')

theorem flow_step_await (hack : Bool) (f : Flow) (op : Op) (h : f.st = .await100) :
    f.step hack op = stepAwait100 f op := by unfold Flow.step; simp [h]

theorem shift_zero (o : RecvObs) : o.shift 0 = o := by cases o; rfl

/-- before anything was received: pending iff the request carries `Expect` -/
theorem pend_init (hack : Bool) (f0 : Flow) (r : AReq) (wr0 : BodyWriter) (P : Bytes) (I H : Head) (b0 : BPos) (pre : Bytes)
    (X : XSetup hack f0 r wr0 P I H b0 pre) : Pend f0 pre f0.await100 {} := by
  rcases X.hpre with ⟨h1, _⟩ | ⟨h1, h2⟩
  · exact Or.inl ⟨h1, h1, rfl⟩
  · refine Or.inr ⟨h1, ?_⟩
    rw [h2]; exact (shift_zero _).symm

/-- from a finished send side (state `RecvResponse`) into the receive invariant -/
theorem x_enter_recv (hack : Bool) (f0 : Flow) (r : AReq) (wr0 : BodyWriter) (P : Bytes) (I H : Head) (b0 : BPos) (tail pre : Bytes)
    (X : XSetup hack f0 r wr0 P I H b0 pre) (f : Flow) (so : SendObs) (o : RecvObs)
    (hD : SendD f0 r wr0 P f so) (hp : Pend f0 pre f.await100 o) : XInv hack f0 r wr0 P H b0 tail pre (f, so, o) := by
  obtain ⟨hst, hh, hcr, hreq, hspec, hoff⟩ := hD
  rcases hp with ⟨h1, h2, h3⟩ | ⟨h1, h2⟩
  · exact Or.inr (Or.inr (Or.inr (Or.inl ⟨hst, hh, h1, h2, h3, by rw [hcr]; exact X.hnd, hreq, hspec, hoff⟩)))
  · refine Or.inr (Or.inr (Or.inr (Or.inr ⟨hspec, hoff, f, {}, ⟨?_, hst, hh, by rw [hcr]; exact X.hnd⟩, h2, ⟨rfl, Or.inl ⟨rfl, rfl⟩⟩⟩)))
    rw [hreq]; exact X.resp

theorem x_step_inv (hack : Bool) (f0 : Flow) (r : AReq) (wr0 : BodyWriter) (P : Bytes) (I H : Head) (b0 : BPos) (tail pre : Bytes)
    (X : XSetup hack f0 r wr0 P I H b0 pre) (x : Flow × SendObs × RecvObs) (s : IoStep)
    (h : XInv hack f0 r wr0 P H b0 tail pre x) :
    XInv hack f0 r wr0 P H b0 tail pre (xStep hack P (pre ++ (H.enc ++ b0.enc ++ tail)) x s) := by
  obtain ⟨f, so, o⟩ := x
  rcases h with ⟨hAB, ho⟩ | ⟨hst, h0, hA, hp⟩ | ⟨hC, hp⟩ | ⟨hst, hh, haw, h0, ho, hnd, hreq, hspec, hoff⟩ | ⟨hw, hoff, f1, o', S, hsh, hri⟩
  · -- Prepare / SendRequest
    dsimp only at hAB ho
    have hst : f.st = .prepare ∨ f.st = .sendRequest := by
      rcases hAB with hA | hB
      · left; rw [hA.1]; exact X.send.hst
      · right; exact hB.1
    have hx : xStep hack P (pre ++ (H.enc ++ b0.enc ++ tail)) (f, so, o) s =
        ((sendStep hack P (f, so) s).1, (sendStep hack P (f, so) s).2, o) := by
      unfold xStep; rcases hst with e | e <;> simp [e]
    rw [hx]
    have hpi := pend_init hack f0 r wr0 P I H b0 pre X
    rcases hAB with hA | hB
    · exact Or.inl ⟨Or.inr (send_step_A hack f0 r wr0 P X.send f so s hA), ho⟩
    · rcases send_step_B hack f0 r wr0 P X.send f so s hB with hB | ⟨hC, hf, hf0⟩ | ⟨hD, hf⟩ | ⟨h1, h2, h3, h4⟩
      · exact Or.inl ⟨Or.inr hB, ho⟩
      · refine Or.inr (Or.inr (Or.inl ⟨hC, ?_⟩))
        show Pend f0 pre (sendStep hack P (f, so) s).1.await100 o
        rw [hf, ho, ← hf0]; exact hpi
      · apply x_enter_recv hack f0 r wr0 P I H b0 tail pre X _ _ _ hD
        rw [hf, ho]; exact hpi
      · refine Or.inr (Or.inl ⟨h1, h3, h4, ?_⟩)
        show Pend f0 pre (sendStep hack P (f, so) s).1.await100 o
        rw [h2, ho, ← h3]; exact hpi
  · -- Await100
    dsimp only at hst h0 hA hp
    have hpreI : pre = I.enc := by
      rcases X.hpre with ⟨_, h⟩ | ⟨h, _⟩
      · exact h
      · rw [h0] at h; cases h
    unfold xStep
    simp only [hst]
    by_cases hgo : (!f.await100 || s.giveUp) = true
    · simp only [hgo, if_true]
      rw [flow_step_await hack f _ hst]
      have hpr : stepAwait100 f .proceed = enterSendBody f := by
        unfold stepAwait100; simp [hA.2.1]
      rw [hpr]
      obtain ⟨he, hinv⟩ := enter_body_inv f0 r wr0 P f so hA
      rw [he]
      exact Or.inr (Or.inr (Or.inl ⟨hinv, hp⟩))
    · simp only [hgo, Bool.false_eq_true, if_false]
      have hawt : f.await100 = true := by
        cases hq : f.await100 <;> simp [hq] at hgo ⊢
      have ho : o = {} := by
        rcases hp with ⟨_, _, h⟩ | ⟨h, _⟩
        · exact h
        · rw [hawt] at h; cases h
      rw [flow_step_await hack f _ hst, ho]
      have hwin : ((pre ++ (H.enc ++ b0.enc ++ tail)).drop ({} : RecvObs).consumed).take s.m =
          (I.enc ++ (H.enc ++ b0.enc ++ tail)).take s.m := by
        show ((pre ++ (H.enc ++ b0.enc ++ tail)).drop 0).take s.m = _
        rw [List.drop_zero, hpreI]
      rw [hwin]
      by_cases hm : s.m < I.enc.length
      · rw [List.take_append_of_le_length (by omega), C11_undecided_bare f I X.int.hw X.int.hf s.m hm]
        dsimp only
        refine Or.inr (Or.inl ⟨hst, h0, hA, Or.inl ⟨hawt, h0, ?_⟩⟩)
        show ({ ({} : RecvObs) with consumed := ({} : RecvObs).consumed + 0 } : RecvObs) = {}
        rfl
      · rw [List.take_append, List.take_of_length_le (by omega),
          C11_continue f I X.int.hw X.int.hf X.int.hc hA.2.1]
        dsimp only
        refine Or.inr (Or.inl ⟨hst, h0, hA, Or.inr ⟨rfl, ?_⟩⟩)
        show ({ ({} : RecvObs) with consumed := ({} : RecvObs).consumed + I.enc.length } : RecvObs) = ({} : RecvObs).shift pre.length
        rw [hpreI]; simp [RecvObs.shift]
  · -- SendBody
    dsimp only at hC hp
    have hx : xStep hack P (pre ++ (H.enc ++ b0.enc ++ tail)) (f, so, o) s =
        ((sendStep hack P (f, so) s).1, (sendStep hack P (f, so) s).2, o) := by
      unfold xStep; simp [hC.1]
    rw [hx]
    obtain ⟨hcase, haw⟩ := send_step_C hack f0 r wr0 P f so s hC
    rcases hcase with hC' | hD'
    · refine Or.inr (Or.inr (Or.inl ⟨hC', ?_⟩))
      show Pend f0 pre (sendStep hack P (f, so) s).1.await100 o
      rw [haw]; exact hp
    · apply x_enter_recv hack f0 r wr0 P I H b0 tail pre X _ _ _ hD'
      rw [haw]; exact hp
  · -- RecvResponse with the interim 100 still to come
    dsimp only at hst hh haw h0 ho hnd hreq hspec hoff
    have hpreI : pre = I.enc := by
      rcases X.hpre with ⟨_, h⟩ | ⟨h, _⟩
      · exact h
      · rw [h0] at h; cases h
    have hx : xStep hack P (pre ++ (H.enc ++ b0.enc ++ tail)) (f, so, o) s =
        ((recvStep hack (pre ++ (H.enc ++ b0.enc ++ tail)) (f, o) s).1, so, (recvStep hack (pre ++ (H.enc ++ b0.enc ++ tail)) (f, o) s).2) := by
      unfold xStep; simp [hst]
    rw [hx, ho]
    unfold recvStep
    simp only [hst]
    rw [flow_step_resp hack f _ hst]
    have hwin : ((pre ++ (H.enc ++ b0.enc ++ tail)).drop ({} : RecvObs).consumed).take s.m =
        (I.enc ++ (H.enc ++ b0.enc ++ tail)).take s.m := by
      show ((pre ++ (H.enc ++ b0.enc ++ tail)).drop 0).take s.m = _
      rw [List.drop_zero, hpreI]
    rw [hwin]
    by_cases hm : s.m < I.enc.length
    · rw [List.take_append_of_le_length (by omega)]
      have hI : stepRecvResponse hack f (.resp (I.enc.take s.m)) = (f, .resp 0 none) := by
        have hcall : callTryResponse hack f.call (I.enc.take s.m) = (f.call, .ok none) := by
          have hn : I.namesShort := by intro g hg; rw [X.int.hf] at hg; cases hg
          cases hack with
          | false => exact C05_call_prefix_nohack f.call I X.int.hw (by rw [X.int.hf]; simp) s.m hm
          | true =>
            have h3 : ¬ (300 ≤ I.codeVal ∧ I.codeVal ≤ 399) := by rw [X.int.hc]; omega
            exact C05_call_prefix_partial f.call I X.int.hw (by rw [X.int.hf]; simp) (by rw [X.int.hc]; omega) hn (Or.inl h3) s.m hm
        unfold stepRecvResponse
        simp [hh, hcall]
        cases f; simp_all
      rw [hI]
      dsimp only
      exact Or.inr (Or.inr (Or.inr (Or.inl ⟨hst, hh, haw, h0, rfl, hnd, hreq, hspec, hoff⟩)))
    · rw [List.take_append, List.take_of_length_le (by omega),
        C11_late hack f hh haw I X.int.hw X.int.hf X.int.hc]
      dsimp only
      refine Or.inr (Or.inr (Or.inr (Or.inr ⟨hspec, hoff, { f with await100 := false }, {}, ⟨?_, hst, hh, hnd⟩, ?_, ⟨rfl, Or.inl ⟨rfl, rfl⟩⟩⟩)))
      · show RespOk hack H b0 f.call.req.method
        rw [hreq]; exact X.resp
      · show ({ ({} : RecvObs) with consumed := ({} : RecvObs).consumed + I.enc.length } : RecvObs) = ({} : RecvObs).shift pre.length
        rw [hpreI]; simp [RecvObs.shift]
  · -- the receive side proper
    dsimp only at hw hoff hsh hri
    have hstates : f.st = .recvResponse ∨ f.st = .recvBody ∨ f.st = .redirect ∨ f.st = .cleanup := by
      obtain ⟨_, hA | hB | hC⟩ := hri
      · left; rw [hA.1]; exact S.hst
      · obtain ⟨b, _, hst, _⟩ := hB; right; left; exact hst
      · right; right; rw [hC.1]; unfold terminalSt; split <;> simp
    have hx : xStep hack P (pre ++ (H.enc ++ b0.enc ++ tail)) (f, so, o) s =
        ((recvStep hack (pre ++ (H.enc ++ b0.enc ++ tail)) (f, o) s).1, so, (recvStep hack (pre ++ (H.enc ++ b0.enc ++ tail)) (f, o) s).2) := by
      unfold xStep
      rcases hstates with e | e | e | e <;> simp [e]
      · rw [recvStep_done hack _ (f, o) s (by simp [recvDone, e])]; exact ⟨rfl, rfl⟩
      · rw [recvStep_done hack _ (f, o) s (by simp [recvDone, e])]; exact ⟨rfl, rfl⟩
    rw [hx, hsh, recvStep_shift]
    exact Or.inr (Or.inr (Or.inr (Or.inr ⟨hw, hoff, f1, _, S, rfl, recv_step_inv hack H b0 tail f1 S f o' s hri⟩)))

theorem x_run_inv (hack : Bool) (f0 : Flow) (r : AReq) (wr0 : BodyWriter) (P : Bytes) (I H : Head) (b0 : BPos) (tail pre : Bytes)
    (X : XSetup hack f0 r wr0 P I H b0 pre) (σ : List IoStep) :
    XInv hack f0 r wr0 P H b0 tail pre (xRun hack P (pre ++ (H.enc ++ b0.enc ++ tail)) f0 σ) := by
  unfold xRun
  have gen : ∀ (σ : List IoStep) (x : Flow × SendObs × RecvObs), XInv hack f0 r wr0 P H b0 tail pre x →
      XInv hack f0 r wr0 P H b0 tail pre (σ.foldl (xStep hack P (pre ++ (H.enc ++ b0.enc ++ tail))) x) := by
    intro σ
    induction σ with
    | nil => intro x hx; exact hx
    | cons s rest ih => intro x hx; rw [List.foldl_cons]; exact ih _ (x_step_inv hack f0 r wr0 P I H b0 tail pre X x s hx)
  exact gen σ _ (Or.inl ⟨Or.inl ⟨rfl, rfl⟩, rfl⟩)

theorem take_flatten_prefix (l : List Bytes) (k : Nat) : (l.take k).flatten <+: l.flatten := by
  refine ⟨(l.drop k).flatten, ?_⟩
  rw [← List.flatten_append, List.take_append_drop]

theorem sendSpec_head (r : AReq) (wr0 : BodyWriter) (P w : Bytes) (h : SendSpec r wr0 P w) : ∃ bw, w = renderHead r ++ bw := by
  unfold SendSpec at h
  split at h
  · exact ⟨[], by rw [h]; simp⟩
  · exact ⟨P, h⟩
  · obtain ⟨cs, _, h, _⟩ := h; exact ⟨_, h⟩

/-- at every point of the send side the wire holds a prefix of the head, or the whole head and then body bytes -/
theorem sendB_wire (f0 : Flow) (r : AReq) (wr0 : BodyWriter) (hne : r.headers ≠ []) (f : Flow) (o : SendObs)
    (h : SendB f0 r wr0 f o) : o.wire <+: renderHead r ∧ o.off = 0 := by
  obtain ⟨_, _, _, _, _, hoff, hat⟩ := h
  refine ⟨?_, hoff⟩
  rw [hat.2.2.2.2.2.2.2, ← headUnits_flatten r hne]; exact take_flatten_prefix _ _

theorem sendC_wire (f0 : Flow) (r : AReq) (wr0 : BodyWriter) (P : Bytes) (f : Flow) (o : SendObs)
    (h : SendC f0 r wr0 P f o) : (∃ bw, o.wire = renderHead r ++ bw) ∧ o.off ≤ P.length := by
  obtain ⟨_, _, _, _, _, _, _, _, bw, hw, hb⟩ := h
  refine ⟨⟨bw, hw⟩, ?_⟩
  unfold BodyAt at hb
  split at hb
  · exact hb.elim
  · obtain ⟨_, _, _, _, h, _⟩ := hb; exact h
  · omega

/-- a fresh flow for a method without body, whose request passes `analyze_request`, is a valid start -/
theorem sendSetup_of_new (m : Method) (v : Version) (u : Uri) (orig : List Hdr) (hnb : m.needBody = false)
    (han : (Flow.new m v u orig).call.analyzeRequest.2 = .ok ()) :
    SendSetup (Flow.new m v u orig) (Flow.new m v u orig).call.analyzeRequest.1.req BodyWriter.newNone [] := by
  have hspec := analyzeRequest_spec (Flow.new m v u orig).call (Or.inr (by simp [Flow.new, MAX_EXTRA]))
  obtain ⟨_, hph, _, _, _, _, _, hok, hne, _, _, _, hwr⟩ := hspec
  have hw0 : (Flow.new m v u orig).call.writer = BodyWriter.newNone := by simp [Flow.new, hnb]
  refine ⟨rfl, han, rfl, (hok han).1, ?_, by simp [Flow.new], ?_, hne han (by simp [Flow.new]), ?_⟩
  · rw [hph]; simp [Flow.new]
  · exact hwr (by simp [Flow.new]) (by simp [Flow.new, hnb]) hw0
  · exact Or.inl ⟨by simp [Flow.new, hnb], by simp [Flow.new, hnb], rfl, rfl⟩

/-- a fresh flow for a method with body (with or without `Expect`), whose request analyses to chunked framing or to a
    `Content-Length` equal to the payload length, is a valid start -/
theorem sendSetup_of_new_body (m : Method) (v : Version) (u : Uri) (orig : List Hdr) (P : Bytes) (wr0 : BodyWriter)
    (hnb : m.needBody = true)
    (han : (Flow.new m v u orig).call.analyzeRequest.2 = .ok ())
    (hwr : (Flow.new m v u orig).call.analyzeRequest.1.writer = wr0)
    (hk : wr0 = BodyWriter.newChunked ∨ wr0 = BodyWriter.newSized P.length) :
    SendSetup (Flow.new m v u orig) (Flow.new m v u orig).call.analyzeRequest.1.req wr0 P := by
  have hspec := analyzeRequest_spec (Flow.new m v u orig).call (Or.inr (by simp [Flow.new, MAX_EXTRA]))
  obtain ⟨_, hph, _, _, _, _, _, hok, hne, _, _, _, _⟩ := hspec
  refine ⟨rfl, han, rfl, (hok han).1, ?_, by simp [Flow.new], hwr, hne han (by simp [Flow.new]), ?_⟩
  · rw [hph]; simp [Flow.new]
  · exact Or.inr ⟨by simp [Flow.new, hnb], by simp [Flow.new, hnb], hk⟩
