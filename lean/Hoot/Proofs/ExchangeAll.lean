import Hoot.Proofs.Exchange
import Hoot.Props.C11
set_option linter.unusedVariables false
set_option linter.unusedSimpArgs false

/-! ## A whole exchange: request head and body out, `100 Continue` handshake, response head and body in -/

/-- the caller's loop. `cap` is the buffer handed to whichever call is due (output buffer while sending,
    output space while reading), `m` the pending bytes presented (payload while sending the body,
    unconsumed server bytes otherwise). In `Await100` the caller presents what has arrived to
    `try_read_100` while the flow says keep waiting, and proceeds when it says stop — or when the caller's
    own timer fires (`giveUp`). -/
def xStep (hack : Bool) (P stream : Bytes) (x : Flow × SendObs × RecvObs) (s : IoStep) : Flow × SendObs × RecvObs :=
  match x.1.st with
  | .prepare | .sendRequest | .sendBody => ((sendStep hack P (x.1, x.2.1) s).1, (sendStep hack P (x.1, x.2.1) s).2, x.2.2)
  | .await100 =>
    if !x.1.await100 || s.giveUp then ((x.1.step hack .proceed).1, x.2.1, x.2.2)
    else
      match x.1.step hack (.read100 ((stream.drop x.2.2.consumed).take s.m)) with
      | (f1, .count n) => (f1, x.2.1, { x.2.2 with consumed := x.2.2.consumed + n })
      | (f1, _) => (f1, x.2.1, { x.2.2 with faults := x.2.2.faults + 1 })
  | .recvResponse | .recvBody => ((recvStep hack stream (x.1, x.2.2) s).1, x.2.1, (recvStep hack stream (x.1, x.2.2) s).2)
  | _ => x

def xRun (hack : Bool) (P stream : Bytes) (f : Flow) (σ : List IoStep) : Flow × SendObs × RecvObs :=
  σ.foldl (xStep hack P stream) (f, {}, {})

/-- a bare interim `100` head (any version, any reason phrase) -/
structure Interim (I : Head) : Prop where
  hw : I.wf
  hf : I.fields = []
  hc : I.codeVal = 100

/-- the exchange: request (`SendSetup`), response (`RespOk`), and — exactly when the request carries
    `Expect: 100-continue` — the server's interim `100` in front of the response (`pre`) -/
structure XSetup (hack : Bool) (f0 : Flow) (r : AReq) (wr0 : BodyWriter) (P : Bytes) (I H : Head) (b0 : BPos) (pre : Bytes) : Prop where
  send : SendSetup f0 r wr0 P
  hnd : f0.closeReasons.Nodup
  resp : RespOk hack H b0 r.method
  int : Interim I
  hpre : (f0.await100 = true ∧ pre = I.enc) ∨ (f0.await100 = false ∧ pre = [])

/-- whether the interim response is still to come: the flag is up and nothing was consumed, or it is down
    and exactly the interim bytes were consumed -/
def Pend (f0 : Flow) (pre : Bytes) (aw : Bool) (o : RecvObs) : Prop :=
  (aw = true ∧ f0.await100 = true ∧ o = {}) ∨ (aw = false ∧ o = ({} : RecvObs).shift pre.length)

def XInv (hack : Bool) (f0 : Flow) (r : AReq) (wr0 : BodyWriter) (P : Bytes) (H : Head) (b0 : BPos) (tail pre : Bytes)
    (x : Flow × SendObs × RecvObs) : Prop :=
  ((SendA f0 x.1 x.2.1 ∨ SendB f0 r wr0 x.1 x.2.1) ∧ x.2.2 = {}) ∨
  (x.1.st = .await100 ∧ f0.await100 = true ∧ AwaitAt f0 r wr0 P x.1 x.2.1 ∧ Pend f0 pre x.1.await100 x.2.2) ∨
  (SendC f0 r wr0 P x.1 x.2.1 ∧ Pend f0 pre x.1.await100 x.2.2) ∨
  (x.1.st = .recvResponse ∧ x.1.holder = .recvResponse ∧ x.1.await100 = true ∧ f0.await100 = true ∧ x.2.2 = {} ∧
     x.1.closeReasons.Nodup ∧ x.1.call.req = r ∧ SendSpec r wr0 P x.2.1.wire ∧ x.2.1.off = P.length) ∨
  (SendSpec r wr0 P x.2.1.wire ∧ x.2.1.off = P.length ∧
     ∃ (f1 : Flow) (o' : RecvObs), RecvSetup hack H b0 f1 ∧ x.2.2 = o'.shift pre.length ∧ RecvInv H b0 tail f1 x.1 o')

theorem flow_step_await (hack : Bool) (f : Flow) (op : Op) (h : f.st = .await100) :
    f.step hack op = stepAwait100 f op := by unfold Flow.step; simp [h]

theorem shift_zero (o : RecvObs) : o.shift 0 = o := by cases o; rfl

/-- before anything was received: pending iff the request carries `Expect` -/
theorem pend_init (hack : Bool) (f0 : Flow) (r : AReq) (wr0 : BodyWriter) (P : Bytes) (I H : Head) (b0 : BPos) (pre : Bytes)
    (X : XSetup hack f0 r wr0 P I H b0 pre) : Pend f0 pre f0.await100 {} := by
  rcases X.hpre with ⟨h1, _⟩ | ⟨h1, h2⟩
  · exact Or.inl ⟨h1, h1, rfl⟩
  · refine Or.inr ⟨h1, ?_⟩
    rw [h2]; exact (shift_zero _).symm

/-- from a finished send side (state `RecvResponse`) into the receive invariant -/
theorem x_enter_recv (hack : Bool) (f0 : Flow) (r : AReq) (wr0 : BodyWriter) (P : Bytes) (I H : Head) (b0 : BPos) (tail pre : Bytes)
    (X : XSetup hack f0 r wr0 P I H b0 pre) (htail : b0.isClose = true → tail = []) (f : Flow) (so : SendObs) (o : RecvObs)
    (hD : SendD f0 r wr0 P f so) (hp : Pend f0 pre f.await100 o) : XInv hack f0 r wr0 P H b0 tail pre (f, so, o) := by
  obtain ⟨hst, hh, hcr, hreq, hspec, hoff⟩ := hD
  rcases hp with ⟨h1, h2, h3⟩ | ⟨h1, h2⟩
  · exact Or.inr (Or.inr (Or.inr (Or.inl ⟨hst, hh, h1, h2, h3, by rw [hcr]; exact X.hnd, hreq, hspec, hoff⟩)))
  · refine Or.inr (Or.inr (Or.inr (Or.inr ⟨hspec, hoff, f, {}, ⟨?_, hst, hh, by rw [hcr]; exact X.hnd⟩, h2, ⟨htail, rfl, Or.inl ⟨rfl, rfl⟩⟩⟩)))
    rw [hreq]; exact X.resp

theorem x_step_inv (hack : Bool) (f0 : Flow) (r : AReq) (wr0 : BodyWriter) (P : Bytes) (I H : Head) (b0 : BPos) (tail pre : Bytes)
    (X : XSetup hack f0 r wr0 P I H b0 pre) (htail : b0.isClose = true → tail = []) (x : Flow × SendObs × RecvObs) (s : IoStep)
    (h : XInv hack f0 r wr0 P H b0 tail pre x) (hsw : H.safeWin hack s.m) :
    XInv hack f0 r wr0 P H b0 tail pre (xStep hack P (pre ++ (H.enc ++ b0.enc ++ tail)) x s) := by
  obtain ⟨f, so, o⟩ := x
  rcases h with ⟨hAB, ho⟩ | ⟨hst, h0, hA, hp⟩ | ⟨hC, hp⟩ | ⟨hst, hh, haw, h0, ho, hnd, hreq, hspec, hoff⟩ | ⟨hw, hoff, f1, o', S, hsh, hri⟩
  · -- Prepare / SendRequest
    dsimp only at hAB ho
    have hst : f.st = .prepare ∨ f.st = .sendRequest := by
      rcases hAB with hA | hB
      · left; rw [hA.1]; exact X.send.hst
      · right; exact hB.1
    have hx : xStep hack P (pre ++ (H.enc ++ b0.enc ++ tail)) (f, so, o) s =
        ((sendStep hack P (f, so) s).1, (sendStep hack P (f, so) s).2, o) := by
      unfold xStep; rcases hst with e | e <;> simp [e]
    rw [hx]
    have hpi := pend_init hack f0 r wr0 P I H b0 pre X
    rcases hAB with hA | hB
    · exact Or.inl ⟨Or.inr (send_step_A hack f0 r wr0 P X.send f so s hA), ho⟩
    · rcases send_step_B hack f0 r wr0 P X.send f so s hB with hB | ⟨hC, hf, hf0⟩ | ⟨hD, hf⟩ | ⟨h1, h2, h3, h4⟩
      · exact Or.inl ⟨Or.inr hB.1, ho⟩
      · refine Or.inr (Or.inr (Or.inl ⟨hC, ?_⟩))
        show Pend f0 pre (sendStep hack P (f, so) s).1.await100 o
        rw [hf, ho, ← hf0]; exact hpi
      · apply x_enter_recv hack f0 r wr0 P I H b0 tail pre X htail _ _ _ hD
        rw [hf, ho]; exact hpi
      · refine Or.inr (Or.inl ⟨h1, h3, h4, ?_⟩)
        show Pend f0 pre (sendStep hack P (f, so) s).1.await100 o
        rw [h2, ho, ← h3]; exact hpi
  · -- Await100
    dsimp only at hst h0 hA hp
    have hpreI : pre = I.enc := by
      rcases X.hpre with ⟨_, h⟩ | ⟨h, _⟩
      · exact h
      · rw [h0] at h; cases h
    unfold xStep
    simp only [hst]
    by_cases hgo : (!f.await100 || s.giveUp) = true
    · simp only [hgo, if_true]
      rw [flow_step_await hack f _ hst]
      have hpr : stepAwait100 f .proceed = enterSendBody f := by
        unfold stepAwait100; simp [hA.2.1]
      rw [hpr]
      obtain ⟨he, hinv⟩ := enter_body_inv f0 r wr0 P f so hA
      rw [he]
      exact Or.inr (Or.inr (Or.inl ⟨hinv, hp⟩))
    · simp only [hgo, Bool.false_eq_true, if_false]
      have hawt : f.await100 = true := by
        cases hq : f.await100 <;> simp [hq] at hgo ⊢
      have ho : o = {} := by
        rcases hp with ⟨_, _, h⟩ | ⟨h, _⟩
        · exact h
        · rw [hawt] at h; cases h
      rw [flow_step_await hack f _ hst, ho]
      have hwin : ((pre ++ (H.enc ++ b0.enc ++ tail)).drop ({} : RecvObs).consumed).take s.m =
          (I.enc ++ (H.enc ++ b0.enc ++ tail)).take s.m := by
        show ((pre ++ (H.enc ++ b0.enc ++ tail)).drop 0).take s.m = _
        rw [List.drop_zero, hpreI]
      rw [hwin]
      by_cases hm : s.m < I.enc.length
      · rw [List.take_append_of_le_length (by omega), C11_undecided_bare f I X.int.hw X.int.hf s.m hm]
        dsimp only
        refine Or.inr (Or.inl ⟨hst, h0, hA, Or.inl ⟨hawt, h0, ?_⟩⟩)
        show ({ ({} : RecvObs) with consumed := ({} : RecvObs).consumed + 0 } : RecvObs) = {}
        rfl
      · rw [List.take_append, List.take_of_length_le (by omega),
          C11_continue f I X.int.hw X.int.hf X.int.hc hA.2.1]
        dsimp only
        refine Or.inr (Or.inl ⟨hst, h0, hA, Or.inr ⟨rfl, ?_⟩⟩)
        show ({ ({} : RecvObs) with consumed := ({} : RecvObs).consumed + I.enc.length } : RecvObs) = ({} : RecvObs).shift pre.length
        rw [hpreI]; simp [RecvObs.shift]
  · -- SendBody
    dsimp only at hC hp
    have hx : xStep hack P (pre ++ (H.enc ++ b0.enc ++ tail)) (f, so, o) s =
        ((sendStep hack P (f, so) s).1, (sendStep hack P (f, so) s).2, o) := by
      unfold xStep; simp [hC.1]
    rw [hx]
    obtain ⟨hcase, haw⟩ := send_step_C hack f0 r wr0 P f so s hC
    rcases hcase with hC' | hD'
    · refine Or.inr (Or.inr (Or.inl ⟨hC'.1, ?_⟩))
      show Pend f0 pre (sendStep hack P (f, so) s).1.await100 o
      rw [haw]; exact hp
    · apply x_enter_recv hack f0 r wr0 P I H b0 tail pre X htail _ _ _ hD'
      rw [haw]; exact hp
  · -- RecvResponse with the interim 100 still to come
    dsimp only at hst hh haw h0 ho hnd hreq hspec hoff
    have hpreI : pre = I.enc := by
      rcases X.hpre with ⟨_, h⟩ | ⟨h, _⟩
      · exact h
      · rw [h0] at h; cases h
    have hx : xStep hack P (pre ++ (H.enc ++ b0.enc ++ tail)) (f, so, o) s =
        ((recvStep hack (pre ++ (H.enc ++ b0.enc ++ tail)) (f, o) s).1, so, (recvStep hack (pre ++ (H.enc ++ b0.enc ++ tail)) (f, o) s).2) := by
      unfold xStep; simp [hst]
    rw [hx, ho]
    unfold recvStep
    simp only [hst]
    rw [flow_step_resp hack f _ hst]
    have hwin : ((pre ++ (H.enc ++ b0.enc ++ tail)).drop ({} : RecvObs).consumed).take s.m =
        (I.enc ++ (H.enc ++ b0.enc ++ tail)).take s.m := by
      show ((pre ++ (H.enc ++ b0.enc ++ tail)).drop 0).take s.m = _
      rw [List.drop_zero, hpreI]
    rw [hwin]
    by_cases hm : s.m < I.enc.length
    · rw [List.take_append_of_le_length (by omega)]
      have hI : stepRecvResponse hack f (.resp (I.enc.take s.m)) = (f, .resp 0 none) := by
        have hcall : callTryResponse hack f.call (I.enc.take s.m) = (f.call, .ok none) := by
          have hn : I.namesShort := by intro g hg; rw [X.int.hf] at hg; cases hg
          cases hack with
          | false => exact C05_call_prefix_nohack f.call I X.int.hw (by rw [X.int.hf]; simp) s.m hm
          | true =>
            have h3 : ¬ (300 ≤ I.codeVal ∧ I.codeVal ≤ 399) := by rw [X.int.hc]; omega
            exact C05_call_prefix_partial f.call I X.int.hw (by rw [X.int.hf]; simp) (by rw [X.int.hc]; omega) hn (Or.inl h3) s.m hm
        unfold stepRecvResponse
        simp [hh, hcall]
        cases f; simp_all
      rw [hI]
      dsimp only
      exact Or.inr (Or.inr (Or.inr (Or.inl ⟨hst, hh, haw, h0, rfl, hnd, hreq, hspec, hoff⟩)))
    · rw [List.take_append, List.take_of_length_le (by omega),
        C11_late hack f hh haw I X.int.hw X.int.hf X.int.hc]
      dsimp only
      refine Or.inr (Or.inr (Or.inr (Or.inr ⟨hspec, hoff, { f with await100 := false }, {}, ⟨?_, hst, hh, hnd⟩, ?_, ⟨htail, rfl, Or.inl ⟨rfl, rfl⟩⟩⟩)))
      · show RespOk hack H b0 f.call.req.method
        rw [hreq]; exact X.resp
      · show ({ ({} : RecvObs) with consumed := ({} : RecvObs).consumed + I.enc.length } : RecvObs) = ({} : RecvObs).shift pre.length
        rw [hpreI]; simp [RecvObs.shift]
  · -- the receive side proper
    dsimp only at hw hoff hsh hri
    have hstates : f.st = .recvResponse ∨ f.st = .recvBody ∨ f.st = .redirect ∨ f.st = .cleanup := by
      obtain ⟨_, _, hA | hB | hC⟩ := hri
      · left; rw [hA.1]; exact S.hst
      · obtain ⟨b, _, hst, _⟩ := hB; right; left; exact hst
      · right; right; rw [hC.1]; unfold terminalSt; split <;> simp
    have hx : xStep hack P (pre ++ (H.enc ++ b0.enc ++ tail)) (f, so, o) s =
        ((recvStep hack (pre ++ (H.enc ++ b0.enc ++ tail)) (f, o) s).1, so, (recvStep hack (pre ++ (H.enc ++ b0.enc ++ tail)) (f, o) s).2) := by
      unfold xStep
      rcases hstates with e | e | e | e <;> simp [e]
      · rw [recvStep_done hack _ (f, o) s (by simp [recvDone, e])]; exact ⟨rfl, rfl⟩
      · rw [recvStep_done hack _ (f, o) s (by simp [recvDone, e])]; exact ⟨rfl, rfl⟩
    rw [hx, hsh, recvStep_shift]
    exact Or.inr (Or.inr (Or.inr (Or.inr ⟨hw, hoff, f1, _, S, rfl, recv_step_inv hack H b0 tail f1 S f o' s hri hsw⟩)))

theorem x_run_inv (hack : Bool) (f0 : Flow) (r : AReq) (wr0 : BodyWriter) (P : Bytes) (I H : Head) (b0 : BPos) (tail pre : Bytes)
    (X : XSetup hack f0 r wr0 P I H b0 pre) (htail : b0.isClose = true → tail = []) (σ : List IoStep)
    (hσ : ∀ s ∈ σ, H.safeWin hack s.m) :
    XInv hack f0 r wr0 P H b0 tail pre (xRun hack P (pre ++ (H.enc ++ b0.enc ++ tail)) f0 σ) := by
  unfold xRun
  have gen : ∀ (σ : List IoStep), (∀ s ∈ σ, H.safeWin hack s.m) → ∀ (x : Flow × SendObs × RecvObs), XInv hack f0 r wr0 P H b0 tail pre x →
      XInv hack f0 r wr0 P H b0 tail pre (σ.foldl (xStep hack P (pre ++ (H.enc ++ b0.enc ++ tail))) x) := by
    intro σ
    induction σ with
    | nil => intro _ x hx; exact hx
    | cons s rest ih =>
      intro hσ x hx
      rw [List.foldl_cons]
      exact ih (fun t ht => hσ t (by simp [ht])) _ (x_step_inv hack f0 r wr0 P I H b0 tail pre X htail x s hx (hσ s (by simp)))
  exact gen σ hσ _ (Or.inl ⟨Or.inl ⟨rfl, rfl⟩, rfl⟩)

theorem take_flatten_prefix (l : List Bytes) (k : Nat) : (l.take k).flatten <+: l.flatten := by
  refine ⟨(l.drop k).flatten, ?_⟩
  rw [← List.flatten_append, List.take_append_drop]

theorem sendSpec_head (r : AReq) (wr0 : BodyWriter) (P w : Bytes) (h : SendSpec r wr0 P w) : ∃ bw, w = renderHead r ++ bw := by
  unfold SendSpec at h
  split at h
  · exact ⟨[], by rw [h]; simp⟩
  · exact ⟨P, h⟩
  · obtain ⟨cs, _, h, _⟩ := h; exact ⟨_, h⟩

/-- at every point of the send side the wire holds a prefix of the head, or the whole head and then body bytes -/
theorem sendB_wire (f0 : Flow) (r : AReq) (wr0 : BodyWriter) (hne : r.headers ≠ []) (f : Flow) (o : SendObs)
    (h : SendB f0 r wr0 f o) : o.wire <+: renderHead r ∧ o.off = 0 := by
  obtain ⟨_, _, _, _, _, hoff, hat⟩ := h
  refine ⟨?_, hoff⟩
  rw [hat.2.2.2.2.2.2.2, ← headUnits_flatten r hne]; exact take_flatten_prefix _ _

theorem sendC_wire (f0 : Flow) (r : AReq) (wr0 : BodyWriter) (P : Bytes) (f : Flow) (o : SendObs)
    (h : SendC f0 r wr0 P f o) : (∃ bw, o.wire = renderHead r ++ bw) ∧ o.off ≤ P.length := by
  obtain ⟨_, _, _, _, _, _, _, _, bw, hw, hb⟩ := h
  refine ⟨⟨bw, hw⟩, ?_⟩
  unfold BodyAt at hb
  split at hb
  · exact hb.elim
  · obtain ⟨_, _, _, _, h, _⟩ := hb; exact h
  · omega

/-- a fresh flow for a method without body, whose request passes `analyze_request`, is a valid start -/
theorem sendSetup_of_new (m : Method) (v : Version) (u : Uri) (orig : List Hdr) (hnb : m.needBody = false)
    (han : (Flow.new m v u orig).call.analyzeRequest.2 = .ok ()) :
    SendSetup (Flow.new m v u orig) (Flow.new m v u orig).call.analyzeRequest.1.req BodyWriter.newNone [] := by
  have hspec := analyzeRequest_spec (Flow.new m v u orig).call (Or.inr (by simp [Flow.new, MAX_EXTRA]))
  obtain ⟨_, hph, _, _, _, _, _, hok, hne, _, _, _, hwr⟩ := hspec
  have hw0 : (Flow.new m v u orig).call.writer = BodyWriter.newNone := by simp [Flow.new, hnb]
  refine ⟨rfl, han, rfl, (hok han).1, ?_, by simp [Flow.new], ?_, hne han (by simp [Flow.new]), ?_⟩
  · rw [hph]; simp [Flow.new]
  · exact hwr (by simp [Flow.new]) (by simp [Flow.new, hnb]) hw0
  · exact Or.inl ⟨by simp [Flow.new, hnb], by simp [Flow.new, hnb], rfl, rfl⟩

/-- a fresh flow for a method with body (with or without `Expect`), whose request analyses to chunked framing or to a
    `Content-Length` equal to the payload length, is a valid start -/
theorem sendSetup_of_new_body (m : Method) (v : Version) (u : Uri) (orig : List Hdr) (P : Bytes) (wr0 : BodyWriter)
    (hnb : m.needBody = true)
    (han : (Flow.new m v u orig).call.analyzeRequest.2 = .ok ())
    (hwr : (Flow.new m v u orig).call.analyzeRequest.1.writer = wr0)
    (hk : wr0 = BodyWriter.newChunked ∨ wr0 = BodyWriter.newSized P.length) :
    SendSetup (Flow.new m v u orig) (Flow.new m v u orig).call.analyzeRequest.1.req wr0 P := by
  have hspec := analyzeRequest_spec (Flow.new m v u orig).call (Or.inr (by simp [Flow.new, MAX_EXTRA]))
  obtain ⟨_, hph, _, _, _, _, _, hok, hne, _, _, _, _⟩ := hspec
  refine ⟨rfl, han, rfl, (hok han).1, ?_, by simp [Flow.new], hwr, hne han (by simp [Flow.new]), ?_⟩
  · rw [hph]; simp [Flow.new]
  · exact Or.inr ⟨by simp [Flow.new, hnb], by simp [Flow.new, hnb], hk⟩


/-! ## No schedule can wedge the exchange -/

/-- a step that lets every call make progress: everything the server will send has arrived, the buffer
    holds the longest head line and the smallest chunk (6 bytes) -/
def IoStep.full (r : AReq) (T : Nat) (s : IoStep) : Prop :=
  T ≤ s.m ∧ 6 ≤ s.cap ∧ ∀ u ∈ headUnits r, u.length ≤ s.cap

/-- work left: head lines, payload bytes, server bytes, plus the state changes in between -/
def xMeasure (r : AReq) (P : Bytes) (T : Nat) (x : Flow × SendObs × RecvObs) : Nat :=
  match x.1.st with
  | .prepare => (headUnits r).length + P.length + 6 + (T + 2)
  | .sendRequest => ((headUnits r).length - headPos x.1.call.analyzeRequest.1) + P.length + 5 + (T + 2)
  | .await100 => (if x.1.await100 then 1 else 0) + P.length + 3 + (T + 2)
  | .sendBody => (P.length - x.2.1.off) + 2 + (T + 2)
  | .recvResponse => 1 + (T - x.2.2.consumed)
  | .recvBody => T - x.2.2.consumed
  | _ => 0

theorem headAt_pos (r : AReq) (wr0 : BodyWriter) (c : CallSt) (w : Bytes) (h : HeadAt r wr0 c w) :
    headPos c.analyzeRequest.1 < (headUnits r).length := by
  obtain ⟨_, h2, _, h4, h5, _⟩ := h
  have hul : (headUnits r).length = r.headers.length + 1 := by simp [headUnits, headerUnits_length]
  unfold headPos
  rw [h2]
  cases hq : c.analyzeRequest.1.phase <;> simp [hq, Phase.isPrelude, validPhase, phasePos] at h5 h4 ⊢ <;> omega

theorem pend_consumed (f0 : Flow) (pre : Bytes) (aw : Bool) (o : RecvObs) (h : Pend f0 pre aw o) : o.consumed ≤ pre.length := by
  rcases h with ⟨_, _, rfl⟩ | ⟨_, rfl⟩
  · exact Nat.zero_le _
  · simp [RecvObs.shift]

theorem recvMeasure_resp (t : Nat) (f : Flow) (o : RecvObs) (h : f.st = .recvResponse) :
    recvMeasure t (f, o) = 1 + (t - o.consumed) := by simp [recvMeasure, h]

theorem recvMeasure_body (t : Nat) (f : Flow) (o : RecvObs) (h : f.st = .recvBody) :
    recvMeasure t (f, o) = t - o.consumed := by simp [recvMeasure, h]

theorem xm_resp (r : AReq) (P : Bytes) (T : Nat) (f : Flow) (so : SendObs) (o : RecvObs) (h : f.st = .recvResponse) :
    xMeasure r P T (f, so, o) = 1 + (T - o.consumed) := by simp [xMeasure, h]

theorem xm_body (r : AReq) (P : Bytes) (T : Nat) (f : Flow) (so : SendObs) (o : RecvObs) (h : f.st = .recvBody) :
    xMeasure r P T (f, so, o) = T - o.consumed := by simp [xMeasure, h]

/-- a full step from any reachable state completes the exchange or strictly reduces the work left -/
theorem x_step_progress (hack : Bool) (f0 : Flow) (r : AReq) (wr0 : BodyWriter) (P : Bytes) (I H : Head) (b0 : BPos) (tail pre : Bytes)
    (X : XSetup hack f0 r wr0 P I H b0 pre) (htail : b0.isClose = true → tail = []) (x : Flow × SendObs × RecvObs) (s : IoStep)
    (h : XInv hack f0 r wr0 P H b0 tail pre x)
    (hfull : s.full r (pre.length + (H.enc.length + b0.enc.length))) :
    recvDone (xStep hack P (pre ++ (H.enc ++ b0.enc ++ tail)) x s).1 = true ∨
    xMeasure r P (pre.length + (H.enc.length + b0.enc.length)) (xStep hack P (pre ++ (H.enc ++ b0.enc ++ tail)) x s) <
      xMeasure r P (pre.length + (H.enc.length + b0.enc.length)) x := by
  obtain ⟨hm, hcap, hbig⟩ := hfull
  obtain ⟨f, so, o⟩ := x
  have hIpos : 0 < I.enc.length := by
    simp [Head.enc, Head.statusLine]
  rcases h with ⟨hAB, ho⟩ | ⟨hst, h0, hA, hp⟩ | ⟨hC, hp⟩ | ⟨hst, hh, haw, h0, ho, hnd, hreq, hspec, hoff⟩ | ⟨hw, hoff, f1, o', S, hsh, hri⟩
  · -- Prepare / SendRequest
    dsimp only at hAB ho
    have hst : f.st = .prepare ∨ f.st = .sendRequest := by
      rcases hAB with hA | hB
      · left; rw [hA.1]; exact X.send.hst
      · right; exact hB.1
    have hx : xStep hack P (pre ++ (H.enc ++ b0.enc ++ tail)) (f, so, o) s =
        ((sendStep hack P (f, so) s).1, (sendStep hack P (f, so) s).2, o) := by
      unfold xStep; rcases hst with e | e <;> simp [e]
    rw [hx]
    right
    rcases hAB with hA | hB
    · have hB' := send_step_A hack f0 r wr0 P X.send f so s hA
      have hfst : f.st = .prepare := by rw [hA.1]; exact X.send.hst
      unfold xMeasure
      simp only [hB'.1, hfst]
      omega
    · have hposB := headAt_pos r wr0 f.call so.wire hB.2.2.2.2.2.2
      rcases send_step_B hack f0 r wr0 P X.send f so s hB with ⟨hB', hlt⟩ | ⟨hC, _, _⟩ | ⟨hD, _⟩ | ⟨h1, _, _, _⟩
      · have hpos' := headAt_pos r wr0 _ _ hB'.2.2.2.2.2.2
        have := hlt hbig
        unfold xMeasure
        simp only [hB'.1, hB.1]
        omega
      · unfold xMeasure
        simp only [hC.1, hB.1]
        omega
      · unfold xMeasure
        simp only [hD.1, hB.1]
        omega
      · unfold xMeasure
        simp only [h1, hB.1]
        split <;> omega
  · -- Await100
    dsimp only at hst h0 hA hp
    have hpreI : pre = I.enc := by
      rcases X.hpre with ⟨_, h⟩ | ⟨h, _⟩
      · exact h
      · rw [h0] at h; cases h
    right
    unfold xStep
    simp only [hst]
    by_cases hgo : (!f.await100 || s.giveUp) = true
    · simp only [hgo, if_true]
      rw [flow_step_await hack f _ hst]
      have hpr : stepAwait100 f .proceed = enterSendBody f := by
        unfold stepAwait100; simp [hA.2.1]
      rw [hpr]
      obtain ⟨he, hinv⟩ := enter_body_inv f0 r wr0 P f so hA
      rw [he]
      unfold xMeasure
      simp only [hst]
      have hoff0 : so.off = 0 := hA.2.2.2.2.2.2.2.2.2
      show (P.length - so.off) + 2 + _ < _
      split <;> omega
    · simp only [hgo, Bool.false_eq_true, if_false]
      have hawt : f.await100 = true := by
        cases hq : f.await100 <;> simp [hq] at hgo ⊢
      have ho : o = {} := by
        rcases hp with ⟨_, _, h⟩ | ⟨h, _⟩
        · exact h
        · rw [hawt] at h; cases h
      rw [flow_step_await hack f _ hst, ho]
      have hwin : ((pre ++ (H.enc ++ b0.enc ++ tail)).drop ({} : RecvObs).consumed).take s.m =
          (I.enc ++ (H.enc ++ b0.enc ++ tail)).take s.m := by
        show ((pre ++ (H.enc ++ b0.enc ++ tail)).drop 0).take s.m = _
        rw [List.drop_zero, hpreI]
      have hmI : I.enc.length ≤ s.m := by rw [hpreI] at hm; omega
      rw [hwin, List.take_append, List.take_of_length_le hmI,
        C11_continue f I X.int.hw X.int.hf X.int.hc hA.2.1]
      dsimp only
      unfold xMeasure
      simp only [hst, hawt, if_true]
      simp
  · -- SendBody
    dsimp only at hC hp
    have hx : xStep hack P (pre ++ (H.enc ++ b0.enc ++ tail)) (f, so, o) s =
        ((sendStep hack P (f, so) s).1, (sendStep hack P (f, so) s).2, o) := by
      unfold xStep; simp [hC.1]
    rw [hx]
    right
    obtain ⟨hcase, _⟩ := send_step_C hack f0 r wr0 P f so s hC
    rcases hcase with ⟨hC', hlt⟩ | hD'
    · have hle := (sendC_wire f0 r wr0 P _ _ hC').2
      have := hlt hcap
      unfold xMeasure
      simp only [hC'.1, hC.1]
      omega
    · unfold xMeasure
      simp only [hD'.1, hC.1]
      omega
  · -- RecvResponse with the interim 100 still to come
    dsimp only at hst hh haw h0 ho hnd hreq hspec hoff
    have hpreI : pre = I.enc := by
      rcases X.hpre with ⟨_, h⟩ | ⟨h, _⟩
      · exact h
      · rw [h0] at h; cases h
    right
    have hx : xStep hack P (pre ++ (H.enc ++ b0.enc ++ tail)) (f, so, o) s =
        ((recvStep hack (pre ++ (H.enc ++ b0.enc ++ tail)) (f, o) s).1, so, (recvStep hack (pre ++ (H.enc ++ b0.enc ++ tail)) (f, o) s).2) := by
      unfold xStep; simp [hst]
    rw [hx, ho]
    unfold recvStep
    simp only [hst]
    rw [flow_step_resp hack f _ hst]
    have hwin : ((pre ++ (H.enc ++ b0.enc ++ tail)).drop ({} : RecvObs).consumed).take s.m =
        (I.enc ++ (H.enc ++ b0.enc ++ tail)).take s.m := by
      show ((pre ++ (H.enc ++ b0.enc ++ tail)).drop 0).take s.m = _
      rw [List.drop_zero, hpreI]
    have hmI : I.enc.length ≤ s.m := by rw [hpreI] at hm; omega
    rw [hwin, List.take_append, List.take_of_length_le hmI,
      C11_late hack f hh haw I X.int.hw X.int.hf X.int.hc]
    dsimp only
    unfold xMeasure
    simp only [hst]
    show 1 + (_ - (0 + I.enc.length)) < 1 + (_ - 0)
    rw [hpreI]
    omega
  · -- the receive side proper
    dsimp only at hw hoff hsh hri
    have hstates : f.st = .recvResponse ∨ f.st = .recvBody ∨ f.st = .redirect ∨ f.st = .cleanup := by
      obtain ⟨_, _, hA | hB | hC⟩ := hri
      · left; rw [hA.1]; exact S.hst
      · obtain ⟨b, _, hst, _⟩ := hB; right; left; exact hst
      · right; right; rw [hC.1]; unfold terminalSt; split <;> simp
    have hx : xStep hack P (pre ++ (H.enc ++ b0.enc ++ tail)) (f, so, o) s =
        ((recvStep hack (pre ++ (H.enc ++ b0.enc ++ tail)) (f, o) s).1, so, (recvStep hack (pre ++ (H.enc ++ b0.enc ++ tail)) (f, o) s).2) := by
      unfold xStep
      rcases hstates with e | e | e | e <;> simp [e]
      · rw [recvStep_done hack _ (f, o) s (by simp [recvDone, e])]; exact ⟨rfl, rfl⟩
      · rw [recvStep_done hack _ (f, o) s (by simp [recvDone, e])]; exact ⟨rfl, rfl⟩
    rw [hx, hsh, recvStep_shift]
    rcases recv_step_progress hack H b0 tail f1 S f o' s hri (by omega) (by omega) with hd | hlt
    · exact Or.inl hd
    · have hinv2 := recv_step_inv hack H b0 tail f1 S f o' s hri (H.safeWin_full hack s.m (by omega))
      have hsafe2 := recv_safe_of_inv H b0 tail f1 _ _ S.hst hinv2
      generalize hy : recvStep hack (H.enc ++ b0.enc ++ tail) (f, o') s = y at hlt hinv2 hsafe2 ⊢
      obtain ⟨f2, o2⟩ := y
      dsimp only at hlt hsafe2 ⊢
      by_cases hq' : recvDone f2 = true
      · exact Or.inl hq'
      · have hq : recvDone f2 = false := by simpa using hq'
        right
        have hst2 := (hsafe2.2.2.2.2 hq).1
        have hold : f.st = .recvResponse ∨ f.st = .recvBody := by
          rcases hstates with e | e | e | e
          · exact Or.inl e
          · exact Or.inr e
          · rw [recvStep_done hack _ (f, o') s (by simp [recvDone, e])] at hy
            injection hy with h1 h2; rw [← h1] at hq; simp [recvDone, e] at hq
          · rw [recvStep_done hack _ (f, o') s (by simp [recvDone, e])] at hy
            injection hy with h1 h2; rw [← h1] at hq; simp [recvDone, e] at hq
        rcases hold with e | e <;> rcases hst2 with h2 | h2 <;>
          (simp only [recvMeasure_resp, recvMeasure_body, e, h2, xm_resp, xm_body, RecvObs.shift] at hlt ⊢; omega)

theorem xStep_done (hack : Bool) (P stream : Bytes) (x : Flow × SendObs × RecvObs) (s : IoStep) (h : recvDone x.1 = true) :
    xStep hack P stream x s = x := by
  unfold recvDone at h
  have : x.1.st = .redirect ∨ x.1.st = .cleanup := by simpa using h
  unfold xStep
  rcases this with e | e <;> simp [e]

theorem xFold_done (hack : Bool) (P stream : Bytes) (σ : List IoStep) (x : Flow × SendObs × RecvObs) (h : recvDone x.1 = true) :
    σ.foldl (xStep hack P stream) x = x := by
  induction σ with
  | nil => rfl
  | cons s rest ih => rw [List.foldl_cons, xStep_done hack P stream x s h, ih]

theorem xMeasure_le (r : AReq) (P : Bytes) (T : Nat) (x : Flow × SendObs × RecvObs) :
    xMeasure r P T x ≤ (headUnits r).length + P.length + T + 8 := by
  unfold xMeasure
  split <;> (try split) <;> omega

theorem x_live_aux (hack : Bool) (f0 : Flow) (r : AReq) (wr0 : BodyWriter) (P : Bytes) (I H : Head) (b0 : BPos) (tail pre : Bytes)
    (X : XSetup hack f0 r wr0 P I H b0 pre) (htail : b0.isClose = true → tail = []) :
    ∀ (k : Nat) (x : Flow × SendObs × RecvObs), XInv hack f0 r wr0 P H b0 tail pre x →
      (recvDone x.1 = true ∨ xMeasure r P (pre.length + (H.enc.length + b0.enc.length)) x ≤ k) →
      ∀ σ : List IoStep, (∀ s ∈ σ, s.full r (pre.length + (H.enc.length + b0.enc.length))) → k + 1 ≤ σ.length →
      recvDone (σ.foldl (xStep hack P (pre ++ (H.enc ++ b0.enc ++ tail))) x).1 = true := by
  intro k
  induction k with
  | zero =>
    intro x hx hk σ hfull hlen
    rcases hk with hd | hk
    · rw [xFold_done hack P _ σ x hd]; exact hd
    · cases σ with
      | nil => simp at hlen
      | cons s rest =>
        rw [List.foldl_cons]
        rcases x_step_progress hack f0 r wr0 P I H b0 tail pre X htail x s hx (hfull s (by simp)) with hd | hlt
        · rw [xFold_done hack P _ rest _ hd]; exact hd
        · omega
  | succ k ih =>
    intro x hx hk σ hfull hlen
    rcases hk with hd | hk
    · rw [xFold_done hack P _ σ x hd]; exact hd
    · cases σ with
      | nil => simp at hlen
      | cons s rest =>
        rw [List.foldl_cons]
        have hinv := x_step_inv hack f0 r wr0 P I H b0 tail pre X htail x s hx (H.safeWin_full hack s.m (by have := (hfull s (by simp)).1; omega))
        refine ih _ hinv ?_ rest (fun t ht => hfull t (by simp [ht])) (by simp at hlen; omega)
        rcases x_step_progress hack f0 r wr0 P I H b0 tail pre X htail x s hx (hfull s (by simp)) with hd | hlt
        · exact Or.inl hd
        · right; omega
