import Hoot.Proofs.PropsFlow
set_option linter.unusedSimpArgs false
set_option linter.unusedVariables false

/-! Prototype: C09/C12 — no public operation panics from a well-formed flow, and well-formedness is preserved -/

-- ---------------------------------------------------------------- close-reason list never overflows
theorem closeReason_cases (r : CloseReason) :
    r = .http10 ∨ r = .clientClose ∨ r = .serverClose ∨ r = .not100 ∨ r = .closeDelimited := by
  cases r <;> simp

theorem length_erase_ge (l : List CloseReason) (a : CloseReason) : l.length ≤ (l.erase a).length + 1 := by
  rw [List.length_erase]; split <;> omega

theorem nodup_length_le_5 (l : List CloseReason) (h : l.Nodup) : l.length ≤ 5 := by
  have h1 := h.erase .http10
  have h2 := h1.erase .clientClose
  have h3 := h2.erase .serverClose
  have h4 := h3.erase .not100
  have h5 := h4.erase .closeDelimited
  have hempty : ((((l.erase .http10).erase .clientClose).erase .serverClose).erase .not100).erase .closeDelimited = [] := by
    apply List.eq_nil_iff_forall_not_mem.mpr
    intro x hx
    rw [h4.mem_erase_iff] at hx
    rw [h3.mem_erase_iff] at hx
    rw [h2.mem_erase_iff] at hx
    rw [h1.mem_erase_iff] at hx
    rw [h.mem_erase_iff] at hx
    rcases closeReason_cases x with e | e | e | e | e <;> simp_all
  have a1 := length_erase_ge l .http10
  have a2 := length_erase_ge (l.erase .http10) .clientClose
  have a3 := length_erase_ge ((l.erase .http10).erase .clientClose) .serverClose
  have a4 := length_erase_ge (((l.erase .http10).erase .clientClose).erase .serverClose) .not100
  have a5 := length_erase_ge ((((l.erase .http10).erase .clientClose).erase .serverClose).erase .not100) .closeDelimited
  rw [hempty] at a5
  simp at a5
  omega

theorem pushReason_ok (l : List CloseReason) (r : CloseReason) (h : l.Nodup) :
    (pushReason l r).2 = .ok () ∧ (pushReason l r).1.Nodup := by
  unfold pushReason
  by_cases hc : l.contains r = true
  · have hin : r ∈ l := by simpa using hc
    simp [hin, h]
  · have hnot : r ∉ l := by simpa using hc
    have hnd : (l ++ [r]).Nodup := by
      rw [List.nodup_append]
      refine ⟨h, by simp, ?_⟩
      intro a ha b hb
      simp at hb; subst hb
      intro e; subst e; exact hnot ha
    have hlen := nodup_length_le_5 (l ++ [r]) hnd
    simp at hlen
    have : l.length < 5 := by omega
    simp [hnot, this, hnd]

theorem pushReason_mem (l : List CloseReason) (r : CloseReason) (h : (pushReason l r).2 = .ok ()) :
    r ∈ (pushReason l r).1 := by
  unfold pushReason at h ⊢
  by_cases hin : l.contains r = true
  · simp only [hin, if_true]; simpa using hin
  · simp only [hin] at h ⊢
    by_cases hl : l.length < 5
    · simp [hl]
    · simp [hl] at h

-- ---------------------------------------------------------------- request analysis facts
theorem setHeader_ok (r : AReq) (h : Hdr) (hl : r.added.length < MAX_EXTRA) :
    r.setHeader h = ({ r with added := r.added ++ [h] }, .ok ()) := by
  simp [AReq.setHeader, hl]

theorem headers_ne_nil_of_added (r : AReq) (h : r.added ≠ []) : r.headers ≠ [] := by
  unfold AReq.headers
  intro e
  have := List.append_eq_nil_iff.mp e
  exact h this.1

theorem headers_ne_nil_push (r : AReq) (h : Hdr) : ({ r with added := r.added ++ [h] } : AReq).headers ≠ [] := by
  apply headers_ne_nil_of_added; simp

theorem bodyModeOf_mode (hc : Bool) (cl : Option Nat) (wanted : BodyWriter) (hw : wanted.mode ≠ .none) :
    (bodyModeOf hc cl wanted).mode ≠ .none := by
  unfold bodyModeOf
  cases hc <;> cases cl <;> simp [BodyWriter.newChunked, BodyWriter.newSized, hw]

theorem bodyModeOf_nobody (hc : Bool) (cl : Option Nat) (wanted : BodyWriter)
    (h : (bodyModeOf hc cl wanted).hasBody = false) : bodyModeOf hc cl wanted = wanted := by
  unfold bodyModeOf at h ⊢
  cases hc <;> cases cl <;> simp_all [BodyWriter.newChunked, BodyWriter.newSized, BodyWriter.hasBody]

theorem analyze_ok_facts (r : AReq) (wanted : BodyWriter) (skip : Bool) (info : ReqInfo)
    (h : r.analyze wanted skip = .ok info) :
    ∃ cl, info.bodyMode = bodyModeOf r.hasChunked cl wanted ∧
      (skip = false → r.method.needBody = false → info.bodyMode.hasBody = false) ∧
      (info.reqHostHeader = true → r.headers ≠ []) := by
  simp only [AReq.analyze] at h
  split at h
  · simp at h
  · split at h
    · simp at h
    · split at h
      · simp at h
      · split at h
        · simp at h
        · split at h
          · simp at h
          · rename_i reqHost hhost _ cl _
            split at h
            · simp at h
            · rename_i hforbid
              split at h
              · simp at h
              · simp only [Except.ok.injEq] at h
                subst h
                refine ⟨cl, rfl, ?_, ?_⟩
                · intro hs hn
                  simp [hs, hn] at hforbid
                  simpa using hforbid
                · intro hrh
                  simp only at hrh
                  subst hrh
                  unfold AReq.hostCheck at hhost
                  intro hnil
                  have : r.getAll "host" = [] := by simp [AReq.getAll, hnil]
                  simp [this] at hhost

/-- what `analyze_request` does to a call, in one statement -/
theorem analyzeRequest_spec (c : CallSt) (hcap : c.analyzed = true ∨ c.req.added.length + 2 ≤ MAX_EXTRA) :
    let c' := c.analyzeRequest.1
    let r := c.analyzeRequest.2
    (∀ s, r ≠ .error (.panic s)) ∧
    c'.phase = c.phase ∧ c'.reader = c.reader ∧ c'.skipCheck = c.skipCheck ∧ c'.stopBoundary = c.stopBoundary ∧
    c'.req.method = c.req.method ∧ c'.req.taken = c.req.taken ∧
    (r = .ok () → c'.analyzed = true ∧ (c.analyzed = true ∨ c'.req.added.length ≤ MAX_EXTRA)) ∧
    (r = .ok () → c.analyzed = false → c'.req.headers ≠ []) ∧
    (r ≠ .ok () → c' = c) ∧
    (c.analyzed = true → c' = c ∧ r = .ok ()) ∧
    (c.writer.mode ≠ .none → c'.writer.mode ≠ .none) ∧
    (c.skipCheck = false → c.req.method.needBody = false → c.writer = BodyWriter.newNone → c'.writer = BodyWriter.newNone) := by
  intro c' r
  simp only [c', r]
  unfold CallSt.analyzeRequest
  by_cases ha : c.analyzed = true
  · simp [ha]
  · have hcap' : c.req.added.length + 2 ≤ MAX_EXTRA := by
      rcases hcap with h | h
      · exact absurd h ha
      · exact h
    simp only [ha]
    cases han : c.req.analyze c.writer c.skipCheck with
    | error e => simp
    | ok info =>
      obtain ⟨cl, hbm, hnb, hhostne⟩ := analyze_ok_facts c.req c.writer c.skipCheck info han
      have hmode : c.writer.mode ≠ .none → info.bodyMode.mode ≠ .none := by
        intro hw; rw [hbm]; exact bodyModeOf_mode _ _ _ hw
      have hnone : c.skipCheck = false → c.req.method.needBody = false → c.writer = BodyWriter.newNone →
          info.bodyMode = BodyWriter.newNone := by
        intro h1 h2 h3
        have := hnb h1 h2
        rw [hbm] at this
        rw [hbm, bodyModeOf_nobody _ _ _ this, h3]
      have hc1 : c.req.added.length < MAX_EXTRA := by omega
      simp only []
      cases hh : info.reqHostHeader
      · -- host header is added
        simp only [Bool.not_false, if_true, setHeader_ok c.req _ hc1]
        cases hb : (!info.reqBodyHeader && info.bodyMode.hasBody)
        · simp [MAX_EXTRA] at hcap' ⊢
          exact ⟨by omega, headers_ne_nil_push _ _, hmode, hnone⟩
        · simp only [if_true]
          cases hbh : info.bodyMode.bodyHeader with
          | none => simp [MAX_EXTRA] at hcap' ⊢; exact ⟨by omega, headers_ne_nil_push _ _, hmode, hnone⟩
          | some bh =>
            have hc2 : ({ c.req with added := c.req.added ++ [{ name := "host", value := strBytes c.req.effUri.host }] } : AReq).added.length < MAX_EXTRA := by
              simp; omega
            simp only [setHeader_ok _ _ hc2]
            simp [MAX_EXTRA] at hcap' ⊢
            exact ⟨by omega, headers_ne_nil_of_added _ (by simp), hmode, hnone⟩
      · simp only [Bool.not_true, Bool.false_eq_true, if_false]
        cases hb : (!info.reqBodyHeader && info.bodyMode.hasBody)
        · simp [MAX_EXTRA] at hcap' ⊢
          exact ⟨by omega, hhostne hh, hmode, hnone⟩
        · simp only [if_true]
          cases hbh : info.bodyMode.bodyHeader with
          | none => simp [MAX_EXTRA] at hcap' ⊢; exact ⟨by omega, hhostne hh, hmode, hnone⟩
          | some bh =>
            simp only [setHeader_ok _ _ hc1]
            simp [MAX_EXTRA] at hcap' ⊢
            exact ⟨by omega, headers_ne_nil_push _ _, hmode, hnone⟩

-- ---------------------------------------------------------------- the head writer never panics once a header exists
theorem writeHeaders_frame (hs : List Hdr) (idx last : Nat) (w : W) : True := trivial

theorem writePrelude_spec (c : CallSt) (w : W) (hh : c.req.headers ≠ []) :
    (∀ s, (writePrelude c w).2.2 ≠ .error (.panic s)) ∧
    (writePrelude c w).1.req = c.req ∧ (writePrelude c w).1.analyzed = c.analyzed ∧
    (writePrelude c w).1.writer = c.writer ∧ (writePrelude c w).1.reader = c.reader ∧
    (writePrelude c w).1.skipCheck = c.skipCheck ∧ (writePrelude c w).1.stopBoundary = c.stopBoundary := by
  unfold writePrelude
  have hlen : c.req.headers.length ≠ 0 := by
    intro h; exact hh (List.eq_nil_of_length_eq_zero h)
  cases hp : c.phase <;> simp only [hp] <;> (repeat' split) <;> simp_all

/-- assumption to be discharged by the dechunker totality lemma (C12_bread): from a resting state the
    chunked reader never panics and rests in a resting state -/
def ChunkTotal : Prop :=
  ∀ (d : Dechunker) (src : Bytes) (cap : Nat) (stop : Bool), d ≠ .trailer →
    (readChunkedS (src.length + 2) d src cap stop).1 ≠ .trailer ∧
    (readChunkedS (src.length + 2) d src cap stop).2 ≠ .error .panic

-- ---------------------------------------------------------------- well-formed flows
structure Flow.WF (f : Flow) : Prop where
  holder : holderOk f
  send : sendOk f
  nodup : f.closeReasons.Nodup
  cap : f.call.analyzed = true ∨ f.call.req.added.length + 2 ≤ MAX_EXTRA
  hdrs : f.call.analyzed = true → f.call.req.headers ≠ []
  prep : f.st = .prepare → f.call.analyzed = false ∧ f.call.phase = .sendLine
  ph : f.call.phase ≠ .sendLine → f.call.analyzed = true
  nobody : f.holder = .withoutBody →
    f.call.skipCheck = false ∧ f.call.req.method.needBody = false ∧ f.call.writer = BodyWriter.newNone
  body : f.holder = .withBody → f.call.writer.mode ≠ .none
  sbody : f.st = .sendBody → f.call.phase = .sendBody ∧ f.call.analyzed = true
  await : f.st = .await100 → f.call.analyzed = true ∧ f.call.phase = .sendBody
  rdr : (f.st = .recvBody ∨ f.st = .redirect ∨ f.st = .cleanup) → f.call.reader.isSome = true
  stat : f.call.reader.isSome = true → f.status.isSome = true
  trl : f.call.reader ≠ some (.chunked .trailer)
  aw : f.st = .await100 → f.await100 = true → f.shouldSendBody = true
  post : (f.st = .recvResponse ∨ f.st = .recvBody ∨ f.st = .redirect ∨ f.st = .cleanup) → f.call.analyzed = true

/-- protocol rules beyond the types: the documented header budget, and no `try_read_100` after
    `can_keep_await_100()` turned false -/
def Op.okFor (f : Flow) : Op → Prop
  | .header _ => f.call.req.added.length + 3 ≤ MAX_EXTRA
  | .read100 _ => f.await100 = true
  | _ => True

def isPanic : Res → Bool
  | .fault (.panic _) => true
  | _ => false

theorem Flow.new_wf (m : Method) (v : Version) (u : Uri) (orig : List Hdr) : (Flow.new m v u orig).WF := by
  unfold Flow.new
  constructor <;> simp [holderOk, sendOk, MAX_EXTRA, BodyWriter.newChunked, BodyWriter.newNone]
  · split <;> split <;> simp
  · cases m <;> simp [Method.needBody]

theorem wf_of_eq_fields {f g : Flow} (h : f.WF)
    (h1 : g.st = f.st) (h2 : g.holder = f.holder) (h3 : g.call = f.call) (h4 : g.closeReasons = f.closeReasons)
    (h5 : g.shouldSendBody = f.shouldSendBody) (h6 : g.status = f.status) (h7 : g.await100 = f.await100) : g.WF := by
  obtain ⟨a1, a2, a3, a4, a5, a6, a6', a7, a8, a9, a10, a11, a12, a13, a14, a15⟩ := h
  constructor <;> simp_all [holderOk, sendOk]

theorem canProceed_ok (f : Flow) (hwf : f.WF) : ∃ b, f.canProceed = .ok b := by
  obtain ⟨a1, a2, a3, a4, a5, a6, a6', a7, a8, a9, a10, a11, a12, a13, a14, a15⟩ := hwf
  unfold Flow.canProceed
  cases hst : f.st <;> simp only [holderOk, hst] at a1 a11 ⊢
  · exact ⟨_, rfl⟩
  · rcases a1 with h | h <;> rw [h] <;> exact ⟨_, rfl⟩
  · exact ⟨_, rfl⟩
  · rw [a1]; exact ⟨_, rfl⟩
  · rw [a1]; exact ⟨_, rfl⟩
  · rw [a1]
    cases hr : f.call.reader with
    | none => simp [hr] at a11
    | some rd => exact ⟨_, rfl⟩
  · exact ⟨_, rfl⟩
  · exact ⟨_, rfl⟩

/-! Not finished in scratch: `C09_wf_step : f.WF → op.okFor f → ChunkTotal → ¬ isPanic (f.step hack op).2 ∧ (f.step hack op).1.WF`.
    A monolithic `cases f.st <;> cases op <;> simp_all` over the 152 (state, op) pairs is fine for shallow
    invariants (`C09_holder_step` in PropsFlow.lean: 9 s) but runs into the heartbeat limit with the full `WF`;
    the framework's model therefore splits `Flow.step` into one function per state and proves one short lemma
    per (state, op), using `canProceed_ok`, `analyzeRequest_spec`, `writePrelude_spec`, `pushReason_ok` above. -/
