import Hoot.Model.ReqParse

/-! The same executable twin for the request scanner (see `RespFast.lean`): accumulators grow at the head and
    are reversed once when the method / target / name / value is complete; `parseReq_eq_fast` is the
    kernel-checked equation, registered with `@[csimp]`. -/

def unQP : QPhase → QPhase
  | .method acc => .method acc.reverse
  | .uri m acc => .uri m acc.reverse
  | .name acc => .name acc.reverse
  | .value nm acc => .value nm acc.reverse
  | .valueCR nm acc => .valueCR nm acc.reverse
  | p => p

def unQ (s : QState) : QState := { s with phase := unQP s.phase }

def reqStepF (s : QState) (b : UInt8) : StepR QState QDone HErr :=
  match s.phase with
  | .method acc =>
    if b == 32 then .next { s with phase := .uri acc.reverse [], method := some acc.reverse }
    else if isMethodTok b then .next { s with phase := .method (b :: acc) } else .err .token
  | .uri m acc =>
    if isUriTok b then .next { s with phase := .uri m (b :: acc) }
    else if b == 32 then
      if acc.isEmpty then .err .token else .next { s with phase := .ver 0, path := some acc.reverse }
    else .err .token
  | .name acc =>
    if isNameTok b then .next { s with phase := .name (b :: acc) }
    else if b == 58 then .next { s with phase := .ows acc.reverse } else .err .headerName
  | .value nm acc =>
    if isValueTok b then .next { s with phase := .value nm (b :: acc) }
    else if b == 13 then .next { s with phase := .valueCR nm acc }
    else if b == 10 then qEndField s nm acc.reverse
    else .err .headerValue
  | .valueCR nm acc => if b == 10 then qEndField s nm acc.reverse else .err .headerValue
  | _ => reqStep s b

def mapStepQ (f : QState → QState) : StepR QState QDone HErr → StepR QState QDone HErr
  | .next s => .next (f s)
  | .done r => .done r
  | .err e => .err e

def mapRunQ (f : QState → QState) : RunR QState QDone HErr → RunR QState QDone HErr
  | .more s => .more (f s)
  | .complete r u => .complete r u
  | .error e => .error e

theorem mapStepQ_next (f : QState → QState) (s : QState) : mapStepQ f (.next s) = .next (f s) := rfl
theorem mapStepQ_done (f : QState → QState) (r : QDone) : mapStepQ f (.done r) = .done r := rfl
theorem mapStepQ_err (f : QState → QState) (e : HErr) : mapStepQ f (.err e) = .err e := rfl

theorem reqStep_unQ (s : QState) (b : UInt8) : reqStep (unQ s) b = mapStepQ unQ (reqStepF s b) := by
  obtain ⟨phase, method, path, version, fields, slots⟩ := s
  cases phase <;>
    simp only [unQ, unQP, reqStep, reqStepF, qEndField, qFinish, apply_ite (mapStepQ unQ), mapStepQ_next, mapStepQ_done,
      mapStepQ_err, List.reverse_cons, List.reverse_reverse, List.isEmpty_reverse] <;>
    (try rfl) <;>
    (repeat' split) <;>
    (try rfl) <;>
    simp_all [unQ, unQP, mapStepQ_next, mapStepQ_done, mapStepQ_err, List.reverse_cons]

theorem runFrom_unQ (input : Bytes') : ∀ (s : QState) (k : Nat),
    runFrom reqStep (unQ s) input k = mapRunQ unQ (runFrom reqStepF s input k) := by
  induction input with
  | nil => intro s k; simp [runFrom, mapRunQ]
  | cons b bs ih =>
    intro s k
    simp only [runFrom]
    rw [reqStep_unQ]
    cases h : reqStepF s b with
    | next s' => simp only [mapStepQ]; exact ih s' (k + 1)
    | done r => simp [mapStepQ, mapRunQ]
    | err e => simp [mapStepQ, mapRunQ]

def parseReqFast (slots : Nat) (input : Bytes') : RunR QState QDone HErr :=
  mapRunQ unQ (runFrom reqStepF (reqInit slots) input 0)

@[csimp] theorem parseReq_eq_fast : @parseReq = @parseReqFast := by
  funext slots input
  unfold parseReq parseReqFast
  have h : unQ (reqInit slots) = reqInit slots := by simp [unQ, unQP, reqInit]
  rw [← runFrom_unQ, h]
