/-! Generic byte-at-a-time scanner: prefix-safety is structural. -/
abbrev Bytes' := List UInt8

inductive StepR (σ ρ ε : Type)
  | next (s : σ)
  | done (r : ρ)      -- the byte just read was the last byte of the item
  | err (e : ε)

inductive RunR (σ ρ ε : Type)
  | more (s : σ)                  -- input exhausted
  | complete (r : ρ) (used : Nat) -- used = number of bytes consumed
  | error (e : ε)


variable {σ ρ ε : Type}

def runFrom (step : σ → UInt8 → StepR σ ρ ε) : σ → Bytes' → Nat → RunR σ ρ ε
  | s, [], _ => .more s
  | s, b :: bs, k =>
    match step s b with
    | .next s' => runFrom step s' bs (k + 1)
    | .done r => .complete r (k + 1)
    | .err e => .error e

theorem runFrom_append (step : σ → UInt8 → StepR σ ρ ε) (s : σ) (a b : Bytes') (k : Nat) :
    runFrom step s (a ++ b) k =
      match runFrom step s a k with
      | .more s' => runFrom step s' b (k + a.length)
      | r => r := by
  induction a generalizing s k with
  | nil => simp [runFrom]
  | cons x xs ih =>
    simp only [List.cons_append, runFrom]
    cases h : step s x with
    | next s' => simp only []; rw [ih]; simp [Nat.add_assoc, Nat.add_comm 1]
    | done r => simp
    | err e => simp

theorem complete_used_le (step : σ → UInt8 → StepR σ ρ ε) (s : σ) (a : Bytes') (k : Nat) (r : ρ) (u : Nat)
    (h : runFrom step s a k = .complete r u) : k < u ∧ u ≤ k + a.length := by
  induction a generalizing s k with
  | nil => simp [runFrom] at h
  | cons x xs ih =>
    simp only [runFrom] at h
    cases hs : step s x with
    | next s' => rw [hs] at h; have := ih s' (k+1) h; simp; omega
    | done r' => rw [hs] at h; simp at h; simp; omega
    | err e => rw [hs] at h; simp at h

/-- If the scanner completes exactly at the end of `H`, then every strict prefix is "need more data"
    (never an error, never a result), and any bytes after `H` are left untouched. -/
theorem strict_prefix_partial (step : σ → UInt8 → StepR σ ρ ε) (s : σ) (H : Bytes') (r : ρ)
    (h : runFrom step s H 0 = .complete r H.length) (n : Nat) (hn : n < H.length) :
    ∃ s', runFrom step s (H.take n) 0 = .more s' := by
  have hsplit : H = H.take n ++ H.drop n := (List.take_append_drop n H).symm
  rw [hsplit, runFrom_append] at h
  cases hp : runFrom step s (H.take n) 0 with
  | more s' => exact ⟨s', rfl⟩
  | complete r' u =>
    rw [hp] at h; simp at h
    have := complete_used_le step s (H.take n) 0 r' u hp
    simp at this; omega
  | error e => rw [hp] at h; simp at h

theorem suffix_ignored (step : σ → UInt8 → StepR σ ρ ε) (s : σ) (H rest : Bytes') (r : ρ)
    (h : runFrom step s H 0 = .complete r H.length) :
    runFrom step s (H ++ rest) 0 = .complete r H.length := by
  rw [runFrom_append, h]
