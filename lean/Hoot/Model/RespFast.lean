import Hoot.Model.Resp

/-! An executable twin of the response scanner whose field-name and field-value accumulators grow at the head
    (`b :: acc`, reversed once when the name / value is complete) instead of at the tail (`acc ++ [b]`), so that
    replaying a head costs time linear in its length. `parseResp_eq_fast` proves it equal to `parseResp` for
    every input and is registered with `@[csimp]`: compiled code (the replay driver, the oracles) runs the twin,
    the theorems keep talking about `parseResp`. Nothing here is trusted: the equation is kernel-checked. -/

/-- the scanner state read back: accumulators of the phases in progress are stored reversed -/
def unFP : RPhase → RPhase
  | .name acc => .name acc.reverse
  | .value nm acc => .value nm acc.reverse
  | .valueCR nm acc => .valueCR nm acc.reverse
  | p => p

def unF (s : RState) : RState := { s with phase := unFP s.phase }

def respStepF (s : RState) (b : UInt8) : StepR RState RDone HErr :=
  match s.phase with
  | .name acc =>
    if isNameTok b then .next { s with phase := .name (b :: acc) }
    else if b == 58 then .next { s with phase := .ows acc.reverse } else .err .headerName
  | .value nm acc =>
    if isValueTok b then .next { s with phase := .value nm (b :: acc) }
    else if b == 13 then .next { s with phase := .valueCR nm acc }
    else if b == 10 then endField s nm acc.reverse
    else .err .headerValue
  | .valueCR nm acc => if b == 10 then endField s nm acc.reverse else .err .headerValue
  | _ => respStep s b

def mapStep (f : RState → RState) : StepR RState RDone HErr → StepR RState RDone HErr
  | .next s => .next (f s)
  | .done r => .done r
  | .err e => .err e

def mapRun (f : RState → RState) : RunR RState RDone HErr → RunR RState RDone HErr
  | .more s => .more (f s)
  | .complete r u => .complete r u
  | .error e => .error e




theorem mapStep_next (f : RState → RState) (s : RState) : mapStep f (.next s) = .next (f s) := rfl
theorem mapStep_done (f : RState → RState) (r : RDone) : mapStep f (.done r) = .done r := rfl
theorem mapStep_err (f : RState → RState) (e : HErr) : mapStep f (.err e) = .err e := rfl

/-- one step of the two scanners, related by `unF` -/
theorem respStep_unF (s : RState) (b : UInt8) : respStep (unF s) b = mapStep unF (respStepF s b) := by
  obtain ⟨phase, version, code, fields, slots⟩ := s
  cases phase <;>
    simp only [unF, unFP, respStep, respStepF, endField, finish, apply_ite (mapStep unF), mapStep_next, mapStep_done,
      mapStep_err, List.reverse_cons, List.reverse_reverse] <;>
    (try rfl) <;>
    (repeat' split) <;>
    (try rfl) <;>
    simp_all [unF, unFP, mapStep_next, mapStep_done, mapStep_err, List.reverse_cons]

theorem runFrom_unF (input : Bytes') : ∀ (s : RState) (k : Nat),
    runFrom respStep (unF s) input k = mapRun unF (runFrom respStepF s input k) := by
  induction input with
  | nil => intro s k; simp [runFrom, mapRun]
  | cons b bs ih =>
    intro s k
    simp only [runFrom]
    rw [respStep_unF]
    cases h : respStepF s b with
    | next s' => simp only [mapStep]; exact ih s' (k + 1)
    | done r => simp [mapStep, mapRun]
    | err e => simp [mapStep, mapRun]

def parseRespFast (slots : Nat) (input : Bytes') : RunR RState RDone HErr :=
  mapRun unF (runFrom respStepF (respInit slots) input 0)

@[csimp] theorem parseResp_eq_fast : @parseResp = @parseRespFast := by
  funext slots input
  unfold parseResp parseRespFast
  have h : unF (respInit slots) = respInit slots := by simp [unF, unFP, respInit]
  rw [← runFrom_unF, h]
