import Hoot.Model.Req

/-! # `Flow<SendRequest>::headers_map()` (flow.rs)

The accessor analyses the request exactly as the first `write` would (so the derived `Host` and framing
header are in), then inserts every effective header into a fresh `HeaderMap` — a later header of the same
name replaces an earlier one. The harness prints the map sorted by name; the model builds it in that
order. -/

/-- the last of the headers named `n` -/
def lastNamed (hs : List Hdr) (n : String) : Option Hdr := (hs.filter (·.name == n)).getLast?

/-- one entry per name, the last value, names ascending -/
def headersMapOf (hs : List Hdr) : List Hdr :=
  (((hs.map (·.name)).eraseDups).mergeSort (fun a b => decide (a ≤ b))).filterMap (lastNamed hs)

/-- flow.rs `headers_map`: analysis first, an analysis error is the result -/
def CallSt.headersMap (c : CallSt) : CallSt × Except Fault (List Hdr) :=
  match c.analyzeRequest with
  | (c1, .ok ()) => (c1, .ok (headersMapOf c1.req.headers))
  | (c1, .error f) => (c1, .error f)
