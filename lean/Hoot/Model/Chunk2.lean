import Hoot.Model.Chunk

/-! faithful size-field parse: from_utf8, str::trim, usize::from_str_radix(16); outer read loop -/

/-- decode one UTF-8 scalar from the front; none = invalid -/
def utf8Next : Bytes → Option (Nat × Bytes)
  | [] => none
  | b0 :: r =>
    let x := b0.toNat
    if x < 0x80 then some (x, r)
    else if x < 0xC2 then none
    else if x < 0xE0 then
      match r with
      | b1 :: r1 => if 0x80 ≤ b1.toNat ∧ b1.toNat ≤ 0xBF then some ((x - 0xC0) * 64 + (b1.toNat - 0x80), r1) else none
      | _ => none
    else if x < 0xF0 then
      match r with
      | b1 :: b2 :: r2 =>
        let y := b1.toNat; let z := b2.toNat
        let lo := if x = 0xE0 then 0xA0 else 0x80
        let hi := if x = 0xED then 0x9F else 0xBF
        if lo ≤ y ∧ y ≤ hi ∧ 0x80 ≤ z ∧ z ≤ 0xBF then some ((x - 0xE0) * 4096 + (y - 0x80) * 64 + (z - 0x80), r2) else none
      | _ => none
    else if x < 0xF5 then
      match r with
      | b1 :: b2 :: b3 :: r3 =>
        let y := b1.toNat; let z := b2.toNat; let w := b3.toNat
        let lo := if x = 0xF0 then 0x90 else 0x80
        let hi := if x = 0xF4 then 0x8F else 0xBF
        if lo ≤ y ∧ y ≤ hi ∧ 0x80 ≤ z ∧ z ≤ 0xBF ∧ 0x80 ≤ w ∧ w ≤ 0xBF then
          some ((x - 0xF0) * 262144 + (y - 0x80) * 4096 + (z - 0x80) * 64 + (w - 0x80), r3) else none
      | _ => none
    else none

def utf8Decode : Nat → Bytes → Option (List Nat)
  | _, [] => some []
  | 0, _ => none
  | fuel + 1, bs => match utf8Next bs with
    | none => none
    | some (c, rest) => (utf8Decode fuel rest).map (c :: ·)

/-- Unicode White_Space, as used by `str::trim` -/
def isWhite (c : Nat) : Bool :=
  (9 ≤ c && c ≤ 13) || c == 32 || c == 0x85 || c == 0xA0 || c == 0x1680 || (0x2000 ≤ c && c ≤ 0x200A) ||
  c == 0x2028 || c == 0x2029 || c == 0x202F || c == 0x205F || c == 0x3000

def trimChars (cs : List Nat) : List Nat :=
  ((cs.dropWhile isWhite).reverse.dropWhile isWhite).reverse

def hexValC (c : Nat) : Option Nat :=
  if 48 ≤ c ∧ c ≤ 57 then some (c - 48)
  else if 97 ≤ c ∧ c ≤ 102 then some (c - 87)
  else if 65 ≤ c ∧ c ≤ 70 then some (c - 55)
  else none

def radix16 : List Nat → Nat → Option Nat
  | [], acc => some acc
  | c :: cs, acc => match hexValC c with
    | some v => if acc * 16 + v ≤ USIZE_MAX then radix16 cs (acc * 16 + v) else none
    | none => none

/-- `usize::from_str_radix(s, 16)` on already-trimmed chars -/
def fromStrRadix16 (cs : List Nat) : Option Nat :=
  match cs with
  | [] => none
  | [43] => none | [45] => none
  | 43 :: rest => radix16 rest 0
  | _ => radix16 cs 0

def parseSizeField (b : Bytes) : Except Err Nat :=
  match utf8Decode (b.length + 1) b with
  | none => .error .chunkLenNotAscii
  | some cs => match fromStrRadix16 (trimChars cs) with
    | none => .error .chunkLenNotANumber
    | some n => .ok n

def readSize2 (src : Bytes) : Except Err (Option (Dechunker × Nat)) :=
  match findCrlf src with
  | none => .ok none
  | some i =>
    if i > 20 then .error .chunkExpectedCrLf else
    let metaPos := firstIdx 59 (src.take 100)
    let lenEnd := min (metaPos.getD 21) i
    match parseSizeField (src.take lenEnd) with
    | .error e => .error e
    | .ok len => .ok (some (if len = 0 then .ending else .chunk len, i + 2))

def stepOnce2 (st : Dechunker) (src : Bytes) (cap : Nat) : Except Err (Bool × Dechunker × Nat × Bytes) :=
  match st with
  | .size => do
    match ← readSize2 src with
    | none => pure (false, .size, 0, [])
    | some (st', n) => pure (true, st', n, [])
  | other => stepOnce other src cap

def parseInput2 : Nat → Dechunker → Bytes → Nat → Except Err (Dechunker × Nat × Bytes)
  | 0, _, _, _ => .error .panic
  | fuel + 1, st, src, cap => do
    let (more, st', n, out) ← stepOnce2 st src cap
    if more then
      let (st'', n', out') ← parseInput2 fuel st' (src.drop n) (cap - out.length)
      pure (st'', n + n', out ++ out')
    else pure (st', n, out)

/-- body.rs read_chunked outer loop -/
def readChunked : Nat → Dechunker → Bytes → Nat → Bool → Except Err (Dechunker × Nat × Bytes)
  | 0, _, _, _, _ => .error .panic
  | fuel + 1, st, src, cap, stop => do
    let (st', i, o) ← parseInput2 (2 * src.length + 4) st src cap
    if i == 0 || i == src.length || o.length == cap then pure (st', i, o)
    else if st' == .ended then pure (st', i, o)
    else if stop && st' == .size then pure (st', i, o)
    else
      let (st'', i', o') ← readChunked fuel st' (src.drop i) (cap - o.length) stop
      pure (st'', i + i', o ++ o')

/-- Call::read for a chunked body -/
def callRead (st : Dechunker) (src : Bytes) (cap : Nat) (stop : Bool) : Except Err (Dechunker × Nat × Bytes) :=
  if st == .ended then .ok (st, 0, []) else readChunked (src.length + 2) st src cap stop

/-! state-carrying variants: a Rust `&mut self` method keeps what it mutated before `?` returned -/

def parseInputS : Nat → Dechunker → Bytes → Nat → Dechunker × Except Err (Nat × Bytes)
  | 0, st, _, _ => (st, .error .panic)
  | fuel + 1, st, src, cap =>
    match stepOnce2 st src cap with
    | .error e => (st, .error e)
    | .ok (more, st', n, out) =>
      if more then
        match parseInputS fuel st' (src.drop n) (cap - out.length) with
        | (st'', .ok (n', out')) => (st'', .ok (n + n', out ++ out'))
        | (st'', .error e) => (st'', .error e)
      else (st', .ok (n, out))

def readChunkedS : Nat → Dechunker → Bytes → Nat → Bool → Dechunker × Except Err (Nat × Bytes)
  | 0, st, _, _, _ => (st, .error .panic)
  | fuel + 1, st, src, cap, stop =>
    match parseInputS (2 * src.length + 4) st src cap with
    | (st', .error e) => (st', .error e)
    | (st', .ok (i, o)) =>
      if i == 0 || i == src.length || o.length == cap then (st', .ok (i, o))
      else if st' == .ended then (st', .ok (i, o))
      else if stop && st' == .size then (st', .ok (i, o))
      else
        match readChunkedS fuel st' (src.drop i) (cap - o.length) stop with
        | (st'', .ok (i', o')) => (st'', .ok (i + i', o ++ o'))
        | (st'', .error e) => (st'', .error e)
