import Hoot.Model.Scan

/-! Prototype: httparse 1.9.5 `Response::parse` as a byte-at-a-time scanner -/

inductive HErr | headerName | headerValue | newLine | status | token | tooManyHeaders | version
  deriving DecidableEq, Repr

def isNameTok (b : UInt8) : Bool :=
  (b == 33) || (35 ≤ b && b ≤ 39) || b == 42 || b == 43 || b == 45 || b == 46 ||
  (48 ≤ b && b ≤ 57) || (65 ≤ b && b ≤ 90) || (94 ≤ b && b ≤ 122) || b == 124 || b == 126

def isValueTok (b : UInt8) : Bool := b == 9 || (32 ≤ b && b ≤ 126) || 128 ≤ b

def isReasonTok (b : UInt8) : Bool := b == 9 || b == 32 || (33 ≤ b && b ≤ 126) || 128 ≤ b

def isWs (b : UInt8) : Bool := b == 32 || b == 9

def trimEnd (v : Bytes') : Bytes' := (v.reverse.dropWhile isWs).reverse

inductive RPhase
  | skipEmpty | skipEmptyLF
  | ver (i : Nat)                -- i bytes of "HTTP/1." matched, i ≤ 7
  | verSpace
  | code (i : Nat) (acc : Nat)   -- i digits read
  | afterCode | afterCodeCR
  | reason | reasonCR
  | lineStart | endCR
  | name (acc : Bytes')
  | ows (nm : Bytes')
  | emptyCR (nm : Bytes')
  | value (nm : Bytes') (acc : Bytes')
  | valueCR (nm : Bytes') (acc : Bytes')
  deriving DecidableEq, Repr

structure RState where
  phase : RPhase
  version : Option Nat := none
  code : Option Nat := none
  fields : List (Bytes' × Bytes') := []
  slots : Nat
  deriving DecidableEq, Repr

structure RDone where
  version : Nat
  code : Nat
  fields : List (Bytes' × Bytes')
  deriving DecidableEq, Repr

def verPrefix : Bytes' := [72, 84, 84, 80, 47, 49, 46]  -- "HTTP/1."

def endField (s : RState) (nm v : Bytes') : StepR RState RDone HErr :=
  if s.fields.length < s.slots then
    .next { s with phase := .lineStart, fields := s.fields ++ [(nm, trimEnd v)] }
  else .err .tooManyHeaders

def finish (s : RState) : StepR RState RDone HErr :=
  match s.version, s.code with
  | some v, some c => .done { version := v, code := c, fields := s.fields }
  | _, _ => .err .version  -- unreachable: lineStart is only entered after version and code are set

def respStep (s : RState) (b : UInt8) : StepR RState RDone HErr :=
  match s.phase with
  | .skipEmpty =>
    if b == 13 then .next { s with phase := .skipEmptyLF }
    else if b == 10 then .next s
    else if b == 72 then .next { s with phase := .ver 1 } else .err .version
  | .skipEmptyLF => if b == 10 then .next { s with phase := .skipEmpty } else .err .newLine
  | .ver i =>
    if i < 7 then
      if verPrefix[i]? == some b then .next { s with phase := .ver (i + 1) } else .err .version
    else if b == 48 then .next { s with phase := .verSpace, version := some 0 }
    else if b == 49 then .next { s with phase := .verSpace, version := some 1 }
    else .err .version
  | .verSpace => if b == 32 then .next { s with phase := .code 0 0 } else .err .version
  | .code i acc =>
    if 48 ≤ b && b ≤ 57 then
      let acc' := acc * 10 + (b.toNat - 48)
      if i < 2 then .next { s with phase := .code (i + 1) acc' }
      else .next { s with phase := .afterCode, code := some acc' }
    else .err .status
  | .afterCode =>
    if b == 32 then .next { s with phase := .reason }
    else if b == 13 then .next { s with phase := .afterCodeCR }
    else if b == 10 then .next { s with phase := .lineStart }
    else .err .status
  | .afterCodeCR => if b == 10 then .next { s with phase := .lineStart } else .err .status
  | .reason =>
    if b == 13 then .next { s with phase := .reasonCR }
    else if b == 10 then .next { s with phase := .lineStart }
    else if isReasonTok b then .next s else .err .status
  | .reasonCR => if b == 10 then .next { s with phase := .lineStart } else .err .status
  | .lineStart =>
    if b == 13 then .next { s with phase := .endCR }
    else if b == 10 then finish s
    else if isNameTok b then .next { s with phase := .name [b] } else .err .headerName
  | .endCR => if b == 10 then finish s else .err .newLine
  | .name acc =>
    if isNameTok b then .next { s with phase := .name (acc ++ [b]) }
    else if b == 58 then .next { s with phase := .ows acc } else .err .headerName
  | .ows nm =>
    if isWs b then .next s
    else if isValueTok b then .next { s with phase := .value nm [b] }
    else if b == 13 then .next { s with phase := .emptyCR nm }
    else if b == 10 then endField s nm []
    else .err .headerValue
  | .emptyCR nm => if b == 10 then endField s nm [] else .err .headerValue
  | .value nm acc =>
    if isValueTok b then .next { s with phase := .value nm (acc ++ [b]) }
    else if b == 13 then .next { s with phase := .valueCR nm acc }
    else if b == 10 then endField s nm acc
    else .err .headerValue
  | .valueCR nm acc => if b == 10 then endField s nm acc else .err .headerValue

def respInit (slots : Nat) : RState := { phase := .skipEmpty, slots := slots }

def parseResp (slots : Nat) (input : Bytes') : RunR RState RDone HErr :=
  runFrom respStep (respInit slots) input 0

-- smoke tests (these are tests, labelled as tests)
def str (s : String) : Bytes' := s.toUTF8.toList

