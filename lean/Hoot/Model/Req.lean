import Hoot.Model.Chunk2
import Hoot.Model.Resp

/-! Prototype: request side — AmendedRequest, analyze, body writer, prelude writer (post-repair semantics) -/

inductive Method | get | head | post | put | delete | connect | options | trace | patch
  deriving DecidableEq, Repr

inductive Version | h09 | h10 | h11 | h2 | h3
  deriving DecidableEq, Repr

def Method.text : Method → String
  | .get => "GET" | .head => "HEAD" | .post => "POST" | .put => "PUT" | .delete => "DELETE"
  | .connect => "CONNECT" | .options => "OPTIONS" | .trace => "TRACE" | .patch => "PATCH"

def Version.text : Version → String
  | .h09 => "HTTP/0.9" | .h10 => "HTTP/1.0" | .h11 => "HTTP/1.1" | .h2 => "HTTP/2.0" | .h3 => "HTTP/3.0"

def Method.isHttp10 (m : Method) : Bool := m == .get || m == .head || m == .post
def Method.isHttp11 (m : Method) : Bool :=
  m == .put || m == .delete || m == .connect || m == .options || m == .trace || m == .patch
def Method.needBody (m : Method) : Bool := m == .post || m == .put || m == .patch

inductive ErrKind
  | badHeader | unsupportedVersion | methodVersionMismatch | tooManyHostHeaders | tooManyContentLengthHeaders
  | badHostHeader | badContentLengthHeader | methodForbidsBody | methodRequiresBody | outputOverflow
  | chunkLenNotAscii | chunkLenNotANumber | chunkExpectedCrLf | bodyContentAfterFinish
  | bodyLargerThanContentLength | unfinishedRequest | httpParseFail (e : HErr) | httpParseTooManyHeaders
  | missingResponseVersion | responseMissingStatus | responseInvalidStatus | incompleteResponse
  | noLocationHeader | badLocationHeader | headersWith100 | bodyIsChunked | requestMissingMethod | requestInvalidMethod
  deriving DecidableEq, Repr

inductive Fault | api (e : ErrKind) | panic (site : String)
  deriving DecidableEq, Repr

structure Hdr where
  name : String      -- lower-case, as the `http` crate stores it
  value : Bytes
  deriving DecidableEq, Repr

structure Uri where
  scheme : String
  host : String
  port : Option Nat
  path : String          -- "" or starts with '/'
  query : Option String
  deriving DecidableEq, Repr

def Uri.pathAndQuery (u : Uri) : String :=
  (if u.path.isEmpty then "/" else u.path) ++ (match u.query with | none => "" | some q => "?" ++ q)

def Uri.text (u : Uri) : String :=
  u.scheme ++ "://" ++ u.host ++ (match u.port with | none => "" | some p => ":" ++ toString p) ++ u.pathAndQuery

/-- `HeaderValue::to_str`: only visible ASCII (32..126) and tab -/
def toStr? (v : Bytes) : Option Bytes :=
  if v.all (fun b => (32 ≤ b && b < 127) || b == 9) then some v else none

def parseU64Aux : Bytes → Nat → Option Nat
  | [], acc => some acc
  | c :: cs, acc =>
    if 48 ≤ c ∧ c ≤ 57 then
      let acc' := acc * 10 + (c.toNat - 48)
      if acc' ≤ 18446744073709551615 then parseU64Aux cs acc' else none
    else none

/-- Rust `u64::from_str` -/
def parseU64 (s : Bytes) : Option Nat :=
  match s with
  | [] => none
  | [43] => none | [45] => none
  | 43 :: rest => parseU64Aux rest 0
  | _ => parseU64Aux s 0

def lowerB (b : UInt8) : UInt8 := if 65 ≤ b ∧ b ≤ 90 then b + 32 else b

/-- util.rs compare_lowercase_ascii against an already lower-case ASCII literal -/
def eqLowerAscii (a lit : Bytes) : Bool :=
  a.length == lit.length && (a.zip lit).all (fun (x, y) => x < 128 && lowerB x == y)

def strBytes (s : String) : Bytes := s.toUTF8.toList

inductive SenderMode | none | sized (left : Nat) | chunked
  deriving DecidableEq, Repr

structure BodyWriter where
  mode : SenderMode
  ended : Bool
  deriving DecidableEq, Repr

def BodyWriter.newNone : BodyWriter := { mode := .none, ended := true }
def BodyWriter.newChunked : BodyWriter := { mode := .chunked, ended := false }
def BodyWriter.newSized (n : Nat) : BodyWriter := { mode := .sized n, ended := false }
def BodyWriter.hasBody (w : BodyWriter) : Bool := w.mode != .none
def BodyWriter.isChunked (w : BodyWriter) : Bool := w.mode == .chunked
def BodyWriter.leftToSend (w : BodyWriter) : Option Nat := match w.mode with | .sized n => some n | _ => none

structure AReq where
  method : Method
  version : Version
  uri : Uri
  orig : List Hdr
  uriOverride : Option Uri := none
  added : List Hdr := []
  unset : List String := []
  taken : Bool := false
  deriving DecidableEq, Repr

def AReq.effUri (r : AReq) : Uri := r.uriOverride.getD r.uri

/-- effective headers (after repair D2): caller-added first, then the originals minus the unset names -/
def AReq.headers (r : AReq) : List Hdr :=
  r.added ++ r.orig.filter (fun h => !r.unset.contains h.name)

def AReq.getAll (r : AReq) (key : String) : List Bytes := (r.headers.filter (·.name == key)).map (·.value)

def verifyVersion (m : Method) (v : Version) : Except ErrKind Unit :=
  if v != .h10 && v != .h11 then .error .unsupportedVersion
  else if m.isHttp10 || (v == .h11 && m.isHttp11) then .ok ()
  else .error .methodVersionMismatch

structure ReqInfo where
  bodyMode : BodyWriter
  reqHostHeader : Bool
  reqBodyHeader : Bool

def AReq.hostCheck (r : AReq) : Except ErrKind Bool :=
  match (r.getAll "host").head? with
  | some h => (match toStr? h with | some _ => .ok true | none => .error .badHostHeader)
  | none => .ok false

def AReq.contentLength? (r : AReq) : Except ErrKind (Option Nat) :=
  match (r.getAll "content-length").head? with
  | some h => (match (toStr? h).bind parseU64 with | some n => .ok (some n) | none => .error .badContentLengthHeader)
  | none => .ok none

def AReq.hasChunked (r : AReq) : Bool :=
  (r.getAll "transfer-encoding").any (fun v =>
    match toStr? v with | some s => eqLowerAscii s (strBytes "chunked") | none => false)

/-- chunked "wins", then the caller's content-length, then the constructor's default -/
def bodyModeOf (hasChunked : Bool) (cl : Option Nat) (wanted : BodyWriter) : BodyWriter :=
  if hasChunked then BodyWriter.newChunked
  else match cl with
    | some n => BodyWriter.newSized n
    | none => wanted

/-- amended.rs analyze, written with explicit case analysis and named parts so that it unfolds well -/
def AReq.analyze (r : AReq) (wanted : BodyWriter) (skipCheck : Bool) : Except ErrKind ReqInfo :=
  match verifyVersion r.method r.version with
  | .error e => .error e
  | .ok () =>
    if (r.getAll "host").length > 1 then .error .tooManyHostHeaders
    else if (r.getAll "content-length").length > 1 then .error .tooManyContentLengthHeaders
    else
      match r.hostCheck with
      | .error e => .error e
      | .ok reqHost =>
        match r.contentLength? with
        | .error e => .error e
        | .ok cl =>
          if !skipCheck && !r.method.needBody && (bodyModeOf r.hasChunked cl wanted).hasBody then .error .methodForbidsBody
          else if !skipCheck && r.method.needBody && !(bodyModeOf r.hasChunked cl wanted).hasBody then .error .methodRequiresBody
          else .ok { bodyMode := bodyModeOf r.hasChunked cl wanted, reqHostHeader := reqHost,
                     reqBodyHeader := r.hasChunked || cl.isSome }

inductive Phase | sendLine | sendHeaders (i : Nat) | sendBody | recvResponse | recvBody
  deriving DecidableEq, Repr

def Phase.isPrelude : Phase → Bool | .sendLine => true | .sendHeaders _ => true | _ => false

/-- the `Writer`: output accumulated so far and the capacity of the caller's buffer -/
structure W where
  out : Bytes
  cap : Nat

def W.available (w : W) : Nat := w.cap - w.out.length
/-- `try_write`: all or nothing -/
def W.tryWrite (w : W) (b : Bytes) : W × Bool :=
  if b.length ≤ w.available then ({ w with out := w.out ++ b }, true) else (w, false)

def natDec (n : Nat) : Bytes := strBytes (toString n)

def hexDigitB (n : Nat) : UInt8 := if n < 10 then (48 + n).toUInt8 else (87 + n).toUInt8
def toHexB (n : Nat) : Bytes :=
  if h : n < 16 then [hexDigitB n] else toHexB (n / 16) ++ [hexDigitB (n % 16)]
termination_by n
decreasing_by omega

def hexLenB (n : Nat) : Nat := (toHexB n).length

def fitDownB (avail : Nat) : Nat → Nat
  | 0 => 0
  | fit + 1 => if hexLenB (fit + 1) + 4 + (fit + 1) > avail then fitDownB avail fit else fit + 1

def crlf : Bytes := [13, 10]

/-- repaired `write_chunk` loop; recursion on the remaining input -/
def writeChunks (input : Bytes) (w : W) (maxChunk : Nat) (used : Nat) : W × Nat :=
  let fit := fitDownB w.available (w.available - 5)
  let toWrite := min input.length (min maxChunk fit)
  if h0 : toWrite = 0 then (w, used)
  else
    let (w', ok) := w.tryWrite (toHexB toWrite ++ crlf ++ input.take toWrite ++ crlf)
    if !ok then (w, used)
    else if h : input.length > toWrite then writeChunks (input.drop toWrite) w' maxChunk (used + toWrite)
    else (w', used + toWrite)
termination_by input.length
decreasing_by simp; omega

/-- the last chunk: `0 CRLF CRLF` -/
def termBytes : Bytes := [48, 13, 10, 13, 10]

def BodyWriter.write (bw : BodyWriter) (input : Bytes) (w : W) : BodyWriter × W × Except Fault Nat :=
  match bw.mode with
  | .none => (bw, w, .error (.panic "body.rs write: SenderMode::None"))
  | .sized left =>
    ({ mode := .sized (left - min (min w.available input.length) left),
       ended := bw.ended || left - min (min w.available input.length) left == 0 },
     (w.tryWrite (input.take (min (min w.available input.length) left))).1,
     .ok (min (min w.available input.length) left))
  | .chunked =>
    if input.isEmpty then
      if !bw.ended then
        ({ bw with ended := (w.tryWrite termBytes).2 }, (w.tryWrite termBytes).1, .ok 0)
      else (bw, w, .ok 0)
    else
      (bw, (writeChunks input w 10240 0).1, .ok (writeChunks input w 10240 0).2)

def BodyWriter.bodyHeader (bw : BodyWriter) : Option Hdr :=
  match bw.mode with
  | .none => none
  | .sized n => some { name := "content-length", value := natDec n }
  | .chunked => some { name := "transfer-encoding", value := strBytes "chunked" }

def calcMaxInput (n : Nat) : Nat :=
  (n / 10248) * 10240 + (if n % 10248 ≤ 8 then 0 else n % 10248 - 8)

inductive BodyReader | noBody | len (left : Nat) | chunked (d : Dechunker) | close
  deriving DecidableEq, Repr

structure CallSt where
  req : AReq
  analyzed : Bool := false
  phase : Phase := .sendLine
  writer : BodyWriter
  reader : Option BodyReader := none
  skipCheck : Bool := false
  stopBoundary : Bool := false
  deriving DecidableEq, Repr

def MAX_EXTRA : Nat := 64

def AReq.setHeader (r : AReq) (h : Hdr) : AReq × Except Fault Unit :=
  if r.added.length < MAX_EXTRA then ({ r with added := r.added ++ [h] }, .ok ())
  else (r, .error (.panic "ArrayVec push: headers"))

/-- call.rs analyze_request -/
def CallSt.analyzeRequest (c : CallSt) : CallSt × Except Fault Unit :=
  if c.analyzed then (c, .ok ()) else
  match c.req.analyze c.writer c.skipCheck with
  | .error e => (c, .error (.api e))
  | .ok info =>
    -- Host from the effective URI (the model's URIs always have a host)
    let (req1, r1) := if !info.reqHostHeader then c.req.setHeader { name := "host", value := strBytes c.req.effUri.host }
                      else (c.req, .ok ())
    match r1 with
    | .error f => ({ c with req := req1 }, .error f)
    | .ok () =>
      let (req2, r2) :=
        if !info.reqBodyHeader && info.bodyMode.hasBody then
          match info.bodyMode.bodyHeader with
          | some h => req1.setHeader h
          | none => (req1, .ok ())
        else (req1, .ok ())
      match r2 with
      | .error f => ({ c with req := req2 }, .error f)
      | .ok () => ({ c with req := req2, writer := info.bodyMode, analyzed := true }, .ok ())

def requestLine (r : AReq) : Bytes :=
  strBytes r.method.text ++ (32 :: (strBytes r.effUri.pathAndQuery ++ (32 :: (strBytes r.version.text ++ crlf))))

def headerLine (h : Hdr) (last : Bool) : Bytes :=
  strBytes (h.name ++ ": ") ++ h.value ++ crlf ++ (if last then crlf else [])

/-- do_write_headers: greedy, in order, stop at the first line that does not fit -/
def writeHeaders : List Hdr → Nat → Nat → W → Nat × W
  | [], idx, _, w => (idx, w)
  | h :: hs, idx, lastIdx, w =>
    let (w', ok) := w.tryWrite (headerLine h (idx == lastIdx))
    if ok then writeHeaders hs (idx + 1) lastIdx w' else (idx, w)

/-- try_write_prelude (loop unrolled: at most the request line followed by one header pass) -/
def writePrelude (c : CallSt) (w : W) : CallSt × W × Except Fault Unit :=
  let atStart := w.out.length
  -- part 1: request line
  let (c1, w1, cont) :=
    match c.phase with
    | .sendLine =>
      let (w', ok) := w.tryWrite (requestLine c.req)
      if ok then ({ c with phase := .sendHeaders 0 }, w', true) else (c, w, false)
    | _ => (c, w, true)
  if !cont then
    (c1, w1, if w1.out.length - atStart > 0 || c1.phase == .sendBody then .ok () else .error (.api .outputOverflow))
  else
  -- part 2: headers
  match c1.phase with
  | .sendHeaders idx =>
    let hs := c1.req.headers
    let count := hs.length
    if count = 0 then (c1, w1, .error (.panic "call.rs: header_count - 1 underflow")) else
    let (idx', w2) := writeHeaders (hs.drop idx) idx (count - 1) w1
    let c2 := { c1 with phase := if idx' == count then .sendBody else .sendHeaders idx' }
    (c2, w2, if w2.out.length - atStart > 0 || c2.phase == .sendBody then .ok () else .error (.api .outputOverflow))
  | _ => (c1, w1, if w1.out.length - atStart > 0 || c1.phase == .sendBody then .ok () else .error (.api .outputOverflow))
