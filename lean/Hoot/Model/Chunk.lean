/-! Prototype: dechunker model mirroring src/chunk.rs -/

abbrev Bytes := List UInt8

def CR : UInt8 := 13
def LF : UInt8 := 10

/-- util.rs find_crlf: first CR; the byte after it must exist and be LF. -/
def findCrlf : Bytes → Option Nat
  | [] => none
  | c :: rest =>
    if c = CR then
      match rest with
      | d :: _ => if d = LF then some 0 else none
      | [] => none
    else (findCrlf rest).map (· + 1)

inductive Err | chunkExpectedCrLf | chunkLenNotAscii | chunkLenNotANumber | panic
  deriving DecidableEq, Repr

inductive Dechunker
  | size | chunk (left : Nat) | crlf | ending | trailer | ended
  deriving DecidableEq, Repr

def hexVal (c : UInt8) : Option Nat :=
  if 48 ≤ c ∧ c ≤ 57 then some (c.toNat - 48)
  else if 97 ≤ c ∧ c ≤ 102 then some (c.toNat - 87)
  else if 65 ≤ c ∧ c ≤ 70 then some (c.toNat - 55)
  else none

def parseHexAux : Bytes → Nat → Option Nat
  | [], acc => some acc
  | c :: cs, acc => match hexVal c with
    | some v => parseHexAux cs (acc * 16 + v)
    | none => none

def USIZE_MAX : Nat := 2^64 - 1

/-- model of `usize::from_str_radix(s,16)` for ASCII input without trim subtleties (prototype) -/
def parseHex (s : Bytes) : Option Nat :=
  match s with
  | [] => none
  | _ => match parseHexAux s 0 with
    | some n => if n ≤ USIZE_MAX then some n else none
    | none => none

/-- index of first occurrence of `c` -/
def firstIdx (c : UInt8) : Bytes → Option Nat
  | [] => none
  | x :: xs => if x = c then some 0 else (firstIdx c xs).map (· + 1)

structure Pos where
  i : Nat  -- index_in
  o : Bytes -- bytes written so far (reverse not needed)
  deriving Repr

/-- read_size on the remaining src. returns (more?, new state, consumed) -/
def readSize (src : Bytes) : Except Err (Option (Dechunker × Nat)) :=
  match findCrlf src with
  | none => .ok none
  | some i =>
    if i > 20 then .error .chunkExpectedCrLf else
    let metaPos := firstIdx 59 (src.take 100)
    let lenEnd := min (metaPos.getD 21) i
    match parseHex (src.take lenEnd) with
    | none => .error .chunkLenNotANumber
    | some len => .ok (some (if len = 0 then .ending else .chunk len, i + 2))

/-- one iteration of the inner loop; returns (more, state', consumed, produced) -/
def stepOnce (st : Dechunker) (src : Bytes) (cap : Nat) : Except Err (Bool × Dechunker × Nat × Bytes) :=
  match st with
  | .size => do
    match ← readSize src with
    | none => pure (false, .size, 0, [])
    | some (st', n) => pure (true, st', n, [])
  | .chunk left =>
    let n := min (min src.length cap) left
    let left' := left - n
    pure (decide (n > 0), if left' = 0 then .crlf else .chunk left', n, src.take n)
  | .crlf =>
    match findCrlf src with
    | none => pure (false, .crlf, 0, [])
    | some i => if i > 0 then .error .chunkExpectedCrLf else pure (false, .size, 2, [])
  | .ending =>
    match findCrlf src with
    | none => pure (false, .ending, 0, [])
    | some i => if i = 0 then pure (true, .ended, 2, []) else pure (true, .trailer, 0, [])
  | .trailer =>
    match findCrlf src with
    | none => pure (false, .trailer, 0, [])
    | some i => if i = 0 then .error .panic else pure (true, .ending, i + 2, [])
  | .ended => pure (false, .ended, 0, [])

/-- parse_input: inner loop, fuel-bounded -/
def parseInput : Nat → Dechunker → Bytes → Nat → Except Err (Dechunker × Nat × Bytes)
  | 0, st, _, _ => .ok (st, 0, [])
  | fuel + 1, st, src, cap => do
    let (more, st', n, out) ← stepOnce st src cap
    if more then
      let (st'', n', out') ← parseInput fuel st' (src.drop n) (cap - out.length)
      pure (st'', n + n', out ++ out')
    else pure (st', n, out)

theorem findCrlf_take (a b : Bytes) (h : ∀ x ∈ a, x ≠ CR) (m : Nat) :
    findCrlf ((a ++ CR :: LF :: b).take m) = if a.length + 2 ≤ m then some a.length else none := by
  induction a generalizing m with
  | nil =>
    match m with
    | 0 => simp [findCrlf]
    | 1 => simp [findCrlf]
    | m + 2 => simp [findCrlf]
  | cons x xs ih =>
    have hx : x ≠ CR := h x (by simp)
    have hxs : ∀ y ∈ xs, y ≠ CR := fun y hy => h y (by simp [hy])
    match m with
    | 0 => simp [findCrlf]
    | m + 1 =>
      simp only [List.cons_append, List.take_succ_cons, findCrlf, hx, if_false]
      rw [ih hxs]
      by_cases hm : xs.length + 2 ≤ m
      · simp [hm]
      · simp [hm]
