import Hoot.Model.Flow

/-! Prototype: RFC 3986 §5.2 reference resolution with the `url`-crate normalisations, as_new_flow -/

def isAlphaC (c : Char) : Bool := ('a' ≤ c && c ≤ 'z') || ('A' ≤ c && c ≤ 'Z')
def isDigitC (c : Char) : Bool := '0' ≤ c && c ≤ '9'

/-- characters for which `url` and RFC 3986 agree byte-for-byte (no percent-encoding, no repair) -/
def inClassChar (c : Char) : Bool :=
  isAlphaC c || isDigitC c || c == '-' || c == '.' || c == '_' || c == '~' || c == '/' || c == '?' ||
  c == '#' || c == '=' || c == '&' || c == ':' || c == ';' || c == '%' || c == ',' || c == '+' || c == '!' ||
  c == '$' || c == '(' || c == ')' || c == '*'

structure Ref where
  scheme : Option String
  auth : Option String
  path : String
  query : Option String
  deriving Repr

def splitOnce (s : String) (c : Char) : String × Option String :=
  let cs := s.toList
  let a := cs.takeWhile (· != c)
  if a.length == cs.length then (s, none) else (String.ofList a, some (String.ofList (cs.drop (a.length + 1))))

def parseRef (s : String) : Ref :=
  let (s1, _frag) := splitOnce s '#'
  let (s2, query) := splitOnce s1 '?'
  let cs := s2.toList
  let pre := cs.takeWhile (fun c => c != ':' && c != '/')
  let (scheme, rest) :=
    if pre.length < cs.length && cs.getD pre.length ' ' == ':' && !pre.isEmpty && isAlphaC (pre.headD ' ') &&
       pre.all (fun c => isAlphaC c || isDigitC c || c == '+' || c == '-' || c == '.') then
      (some (String.ofList pre).toLower, cs.drop (pre.length + 1))
    else (none, cs)
  match rest with
  | '/' :: '/' :: r =>
    let a := r.takeWhile (· != '/')
    { scheme := scheme, auth := some (String.ofList a), path := String.ofList (r.drop a.length), query := query }
  | _ => { scheme := scheme, auth := none, path := String.ofList rest, query := query }

/-- RFC 3986 §5.2.4 on a character list; `out` holds the output segments in reverse -/
def removeDots : Nat → List Char → List (List Char) → List Char
  | 0, _, out => (out.reverse).flatten
  | fuel + 1, inp, out =>
    match inp with
    | [] => (out.reverse).flatten
    | '.' :: '.' :: '/' :: r => removeDots fuel r out
    | '.' :: '/' :: r => removeDots fuel r out
    | '/' :: '.' :: '/' :: r => removeDots fuel ('/' :: r) out
    | ['/', '.'] => removeDots fuel ['/'] out
    | '/' :: '.' :: '.' :: '/' :: r => removeDots fuel ('/' :: r) out.tail
    | ['/', '.', '.'] => removeDots fuel ['/'] out.tail
    | ['.'] => removeDots fuel [] out
    | ['.', '.'] => removeDots fuel [] out
    | c :: r =>
      let seg := c :: r.takeWhile (· != '/')
      removeDots fuel (r.dropWhile (· != '/')) (seg :: out)

def removeDotSegments (p : String) : String := String.ofList (removeDots (p.length + 1) p.toList [])

inductive Res3986 | ok (u : Uri) | err | outOfClass
  deriving Repr

def normAuth (scheme : String) (auth : String) : Option (String × Option Nat) :=
  let (host, port) := splitOnce auth ':'
  let host := host.toLower
  if host.isEmpty then none else
  match port with
  | none => some (host, none)
  | some p =>
    if p.isEmpty then some (host, none) else
    match p.toNat? with
    | none => none
    | some n =>
      if n > 65535 then none
      else if (scheme == "http" && n == 80) || (scheme == "https" && n == 443) then some (host, none)
      else some (host, some n)

/-- WHATWG host parsing turns a host whose last label is a number (decimal, or 0x-hex) into an IPv4
    address; such authorities are outside the modelled class -/
def numericLikeHost (auth : String) : Bool :=
  let host := (splitOnce auth ':').1
  let last := (host.splitOn ".").getLast?.getD ""
  let last := if last.isEmpty then ((host.splitOn ".").dropLast.getLast?.getD "") else last
  !last.isEmpty && (last.toList.all isDigitC || last.toLower.startsWith "0x")

def mergePath (basePath : String) (refPath : String) : String :=
  let b := (if basePath.isEmpty then "/" else basePath).toList
  -- everything up to and including the last '/'
  let keep := (b.reverse.dropWhile (· != '/')).reverse
  String.ofList keep ++ refPath

def resolve (base : Uri) (loc : String) : Res3986 :=
  if !loc.toList.all inClassChar then .outOfClass else
  -- WHATWG treats percent-encoded dots as dot segments; RFC 3986 does not
  if (loc.toLower.splitOn "%2e").length > 1 then .outOfClass else
  let r := parseRef loc
  let mk (scheme : String) (host : String) (port : Option Nat) (path : String) (query : Option String) : Res3986 :=
    .ok { scheme := scheme, host := host, port := port, path := if path.isEmpty then "/" else path, query := query }
  match r.scheme, r.auth with
  | some s, some a =>
    if s != "http" && s != "https" then .outOfClass else
    if a.isEmpty && !r.path.isEmpty then .outOfClass else   -- `scheme:///path`: WHATWG repairs, RFC does not define
    if numericLikeHost a then .outOfClass else
    match normAuth s a with
    | none => .err
    | some (h, p) => mk s h p (removeDotSegments r.path) r.query
  | some _, none => .outOfClass                              -- `http:g` forms
  | none, some a =>
    if a.isEmpty && !r.path.isEmpty then .outOfClass else
    if numericLikeHost a then .outOfClass else
    match normAuth base.scheme a with
    | none => .err
    | some (h, p) => mk base.scheme h p (removeDotSegments r.path) r.query
  | none, none =>
    -- `Url::parse(base)` normalises the base first: host lower-cased, default port dropped
    let bHost := base.host.toLower
    let bPort := match base.port with
      | some n => if (base.scheme == "http" && n == 80) || (base.scheme == "https" && n == 443) then none else some n
      | none => none
    if r.path.isEmpty then mk base.scheme bHost bPort base.path (match r.query with | some q => some q | none => base.query)
    else if r.path.startsWith "/" then mk base.scheme bHost bPort (removeDotSegments r.path) r.query
    else mk base.scheme bHost bPort (removeDotSegments (mergePath base.path r.path)) r.query

inductive FollowRes | flow (f : Flow) | none | fault (e : Fault) | outOfClass

/-- flow.rs as_new_flow: the method of the request that follows a redirect (`none`: do not follow) -/
def newMethodOf (m : Method) (status : Nat) : Option Method :=
  if status == 307 || status == 308 then
    if m.needBody then none else if m == .delete then none else some m
  else if m == .get || m == .head then some m else some .get

/-- flow.rs `can_redirect_auth_header`, against the ORIGINAL request URI -/
def keepAuthHeader (sameHost : Bool) (orig target : Uri) : Bool :=
  sameHost && (orig.host == target.host && (orig.scheme == target.scheme || target.scheme == "https"))

/-- flow.rs as_new_flow (after the repair D13): a `Host` header of the original request stays with the request
    only while the target is on the host of the ORIGINAL request URI -/
def keepHostHeader (orig target : Uri) : Bool := orig.host == target.host

/-- names suppressed among the inherited headers of the new request -/
def unsetList (keepAuth keepHost : Bool) : List String :=
  (if keepAuth then [] else ["authorization"]) ++ ((if keepHost then [] else ["host"]) ++ ["cookie", "content-length"])

/-- the flow `as_new_flow` builds: the original request with a new method, rebuilt by `Flow::new`, then the
    target URI installed as override and the suppression list set -/
def followFlow (prev : AReq) (nm : Method) (uri : Uri) (sameHost : Bool) : Flow :=
  { (Flow.new nm prev.version prev.uri prev.orig) with
    call := { (Flow.new nm prev.version prev.uri prev.orig).call with
      req := { (Flow.new nm prev.version prev.uri prev.orig).call.req with
        uriOverride := some uri, unset := unsetList (keepAuthHeader sameHost prev.uri uri) (keepHostHeader prev.uri uri) } } }

/-- flow.rs Flow<Redirect>::as_new_flow -/
def Flow.asNewFlow (f : Flow) (sameHost : Bool) : Flow × FollowRes :=
  match f.location with
  | none => (f, .fault (.api .noLocationHeader))
  | some locB =>
    match toStr? locB with
    | none => (f, .fault (.api .badLocationHeader))
    | some loc =>
      if f.call.req.taken then (f, .fault (.panic "amended.rs take_request / base uri")) else
      match f.status with
      | none => (f, .fault (.panic "flow.rs status unwrap"))
      | some status =>
        match resolve f.call.req.effUri (String.ofList (loc.map fun b => Char.ofNat b.toNat)) with
        | .outOfClass => (f, .outOfClass)
        | .err => (f, .fault (.api .badLocationHeader))
        | .ok uri =>
          match newMethodOf f.call.req.method status with
          | none => (f, .none)
          | some nm =>
            ({ f with call := { f.call with req := { f.call.req with taken := true } } },
             .flow (followFlow f.call.req nm uri sameHost))
