import Hoot.Model.Req

/-! Prototype: the Flow typestate machine (post-repair semantics), response side, redirects -/

inductive CloseReason | http10 | clientClose | serverClose | not100 | closeDelimited
  deriving DecidableEq, Repr

def CloseReason.explain : CloseReason → String
  | .http10 => "version is http1.0" | .clientClose => "client sent Connection: close"
  | .serverClose => "server sent Connection: close" | .not100 => "got non-100 response before sending body"
  | .closeDelimited => "response body is close delimited"

inductive FState | prepare | sendRequest | await100 | sendBody | recvResponse | recvBody | redirect | cleanup
  deriving DecidableEq, Repr

inductive Holder | withoutBody | withBody | recvResponse | recvBody
  deriving DecidableEq, Repr

structure Flow where
  st : FState
  holder : Holder
  call : CallSt
  closeReasons : List CloseReason
  shouldSendBody : Bool
  await100 : Bool
  status : Option Nat := none
  location : Option Bytes := none
  deriving DecidableEq, Repr

def hasHdr (hs : List Hdr) (key : String) (value : String) : Bool :=
  hs.any (fun h => h.name == key && h.value == strBytes value)

def pushReason (l : List CloseReason) (r : CloseReason) : List CloseReason × Except Fault Unit :=
  if l.contains r then (l, .ok ())
  else if l.length < 5 then (l ++ [r], .ok ()) else (l, .error (.panic "ArrayVec push: close_reason"))

def Flow.new (m : Method) (v : Version) (u : Uri) (orig : List Hdr) : Flow :=
  let cr1 := if v == .h10 then [CloseReason.http10] else []
  let cr2 := if hasHdr orig "connection" "close" then cr1 ++ [.clientClose] else cr1
  let need := m.needBody
  { st := .prepare
    holder := if need then .withBody else .withoutBody
    call := { req := { method := m, version := v, uri := u, orig := orig },
              writer := if need then BodyWriter.newChunked else BodyWriter.newNone }
    closeReasons := cr2
    shouldSendBody := need
    await100 := hasHdr orig "expect" "100-continue" }

/-- a parsed response head as the `http` crate presents it -/
structure RespHead where
  version : Nat          -- 0 | 1
  status : Nat
  fields : List Hdr      -- names lower-cased, wire order
  deriving DecidableEq, Repr

def fieldsOf (fs : List (Bytes' × Bytes')) : List Hdr :=
  fs.map fun f => { name := String.ofList (f.1.map fun b => Char.ofNat (lowerB b).toNat), value := f.2 }

/-- `HeaderMap::get`: first value of a name -/
def getFirst (hs : List Hdr) (key : String) : Option Bytes := (hs.find? (·.name == key)).map (·.value)

/-- parser.rs try_parse_response::<N> (after repairs D9) -/
def tryParseResponse (slots : Nat) (input : Bytes) : Except Fault (Option (Nat × RespHead)) :=
  match parseResp slots input with
  | .error .tooManyHeaders => .error (.api .httpParseTooManyHeaders)
  | .error e => .error (.api (.httpParseFail e))
  | .more _ => .ok none
  | .complete r used =>
    if r.code < 100 then .error (.api .responseInvalidStatus)
    else if r.fields.any (fun f => f.1.length > 65535) then .error (.api .badHeader)
    else .ok (some (used, { version := r.version, status := r.code, fields := fieldsOf r.fields }))

/-- parser.rs try_parse_partial_response::<N> (after repairs D8, D9) -/
def tryParsePartial (slots : Nat) (input : Bytes) : Except Fault (Option RespHead) :=
  let finishWith (version : Option Nat) (code : Option Nat) (fields : List (Bytes' × Bytes')) (isComplete : Bool) :=
    match version with
    | none => Except.ok none
    | some v =>
      match code with
      | none => .ok none
      | some c =>
        if c < 100 then .error (.api .responseInvalidStatus) else
        -- the loop stops at the first header with an empty name or value
        let kept := fields.takeWhile (fun f => !f.1.isEmpty && !f.2.isEmpty)
        let _ := isComplete
        if kept.any (fun f => f.1.length > 65535) then .error (.api .badHeader)
        else .ok (some { version := v, status := c, fields := fieldsOf kept })
  match parseResp slots input with
  | .error .tooManyHeaders => .error (.api .httpParseTooManyHeaders)
  | .error e => .error (.api (.httpParseFail e))
  | .more s => finishWith s.version s.code s.fields false
  | .complete r _ => finishWith (some r.version) (some r.code) r.fields true

def splitComma (b : Bytes) : List Bytes :=
  b.foldr (fun c acc => if c == 44 then [] :: acc else match acc with | [] => [[c]] | x :: xs => (c :: x) :: xs) [[]]

def trimAscii (b : Bytes) : Bytes :=
  let ws := fun (c : UInt8) => c == 32 || (9 ≤ c && c ≤ 13)
  ((b.dropWhile ws).reverse.dropWhile ws).reverse

/-- abstract view of the two framing headers, as `header_defined` extracts them: the first value of each
    name, `to_str` failure counts as absent -/
structure Framing where
  cl : Option (Option Nat)   -- none: absent; some none: present but not a u64; some (some n)
  chunked : Bool             -- the Transfer-Encoding value lists "chunked" (any case, any position)

def framingOf (hs : List Hdr) : Framing :=
  { cl := ((getFirst hs "content-length").bind toStr?).map parseU64
    chunked := match (getFirst hs "transfer-encoding").bind toStr? with
      | none => false
      | some v => (splitComma v).any (fun p => eqLowerAscii (trimAscii p) (strBytes "chunked")) }

/-- body.rs header_defined + for_response: the decision, clause order as in the code -/
def forResponseAbs (http10 : Bool) (m : Method) (status : Nat) (fr : Framing) : Except Fault BodyReader :=
  match fr.cl with
  | some none => .error (.api .badContentLengthHeader)
  | clv =>
    let contentLength : Option Nat := match clv with | some (some n) => some n | _ => none
    let headerDefined : BodyReader :=
      if fr.chunked && !http10 then .chunked .size
      else match contentLength with | some n => .len n | none => .close
    let hasBodyHeader := headerDefined != .close
    let noBody := m == .head || (decide (200 ≤ status ∧ status ≤ 299) && m == .connect) || decide (100 ≤ status ∧ status ≤ 199) ||
      status == 204 || status == 304 || (decide (300 ≤ status ∧ status ≤ 399 ∧ status ≠ 304) && !hasBodyHeader)
    .ok (if noBody then .noBody else headerDefined)

def forResponse (http10 : Bool) (m : Method) (status : Nat) (hs : List Hdr) : Except Fault BodyReader :=
  forResponseAbs http10 m status (framingOf hs)

/-- call.rs Call<RecvResponse>::try_response, with the partial-redirect fallback switchable -/
def callTryResponse (hack : Bool) (c : CallSt) (input : Bytes) : CallSt × Except Fault (Option (Nat × RespHead)) :=
  let parsed : Except Fault (Option (Nat × RespHead)) :=
    match tryParseResponse 128 input with
    | .error f => .error f
    | .ok (some v) => .ok (some v)
    | .ok none =>
      if !hack then .ok none else
      match tryParsePartial 128 input with
      | .error f => .error f
      | .ok none => .ok none
      | .ok (some r) =>
        if 300 ≤ r.status ∧ r.status ≤ 399 ∧ (r.fields.any (·.name == "location")) then
          -- synthetic connection: close replaces any existing connection field (HeaderMap::insert)
          -- HeaderMap::insert: an existing entry keeps its position and loses its extra values
          let close : Hdr := { name := "connection", value := strBytes "close" }
          let fs := if r.fields.any (·.name == "connection") then
              let idx := (r.fields.findIdx? (·.name == "connection")).getD 0
              (r.fields.take idx).filter (·.name != "connection") ++ [close] ++ (r.fields.drop (idx + 1)).filter (·.name != "connection")
            else r.fields ++ [close]
          .ok (some (input.length, { r with fields := fs }))
        else .ok none
  match parsed with
  | .error f => (c, .error f)
  | .ok none => (c, .ok none)
  | .ok (some (used, r)) =>
    if r.status == 100 then
      if !r.fields.isEmpty then (c, .error (.api .headersWith100)) else (c, .ok (some (used, r)))
    else
      match forResponse (r.version == 0) c.req.method r.status r.fields with
      | .error f => (c, .error f)
      | .ok rd => ({ c with reader := some rd }, .ok (some (used, r)))

def isRedirectStatus (s : Option Nat) : Bool :=
  match s with | some v => 300 ≤ v && v ≤ 399 && v != 304 | none => false

inductive Res
  | unit | bytes (n : Nat) (out : Bytes) | count (n : Nat) | bool (b : Bool) | state (s : FState) | none
  | resp (n : Nat) (r : Option RespHead) | str (s : String) | fault (f : Fault)
  deriving Repr

/-- ops of the public API; each is only offered in the state whose type has it -/
inductive Op
  | header (h : Hdr) | despite | proceed | canProceed
  | write (cap : Nat) | bwrite (input : Bytes) (cap : Nat) | direct (n : Nat) | maxin (n : Nat) | isChunked
  | read100 (w : Bytes) | keep100 | resp (w : Bytes) | bread (w : Bytes) (cap : Nat) | stopb (b : Bool)
  | boundary | mode | mustClose | reason | statusQ

def Flow.canProceed (f : Flow) : Except Fault Bool :=
  match f.st, f.holder with
  | .sendRequest, .withoutBody => .ok (!f.call.phase.isPrelude)
  | .sendRequest, .withBody => .ok (f.call.phase == .sendBody)
  | .sendRequest, _ => .error (.panic "flow.rs SendRequest::can_proceed unreachable")
  | .sendBody, .withBody => .ok f.call.writer.ended
  | .sendBody, _ => .error (.panic "holder.rs as_with_body unreachable")
  | .recvResponse, .recvResponse => .ok f.call.reader.isSome
  | .recvResponse, _ => .error (.panic "holder.rs as_recv_response unreachable")
  | .recvBody, .recvBody =>
    match f.call.reader with
    | some rd => .ok (match rd with | .noBody => true | .len n => n == 0 | .chunked d => d == .ended | .close => true)
    | none => .error (.panic "call.rs reader unwrap")
  | .recvBody, _ => .error (.panic "holder.rs as_recv_body unreachable")
  | _, _ => .ok true

def readerEnded : BodyReader → Bool
  | .noBody => true | .len n => n == 0 | .chunked d => d == .ended | .close => false

def toFault : Err → Fault
  | .chunkExpectedCrLf => .api .chunkExpectedCrLf | .chunkLenNotAscii => .api .chunkLenNotAscii
  | .chunkLenNotANumber => .api .chunkLenNotANumber | .panic => .panic "chunk.rs"

/-- one public call; returns the new flow and the observable result -/
def Flow.step (hack : Bool) (f : Flow) (op : Op) : Flow × Res :=
  match f.st, op with
  -- ---------------------------------------------------------------- Prepare
  | .prepare, .header h =>
    let (req', r) := f.call.req.setHeader h
    ({ f with call := { f.call with req := req' } }, match r with | .ok () => .unit | .error e => .fault e)
  | .prepare, .despite =>
    if f.holder == .withoutBody then
      if f.call.analyzed then (f, .fault (.panic "call.rs into_send_body assert"))
      else ({ f with shouldSendBody := true, holder := .withBody,
                     call := { f.call with skipCheck := true, writer := BodyWriter.newChunked } }, .unit)
    else ({ f with shouldSendBody := true }, .unit)
  | .prepare, .proceed => ({ f with st := .sendRequest }, .state .sendRequest)
  -- ---------------------------------------------------------------- SendRequest
  | .sendRequest, .write cap =>
    match f.holder with
    | .withoutBody | .withBody =>
      if f.holder == .withBody && !f.call.phase.isPrelude then (f, .bytes 0 []) else   -- repair D12
      let (c1, r1) := f.call.analyzeRequest
      match r1 with
      | .error e => ({ f with call := c1 }, .fault e)
      | .ok () =>
        let w : W := { out := [], cap := cap }
        if c1.phase.isPrelude then
          let (c2, w2, r2) := writePrelude c1 w
          ({ f with call := c2 }, match r2 with | .ok () => .bytes 0 w2.out | .error e => .fault e)
        else
          -- WithoutBody: try_write_prelude with nothing left: Ok(0)
          ({ f with call := c1 }, .bytes 0 [])
    | _ => (f, .fault (.panic "flow.rs SendRequest::write unreachable"))
  | .sendRequest, .canProceed => (f, match f.canProceed with | .ok b => .bool b | .error e => .fault e)
  | .sendRequest, .proceed =>
    match f.canProceed with
    | .error e => (f, .fault e)
    | .ok false => (f, .none)
    | .ok true =>
      if f.shouldSendBody then
        if f.await100 then ({ f with st := .await100 }, .state .await100)
        else
          let (c1, r1) := f.call.analyzeRequest
          match r1 with
          | .error e => ({ f with call := c1, st := .sendBody }, .fault e)
          | .ok () => ({ f with call := c1, st := .sendBody }, .state .sendBody)
      else
        match f.holder with
        | .withoutBody =>
          if !f.call.writer.ended then (f, .fault (.panic "flow.rs into_receive unwrap"))
          else ({ f with st := .recvResponse, holder := .recvResponse, call := { f.call with phase := .recvResponse } },
                .state .recvResponse)
        | _ => (f, .fault (.panic "flow.rs SendRequest::proceed unreachable"))
  -- ---------------------------------------------------------------- Await100
  | .await100, .read100 w =>
    match tryParseResponse 0 w with
    | .ok none => (f, .count 0)
    | .ok (some (used, r)) =>
      let f1 := { f with await100 := false }
      if r.status == 100 then
        if !f1.shouldSendBody then (f1, .fault (.panic "flow.rs assert should_send_body")) else (f1, .count used)
      else
        let (l, pr) := pushReason f1.closeReasons .not100
        match pr with
        | .error e => ({ f1 with closeReasons := l }, .fault e)
        | .ok () => ({ f1 with closeReasons := l, shouldSendBody := false }, .count 0)
    | .error e =>
      let f1 := { f with await100 := false }
      if e == .api .httpParseTooManyHeaders then
        let (l, pr) := pushReason f1.closeReasons .not100
        match pr with
        | .error e => ({ f1 with closeReasons := l }, .fault e)
        | .ok () => ({ f1 with closeReasons := l, shouldSendBody := false }, .count 0)
      else (f1, .fault e)
  | .await100, .keep100 => (f, .bool f.await100)
  | .await100, .proceed =>
    if f.shouldSendBody then
      let (c1, r1) := f.call.analyzeRequest
      match r1 with
      | .error e => ({ f with call := c1, st := .sendBody }, .fault e)
      | .ok () => ({ f with call := c1, st := .sendBody }, .state .sendBody)
    else
      match f.holder with
      | .withBody => ({ f with st := .recvResponse, holder := .recvResponse, call := { f.call with phase := .recvResponse } },
                      .state .recvResponse)   -- repair D3
      | _ => (f, .fault (.panic "flow.rs Await100::proceed unreachable"))
  -- ---------------------------------------------------------------- SendBody
  | .sendBody, .bwrite input cap =>
    if f.holder != .withBody then (f, .fault (.panic "holder.rs as_with_body_mut unreachable")) else
    let (c1, r1) := f.call.analyzeRequest
    match r1 with
    | .error e => ({ f with call := c1 }, .fault e)
    | .ok () =>
      let w : W := { out := [], cap := cap }
      if c1.phase.isPrelude then
        let (c2, w2, r2) := writePrelude c1 w
        ({ f with call := c2 }, match r2 with | .ok () => .bytes 0 w2.out | .error e => .fault e)
      else if c1.phase == .sendBody then
        if !input.isEmpty && c1.writer.ended then ({ f with call := c1 }, .fault (.api .bodyContentAfterFinish))
        else if (match c1.writer.leftToSend with | some left => decide (input.length > left) | none => false) then
          ({ f with call := c1 }, .fault (.api .bodyLargerThanContentLength))
        else
          let (bw, w2, r) := c1.writer.write input w
          ({ f with call := { c1 with writer := bw } }, match r with | .ok n => .bytes n w2.out | .error e => .fault e)
      else ({ f with call := c1 }, .bytes 0 [])
  | .sendBody, .direct n =>
    if f.holder != .withBody then (f, .fault (.panic "holder.rs as_with_body_mut unreachable")) else
    match f.call.writer.mode with
    | .sized left =>
      if n > left then (f, .fault (.api .bodyLargerThanContentLength))
      else
        let left' := left - n
        ({ f with call := { f.call with writer := { mode := .sized left', ended := f.call.writer.ended || left' == 0 } } }, .unit)
    | _ => (f, .fault (.api .bodyIsChunked))
  | .sendBody, .maxin n =>
    if f.holder != .withBody then (f, .fault (.panic "holder.rs as_with_body_mut unreachable")) else
    (f, .count (if !f.call.writer.isChunked then n else calcMaxInput n))
  | .sendBody, .isChunked =>
    if f.holder != .withBody then (f, .fault (.panic "holder.rs as_with_body_mut unreachable")) else
    (f, .bool f.call.writer.isChunked)
  | .sendBody, .canProceed => (f, match f.canProceed with | .ok b => .bool b | .error e => .fault e)
  | .sendBody, .proceed =>
    match f.canProceed with
    | .error e => (f, .fault e)
    | .ok false => (f, .none)
    | .ok true => ({ f with st := .recvResponse, holder := .recvResponse, call := { f.call with phase := .recvResponse } },
                   .state .recvResponse)
  -- ---------------------------------------------------------------- RecvResponse
  | .recvResponse, .resp w =>
    if f.holder != .recvResponse then (f, .fault (.panic "holder.rs as_recv_response_mut unreachable")) else
    let (c1, r1) := callTryResponse hack f.call w
    match r1 with
    | .error e => ({ f with call := c1 }, .fault e)
    | .ok none => ({ f with call := c1 }, .resp 0 none)
    | .ok (some (used, r)) =>
      if r.status == 100 && f.await100 then ({ f with call := c1, await100 := false }, .resp used none)
      else
        let loc := ((r.fields.filter (·.name == "location")).getLast?).map (·.value)
        let f1 := { f with call := c1, status := some r.status, location := loc }
        if hasHdr r.fields "connection" "close" then
          let (l, pr) := pushReason f1.closeReasons .serverClose
          match pr with
          | .error e => ({ f1 with closeReasons := l }, .fault e)
          | .ok () => ({ f1 with closeReasons := l }, .resp used (some r))
        else (f1, .resp used (some r))
  | .recvResponse, .canProceed => (f, match f.canProceed with | .ok b => .bool b | .error e => .fault e)
  | .recvResponse, .proceed =>
    match f.canProceed with
    | .error e => (f, .fault e)
    | .ok false => (f, .none)
    | .ok true =>
      let needBody := match f.call.reader with | some .noBody => false | some (.len 0) => false | _ => true
      let c1 := { f.call with phase := .recvBody }
      if needBody then
        let isClose := f.call.reader == some .close
        let (l, pr) := if isClose then pushReason f.closeReasons .closeDelimited else (f.closeReasons, .ok ())
        match pr with
        | .error e => ({ f with closeReasons := l }, .fault e)
        | .ok () => ({ f with st := .recvBody, holder := .recvBody, call := c1, closeReasons := l }, .state .recvBody)
      else
        let nxt := if isRedirectStatus f.status then FState.redirect else FState.cleanup
        ({ f with st := nxt, holder := .recvBody, call := c1 }, .state nxt)
  -- ---------------------------------------------------------------- RecvBody
  | .recvBody, .bread w cap =>
    if f.holder != .recvBody then (f, .fault (.panic "holder.rs as_recv_body_mut unreachable")) else
    match f.call.reader with
    | none => (f, .fault (.panic "call.rs reader unwrap"))
    | some rd =>
      if readerEnded rd then (f, .bytes 0 []) else
      match rd with
      | .noBody => (f, .bytes 0 [])
      | .len left =>
        let n := min (min w.length cap) left
        ({ f with call := { f.call with reader := some (.len (left - n)) } }, .bytes n (w.take n))
      | .close =>
        let n := min w.length cap
        (f, .bytes n (w.take n))
      | .chunked d =>
        match readChunkedS (w.length + 2) d w cap f.call.stopBoundary with
        | (d', .ok (i, o)) => ({ f with call := { f.call with reader := some (.chunked d') } }, .bytes i o)
        | (d', .error e) => ({ f with call := { f.call with reader := some (.chunked d') } }, .fault (toFault e))
  | .recvBody, .stopb b => ({ f with call := { f.call with stopBoundary := b } }, .unit)
  | .recvBody, .boundary => (f, .bool (match f.call.reader with | some (.chunked d) => d == .size | _ => false))
  | .recvBody, .mode =>
    (f, .str (match f.call.reader with
      | some .noBody => "NoBody" | some (.len n) => s!"LengthDelimited({n})" | some (.chunked _) => "Chunked"
      | some .close => "CloseDelimited" | none => "Chunked"))
  | .recvBody, .canProceed => (f, match f.canProceed with | .ok b => .bool b | .error e => .fault e)
  | .recvBody, .proceed =>
    match f.canProceed with
    | .error e => (f, .fault e)
    | .ok false => (f, .none)
    | .ok true =>
      let nxt := if isRedirectStatus f.status then FState.redirect else FState.cleanup
      ({ f with st := nxt }, .state nxt)
  -- ---------------------------------------------------------------- Redirect / Cleanup
  | .redirect, .statusQ => (f, match f.status with | some s => .count s | none => .fault (.panic "flow.rs status unwrap"))
  | .redirect, .mustClose => (f, .bool (!f.closeReasons.isEmpty))
  | .redirect, .reason => (f, .str ((f.closeReasons.head?.map (·.explain)).getD "-"))
  | .redirect, .proceed => ({ f with st := .cleanup }, .state .cleanup)
  | .cleanup, .mustClose => (f, .bool (!f.closeReasons.isEmpty))
  | .cleanup, .reason => (f, .str ((f.closeReasons.head?.map (·.explain)).getD "-"))
  | _, _ => (f, .str "not-offered")
