import Hoot.Model.Req
import Hoot.Model.RespFast
import Hoot.Model.ReqFast

/-! Prototype: the Flow typestate machine (post-repair semantics), response side, redirects -/

inductive CloseReason | http10 | clientClose | serverClose | not100 | closeDelimited
  deriving DecidableEq, Repr

def CloseReason.explain : CloseReason → String
  | .http10 => "version is http1.0" | .clientClose => "client sent Connection: close"
  | .serverClose => "server sent Connection: close" | .not100 => "got non-100 response before sending body"
  | .closeDelimited => "response body is close delimited"

inductive FState | prepare | sendRequest | await100 | sendBody | recvResponse | recvBody | redirect | cleanup
  deriving DecidableEq, Repr

inductive Holder | withoutBody | withBody | recvResponse | recvBody
  deriving DecidableEq, Repr

structure Flow where
  st : FState
  holder : Holder
  call : CallSt
  closeReasons : List CloseReason
  shouldSendBody : Bool
  await100 : Bool
  status : Option Nat := none
  location : Option Bytes := none
  deriving DecidableEq, Repr

def hasHdr (hs : List Hdr) (key : String) (value : String) : Bool :=
  hs.any (fun h => h.name == key && h.value == strBytes value)

def pushReason (l : List CloseReason) (r : CloseReason) : List CloseReason × Except Fault Unit :=
  if l.contains r then (l, .ok ())
  else if l.length < 5 then (l ++ [r], .ok ()) else (l, .error (.panic "ArrayVec push: close_reason"))

def Flow.new (m : Method) (v : Version) (u : Uri) (orig : List Hdr) : Flow :=
  let cr1 := if v == .h10 then [CloseReason.http10] else []
  let cr2 := if hasHdr orig "connection" "close" then cr1 ++ [.clientClose] else cr1
  let need := m.needBody
  { st := .prepare
    holder := if need then .withBody else .withoutBody
    call := { req := { method := m, version := v, uri := u, orig := orig },
              writer := if need then BodyWriter.newChunked else BodyWriter.newNone }
    closeReasons := cr2
    shouldSendBody := need
    await100 := hasHdr orig "expect" "100-continue" }

/-- a parsed response head as the `http` crate presents it -/
structure RespHead where
  version : Nat          -- 0 | 1
  status : Nat
  fields : List Hdr      -- names lower-cased, wire order
  deriving DecidableEq, Repr

def fieldsOf (fs : List (Bytes' × Bytes')) : List Hdr :=
  fs.map fun f => { name := String.ofList (f.1.map fun b => Char.ofNat (lowerB b).toNat), value := f.2 }

/-- `HeaderMap::get`: first value of a name -/
def getFirst (hs : List Hdr) (key : String) : Option Bytes := (hs.find? (·.name == key)).map (·.value)

/-- parser.rs try_parse_response::<N> (after repairs D9) -/
def tryParseResponse (slots : Nat) (input : Bytes) : Except Fault (Option (Nat × RespHead)) :=
  match parseResp slots input with
  | .error .tooManyHeaders => .error (.api .httpParseTooManyHeaders)
  | .error e => .error (.api (.httpParseFail e))
  | .more _ => .ok none
  | .complete r used =>
    if r.code < 100 then .error (.api .responseInvalidStatus)
    else if r.fields.any (fun f => f.1.length > 65535) then .error (.api .badHeader)
    else .ok (some (used, { version := r.version, status := r.code, fields := fieldsOf r.fields }))

/-- the tail of `try_parse_partial_response`: needs version and status; reports the completed fields up
    to the first one with an empty name or value -/
def partialFinish (version : Option Nat) (code : Option Nat) (fields : List (Bytes' × Bytes')) : Except Fault (Option RespHead) :=
  match version with
  | none => .ok none
  | some v =>
    match code with
    | none => .ok none
    | some c =>
      if c < 100 then .error (.api .responseInvalidStatus)
      else if (fields.takeWhile (fun f => !f.1.isEmpty && !f.2.isEmpty)).any (fun f => f.1.length > 65535) then .error (.api .badHeader)
      else .ok (some { version := v, status := c, fields := fieldsOf (fields.takeWhile (fun f => !f.1.isEmpty && !f.2.isEmpty)) })

/-- parser.rs try_parse_partial_response::<N> (after repairs D8, D9) -/
def tryParsePartial (slots : Nat) (input : Bytes) : Except Fault (Option RespHead) :=
  match parseResp slots input with
  | .error .tooManyHeaders => .error (.api .httpParseTooManyHeaders)
  | .error e => .error (.api (.httpParseFail e))
  | .more s => partialFinish s.version s.code s.fields
  | .complete r _ => partialFinish (some r.version) (some r.code) r.fields

structure ReqHead where
  method : Bytes
  version : Nat
  fields : List Hdr
  deriving DecidableEq, Repr

/-- parser.rs try_parse_request::<N> (after repair D9); the request target is parsed and dropped -/
def tryParseRequest (slots : Nat) (input : Bytes) : Except Fault (Option (Nat × ReqHead)) :=
  match parseReq slots input with
  | .error .tooManyHeaders => .error (.api .httpParseTooManyHeaders)
  | .error e => .error (.api (.httpParseFail e))
  | .more _ => .ok none
  | .complete r used =>
    if !validHttpMethod r.method then .error (.api .requestInvalidMethod)
    else if r.fields.any (fun f => f.1.length > 65535) then .error (.api .badHeader)
    else .ok (some (used, { method := r.method, version := r.version, fields := fieldsOf r.fields }))

def splitComma (b : Bytes) : List Bytes :=
  b.foldr (fun c acc => if c == 44 then [] :: acc else match acc with | [] => [[c]] | x :: xs => (c :: x) :: xs) [[]]

def trimAscii (b : Bytes) : Bytes :=
  let ws := fun (c : UInt8) => c == 32 || (9 ≤ c && c ≤ 13)
  ((b.dropWhile ws).reverse.dropWhile ws).reverse

/-- abstract view of the two framing headers, as `header_defined` extracts them: the first value of each
    name, `to_str` failure counts as absent -/
structure Framing where
  cl : Option (Option Nat)   -- none: absent; some none: present but not a u64; some (some n)
  chunked : Bool             -- the Transfer-Encoding value lists "chunked" (any case, any position)

def framingOf (hs : List Hdr) : Framing :=
  { cl := ((getFirst hs "content-length").bind toStr?).map parseU64
    chunked := match (getFirst hs "transfer-encoding").bind toStr? with
      | none => false
      | some v => (splitComma v).any (fun p => eqLowerAscii (trimAscii p) (strBytes "chunked")) }

/-- body.rs header_defined + for_response: the decision, clause order as in the code -/
def forResponseAbs (http10 : Bool) (m : Method) (status : Nat) (fr : Framing) : Except Fault BodyReader :=
  match fr.cl with
  | some none => .error (.api .badContentLengthHeader)
  | clv =>
    let contentLength : Option Nat := match clv with | some (some n) => some n | _ => none
    let headerDefined : BodyReader :=
      if fr.chunked && !http10 then .chunked .size
      else match contentLength with | some n => .len n | none => .close
    let hasBodyHeader := headerDefined != .close
    let noBody := m == .head || (decide (200 ≤ status ∧ status ≤ 299) && m == .connect) || decide (100 ≤ status ∧ status ≤ 199) ||
      status == 204 || status == 304 || (decide (300 ≤ status ∧ status ≤ 399 ∧ status ≠ 304) && !hasBodyHeader)
    .ok (if noBody then .noBody else headerDefined)

def forResponse (http10 : Bool) (m : Method) (status : Nat) (hs : List Hdr) : Except Fault BodyReader :=
  forResponseAbs http10 m status (framingOf hs)

/-- `HeaderMap::insert("connection", "close")` on the parsed fields: an existing entry keeps its position
    and loses its extra values -/
def insertConnClose (fields : List Hdr) : List Hdr :=
  if fields.any (·.name == "connection") then
    (fields.take ((fields.findIdx? (·.name == "connection")).getD 0)).filter (·.name != "connection") ++
      [{ name := "connection", value := strBytes "close" }] ++
      (fields.drop ((fields.findIdx? (·.name == "connection")).getD 0 + 1)).filter (·.name != "connection")
  else fields ++ [{ name := "connection", value := strBytes "close" }]

/-- the parse step of `Call<RecvResponse>::try_response`: the complete parser, and — when it needs more
    data and the fallback is present (`hack`) — the partial parser accepting a 3xx with a Location field -/
def parseWithFallback (hack : Bool) (input : Bytes) : Except Fault (Option (Nat × RespHead)) :=
  match tryParseResponse 128 input with
  | .error f => .error f
  | .ok (some v) => .ok (some v)
  | .ok none =>
    if !hack then .ok none else
    match tryParsePartial 128 input with
    | .error f => .error f
    | .ok none => .ok none
    | .ok (some r) =>
      if 300 ≤ r.status ∧ r.status ≤ 399 ∧ (r.fields.any (·.name == "location")) then
        .ok (some (input.length, { r with fields := insertConnClose r.fields }))
      else .ok none

/-- call.rs Call<RecvResponse>::try_response, with the partial-redirect fallback switchable -/
def callTryResponse (hack : Bool) (c : CallSt) (input : Bytes) : CallSt × Except Fault (Option (Nat × RespHead)) :=
  match parseWithFallback hack input with
  | .error f => (c, .error f)
  | .ok none => (c, .ok none)
  | .ok (some (used, r)) =>
    if r.status == 100 then
      if !r.fields.isEmpty then (c, .error (.api .headersWith100)) else (c, .ok (some (used, r)))
    else
      match forResponse (r.version == 0) c.req.method r.status r.fields with
      | .error f => (c, .error f)
      | .ok rd => ({ c with reader := some rd }, .ok (some (used, r)))

def isRedirectStatus (s : Option Nat) : Bool :=
  match s with | some v => 300 ≤ v && v ≤ 399 && v != 304 | none => false

inductive Res
  | unit | bytes (n : Nat) (out : Bytes) | count (n : Nat) | bool (b : Bool) | state (s : FState) | none
  | resp (n : Nat) (r : Option RespHead) | str (s : String) | fault (f : Fault)
  deriving Repr

/-- ops of the public API; each is only offered in the state whose type has it -/
inductive Op
  | header (h : Hdr) | despite | proceed | canProceed
  | write (cap : Nat) | bwrite (input : Bytes) (cap : Nat) | direct (n : Nat) | maxin (n : Nat) | isChunked
  | read100 (w : Bytes) | keep100 | resp (w : Bytes) | bread (w : Bytes) (cap : Nat) | stopb (b : Bool)
  | boundary | mode | mustClose | reason | statusQ

def readerEnded : BodyReader → Bool
  | .noBody => true | .len n => n == 0 | .chunked d => d == .ended | .close => false

def toFault : Err → Fault
  | .chunkExpectedCrLf => .api .chunkExpectedCrLf | .chunkLenNotAscii => .api .chunkLenNotAscii
  | .chunkLenNotANumber => .api .chunkLenNotANumber | .panic => .panic "chunk.rs"

/-! ## Call-level operations (call.rs); `Flow` delegates to these, the single-call API exposes them -/

/-- `HeaderValue::try_from(&[u8])`: visible bytes, tab and obs-text; no control bytes, no DEL -/
def validHeaderValue (v : Bytes) : Bool := v.all (fun b => (b ≥ 32 && b != 127) || b == 9)

/-- call.rs `Call<WithoutBody>::write` -/
def CallSt.writeNoBody (c : CallSt) (cap : Nat) : CallSt × Except Fault Bytes :=
  match c.analyzeRequest with
  | (c1, .error e) => (c1, .error e)
  | (c1, .ok ()) =>
    match writePrelude c1 { out := [], cap := cap } with
    | (c2, w2, .ok ()) => (c2, .ok w2.out)
    | (c2, _, .error e) => (c2, .error e)

/-- `input.len() as u64 > left` for a length-delimited body -/
def BodyWriter.overLimit (bw : BodyWriter) (n : Nat) : Bool :=
  match bw.leftToSend with | some left => decide (n > left) | none => false

/-- the body part of `Call<WithBody>::write` (phase is SendBody): the two guards, then the writer -/
def CallSt.writeBodyPhase (c : CallSt) (input : Bytes) (cap : Nat) : CallSt × Except Fault (Nat × Bytes) :=
  if !input.isEmpty && c.writer.ended then (c, .error (.api .bodyContentAfterFinish))
  else if c.writer.overLimit input.length then
    (c, .error (.api .bodyLargerThanContentLength))
  else
    match c.writer.write input { out := [], cap := cap } with
    | (bw, w2, .ok n) => ({ c with writer := bw }, .ok (n, w2.out))
    | (bw, _, .error e) => ({ c with writer := bw }, .error e)

/-- call.rs `Call<WithBody>::write` -/
def CallSt.writeBody (c : CallSt) (input : Bytes) (cap : Nat) : CallSt × Except Fault (Nat × Bytes) :=
  match c.analyzeRequest with
  | (c1, .error e) => (c1, .error e)
  | (c1, .ok ()) =>
    if c1.phase.isPrelude then
      match writePrelude c1 { out := [], cap := cap } with
      | (c2, w2, .ok ()) => (c2, .ok (0, w2.out))
      | (c2, _, .error e) => (c2, .error e)
    else if c1.phase == .sendBody then c1.writeBodyPhase input cap
    else (c1, .ok (0, []))

/-- call.rs `consume_direct_write` -/
def CallSt.consumeDirect (c : CallSt) (n : Nat) : CallSt × Except Fault Unit :=
  match c.writer.mode with
  | .sized left =>
    if n > left then (c, .error (.api .bodyLargerThanContentLength))
    else ({ c with writer := { mode := .sized (left - n), ended := c.writer.ended || left - n == 0 } }, .ok ())
  | _ => (c, .error (.api .bodyIsChunked))

/-- body.rs `BodyReader::read` after the `is_ended` short-circuit of `Call<RecvBody>::read` -/
def CallSt.read (c : CallSt) (w : Bytes) (cap : Nat) : CallSt × Except Fault (Nat × Bytes) :=
  match c.reader with
  | none => (c, .error (.panic "call.rs reader unwrap"))
  | some rd =>
    if readerEnded rd then (c, .ok (0, [])) else
    match rd with
    | .noBody => (c, .ok (0, []))
    | .len left => ({ c with reader := some (.len (left - min (min w.length cap) left)) },
                    .ok (min (min w.length cap) left, w.take (min (min w.length cap) left)))
    | .close => (c, .ok (min w.length cap, w.take (min w.length cap)))
    | .chunked d =>
      match readChunkedS (w.length + 2) d w cap c.stopBoundary with
      | (d', .ok (i, o)) => ({ c with reader := some (.chunked d') }, .ok (i, o))
      | (d', .error e) => ({ c with reader := some (.chunked d') }, .error (toFault e))

def needResponseBody (r : Option BodyReader) : Bool :=
  match r with | some .noBody => false | some (.len 0) => false | _ => true

def modeText (r : Option BodyReader) : String :=
  match r with
  | some .noBody => "NoBody" | some (.len n) => s!"LengthDelimited({n})" | some (.chunked _) => "Chunked"
  | some .close => "CloseDelimited" | none => "Chunked"

/-! ## Flow (flow.rs): one step function per typestate -/

def Flow.canProceed (f : Flow) : Except Fault Bool :=
  match f.st, f.holder with
  | .sendRequest, .withoutBody => .ok (!f.call.phase.isPrelude)
  | .sendRequest, .withBody => .ok (f.call.phase == .sendBody)
  | .sendRequest, _ => .error (.panic "flow.rs SendRequest::can_proceed unreachable")
  | .sendBody, .withBody => .ok f.call.writer.ended
  | .sendBody, _ => .error (.panic "holder.rs as_with_body unreachable")
  | .recvResponse, .recvResponse => .ok f.call.reader.isSome
  | .recvResponse, _ => .error (.panic "holder.rs as_recv_response unreachable")
  | .recvBody, .recvBody =>
    match f.call.reader with
    | some rd => .ok (match rd with | .noBody => true | .len n => n == 0 | .chunked d => d == .ended | .close => true)
    | none => .error (.panic "call.rs reader unwrap")
  | .recvBody, _ => .error (.panic "holder.rs as_recv_body unreachable")
  | _, _ => .ok true

def notOffered (f : Flow) : Flow × Res := (f, .str "not-offered")

def resOfUnit : Except Fault Unit → Res | .ok () => .unit | .error e => .fault e
def resOfBool : Except Fault Bool → Res | .ok b => .bool b | .error e => .fault e

def stepPrepare (f : Flow) (op : Op) : Flow × Res :=
  match op with
  | .header h =>
    if !validHeaderValue h.value then (f, .fault (.api .badHeader)) else
    match f.call.req.setHeader h with
    | (req', r) => ({ f with call := { f.call with req := req' } }, resOfUnit r)
  | .despite =>
    if f.holder == .withoutBody then
      if f.call.analyzed then (f, .fault (.panic "call.rs into_send_body assert"))
      else ({ f with shouldSendBody := true, holder := .withBody,
                     call := { f.call with skipCheck := true, writer := BodyWriter.newChunked } }, .unit)
    else ({ f with shouldSendBody := true }, .unit)
  | .proceed => ({ f with st := .sendRequest }, .state .sendRequest)
  | _ => notOffered f

/-- the edge out of SendRequest / Await100 into SendBody: `analyze_request()?` on the new flow -/
def enterSendBody (f : Flow) : Flow × Res :=
  match f.call.analyzeRequest with
  | (c1, .error e) => ({ f with call := c1, st := .sendBody }, .fault e)
  | (c1, .ok ()) => ({ f with call := c1, st := .sendBody }, .state .sendBody)

def enterRecvResponse (f : Flow) : Flow × Res :=
  ({ f with st := .recvResponse, holder := .recvResponse, call := { f.call with phase := .recvResponse } }, .state .recvResponse)

def stepSendRequest (f : Flow) (op : Op) : Flow × Res :=
  match op with
  | .write cap =>
    match f.holder with
    | .withoutBody =>
      (match f.call.writeNoBody cap with
       | (c, .ok out) => ({ f with call := c }, .bytes 0 out)
       | (c, .error e) => ({ f with call := c }, .fault e))
    | .withBody =>
      if !f.call.phase.isPrelude then (f, .bytes 0 []) else   -- repair D12
      (match f.call.writeBody [] cap with
       | (c, .ok (_, out)) => ({ f with call := c }, .bytes 0 out)
       | (c, .error e) => ({ f with call := c }, .fault e))
    | _ => (f, .fault (.panic "flow.rs SendRequest::write unreachable"))
  | .canProceed => (f, resOfBool f.canProceed)
  | .proceed =>
    match f.canProceed with
    | .error e => (f, .fault e)
    | .ok false => (f, .none)
    | .ok true =>
      if f.shouldSendBody then
        if f.await100 then ({ f with st := .await100 }, .state .await100)
        else enterSendBody f
      else
        match f.holder with
        | .withoutBody =>
          if !f.call.writer.ended then (f, .fault (.panic "flow.rs into_receive unwrap"))
          else enterRecvResponse f
        | _ => (f, .fault (.panic "flow.rs SendRequest::proceed unreachable"))
  | _ => notOffered f

/-- the server refused the body: remember why the connection must close -/
def refuse100 (f : Flow) : Flow × Res :=
  match pushReason f.closeReasons .not100 with
  | (l, .error e) => ({ f with closeReasons := l }, .fault e)
  | (l, .ok ()) => ({ f with closeReasons := l, shouldSendBody := false }, .count 0)

def stepAwait100 (f : Flow) (op : Op) : Flow × Res :=
  match op with
  | .read100 w =>
    match tryParseResponse 0 w with
    | .ok none => (f, .count 0)
    | .ok (some (used, r)) =>
      if r.status == 100 then
        if !f.shouldSendBody then ({ f with await100 := false }, .fault (.panic "flow.rs assert should_send_body"))
        else ({ f with await100 := false }, .count used)
      else refuse100 { f with await100 := false }
    | .error e =>
      if e == .api .httpParseTooManyHeaders then refuse100 { f with await100 := false }
      else ({ f with await100 := false }, .fault e)
  | .keep100 => (f, .bool f.await100)
  | .proceed =>
    if f.shouldSendBody then enterSendBody f
    else
      match f.holder with
      | .withBody => enterRecvResponse f   -- repair D3
      | _ => (f, .fault (.panic "flow.rs Await100::proceed unreachable"))
  | _ => notOffered f

def stepSendBody (f : Flow) (op : Op) : Flow × Res :=
  if f.holder != .withBody then
    (match op with
     | .bwrite _ _ | .direct _ | .maxin _ | .isChunked | .canProceed | .proceed => (f, .fault (.panic "holder.rs as_with_body unreachable"))
     | _ => notOffered f)
  else
  match op with
  | .bwrite input cap =>
    (match f.call.writeBody input cap with
     | (c, .ok (n, out)) => ({ f with call := c }, .bytes n out)
     | (c, .error e) => ({ f with call := c }, .fault e))
  | .direct n =>
    (match f.call.consumeDirect n with
     | (c, r) => ({ f with call := c }, resOfUnit r))
  | .maxin n => (f, .count (if !f.call.writer.isChunked then n else calcMaxInput n))
  | .isChunked => (f, .bool f.call.writer.isChunked)
  | .canProceed => (f, resOfBool f.canProceed)
  | .proceed =>
    (match f.canProceed with
     | .error e => (f, .fault e)
     | .ok false => (f, .none)
     | .ok true => enterRecvResponse f)
  | _ => notOffered f

def lastLocation (fields : List Hdr) : Option Bytes :=
  ((fields.filter (·.name == "location")).getLast?).map (·.value)

def stepRecvResponse (hack : Bool) (f : Flow) (op : Op) : Flow × Res :=
  match op with
  | .resp w =>
    if f.holder != .recvResponse then (f, .fault (.panic "holder.rs as_recv_response_mut unreachable")) else
    match callTryResponse hack f.call w with
    | (c1, .error e) => ({ f with call := c1 }, .fault e)
    | (c1, .ok none) => ({ f with call := c1 }, .resp 0 none)
    | (c1, .ok (some (used, r))) =>
      if r.status == 100 && f.await100 then ({ f with call := c1, await100 := false }, .resp used none)
      else
        if hasHdr r.fields "connection" "close" then
          match pushReason f.closeReasons .serverClose with
          | (l, .error e) => ({ f with call := c1, status := some r.status, location := lastLocation r.fields, closeReasons := l }, .fault e)
          | (l, .ok ()) => ({ f with call := c1, status := some r.status, location := lastLocation r.fields, closeReasons := l }, .resp used (some r))
        else ({ f with call := c1, status := some r.status, location := lastLocation r.fields }, .resp used (some r))
  | .canProceed => (f, resOfBool f.canProceed)
  | .proceed =>
    match f.canProceed with
    | .error e => (f, .fault e)
    | .ok false => (f, .none)
    | .ok true =>
      if needResponseBody f.call.reader then
        if f.call.reader == some .close then
          match pushReason f.closeReasons .closeDelimited with
          | (l, .error e) => ({ f with closeReasons := l }, .fault e)
          | (l, .ok ()) => ({ f with st := .recvBody, holder := .recvBody, call := { f.call with phase := .recvBody }, closeReasons := l }, .state .recvBody)
        else ({ f with st := .recvBody, holder := .recvBody, call := { f.call with phase := .recvBody } }, .state .recvBody)
      else
        ({ f with st := if isRedirectStatus f.status then .redirect else .cleanup, holder := .recvBody,
                  call := { f.call with phase := .recvBody } },
         .state (if isRedirectStatus f.status then .redirect else .cleanup))
  | _ => notOffered f

def stepRecvBody (f : Flow) (op : Op) : Flow × Res :=
  match op with
  | .bread w cap =>
    if f.holder != .recvBody then (f, .fault (.panic "holder.rs as_recv_body_mut unreachable")) else
    (match f.call.read w cap with
     | (c, .ok (i, o)) => ({ f with call := c }, .bytes i o)
     | (c, .error e) => ({ f with call := c }, .fault e))
  | .stopb b => ({ f with call := { f.call with stopBoundary := b } }, .unit)
  | .boundary => (f, .bool (match f.call.reader with | some (.chunked d) => d == .size | _ => false))
  | .mode => (f, .str (modeText f.call.reader))
  | .canProceed => (f, resOfBool f.canProceed)
  | .proceed =>
    (match f.canProceed with
     | .error e => (f, .fault e)
     | .ok false => (f, .none)
     | .ok true => ({ f with st := if isRedirectStatus f.status then .redirect else .cleanup },
                    .state (if isRedirectStatus f.status then .redirect else .cleanup)))
  | _ => notOffered f

def closeText (f : Flow) : String := (f.closeReasons.head?.map (·.explain)).getD "-"

def stepRedirect (f : Flow) (op : Op) : Flow × Res :=
  match op with
  | .statusQ => (f, match f.status with | some s => .count s | none => .fault (.panic "flow.rs status unwrap"))
  | .mustClose => (f, .bool (!f.closeReasons.isEmpty))
  | .reason => (f, .str (closeText f))
  | .proceed => ({ f with st := .cleanup }, .state .cleanup)
  | _ => notOffered f

def stepCleanup (f : Flow) (op : Op) : Flow × Res :=
  match op with
  | .mustClose => (f, .bool (!f.closeReasons.isEmpty))
  | .reason => (f, .str (closeText f))
  | _ => notOffered f

/-- one public call; returns the new flow and the observable result -/
def Flow.step (hack : Bool) (f : Flow) (op : Op) : Flow × Res :=
  match f.st with
  | .prepare => stepPrepare f op
  | .sendRequest => stepSendRequest f op
  | .await100 => stepAwait100 f op
  | .sendBody => stepSendBody f op
  | .recvResponse => stepRecvResponse hack f op
  | .recvBody => stepRecvBody f op
  | .redirect => stepRedirect f op
  | .cleanup => stepCleanup f op
