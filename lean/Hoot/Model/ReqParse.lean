import Hoot.Model.Resp

/-! httparse 1.9.5 `Request::parse` as a byte-at-a-time scanner (scalar semantics; the `GET `/`POST `
    fast paths and the 8-byte version compare are observationally the byte-wise checks below). -/

/-- httparse `is_token` as coded: `b > 0x1F && b < 0x7F` -/
def isMethodTok (b : UInt8) : Bool := 0x1F < b && b < 0x7F

/-- httparse `URI_MAP` -/
def isUriTok (b : UInt8) : Bool := (33 ≤ b && b ≤ 126) && b != 60 && b != 62

inductive QPhase
  | skipEmpty | skipEmptyLF
  | methodFirst
  | method (acc : Bytes')
  | uri (m : Bytes') (acc : Bytes')
  | ver (i : Nat)                 -- i bytes of "HTTP/1." matched, i ≤ 7
  | afterVer | afterVerCR
  | lineStart | endCR
  | name (acc : Bytes')
  | ows (nm : Bytes')
  | emptyCR (nm : Bytes')
  | value (nm : Bytes') (acc : Bytes')
  | valueCR (nm : Bytes') (acc : Bytes')
  deriving DecidableEq, Repr

structure QState where
  phase : QPhase
  method : Option Bytes' := none
  path : Option Bytes' := none
  version : Option Nat := none
  fields : List (Bytes' × Bytes') := []
  slots : Nat
  deriving DecidableEq, Repr

structure QDone where
  method : Bytes'
  path : Bytes'
  version : Nat
  fields : List (Bytes' × Bytes')
  deriving DecidableEq, Repr

def qEndField (s : QState) (nm v : Bytes') : StepR QState QDone HErr :=
  if s.fields.length < s.slots then
    .next { s with phase := .lineStart, fields := s.fields ++ [(nm, trimEnd v)] }
  else .err .tooManyHeaders

def qFinish (s : QState) : StepR QState QDone HErr :=
  match s.method, s.path, s.version with
  | some m, some p, some v => .done { method := m, path := p, version := v, fields := s.fields }
  | _, _, _ => .err .version  -- unreachable: lineStart is only entered after the request line

def reqStep (s : QState) (b : UInt8) : StepR QState QDone HErr :=
  match s.phase with
  | .skipEmpty =>
    if b == 13 then .next { s with phase := .skipEmptyLF }
    else if b == 10 then .next s
    else if isMethodTok b then .next { s with phase := .method [b] } else .err .token
  | .skipEmptyLF => if b == 10 then .next { s with phase := .skipEmpty } else .err .newLine
  | .methodFirst => if isMethodTok b then .next { s with phase := .method [b] } else .err .token
  | .method acc =>
    if b == 32 then .next { s with phase := .uri acc [], method := some acc }
    else if isMethodTok b then .next { s with phase := .method (acc ++ [b]) } else .err .token
  | .uri m acc =>
    if isUriTok b then .next { s with phase := .uri m (acc ++ [b]) }
    else if b == 32 then
      if acc.isEmpty then .err .token else .next { s with phase := .ver 0, path := some acc }
    else .err .token
  | .ver i =>
    if i < 7 then
      if verPrefix[i]? == some b then .next { s with phase := .ver (i + 1) } else .err .version
    else if b == 48 then .next { s with phase := .afterVer, version := some 0 }
    else if b == 49 then .next { s with phase := .afterVer, version := some 1 }
    else .err .version
  | .afterVer =>
    if b == 13 then .next { s with phase := .afterVerCR }
    else if b == 10 then .next { s with phase := .lineStart }
    else .err .newLine
  | .afterVerCR => if b == 10 then .next { s with phase := .lineStart } else .err .newLine
  | .lineStart =>
    if b == 13 then .next { s with phase := .endCR }
    else if b == 10 then qFinish s
    else if isNameTok b then .next { s with phase := .name [b] } else .err .headerName
  | .endCR => if b == 10 then qFinish s else .err .newLine
  | .name acc =>
    if isNameTok b then .next { s with phase := .name (acc ++ [b]) }
    else if b == 58 then .next { s with phase := .ows acc } else .err .headerName
  | .ows nm =>
    if isWs b then .next s
    else if isValueTok b then .next { s with phase := .value nm [b] }
    else if b == 13 then .next { s with phase := .emptyCR nm }
    else if b == 10 then qEndField s nm []
    else .err .headerValue
  | .emptyCR nm => if b == 10 then qEndField s nm [] else .err .headerValue
  | .value nm acc =>
    if isValueTok b then .next { s with phase := .value nm (acc ++ [b]) }
    else if b == 13 then .next { s with phase := .valueCR nm acc }
    else if b == 10 then qEndField s nm acc
    else .err .headerValue
  | .valueCR nm acc => if b == 10 then qEndField s nm acc else .err .headerValue

def reqInit (slots : Nat) : QState := { phase := .skipEmpty, slots := slots }

def parseReq (slots : Nat) (input : Bytes') : RunR QState QDone HErr :=
  runFrom reqStep (reqInit slots) input 0

/-- `http::Method::from_bytes` validity: non-empty, every byte in the crate's `METHOD_CHARS` -/
def isHttpMethodChar (b : UInt8) : Bool :=
  b == 33 || b == 42 || b == 43 || b == 45 || b == 46 || (48 ≤ b && b ≤ 57) || (65 ≤ b && b ≤ 90) ||
  (94 ≤ b && b ≤ 122) || b == 124 || b == 126

def validHttpMethod (m : Bytes') : Bool := !m.isEmpty && m.all isHttpMethodChar
