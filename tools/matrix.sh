#!/bin/bash
# matrix.sh — apply every seeded change to /repo in turn and run all 20 quick checks (in parallel);
# writes work/matrix.tsv: mutant <tab> property <tab> exit <tab> kind (concrete | no-failing-input | silent)
cd /verif
out=work/matrix.tsv; : > $out
for d in seeded/C??-?; do
  m=$(basename $d)
  git -C /repo apply /verif/$d/patch.diff || { echo "$m apply-failed" >> $out; continue; }
  (cd harness && CARGO_NET_OFFLINE=true cargo build --release --offline >/dev/null 2>&1)
  for p in C01 C02 C03 C04 C05 C06 C07 C08 C09 C10 C11 C12 C13 C14 C15 C16 C17 C18 C19 C20; do echo $p; done | \
    xargs -P 10 -I{} sh -c 'o=$(python3 check.py {} --tier quick 2>&1); rc=$?; k=silent; echo "$o" | grep -q "^VIOLATION" && k=concrete; echo "$o" | grep -q "no-failing-input-found" && k=no-failing-input; printf "%s\t%s\t%s\t%s\n" '"$m"' {} $rc $k' >> $out
  git -C /repo checkout -- .
done
echo done >> $out
