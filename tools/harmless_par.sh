#!/bin/bash
# harmless_par.sh <dir of property-preserving changes (name/patch.diff)> <out log> [N=3]
# harmless.sh for every change, on N scratch copies of /repo and /verif in parallel (under $RG_BASE<i>, default
# /tmp/hp), so that /repo itself is never touched. Per change: one line per check that reports anything, then
# "<name> alarms=<k>".
SRC=$(readlink -f $1); OUT=$(readlink -f $2); N=${3:-3}; BASE=${RG_BASE:-/tmp/hp}
: > $OUT
ls -d $SRC/*/ | sed 's#/$##' | sort > ${BASE}_list.txt
for i in $(seq 1 $N); do
  S=$BASE$i
  rm -rf $S; mkdir -p $S
  git clone -q /repo $S/repo && git -C $S/repo checkout -q $(git -C /repo rev-parse HEAD)
  rsync -a --exclude work --exclude .git --exclude seeded --exclude harmless /verif/ $S/verif/
  mkdir -p $S/verif/work
  sed -i "s#path = \"/repo\"#path = \"$S/repo\"#" $S/verif/harness/Cargo.toml
  sed -i "s#^cd /verif#cd $S/verif#" $S/verif/tools/runall.sh
  (cd $S/verif/harness && CARGO_NET_OFFLINE=true cargo build --release --offline >/dev/null 2>&1)
  (cd $S/verif/lean && lake build hootmodel $(python3 -c "import json;print(' '.join(sorted({v['module'] for v in json.load(open('obligations.json')).values()})))") >/dev/null 2>&1) || { echo "lean build failed in $S" >&2; exit 3; }
  (cd $S/verif && python3 check.py C08 --tier quick | grep -q "mismatches 0, oracle ok=[0-9]* fail=0") || { echo "clean-tree check failed in $S" >&2; exit 3; }
done
for i in $(seq 1 $N); do
  S=$BASE$i
  (
    awk -v n=$N -v i=$i 'NR % n == i % n' ${BASE}_list.txt | while read d; do
      m=$(basename $d)
      git -C $S/repo apply $d/patch.diff || { echo "$m apply-failed" >> $OUT; continue; }
      out=$(cd $S/verif && tools/runall.sh quick 2>&1)
      git -C $S/repo checkout -- .
      { echo "$out" | grep -v "rc=0 0 violations" | sed "s/^/$m /"; echo "$m alarms=$(echo "$out" | grep -vc "rc=0 0 violations")"; } >> $OUT
    done
  ) &
done
wait
echo done >> $OUT
for i in $(seq 1 $N); do rm -rf $BASE$i; done
