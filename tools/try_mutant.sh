#!/bin/bash
# try_mutant.sh <patch.diff> <pid> [pid...]   — apply a seeded change to /repo, run the quick checks, undo it.
P=$1; shift
cd /repo && git apply "$P" || { echo "apply failed"; exit 2; }
for pid in "$@"; do
  out=$(cd /verif && python3 check.py $pid --tier quick 2>&1 | tail -4)
  echo "--- $pid exit=$?"; echo "$out"
done
git -C /repo checkout -- .
