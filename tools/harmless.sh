#!/bin/bash
# harmless.sh <dir with patch.diff> — apply a property-preserving change to /repo, run all 20 quick checks, undo.
# One line per check that reports anything; "all silent" otherwise.
D=$1; m=$(basename $D)
git -C /repo apply $D/patch.diff || { echo "$m apply-failed"; exit 2; }
(cd /verif/harness && CARGO_NET_OFFLINE=true cargo build --release --offline >/dev/null 2>&1) || echo "$m harness-build-failed"
out=$(cd /verif && tools/runall.sh quick 2>&1)
git -C /repo checkout -- .
echo "$out" | grep -v "rc=0 0 violations" | sed "s/^/$m /"
echo "$m alarms=$(echo "$out" | grep -vc "rc=0 0 violations")"
