#!/bin/bash
# regress_par.sh <dir of mutants (Cxx-k/patch.diff)> <out tsv> [N=4]
# The regression round of round.sh, run on N scratch copies of /repo and /verif in parallel (under /tmp/rg<i>),
# so that /repo itself is never touched. Each mutant is applied to a copy, the quick check of its own property
# is run there, and the copy is restored. One line per mutant: name, exit code, kind, first VIOLATION line.
SRC=$(readlink -f $1); OUT=$(readlink -f $2); N=${3:-4}; BASE=${RG_BASE:-/tmp/rg}
: > $OUT
ls -d $SRC/C??-? | sort > ${BASE}_list.txt
for i in $(seq 1 $N); do
  S=$BASE$i
  rm -rf $S; mkdir -p $S
  git clone -q /repo $S/repo && git -C $S/repo checkout -q $(git -C /repo rev-parse HEAD)
  rsync -a --exclude work --exclude .git /verif/ $S/verif/
  mkdir -p $S/verif/work
  sed -i "s#path = \"/repo\"#path = \"$S/repo\"#" $S/verif/harness/Cargo.toml
  (cd $S/verif/harness && CARGO_NET_OFFLINE=true cargo build --release --offline >/dev/null 2>&1)
  # the copy must be a consistent build before anything is judged with it
  (cd $S/verif/lean && lake build hootmodel $(python3 -c "import json;print(' '.join(sorted({v['module'] for v in json.load(open('obligations.json')).values()})))") >/dev/null 2>&1) || { echo "lean build failed in $S" >&2; exit 3; }
  (cd $S/verif && python3 check.py C08 --tier quick | grep -q "mismatches 0, oracle ok=[0-9]* fail=0") || { echo "clean-tree check failed in $S" >&2; exit 3; }
done
for i in $(seq 1 $N); do
  S=$BASE$i
  (
    awk -v n=$N -v i=$i 'NR % n == i % n' ${BASE}_list.txt | while read d; do
      m=$(basename $d); p=${m:0:3}
      git -C $S/repo apply $d/patch.diff || { echo -e "$m\tapply-failed" >> $OUT; continue; }
      o=$(cd $S/verif && python3 check.py $p --tier quick 2>&1); rc=$?
      git -C $S/repo checkout -- .
      k=silent; echo "$o" | grep -q "^VIOLATION" && k=concrete; echo "$o" | grep -q "no-failing-input-found" && k=no-failing-input
      v=$(echo "$o" | grep "^VIOLATION" | head -1)
      echo -e "$m\t$rc\t$k\t$v" >> $OUT
    done
  ) &
done
wait
sort -o $OUT $OUT
echo done >> $OUT
for i in $(seq 1 $N); do rm -rf $BASE$i; done
