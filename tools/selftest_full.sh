#!/bin/bash
# selftest_full.sh [seed] — the oracles judge logs in two renderings: long outputs as `#len:hash` (normal runs) and
# in full (`HOOT_FULL`: replay, re-execution of cases that ask for the full log, the directed search that runs
# when a proof or the correspondence is broken). On the unchanged tree the second rendering is otherwise never
# exercised, so an oracle that misjudges it would only show up as a bogus "concrete" replay for a change that
# merely broke the correspondence. This runs every generator with full logs and expects every oracle to say ok.
seed=${1:-2}
cd "$(dirname "$0")/.."
(cd harness && CARGO_NET_OFFLINE=true cargo build --release --offline >/dev/null 2>&1) || { echo "harness build failed"; exit 2; }
mkdir -p work
bad=0
for p in C01 C02 C03 C04 C05 C06 C07 C08 C09 C10 C11 C12 C13 C14 C15 C16 C17 C18 C19 C20; do echo $p; done | \
  xargs -P 6 -I{} sh -c 'HOOT_FULL=1 ./harness/target/release/hoot-harness gen {} '"$seed"' quick > work/full_{}.trace 2>/dev/null; ./lean/.lake/build/bin/hootmodel oracle {} < work/full_{}.trace > work/full_{}.oracle; echo "{} fail=$(grep -c "^FAIL" work/full_{}.oracle) needfull=$(grep -c "^NEEDFULL" work/full_{}.oracle) ok=$(grep -c "^ok" work/full_{}.oracle) known=$(grep -c "^KNOWN" work/full_{}.oracle)"; rm -f work/full_{}.trace' | sort | tee work/selftest_full.log
grep -qv "fail=0 needfull=0" work/selftest_full.log && { echo "SELFTEST FAILED"; exit 1; }
echo "selftest ok"
