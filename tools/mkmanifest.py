#!/usr/bin/env python3
"""Regenerates MANIFEST.json from the table below (one entry per claimed property)."""
import json
props = [json.loads(l) for l in open('/verif/properties.jsonl')]
NOTE = ("Trusted: Lean 4.33 kernel; axioms propext/Classical.choice/Quot.sound only (audited each run); the theorem "
        "statements; the correspondence harness (Rust) and compiled Lean driver, whose reach is bounded by the generators; "
        "std/http/httparse/url behaviour is modelled, not verified (DESIGN §9).")
TECH = "kernel-checked Lean 4 theorems over a hand-written executable model + differential correspondence with the crate + Lean oracle on the implementation's traces"
claimed = {
 "C01": "PARTIAL (C01_spec_partial): every phase of an exchange has its own for-every-schedule theorem (C02_schedule/C02_render head, C03_wire/C04_total body, C11_* handshake, C05_prefix/C05_exact head, C07/C08_len body, C09_edges, C10_step) plus C01_queries_pure (read-only queries change nothing) and C01_head_prefix (nothing consumed before the head is complete). The composed statement over a whole-exchange driver is not proved; whole exchanges are executed on the crate under 12 (quick) / 24 (thorough) schedules each — 1-byte arrivals, buffers smaller than a line or chunk, queries interleaved — and must agree with each other, with the model, and consume exactly the response message(s).",
 "C02": "Theorems C02_step (each call emits the maximal run of whole lines that fits, OutputOverflow exactly when not even the next line fits, nothing changes then), C02_schedule (after any sequence of buffer sizes the bytes emitted are exactly the first k units), C02_render (complete => exactly request line, every effective header line, empty line), C02_after. Host/framing exactly-once: oracle + correspondence.",
 "C03": "Theorems C03_wire / C03_after_finish / C03_finished_iff: for every sequence of (input, buffer) writes the emitted bytes are complete non-empty chunks carrying exactly the consumed input, with the terminator exactly when finished. Correspondence: the same writes on the real crate (exhaustive small scope, boundary-directed, random) must match the model line by line; an independent chunk decoder judges the implementation's own output.",
 "C04": "Theorems C04_copy / refuse_over / refuse_after / direct / total / finished: min-of-three copy, refusal without side effect, 'accounted <= N' invariant over all op sequences, finished only at exactly N and always once N is reached and signalled.",
 "C05": "Theorems C05_exact (H or more => exactly H's status/version/fields, consumes |H|), C05_prefix (every strict prefix => need more data), C05_limit (more fields than the limit => too-many-headers), at parser level for every limit N; C05_call_prefix_partial at Call level with the partial-redirect fallback present, for every head that is not a 3xx with a Location field (the excluded region is known finding D10, witnessed and replayed); C05_call_prefix_nohack for the code without the fallback.",
 "C06": "Theorem C06 (body mode = the HTTP rules, for every method, status : Nat, version, header list), C06_bad_content_length, C06_successor (state after the head).",
 "C07": "Theorem C07 (from V2.C07_schedule): for every valid coding (grammar V2.Rem), every arrival/window schedule, output size and boundary-stop setting, the reads never fail, output is a prefix of the chunk data, only coding bytes are consumed, ended iff the final CRLF was consumed; tied to CallSt.read by read_chunked_eq. C07_boundary: with boundary stopping a single read returns only data of the current chunk; C07_progress: offering the whole remaining coding with room for a byte always makes progress until the body has ended.",
 "C08": "Theorems C08_len (every schedule delivers a verbatim prefix of the next N bytes, consumed = delivered <= N, complete iff N delivered), C08_close_step, C08_close_can_proceed, C08_close_marks, C08_reasons_kept.",
 "C09": "Theorem C09_history (from wf_step: every operation of every typestate on a well-formed flow returns without panic and leaves a well-formed flow; lifted by induction to every call history with arbitrary bytes and buffer sizes), C09_ready (advance succeeds iff the readiness query is true), C09_edges (successor = documented graph), C09_follow_wf; D11 (second as_new_flow) is a recorded finding with an evaluated witness.",
 "C10": "Theorems C10_verdict, C10_initial, C10_step (a reason is recorded after a step iff it was before or the step is exactly one of the three events: non-100 while awaiting, returned response with Connection: close, close-delimited body entered), C10_cap.",
 "C11": "Theorems C11_undecided(_bare), C11_undecided_fields (input ending before the end of the first field line decides nothing, for heads with fields), C11_continue, C11_refused_bare, C11_refused_fields (response with >=1 complete field line, any status), C11_proceed (edges incl. converted holder), C11_late (late 100 consumed once).",
 "C12": "Theorems for ARBITRARY bytes: C12_read (every body framing: error or consumed<=offered, produced<=space, produced is a subsequence of consumed input; decoder never rests in the trailer state), C12_head / C12_partial (no panic outcome, consumed<=offered), plus C09_history for 'state-advancing calls afterwards do not panic'.",
 "C13": "Theorems C13 (every effective header of the request built for a redirect: never cookie / content-length; authorization only under same-host policy with equal host and same-or-https scheme), C13_chain (every hop is rebuilt from the ORIGINAL request, so the comparison is against the original URI at every hop), C13_asNewFlow, C13_cap.",
 "C14": "Theorems C14_current (new URI = resolution of the remembered Location against the CURRENT effective URI), C14_last (last Location field), C14_errors (missing / non-textual / unresolvable => the two error kinds, no panic outcome), C14_wire_line. The resolution function itself is the RFC 3986 section 5.2 algorithm (model = specification); that url::Url::join agrees with it on the stated class is decided by the correspondence (RFC 5.4 examples, base x reference grid, random chains) — partial by construction: the url crate is modelled, not verified.",
 "C15": "Theorems C15 (method table, every method x every status : Nat), C15_follow (as_new_flow uses it), C15_enter (redirect state iff 3xx other than 304), C15_status.",
 "C16": "Theorems C16_order (caller-added headers are the first effective headers, for any unset list), C16_add, C16_analysis_appends, C16_render, with C02_render putting them on the wire in that order; C16_inherited_still_suppressed.",
 "C17": "Theorems C17_iff (analysis fails exactly on the invalid classes of the property text), C17_write_refused (error, nothing emitted, state unchanged => repeatable), C17_never_ready, C17_accept (everything else: ok or OutputOverflow).",
 "C18": "Theorems C18_fits_chunked (a write of calculate_max_input(n) bytes into n bytes consumes all of it, for every n, through the byte-level writer), C18_sized, C18_le_n, C18_monotone.",
 "C19": "Theorems C19_progress_chunked / C19_more_input / C19_at_least_advertised / C19_progress_sized / C19_terminates for all input and buffer lengths.",
 "C20": "Response side: C20_resp_exact, C20_resp_prefix, C20_resp_too_many_iff for every limit N; partial parser: C20_partial (never fails on a prefix within the limit; reports only complete fields of the head, in order), C20_partial_complete. Request side (RHead grammar): C20_req_exact, C20_req_prefix, C20_req_too_many_iff from req_forward / req_prefix / req_too_many, for every limit N.",
}
checks = []
for pid in sorted(claimed):
    checks.append({"property_id": pid,
      "quick_cmd": f"python3 check.py {pid} --tier quick",
      "thorough_cmd": f"python3 check.py {pid} --tier thorough",
      "evidence_file": f"evidence/{pid}.json",
      "replay_cmd_template": "python3 check.py replay {path}",
      "engine": "hoot-lean",
      "level_claimed": {"category": "proof", "text": claimed[pid], "design_ref": "DESIGN.md §8 " + pid},
      "level_note": NOTE,
      "technique": TECH})
na = [{"property_id": p["id"], "reason": "not claimed"} for p in props if p["id"] not in claimed]
m = {"version": 1,
 "setup_cmd": "cd /verif/lean && lake build && cd /verif/harness && cargo build --release --offline",
 "hooks": {"guard": "hoot_verif", "enable": "none needed: every observable is reachable through the public API; the harness is a separate crate with a path dependency on /repo", "baseline_off_cmd": "cd /repo && cargo test --workspace --no-fail-fast --offline", "source_commits": [], "add_only": True},
 "engines": [{"name": "hoot-lean", "path": "lean/", "serves_properties": sorted(claimed), "kind_free_text": "Lean 4 model + theorems (lean/Hoot), Rust differential harness (harness/), orchestrated by check.py"}],
 "checks": checks,
 "not_applicable": na,
 "notes": "See DESIGN.md. Known findings and repaired defects: known_findings.json. Seeded breaking changes used to validate the checks: seeded/."}
json.dump(m, open('/verif/MANIFEST.json', 'w'), indent=1)
print("claimed:", sorted(claimed))
