#!/bin/bash
# confirm_mutant.sh <dir with patch.diff demo.rs meta.json> <scratch worktree>
# Confirms in a scratch worktree of /repo HEAD: applies cleanly, compiles, the existing suite passes
# with the change, the demo fails with the change and passes without it. Prints one summary line.
D=$1; WT=$2
set -u
cd "$WT" || exit 2
git checkout -q -- . ; rm -rf tests
if ! git apply --check "$D/patch.diff" 2>/dev/null; then echo "$(basename $D) APPLY-FAIL"; exit 1; fi
git apply "$D/patch.diff"
suite=$(CARGO_NET_OFFLINE=true cargo test --offline 2>&1 | grep -E "^test result" | head -2 | tr '\n' ' ')
mkdir -p tests; cp "$D/demo.rs" tests/seeded_demo.rs
CARGO_NET_OFFLINE=true cargo test --offline --test seeded_demo > /tmp/confirm_$$.log 2>&1; with=$?
git checkout -q -- src
CARGO_NET_OFFLINE=true cargo test --offline --test seeded_demo > /tmp/confirm2_$$.log 2>&1; without=$?
rm -rf tests; git checkout -q -- .
ok=NO
# the unedited suite (70 unit tests, 5 doctests) passes; a change may bring further tests of its own
units=$(echo "$suite" | grep -o "[0-9]* passed; 0 failed" | head -1 | cut -d" " -f1)
if [ "${units:-0}" -ge 70 ] && echo "$suite" | grep -q "5 passed; 0 failed" && ! echo "$suite" | grep -q "[1-9][0-9]* failed" && [ $with -ne 0 ] && [ $without -eq 0 ]; then ok=YES; fi
echo "$(basename $D) confirmed=$ok suite=[$suite] demo_with_change_exit=$with demo_without_exit=$without"
rm -f /tmp/confirm_$$.log /tmp/confirm2_$$.log
