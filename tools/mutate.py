#!/usr/bin/env python3
"""mutate.py — systematic single-token mutation campaign against /repo, to find blind spots of the checks.

For every candidate (one operator / constant / boolean changed on one source line outside tests and
comments): write it into /repo's working tree, build the harness, run the 20 quick checks (5 at a time),
record which checks report a violation, restore the file. Survivors (no check reports anything) are then
run against the crate's own test suite. Output: work/mutate.tsv, one line per candidate:
  file:line <tab> kind <tab> before -> after <tab> build|nobuild <tab> checks that fired (C..) <tab> tests: pass|fail|-
Usage: mutate.py [--files a.rs,b.rs] [--limit N] [--offset K] [--stride S]
Never commits anything to /repo; restores each file after use (and `git checkout -- .` at the end).
"""
import os, re, subprocess, sys, json, time

# MUT_REPO / MUT_VERIF: run the campaign on a scratch copy of the repository and of /verif (harness pointing at the copy)
REPO = os.environ.get("MUT_REPO", "/repo")
VERIF = os.environ.get("MUT_VERIF", "/verif")
FILES = ["src/body.rs", "src/chunk.rs", "src/parser.rs", "src/ext.rs", "src/util.rs",
         "src/client/amended.rs", "src/client/call.rs", "src/client/flow.rs", "src/client/holder.rs"]
PROPS = ["C%02d" % i for i in range(1, 21)]
FIRST_ONLY = os.environ.get("MUT_FIRST_ONLY", "1") == "1"

RULES = [
    (r"(?<![<>=!])<=(?!=)", "<", "le->lt"), (r"(?<![<>=!-])<(?![<=])", "<=", "lt->le"),
    (r"(?<![<>=!-])>=(?!=)", ">", "ge->gt"), (r"(?<![<>=!-])>(?![>=])", ">=", "gt->ge"),
    (r"==", "!=", "eq->ne"), (r"!=", "==", "ne->eq"),
    (r"&&", "||", "and->or"), (r"\|\|", "&&", "or->and"),
    (r"\btrue\b", "false", "true->false"), (r"\bfalse\b", "true", "false->true"),
    (r"(?<![\w.])\+ 1\b", "+ 0", "+1->+0"), (r"(?<![\w.])- 1\b", "- 0", "-1->-0"),
    (r"(?<![\w.])\+ 2\b", "+ 1", "+2->+1"), (r"(?<![\w.])- 2\b", "- 1", "-2->-1"),
    (r"\+=", "-=", "+=->-="), (r"-=", "+=", "-=->+="),
    (r"\.min\(", ".max(", "min->max"), (r"\.max\(", ".min(", "max->min"),
    (r"\bSome\(0\)", "Some(1)", "Some0->Some1"),
    (r"(?<![\w)\]])!(?=[a-z_(])", "", "drop-not"),
]


KINDS = set(os.environ.get("MUT_KINDS", "token").split(","))     # token | del | num


def extra_candidates(path):
    """Second family: a statement deleted (dropped state update / dropped call) and integer literals moved by one."""
    src = open(os.path.join(REPO, path)).read().split("\n")
    out = []
    for i, line in enumerate(src):
        s = line.strip()
        if s.startswith("#[cfg(test)]"):
            break
        if s.startswith("//") or not s or "assert" in s or "trace!" in s or "debug!" in s or "log_data" in s:
            continue
        code = line.split("//")[0]
        if re.match(r'^\s*("[0-9a-f]{2}",\s*){4,}', code):
            continue    # the hex table of the trace-log dump
        if "del" in KINDS:
            # simple statements: assignments / compound assignments / method calls on self or a local, one line, ends with ';'
            if re.match(r"^\s*(\*?self\.[\w.]+|\*?[a-z_][\w.]*)\s*(\+=|-=|\|=|&=|=)\s*[^=].*;\s*$", code) and not s.startswith("let "):
                out.append((path, i, "del-assign", line, re.match(r"^\s*", line).group(0) + "// (deleted)"))
            elif re.match(r"^\s*(self\.[\w.]+|[a-z_][\w.]*)\.(push|insert|remove|clear|set_[a-z_]+|unset_[a-z_]+|push_[a-z_]+|consume_[a-z_]+|[a-z_]*truncate)\(.*\);\s*$", code):
                out.append((path, i, "del-call", line, re.match(r"^\s*", line).group(0) + "// (deleted)"))
        if "num" in KINDS:
            for m in re.finditer(r"(?<![\w.\[])(\d+)(?![\w.\]])", code):
                n = int(m.group(1))
                if n > 70000 or "fn " in code or "const " in code and "[" in code:
                    continue
                for rep, kind in ((n + 1, "num+1"),) + (((n - 1, "num-1"),) if n > 0 else ()):
                    new = code[:m.start()] + str(rep) + code[m.end():] + line[len(code):]
                    out.append((path, i, kind, line, new))
    return out


def candidates(path):
    src = open(os.path.join(REPO, path)).read().split("\n")
    out = []
    in_test = False
    depth_at_test = None
    depth = 0
    for i, line in enumerate(src):
        s = line.strip()
        if s.startswith("#[cfg(test)]"):
            in_test = True
        if in_test:
            continue   # test modules are at the end of each file in this crate
        if s.startswith("//") or s.startswith("///") or s.startswith("#[") or s.startswith("use ") or not s:
            continue
        code = line.split("//")[0]
        if "debug_assert" in code or "assert!" in code or "unreachable!" in code or "fmt::" in code or "write!(f" in code:
            continue
        for pat, rep, kind in RULES:
            for m in re.finditer(pat, code):
                # skip generics / arrows / lifetimes / closures |x|
                a, b = m.start(), m.end()
                ctx = code[max(0, a - 2):b + 2]
                if kind in ("lt->le", "gt->ge") and (re.search(r"[A-Za-z_>]\s*<\s*[A-Z&'(]", code[max(0, a - 12):b + 12]) or "->" in ctx or "=>" in ctx or "::<" in code or "Option<" in code or "Result<" in code or "Vec<" in code or "impl<" in code or "<'" in code or "fn " in code or "Call<" in code or "Flow<" in code or "ArrayVec<" in code or "PhantomData" in code):
                    continue
                if kind in ("or->and",) and re.search(r"\|\s*\w*\s*\|", code) and "||" not in code.replace("|| ", "X"):
                    pass
                if kind == "drop-not" and (code[a - 1:a] in ("=", "<", ">") or code[b:b + 1] == "="):
                    continue
                new = code[:a] + rep + code[b:] + (line[len(code):] if len(line) > len(code) else "")
                out.append((path, i, kind, line, new))
    return out


def run(cmd, **kw):
    return subprocess.run(cmd, stdout=subprocess.PIPE, stderr=subprocess.STDOUT, **kw)


def main():
    args = sys.argv[1:]
    files = FILES
    limit, offset, stride = None, 0, 1
    while args:
        a = args.pop(0)
        if a == "--files": files = args.pop(0).split(",")
        elif a == "--limit": limit = int(args.pop(0))
        elif a == "--offset": offset = int(args.pop(0))
        elif a == "--stride": stride = int(args.pop(0))
        elif a == "--list":
            for f in files:
                for c in (candidates(f) if "token" in KINDS else []) + extra_candidates(f):
                    print(f"{c[0]}:{c[1] + 1}\t{c[2]}\t{c[3].strip()}  ->  {c[4].strip()}")
            return
    cands = []
    for f in files:
        if "token" in KINDS:
            cands += candidates(f)
        cands += extra_candidates(f)
    cands = cands[offset::stride]
    if limit: cands = cands[:limit]
    out = open(os.path.join(VERIF, "work", "mutate.tsv"), "a")
    env = dict(os.environ, CARGO_NET_OFFLINE="true")
    for (path, i, kind, old, new) in cands:
        full = os.path.join(REPO, path)
        orig = open(full).read()
        lines = orig.split("\n")
        lines[i] = new
        open(full, "w").write("\n".join(lines))
        try:
            b = run(["cargo", "build", "--release", "--offline"], cwd=os.path.join(VERIF, "harness"), env=env)
            if b.returncode != 0:
                out.write(f"{path}:{i + 1}\t{kind}\t{old.strip()} -> {new.strip()}\tnobuild\t-\t-\n"); out.flush()
                continue
            procs = {}
            fired = []
            pending = list(PROPS)
            running = {}
            while pending or running:
                while pending and len(running) < 6:
                    p = pending.pop(0)
                    running[p] = subprocess.Popen(["python3", "check.py", p, "--tier", "quick"], cwd=VERIF,
                                                  stdout=subprocess.PIPE, stderr=subprocess.STDOUT)
                for p, pr in list(running.items()):
                    if pr.poll() is not None:
                        o = pr.stdout.read().decode(errors="replace")
                        if pr.returncode != 0 or "VIOLATION" in o:
                            fired.append(p + ("n" if "no-failing-input-found" in o and o.count("VIOLATION") == o.count("no-failing-input-found") else ""))
                        del running[p]
                if fired and FIRST_ONLY:
                    # the campaign looks for survivors: one alarm is enough, stop the other checks
                    for p, pr in running.items():
                        pr.kill()
                    for p, pr in running.items():
                        pr.wait()
                    running = {}
                    pending = []
                time.sleep(0.05)
            tests = "-"
            if not fired:
                t = run(["cargo", "test", "--offline"], cwd=REPO, env=env)
                tests = "pass" if t.returncode == 0 else "fail"
            out.write(f"{path}:{i + 1}\t{kind}\t{old.strip()} -> {new.strip()}\tbuild\t{','.join(sorted(fired)) or 'NONE'}\t{tests}\n"); out.flush()
        finally:
            open(full, "w").write(orig)
    run(["git", "-C", REPO, "checkout", "--", "."])
    out.write("done\n"); out.close()


if __name__ == "__main__":
    main()
