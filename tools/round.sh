#!/bin/bash
# round.sh <dir of candidate mutants (Cxx-k/patch.diff)> <out tsv> — apply each candidate to /repo, run its own
# property's quick check, undo. One line per candidate: name, exit code, kind, first VIOLATION line.
SRC=$1; OUT=$2; : > $OUT
cd /verif
for d in $SRC/C??-?; do
  m=$(basename $d); p=${m:0:3}
  git -C /repo apply $d/patch.diff || { echo -e "$m\tapply-failed" >> $OUT; continue; }
  o=$(python3 check.py $p --tier quick 2>&1); rc=$?
  git -C /repo checkout -- .
  k=silent; echo "$o" | grep -q "^VIOLATION" && k=concrete; echo "$o" | grep -q "no-failing-input-found" && k=no-failing-input
  v=$(echo "$o" | grep "^VIOLATION" | head -1)
  echo -e "$m\t$rc\t$k\t$v" >> $OUT
done
echo done >> $OUT
