#!/bin/bash
# runall.sh [tier] — all 20 checks (or those named in HOOT_PROPS) on the current /repo tree, 5 at a time; one summary line each
tier=${1:-quick}
cd /verif
for p in ${HOOT_PROPS:-C01 C02 C03 C04 C05 C06 C07 C08 C09 C10 C11 C12 C13 C14 C15 C16 C17 C18 C19 C20}; do echo $p; done | \
  xargs -P 5 -I{} sh -c 'o=$(python3 check.py {} --tier '"$tier"' 2>&1); rc=$?; echo "{} rc=$rc $(echo "$o" | grep -c "^VIOLATION") violations $(echo "$o" | grep -c "^KNOWN-FINDING") known | $(echo "$o" | grep "tier=" | cut -c1-160)"' | sort
