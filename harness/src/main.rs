//! hoot-harness: drives the real ureq-proto API through generated operation sequences and records
//! every op and result as one line of text (the correspondence trace).
//!
//!   hoot-harness gen <domain> <seed> <quick|thorough>   -> trace on stdout
//!   hoot-harness exec < ops                              -> re-executes stored op lines (replay)
mod exec;
mod gen;
mod rng;

use std::io::{BufRead, Write};

fn main() {
    std::panic::set_hook(Box::new(|_| {}));
    exec::start_watchdog();
    let args: Vec<String> = std::env::args().collect();
    let out = std::io::stdout();
    let mut out = std::io::BufWriter::new(out.lock());
    match args.get(1).map(|s| s.as_str()) {
        Some("gen") => {
            let domain = args[2].as_str();
            let seed: u64 = args.get(3).map(|s| s.parse().unwrap()).unwrap_or(1);
            let thorough = args.get(4).map(|s| s == "thorough").unwrap_or(false);
            let mut rec = exec::Rec::new();
            gen::run(domain, seed, thorough, &mut rec, &mut out);
            out.write_all(rec.out.as_bytes()).unwrap();
        }
        Some("exec") => {
            let stdin = std::io::stdin();
            let mut rec = exec::Rec::new();
            for line in stdin.lock().lines() {
                let line = line.unwrap();
                let l = line.trim_end();
                if l.is_empty() || l.starts_with('#') {
                    continue;
                }
                if let Some(id) = l.strip_prefix("case ") {
                    rec.case(id);
                } else if let Some(m) = l.strip_prefix("meta ") {
                    rec.meta(m);
                } else {
                    let op = l.split(" => ").next().unwrap();
                    rec.op(op);
                }
            }
            out.write_all(rec.out.as_bytes()).unwrap();
        }
        _ => {
            eprintln!("usage: hoot-harness gen <domain> <seed> <quick|thorough> | exec < ops");
            std::process::exit(2);
        }
    }
}
