//! Interpreter of the op language against the real `ureq-proto` API.
//!
//! One op per line, results are canonical text (see DESIGN.md §3). Every op runs under
//! `catch_unwind`; a panic is the result `fault panic` and drops the flow (`@gone`).
use std::fmt::Write as _;
use std::panic::{catch_unwind, AssertUnwindSafe};

use ureq_proto::client::call::state as cs;
use ureq_proto::client::call::Call;
use ureq_proto::client::flow::state::*;
use ureq_proto::client::flow::*;
use ureq_proto::http::{Method, Request, Response, Version};
use ureq_proto::parser;
use ureq_proto::Error;

pub fn hx(b: &[u8]) -> String {
    if b.is_empty() {
        return "-".into();
    }
    let mut s = String::with_capacity(b.len() * 2);
    for x in b {
        write!(s, "{:02x}", x).unwrap();
    }
    s
}

/// outputs longer than 1024 bytes are reported as `#len:fnv1a64` (the model prints the same form)
pub fn hx_out(b: &[u8]) -> String {
    if b.len() <= 1024 || std::env::var("HOOT_FULL").is_ok() {
        return hx(b);
    }
    let mut h: u64 = 0xcbf29ce484222325;
    for x in b {
        h ^= *x as u64;
        h = h.wrapping_mul(0x100000001b3);
    }
    format!("#{}:{:016x}", b.len(), h)
}

pub fn unhex(s: &str) -> Vec<u8> {
    if s == "-" {
        return vec![];
    }
    (0..s.len() / 2)
        .map(|i| u8::from_str_radix(&s[2 * i..2 * i + 2], 16).unwrap())
        .collect()
}

pub enum F {
    Prepare(Flow<(), Prepare>),
    SendRequest(Flow<(), SendRequest>),
    Await100(Flow<(), Await100>),
    SendBody(Flow<(), SendBody>),
    RecvResponse(Flow<(), RecvResponse>),
    RecvBody(Flow<(), RecvBody>),
    Redirect(Flow<(), Redirect>),
    Cleanup(Flow<(), Cleanup>),
    CallNoBody(Call<cs::WithoutBody, ()>),
    CallBody(Call<cs::WithBody, ()>),
    CallRecvResponse(Call<cs::RecvResponse, ()>),
    CallRecvBody(Call<cs::RecvBody, ()>),
    Gone,
}

impl F {
    pub fn name(&self) -> &'static str {
        match self {
            F::Prepare(_) => "prepare",
            F::SendRequest(_) => "sendRequest",
            F::Await100(_) => "await100",
            F::SendBody(_) => "sendBody",
            F::RecvResponse(_) => "recvResponse",
            F::RecvBody(_) => "recvBody",
            F::Redirect(_) => "redirect",
            F::Cleanup(_) => "cleanup",
            F::CallNoBody(_) => "callNoBody",
            F::CallBody(_) => "callBody",
            F::CallRecvResponse(_) => "callRecvResponse",
            F::CallRecvBody(_) => "callRecvBody",
            F::Gone => "gone",
        }
    }
}

pub fn errname(e: &Error) -> String {
    let d = format!("{:?}", e);
    let v = d.split(|c| c == '(' || c == ' ').next().unwrap().to_string();
    if let Error::BadLocationHeader(s) = e {
        return format!("fault api:{} {}", v, hx(s.as_bytes()));
    }
    format!("fault api:{}", v)
}

fn ver_no(v: Version) -> &'static str {
    if v == Version::HTTP_10 {
        "0"
    } else if v == Version::HTTP_11 {
        "1"
    } else {
        "?"
    }
}

fn show_headers<'a>(s: &mut String, h: &ureq_proto::http::HeaderMap) {
    for (k, v) in h.iter() {
        write!(s, " {}={}", k.as_str(), hx(v.as_bytes())).unwrap();
    }
}

fn show_resp(n: usize, r: &Option<Response<()>>) -> String {
    match r {
        None => format!("resp {} none", n),
        Some(r) => {
            let mut s = format!("resp {} {} {}", n, r.status().as_u16(), ver_no(r.version()));
            show_headers(&mut s, r.headers());
            s
        }
    }
}

pub fn parse_version(v: &str) -> Version {
    match v {
        "HTTP/0.9" => Version::HTTP_09,
        "HTTP/1.0" => Version::HTTP_10,
        "HTTP/1.1" => Version::HTTP_11,
        "HTTP/2.0" => Version::HTTP_2,
        _ => Version::HTTP_3,
    }
}

/// Build a request from `<method> <version> <uri> <n> {name hexvalue}`; returns the request and the
/// canonical `new`-style argument text (headers in `HeaderMap::iter` order).
pub fn build_request(parts: &[&str]) -> Option<(Request<()>, String)> {
    let m = Method::from_bytes(parts[0].as_bytes()).ok()?;
    let ver = parse_version(parts[1]);
    let mut b = Request::builder().method(m).version(ver).uri(parts[2]);
    let n: usize = parts[3].parse().ok()?;
    for i in 0..n {
        b = b.header(parts[4 + 2 * i], unhex(parts[5 + 2 * i]).as_slice());
    }
    let req = b.body(()).ok()?;
    let mut line = format!("{} {} {} {}", parts[0], parts[1], parts[2], req.headers().len());
    for (k, val) in req.headers().iter() {
        write!(line, " {} {}", k.as_str(), hx(val.as_bytes())).unwrap();
    }
    Some((req, line))
}

fn parse_resp_n(n: usize, input: &[u8]) -> Result<Option<(usize, Response<()>)>, Error> {
    match n {
        0 => parser::try_parse_response::<0>(input),
        1 => parser::try_parse_response::<1>(input),
        2 => parser::try_parse_response::<2>(input),
        3 => parser::try_parse_response::<3>(input),
        4 => parser::try_parse_response::<4>(input),
        5 => parser::try_parse_response::<5>(input),
        8 => parser::try_parse_response::<8>(input),
        16 => parser::try_parse_response::<16>(input),
        17 => parser::try_parse_response::<17>(input),
        20 => parser::try_parse_response::<20>(input),
        32 => parser::try_parse_response::<32>(input),
        64 => parser::try_parse_response::<64>(input),
        100 => parser::try_parse_response::<100>(input),
        127 => parser::try_parse_response::<127>(input),
        128 => parser::try_parse_response::<128>(input),
        129 => parser::try_parse_response::<129>(input),
        256 => parser::try_parse_response::<256>(input),
        _ => panic!("unsupported N"),
    }
}

fn parse_partial_n(n: usize, input: &[u8]) -> Result<Option<Response<()>>, Error> {
    match n {
        0 => parser::try_parse_partial_response::<0>(input),
        1 => parser::try_parse_partial_response::<1>(input),
        2 => parser::try_parse_partial_response::<2>(input),
        3 => parser::try_parse_partial_response::<3>(input),
        4 => parser::try_parse_partial_response::<4>(input),
        5 => parser::try_parse_partial_response::<5>(input),
        8 => parser::try_parse_partial_response::<8>(input),
        16 => parser::try_parse_partial_response::<16>(input),
        17 => parser::try_parse_partial_response::<17>(input),
        20 => parser::try_parse_partial_response::<20>(input),
        32 => parser::try_parse_partial_response::<32>(input),
        64 => parser::try_parse_partial_response::<64>(input),
        100 => parser::try_parse_partial_response::<100>(input),
        127 => parser::try_parse_partial_response::<127>(input),
        128 => parser::try_parse_partial_response::<128>(input),
        129 => parser::try_parse_partial_response::<129>(input),
        256 => parser::try_parse_partial_response::<256>(input),
        _ => panic!("unsupported N"),
    }
}

fn parse_req_n(n: usize, input: &[u8]) -> Result<Option<(usize, Request<()>)>, Error> {
    match n {
        0 => parser::try_parse_request::<0>(input),
        1 => parser::try_parse_request::<1>(input),
        2 => parser::try_parse_request::<2>(input),
        3 => parser::try_parse_request::<3>(input),
        4 => parser::try_parse_request::<4>(input),
        5 => parser::try_parse_request::<5>(input),
        8 => parser::try_parse_request::<8>(input),
        16 => parser::try_parse_request::<16>(input),
        17 => parser::try_parse_request::<17>(input),
        20 => parser::try_parse_request::<20>(input),
        32 => parser::try_parse_request::<32>(input),
        64 => parser::try_parse_request::<64>(input),
        100 => parser::try_parse_request::<100>(input),
        127 => parser::try_parse_request::<127>(input),
        128 => parser::try_parse_request::<128>(input),
        129 => parser::try_parse_request::<129>(input),
        256 => parser::try_parse_request::<256>(input),
        _ => panic!("unsupported N"),
    }
}

/// Stateless ops (the standalone parsers). Returns None if `op` is not one of them.
pub fn apply_stateless(op: &str) -> Option<String> {
    let parts: Vec<&str> = op.split(' ').collect();
    let r = catch_unwind(AssertUnwindSafe(|| -> Option<String> {
        match parts[0] {
            "parse-resp" => {
                let n: usize = parts[1].parse().unwrap();
                Some(match parse_resp_n(n, &unhex(parts[2])) {
                    Ok(None) => "none".into(),
                    Ok(Some((used, r))) => {
                        let mut s = format!("presp {} {} {}", used, r.status().as_u16(), ver_no(r.version()));
                        show_headers(&mut s, r.headers());
                        s
                    }
                    Err(e) => errname(&e),
                })
            }
            "parse-partial" => {
                let n: usize = parts[1].parse().unwrap();
                Some(match parse_partial_n(n, &unhex(parts[2])) {
                    Ok(None) => "none".into(),
                    Ok(Some(r)) => {
                        let mut s = format!("ppartial {} {}", r.status().as_u16(), ver_no(r.version()));
                        show_headers(&mut s, r.headers());
                        s
                    }
                    Err(e) => errname(&e),
                })
            }
            "parse-req" => {
                let n: usize = parts[1].parse().unwrap();
                Some(match parse_req_n(n, &unhex(parts[2])) {
                    Ok(None) => "none".into(),
                    Ok(Some((used, r))) => {
                        let mut s = format!("preq {} {} {}", used, hx(r.method().as_str().as_bytes()), ver_no(r.version()));
                        show_headers(&mut s, r.headers());
                        s
                    }
                    Err(e) => errname(&e),
                })
            }
            _ => None,
        }
    }));
    match r {
        Ok(v) => v,
        Err(_) => Some("fault panic".into()),
    }
}

fn pol(s: &str) -> RedirectAuthHeaders {
    if s == "samehost" {
        RedirectAuthHeaders::SameHost
    } else {
        RedirectAuthHeaders::Never
    }
}

/// Apply one op line to the flow; returns the result text (without the `@state` suffix).
pub fn apply(f: &mut F, op: &str) -> String {
    if let Some(r) = apply_stateless(op) {
        return r;
    }
    let parts: Vec<&str> = op.split(' ').collect();
    // constructors replace whatever is there
    match parts[0] {
        "new" => {
            let r = catch_unwind(AssertUnwindSafe(|| {
                let (req, _) = build_request(&parts[1..]).expect("harness: bad new line");
                Flow::new(req)
            }));
            return match r {
                Ok(Ok(fl)) => {
                    *f = F::Prepare(fl);
                    "ok".into()
                }
                Ok(Err(e)) => {
                    *f = F::Gone;
                    errname(&e)
                }
                Err(_) => {
                    *f = F::Gone;
                    "fault panic".into()
                }
            };
        }
        "cnew" => {
            // cnew nobody|body <method> <version> <uri> <n> {name hex}
            let with_body = parts[1] == "body";
            let r = catch_unwind(AssertUnwindSafe(|| {
                let (req, _) = build_request(&parts[2..]).expect("harness: bad cnew line");
                if with_body {
                    Call::with_body(req).map(F::CallBody)
                } else {
                    Call::without_body(req).map(F::CallNoBody)
                }
            }));
            return match r {
                Ok(Ok(c)) => {
                    *f = c;
                    "ok".into()
                }
                Ok(Err(e)) => {
                    *f = F::Gone;
                    errname(&e)
                }
                Err(_) => {
                    *f = F::Gone;
                    "fault panic".into()
                }
            };
        }
        _ => {}
    }
    if parts[0] == "xrun" {
        return xrun(f, &parts);
    }
    let cur = std::mem::replace(f, F::Gone);
    let r = catch_unwind(AssertUnwindSafe(move || -> (F, String) {
        match (cur, parts[0]) {
            // ------------------------------------------------------------ Prepare
            (F::Prepare(mut fl), "hdr") => {
                let r = fl.header(parts[1], unhex(parts[2]).as_slice());
                (F::Prepare(fl), match r { Ok(()) => "unit".into(), Err(e) => errname(&e) })
            }
            (F::Prepare(mut fl), "despite") => {
                fl.send_body_despite_method();
                (F::Prepare(fl), "unit".into())
            }
            (F::Prepare(fl), "proceed") | (F::Prepare(fl), "proceed!") => (F::SendRequest(fl.proceed()), "state sendRequest".into()),
            (F::Prepare(fl), "uri?") => {
                let s = format!("str {}", fl.uri());
                (F::Prepare(fl), s)
            }
            (F::Prepare(fl), "method?") => {
                let s = format!("str {}", fl.method());
                (F::Prepare(fl), s)
            }
            // ------------------------------------------------------------ SendRequest
            (F::SendRequest(mut fl), "write") => {
                let cap: usize = parts[1].parse().unwrap();
                let mut o = vec![0u8; cap];
                let r = fl.write(&mut o);
                (F::SendRequest(fl), match r { Ok(n) => format!("bytes 0 {}", hx_out(&o[..n])), Err(e) => errname(&e) })
            }
            // headers_map(): the effective headers as a map (one value per name, the last one), sorted by name
            (F::SendRequest(mut fl), "hmap") => {
                let r = fl.headers_map();
                let txt = match r {
                    Ok(m) => {
                        let mut v: Vec<(String, Vec<u8>)> = m.iter().map(|(k, val)| (k.as_str().to_string(), val.as_bytes().to_vec())).collect();
                        v.sort();
                        let mut t = format!("map {}", v.len());
                        for (k, val) in v { t.push_str(&format!(" {} {}", k, hx(&val))); }
                        t
                    }
                    Err(e) => errname(&e),
                };
                (F::SendRequest(fl), txt)
            }
            (F::SendRequest(fl), "canproceed") => {
                let b = fl.can_proceed();
                (F::SendRequest(fl), format!("bool {}", b))
            }
            (F::SendRequest(fl), "proceed") | (F::SendRequest(fl), "proceed!") => {
                let can = fl.can_proceed();
                if !can && parts[0] == "proceed" {
                    return (F::SendRequest(fl), "none can=false".into());
                }
                match fl.proceed() {
                    Ok(Some(SendRequestResult::Await100(v))) => (F::Await100(v), format!("state await100 can={}", can)),
                    Ok(Some(SendRequestResult::SendBody(v))) => (F::SendBody(v), format!("state sendBody can={}", can)),
                    Ok(Some(SendRequestResult::RecvResponse(v))) => (F::RecvResponse(v), format!("state recvResponse can={}", can)),
                    // the flow is consumed by proceed(); a real caller asks can_proceed() first
                    Ok(None) => (F::Gone, format!("none can={}", can)),
                    Err(e) => (F::Gone, format!("{} can={}", errname(&e), can)),
                }
            }
            // ------------------------------------------------------------ Await100
            (F::Await100(mut fl), "read100") => {
                let r = fl.try_read_100(&unhex(parts[1]));
                (F::Await100(fl), match r { Ok(n) => format!("count {}", n), Err(e) => errname(&e) })
            }
            (F::Await100(fl), "keep100") => {
                let b = fl.can_keep_await_100();
                (F::Await100(fl), format!("bool {}", b))
            }
            (F::Await100(fl), "proceed") | (F::Await100(fl), "proceed!") => match fl.proceed() {
                Ok(Await100Result::SendBody(v)) => (F::SendBody(v), "state sendBody can=true".into()),
                Ok(Await100Result::RecvResponse(v)) => (F::RecvResponse(v), "state recvResponse can=true".into()),
                Err(e) => (F::Gone, format!("{} can=true", errname(&e))),
            },
            // ------------------------------------------------------------ SendBody
            (F::SendBody(mut fl), "bwrite") => {
                let inp = unhex(parts[1]);
                let cap: usize = parts[2].parse().unwrap();
                let mut o = vec![0u8; cap];
                let r = fl.write(&inp, &mut o);
                (F::SendBody(fl), match r { Ok((i, n)) => format!("bytes {} {}", i, hx_out(&o[..n])), Err(e) => errname(&e) })
            }
            // bwriten <len> <seed> <cap>: input is the deterministic pattern pat(seed, k) = (seed + k) % 251
            (F::SendBody(mut fl), "bwriten") => {
                let len: usize = parts[1].parse().unwrap();
                let seed: usize = parts[2].parse().unwrap();
                let cap: usize = parts[3].parse().unwrap();
                let inp: Vec<u8> = (0..len).map(|k| ((seed + k) % 251) as u8).collect();
                let mut o = vec![0u8; cap];
                let r = fl.write(&inp, &mut o);
                (F::SendBody(fl), match r { Ok((i, n)) => format!("bytes {} {}", i, hx_out(&o[..n])), Err(e) => errname(&e) })
            }
            (F::SendBody(mut fl), "direct") => {
                let r = fl.consume_direct_write(parts[1].parse().unwrap());
                (F::SendBody(fl), match r { Ok(()) => "unit".into(), Err(e) => errname(&e) })
            }
            (F::SendBody(mut fl), "maxin") => {
                let n = fl.calculate_max_input(parts[1].parse().unwrap());
                (F::SendBody(fl), format!("count {}", n))
            }
            (F::SendBody(mut fl), "chunked?") => {
                let b = fl.is_chunked();
                (F::SendBody(fl), format!("bool {}", b))
            }
            (F::SendBody(fl), "canproceed") => {
                let b = fl.can_proceed();
                (F::SendBody(fl), format!("bool {}", b))
            }
            (F::SendBody(fl), "proceed") | (F::SendBody(fl), "proceed!") => {
                let can = fl.can_proceed();
                if !can && parts[0] == "proceed" {
                    return (F::SendBody(fl), "none can=false".into());
                }
                match fl.proceed() {
                    Some(v) => (F::RecvResponse(v), format!("state recvResponse can={}", can)),
                    None => (F::Gone, format!("none can={}", can)),
                }
            }
            // ------------------------------------------------------------ RecvResponse
            (F::RecvResponse(mut fl), "resp") => {
                let r = fl.try_response(&unhex(parts[1]));
                (F::RecvResponse(fl), match r { Ok((n, r)) => show_resp(n, &r), Err(e) => errname(&e) })
            }
            (F::RecvResponse(fl), "canproceed") => {
                let b = fl.can_proceed();
                (F::RecvResponse(fl), format!("bool {}", b))
            }
            (F::RecvResponse(fl), "proceed") | (F::RecvResponse(fl), "proceed!") => {
                let can = fl.can_proceed();
                if !can && parts[0] == "proceed" {
                    return (F::RecvResponse(fl), "none can=false".into());
                }
                match fl.proceed() {
                    Some(RecvResponseResult::RecvBody(v)) => (F::RecvBody(v), format!("state recvBody can={}", can)),
                    Some(RecvResponseResult::Redirect(v)) => (F::Redirect(v), format!("state redirect can={}", can)),
                    Some(RecvResponseResult::Cleanup(v)) => (F::Cleanup(v), format!("state cleanup can={}", can)),
                    None => (F::Gone, format!("none can={}", can)),
                }
            }
            // ------------------------------------------------------------ RecvBody
            (F::RecvBody(mut fl), "bread") => {
                let inp = unhex(parts[1]);
                let cap: usize = parts[2].parse().unwrap();
                let mut o = vec![0u8; cap];
                let r = fl.read(&inp, &mut o);
                (F::RecvBody(fl), match r { Ok((i, n)) => format!("bytes {} {}", i, hx_out(&o[..n])), Err(e) => errname(&e) })
            }
            (F::RecvBody(mut fl), "stopb") => {
                fl.stop_on_chunk_boundary(parts[1] == "1");
                (F::RecvBody(fl), "unit".into())
            }
            (F::RecvBody(fl), "boundary") => {
                let b = fl.is_on_chunk_boundary();
                (F::RecvBody(fl), format!("bool {}", b))
            }
            (F::RecvBody(fl), "mode") => {
                let m = format!("{:?}", fl.body_mode());
                (F::RecvBody(fl), format!("str {}", m))
            }
            (F::RecvBody(fl), "canproceed") => {
                let b = fl.can_proceed();
                (F::RecvBody(fl), format!("bool {}", b))
            }
            (F::RecvBody(fl), "proceed") | (F::RecvBody(fl), "proceed!") => {
                let can = fl.can_proceed();
                if !can && parts[0] == "proceed" {
                    return (F::RecvBody(fl), "none can=false".into());
                }
                match fl.proceed() {
                    Some(RecvBodyResult::Redirect(v)) => (F::Redirect(v), format!("state redirect can={}", can)),
                    Some(RecvBodyResult::Cleanup(v)) => (F::Cleanup(v), format!("state cleanup can={}", can)),
                    None => (F::Gone, format!("none can={}", can)),
                }
            }
            // ------------------------------------------------------------ Redirect / Cleanup
            (F::Redirect(fl), "status") => {
                let s = fl.status().as_u16();
                (F::Redirect(fl), format!("count {}", s))
            }
            (F::Redirect(fl), "close?") => {
                let b = fl.must_close_connection();
                (F::Redirect(fl), format!("bool {}", b))
            }
            (F::Redirect(fl), "reason") => {
                let s = fl.close_reason().unwrap_or("-");
                (F::Redirect(fl), format!("str {}", s))
            }
            (F::Redirect(fl), "proceed") | (F::Redirect(fl), "proceed!") => (F::Cleanup(fl.proceed()), "state cleanup can=true".into()),
            (F::Redirect(mut fl), "follow") => match fl.as_new_flow(pol(parts[1])) {
                Ok(Some(nf)) => {
                    let s = format!("flow {} {}", nf.method(), nf.uri());
                    (F::Prepare(nf), s)
                }
                Ok(None) => (F::Redirect(fl), "none".into()),
                Err(e) => (F::Redirect(fl), errname(&e)),
            },
            (F::Redirect(mut fl), "follow2") => {
                // as_new_flow twice on the same Redirect flow (the D11 probe); reports the second result and
                // whether the first call had returned a flow (also when the second call panics)
                let r = fl.as_new_flow(pol(parts[1]));
                let first_some = matches!(r, Ok(Some(_)));
                let r2 = catch_unwind(AssertUnwindSafe(|| fl.as_new_flow(pol(parts[1]))));
                match r2 {
                    Ok(r2) => {
                        let s2 = match r2 {
                            Ok(Some(nf)) => format!("flow {} {}", nf.method(), nf.uri()),
                            Ok(None) => "none".into(),
                            Err(e) => errname(&e),
                        };
                        (F::Redirect(fl), format!("{} first-some={}", s2, first_some))
                    }
                    Err(_) => (F::Gone, format!("fault panic first-some={}", first_some)),
                }
            }
            (F::Cleanup(fl), "close?") => {
                let b = fl.must_close_connection();
                (F::Cleanup(fl), format!("bool {}", b))
            }
            (F::Cleanup(fl), "reason") => {
                let s = fl.close_reason().unwrap_or("-");
                (F::Cleanup(fl), format!("str {}", s))
            }
            // ------------------------------------------------------------ single-call API
            (F::CallNoBody(mut c), "cwrite") => {
                let cap: usize = parts[1].parse().unwrap();
                let mut o = vec![0u8; cap];
                let r = c.write(&mut o);
                (F::CallNoBody(c), match r { Ok(n) => format!("bytes 0 {}", hx_out(&o[..n])), Err(e) => errname(&e) })
            }
            (F::CallNoBody(c), "cfinished") => {
                let b = c.is_finished();
                (F::CallNoBody(c), format!("bool {}", b))
            }
            (F::CallNoBody(c), "cinto") => match c.into_receive() {
                Ok(v) => (F::CallRecvResponse(v), "state callRecvResponse".into()),
                Err(e) => (F::Gone, errname(&e)),
            },
            (F::CallBody(mut c), "cbwrite") => {
                let inp = unhex(parts[1]);
                let cap: usize = parts[2].parse().unwrap();
                let mut o = vec![0u8; cap];
                let r = c.write(&inp, &mut o);
                (F::CallBody(c), match r { Ok((i, n)) => format!("bytes {} {}", i, hx_out(&o[..n])), Err(e) => errname(&e) })
            }
            (F::CallBody(c), "cfinished") => {
                let b = c.is_finished();
                (F::CallBody(c), format!("bool {}", b))
            }
            (F::CallBody(c), "cinto") => match c.into_receive() {
                Ok(v) => (F::CallRecvResponse(v), "state callRecvResponse".into()),
                Err(e) => (F::Gone, errname(&e)),
            },
            (F::CallRecvResponse(mut c), "cresp") => {
                let r = c.try_response(&unhex(parts[1]));
                (F::CallRecvResponse(c), match r {
                    Ok(None) => "resp 0 none".into(),
                    Ok(Some((n, r))) => show_resp(n, &Some(r)),
                    Err(e) => errname(&e),
                })
            }
            (F::CallRecvResponse(c), "cfinished") => {
                let b = c.is_finished();
                (F::CallRecvResponse(c), format!("bool {}", b))
            }
            (F::CallRecvResponse(c), "cbody") => match c.into_body() {
                Ok(Some(v)) => (F::CallRecvBody(v), "state callRecvBody".into()),
                Ok(None) => (F::Gone, "none".into()),
                Err(e) => (F::Gone, errname(&e)),
            },
            (F::CallRecvBody(mut c), "cread") => {
                let inp = unhex(parts[1]);
                let cap: usize = parts[2].parse().unwrap();
                let mut o = vec![0u8; cap];
                let r = c.read(&inp, &mut o);
                (F::CallRecvBody(c), match r { Ok((i, n)) => format!("bytes {} {}", i, hx_out(&o[..n])), Err(e) => errname(&e) })
            }
            (F::CallRecvBody(mut c), "cstopb") => {
                c.stop_on_chunk_boundary(parts[1] == "1");
                (F::CallRecvBody(c), "unit".into())
            }
            (F::CallRecvBody(c), "cboundary") => {
                let b = c.is_on_chunk_boundary();
                (F::CallRecvBody(c), format!("bool {}", b))
            }
            (F::CallRecvBody(c), "cended") => {
                let b = c.is_ended();
                (F::CallRecvBody(c), format!("bool {}", b))
            }
            (cur, _) => (cur, "str not-offered".into()),
        }
    }));
    match r {
        Ok((nf, s)) => {
            *f = nf;
            s
        }
        Err(_) => {
            *f = F::Gone;
            "fault panic".into()
        }
    }
}

/// A case being recorded: the flow, and the trace text.
/// the op in progress (start time, text) and the lines of the current case: read by the watchdog thread
pub static PENDING: std::sync::Mutex<Option<(std::time::Instant, String)>> = std::sync::Mutex::new(None);
pub static CASE_LINES: std::sync::Mutex<String> = std::sync::Mutex::new(String::new());

/// An operation of the crate that does not return is a failure like a panic, but `catch_unwind` cannot
/// see it: a watchdog thread ends the process when one op has been running for `HOOT_OP_TIMEOUT` seconds
/// (default 20), after writing the case so far and `<op> => fault hang @gone` to `HOOT_HANG_FILE`.
pub fn start_watchdog() {
    let limit: u64 = std::env::var("HOOT_OP_TIMEOUT").ok().and_then(|v| v.parse().ok()).unwrap_or(20);
    std::thread::spawn(move || loop {
        std::thread::sleep(std::time::Duration::from_millis(250));
        let hung = {
            let p = PENDING.lock().unwrap_or_else(|e| e.into_inner());
            match &*p {
                Some((t, op)) if t.elapsed() > std::time::Duration::from_secs(limit) => Some(op.clone()),
                _ => None,
            }
        };
        if let Some(op) = hung {
            let case = CASE_LINES.lock().unwrap_or_else(|e| e.into_inner()).clone();
            let text = format!("{}{} => fault hang @gone\n", case, op);
            if let Ok(p) = std::env::var("HOOT_HANG_FILE") {
                let _ = std::fs::write(p, &text);
            }
            eprintln!("hoot-harness: operation did not return within {} s: {}", limit, &op[..op.len().min(200)]);
            std::process::exit(3);
        }
    });
}

pub struct Rec {
    pub f: F,
    pub out: String,
    pub ops: usize,
}

impl Rec {
    pub fn new() -> Self {
        Rec { f: F::Gone, out: String::new(), ops: 0 }
    }
    pub fn case(&mut self, id: &str) {
        self.f = F::Gone;
        writeln!(self.out, "case {}", id).unwrap();
        let mut c = CASE_LINES.lock().unwrap_or_else(|e| e.into_inner());
        c.clear();
        writeln!(c, "case {}", id).unwrap();
    }
    pub fn meta(&mut self, text: &str) {
        writeln!(self.out, "meta {}", text).unwrap();
        writeln!(CASE_LINES.lock().unwrap_or_else(|e| e.into_inner()), "meta {}", text).unwrap();
    }
    /// run an op, record `op => result @state`, return the result text
    pub fn op(&mut self, op: &str) -> String {
        *PENDING.lock().unwrap_or_else(|e| e.into_inner()) = Some((std::time::Instant::now(), op.to_string()));
        let res = apply(&mut self.f, op);
        *PENDING.lock().unwrap_or_else(|e| e.into_inner()) = None;
        self.ops += 1;
        writeln!(self.out, "{} => {} @{}", op, res, self.f.name()).unwrap();
        writeln!(CASE_LINES.lock().unwrap_or_else(|e| e.into_inner()), "{} => {} @{}", op, res, self.f.name()).unwrap();
        res
    }
    /// `new` with canonical header order as recorded op text
    pub fn new_flow(&mut self, args: &str) -> String {
        let parts: Vec<&str> = args.split(' ').collect();
        let canon = match build_request(&parts) {
            Some((_, line)) => line,
            None => args.to_string(),
        };
        self.op(&format!("new {}", canon))
    }
    pub fn new_call(&mut self, kind: &str, args: &str) -> String {
        let parts: Vec<&str> = args.split(' ').collect();
        let canon = match build_request(&parts) {
            Some((_, line)) => line,
            None => args.to_string(),
        };
        self.op(&format!("cnew {} {}", kind, canon))
    }
    pub fn state(&self) -> &'static str {
        self.f.name()
    }
}

/// `xrun <payload hex> <stream hex> {m:cap:giveUp}`: the caller loop of the C01 composition theorems
/// (Lean: `xStep` / `xRun` in Proofs/ExchangeAll.lean) run on the real `Flow` API, one schedule entry per
/// step. Returns the summary the model prints for the same op.
pub fn xrun(f: &mut F, parts: &[&str]) -> String {
    let payload = unhex(parts[1]);
    let stream = unhex(parts[2]);
    let sched: Vec<(usize, usize, bool)> = parts[3..].iter().filter_map(|w| {
        let p: Vec<&str> = w.split(':').collect();
        if p.len() != 3 { return None; }
        Some((p[0].parse().ok()?, p[1].parse().ok()?, p[2] == "1"))
    }).collect();
    let mut wire: Vec<u8> = vec![];
    let mut off = 0usize;
    let mut consumed = 0usize;
    let mut head: Option<u16> = None;
    let mut body: Vec<u8> = vec![];
    let mut faults = 0usize;
    let cur = std::mem::replace(f, F::Gone);
    let r = catch_unwind(AssertUnwindSafe(move || -> (F, Vec<u8>, usize, usize, Option<u16>, Vec<u8>, usize) {
        let mut cur = cur;
        for (m, cap, give) in sched {
            let window = |consumed: usize| -> &[u8] {
                let a = consumed.min(stream.len());
                let b = (a + m).min(stream.len());
                &stream[a..b]
            };
            cur = match cur {
                F::Prepare(fl) => F::SendRequest(fl.proceed()),
                F::SendRequest(mut fl) => {
                    let mut o = vec![0u8; cap];
                    match fl.write(&mut o) {
                        Ok(n) => {
                            wire.extend_from_slice(&o[..n]);
                            if fl.can_proceed() {
                                match fl.proceed() {
                                    Ok(Some(SendRequestResult::Await100(v))) => F::Await100(v),
                                    Ok(Some(SendRequestResult::SendBody(v))) => F::SendBody(v),
                                    Ok(Some(SendRequestResult::RecvResponse(v))) => F::RecvResponse(v),
                                    _ => F::Gone,
                                }
                            } else { F::SendRequest(fl) }
                        }
                        Err(_) => F::SendRequest(fl),
                    }
                }
                F::Await100(mut fl) => {
                    if !fl.can_keep_await_100() || give {
                        match fl.proceed() {
                            Ok(Await100Result::SendBody(v)) => F::SendBody(v),
                            Ok(Await100Result::RecvResponse(v)) => F::RecvResponse(v),
                            Err(_) => F::Gone,
                        }
                    } else {
                        match fl.try_read_100(window(consumed)) {
                            Ok(n) => { consumed += n; }
                            Err(_) => { faults += 1; }
                        }
                        F::Await100(fl)
                    }
                }
                F::SendBody(mut fl) => {
                    let a = off.min(payload.len());
                    let b = (a + m + 1).min(payload.len());
                    let mut o = vec![0u8; cap];
                    match fl.write(&payload[a..b], &mut o) {
                        Ok((i, n)) => {
                            wire.extend_from_slice(&o[..n]);
                            off += i;
                            if fl.can_proceed() {
                                match fl.proceed() { Some(v) => F::RecvResponse(v), None => F::Gone }
                            } else { F::SendBody(fl) }
                        }
                        Err(_) => F::SendBody(fl),
                    }
                }
                F::RecvResponse(mut fl) => {
                    match fl.try_response(window(consumed)) {
                        Ok((n, Some(resp))) => {
                            consumed += n;
                            head = Some(resp.status().as_u16());
                            if fl.can_proceed() {
                                match fl.proceed() {
                                    Some(RecvResponseResult::RecvBody(v)) => F::RecvBody(v),
                                    Some(RecvResponseResult::Redirect(v)) => F::Redirect(v),
                                    Some(RecvResponseResult::Cleanup(v)) => F::Cleanup(v),
                                    None => F::Gone,
                                }
                            } else { F::RecvResponse(fl) }
                        }
                        Ok((n, None)) => { consumed += n; F::RecvResponse(fl) }
                        Err(_) => { faults += 1; F::RecvResponse(fl) }
                    }
                }
                F::RecvBody(mut fl) => {
                    let mut o = vec![0u8; cap];
                    match fl.read(window(consumed), &mut o) {
                        Ok((i, n)) => {
                            consumed += i;
                            body.extend_from_slice(&o[..n]);
                            // a close-delimited body is "ready" at any time: there the caller goes on until the
                            // connection has ended (nothing is left of the stream)
                            let close = matches!(fl.body_mode(), ureq_proto::BodyMode::CloseDelimited);
                            if fl.can_proceed() && (!close || consumed >= stream.len()) {
                                match fl.proceed() {
                                    Some(RecvBodyResult::Redirect(v)) => F::Redirect(v),
                                    Some(RecvBodyResult::Cleanup(v)) => F::Cleanup(v),
                                    None => F::Gone,
                                }
                            } else { F::RecvBody(fl) }
                        }
                        Err(_) => { faults += 1; F::RecvBody(fl) }
                    }
                }
                other => other,
            };
        }
        (cur, wire, off, consumed, head, body, faults)
    }));
    match r {
        Ok((nf, wire, off, consumed, head, body, faults)) => {
            *f = nf;
            format!("xrun wire={} off={} consumed={} head={} body={} faults={}", hx_out(&wire), off, consumed,
                head.map(|h| h.to_string()).unwrap_or("none".into()), hx_out(&body), faults)
        }
        Err(_) => { *f = F::Gone; "fault panic".into() }
    }
}
