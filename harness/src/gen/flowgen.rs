//! Random call histories over the whole Flow API (C09, C10, C12 and the generic `flow` domain).
use super::Ctx;
use crate::exec::hx;
use crate::rng::Rng;

pub const METHODS: [&str; 9] = ["GET", "HEAD", "POST", "PUT", "DELETE", "CONNECT", "OPTIONS", "TRACE", "PATCH"];

pub fn gen_stream(rng: &mut Rng) -> Vec<u8> {
    let mut s = Vec::new();
    if rng.chance(1, 4) {
        s.extend_from_slice(b"HTTP/1.1 100 Continue\r\n\r\n");
    }
    let status = *rng.pick(&[200u16, 200, 204, 300, 301, 302, 303, 304, 305, 307, 308, 399, 403, 404, 500, 101, 199, 999]);
    let ver = if rng.chance(1, 5) { "HTTP/1.0" } else { "HTTP/1.1" };
    let reason = *rng.pick(&[" OK", "", " ", " Some Reason\tHere", " \u{e9}"]);
    s.extend_from_slice(format!("{} {}{}\r\n", ver, status, reason).as_bytes());
    let framing = rng.below(5);
    let body: Vec<u8> = (0..rng.below(40)).map(|_| *rng.pick(b"ab\r\n0;x")).collect();
    if rng.chance(1, 4) {
        s.extend_from_slice(b"Connection: close\r\n");
    }
    if rng.chance(1, 6) {
        s.extend_from_slice(b"connection: keep-alive\r\n");
    }
    if rng.chance(1, 2) {
        let loc = *rng.pick(&["/a", "b/c?d=1#f", "../x/./y", "http://b.test/z", "https://a.test/s", "//A.Test:80/u/../v", "https://a.test:443", "?q=2", "", "http://", "http://a.test:99999/", "/a b", "http://a.test:8080/p/q/", "..", "./", "https://b.test:8443/p?x#y", "http:///g", "/%2e%2e/x", "\\x"]);
        s.extend_from_slice(format!("Location: {}\r\n", loc).as_bytes());
    }
    if rng.chance(1, 5) {
        s.extend_from_slice(b"X-Empty:\r\n");
    }
    if rng.chance(1, 8) {
        s.extend_from_slice(b"location:   http://b.test/z  \r\n");
    }
    match framing {
        0 => {
            s.extend_from_slice(format!("Content-Length: {}\r\n\r\n", body.len()).as_bytes());
            s.extend_from_slice(&body);
        }
        1 => {
            s.extend_from_slice(b"Transfer-Encoding: chunked\r\n\r\n");
            let mut off = 0;
            while off < body.len() {
                let n = 1 + rng.below(body.len() - off);
                s.extend_from_slice(format!("{:x}\r\n", n).as_bytes());
                s.extend_from_slice(&body[off..off + n]);
                s.extend_from_slice(b"\r\n");
                off += n;
            }
            s.extend_from_slice(b"0\r\n");
            if rng.chance(1, 3) {
                s.extend_from_slice(b"T: v\r\n");
            }
            s.extend_from_slice(b"\r\n");
        }
        2 => {
            s.extend_from_slice(b"\r\n");
            s.extend_from_slice(&body);
        }
        3 => {
            s.extend_from_slice(b"Content-Length: 0\r\n\r\n");
        }
        _ => {
            s.extend_from_slice(format!("transfer-encoding: gzip, Chunked\r\nContent-Length: {}\r\n\r\n", body.len()).as_bytes());
            if !body.is_empty() {
                s.extend_from_slice(format!("{:X}\r\n", body.len()).as_bytes());
                s.extend_from_slice(&body);
                s.extend_from_slice(b"\r\n");
            }
            s.extend_from_slice(b"0\r\n\r\n");
        }
    }
    s.extend_from_slice(b"HTTP/1.1 200 NEXT");
    s
}

pub fn gen_request(rng: &mut Rng) -> String {
    let m = *rng.pick(&METHODS);
    let v = if rng.chance(1, 30) { *rng.pick(&["HTTP/0.9", "HTTP/2.0", "HTTP/3.0"]) } else if rng.chance(1, 4) { "HTTP/1.0" } else { "HTTP/1.1" };
    let uri = *rng.pick(&["http://a.test/", "http://a.test", "https://a.test:8443/p/q?x=1", "http://a.test/p", "https://a.test/d/e/f", "http://A.test/p"]);
    let mut hdrs: Vec<(String, Vec<u8>)> = vec![];
    if rng.chance(1, 3) { hdrs.push(("expect".into(), b"100-continue".to_vec())); }
    if rng.chance(1, 4) { hdrs.push(("connection".into(), b"close".to_vec())); }
    if rng.chance(1, 4) { hdrs.push(("content-length".into(), rng.pick(&[&b"0"[..], &b"7"[..], &b"30"[..], &b"abc"[..], &b"+5"[..]]).to_vec())); }
    if rng.chance(1, 6) { hdrs.push(("transfer-encoding".into(), rng.pick(&[&b"chunked"[..], &b"Chunked"[..], &b"gzip"[..]]).to_vec())); }
    if rng.chance(1, 6) { hdrs.push(("host".into(), b"h.test".to_vec())); }
    if rng.chance(1, 3) { hdrs.push(("x-a".into(), b"1".to_vec())); }
    if rng.chance(1, 3) { hdrs.push(("authorization".into(), b"secret".to_vec())); }
    if rng.chance(1, 4) { hdrs.push(("cookie".into(), b"c=old".to_vec())); }
    let mut line = format!("{} {} {} {}", m, v, uri, hdrs.len());
    for (k, val) in &hdrs {
        line.push_str(&format!(" {} {}", k, hx(val)));
    }
    line
}

/// one random history on a fresh flow; `stream` provides the server bytes
pub fn history(cx: &mut Ctx, rng: &mut Rng, max_steps: usize) {
    let req = gen_request(rng);
    let r = cx.rec.new_flow(&req);
    if r != "ok" {
        return;
    }
    let mut stream = gen_stream(rng);
    let body_in: Vec<u8> = (0..rng.below(60)).map(|i| b'a' + (i % 26) as u8).collect();
    let mut soff = 0usize;
    let mut boff = 0usize;
    let mut steps = 0;
    let mut can_resp = false;
    while steps < max_steps {
        steps += 1;
        let st = cx.rec.state();
        let op: String = match st {
            "gone" => break,
            "cleanup" if steps > 1 && rng.chance(1, 2) => break,
            "prepare" => match rng.below(6) {
                0 => format!("hdr {} {}", rng.pick(&["cookie", "x-b", "authorization", "content-length", "host"]), hx(*rng.pick(&[&b"v"[..], &b"5"[..], &b"c=1"[..]]))),
                1 => "despite".into(),
                _ => "proceed".into(),
            },
            "sendRequest" => match rng.below(8) {
                0 => "canproceed".into(),
                1 | 2 => "proceed".into(),
                _ => format!("write {}", rng.pick(&[0usize, 5, 17, 18, 19, 30, 40, 64, 200, 1000])),
            },
            "await100" => match rng.below(6) {
                0 => "keep100".into(),
                1 => "proceed".into(),
                _ => {
                    let n = 1 + rng.below(stream.len() - soff.min(stream.len() - 1));
                    let w = &stream[soff.min(stream.len())..(soff + n).min(stream.len())];
                    format!("read100 {}", hx(w))
                }
            },
            "sendBody" => match rng.below(12) {
                0 => "canproceed".into(),
                1 | 2 => "proceed".into(),
                3 => format!("maxin {}", rng.below(30000)),
                4 => "chunked?".into(),
                5 => format!("direct {}", rng.below(8)),
                6 => format!("bwrite - {}", rng.pick(&[0usize, 3, 4, 5, 6, 100])),
                _ => {
                    let k = rng.below(body_in.len() - boff + 1).min(30);
                    format!("bwrite {} {}", hx(&body_in[boff..boff + k]), rng.pick(&[0usize, 5, 6, 7, 12, 21, 22, 40, 100]))
                }
            },
            "recvResponse" if can_resp && rng.chance(7, 8) => "proceed".into(),
            "recvResponse" => match rng.below(8) {
                0 => "canproceed".into(),
                1 => "proceed".into(),
                _ => {
                    let rem = stream.len() - soff;
                    let n = if rng.chance(1, 3) { rem } else { rng.below(rem + 1) };
                    format!("resp {}", hx(&stream[soff..soff + n]))
                }
            },
            "recvBody" => match rng.below(12) {
                0 => "canproceed".into(),
                1 => "proceed".into(),
                2 => "boundary".into(),
                3 => "mode".into(),
                4 => format!("stopb {}", rng.below(2)),
                _ => {
                    let rem = stream.len() - soff;
                    let n = if rng.chance(1, 3) { rem } else { rng.below(rem + 1) };
                    format!("bread {} {}", hx(&stream[soff..soff + n]), rng.pick(&[0usize, 1, 2, 3, 7, 100]))
                }
            },
            "redirect" => match rng.below(10) {
                0 => "status".into(),
                1 => "close?".into(),
                2 => "reason".into(),
                3 => "proceed".into(),
                4 => format!("follow2 {}", rng.pick(&["never", "samehost"])),
                _ => format!("follow {}", rng.pick(&["never", "samehost"])),
            },
            "cleanup" => match rng.below(2) {
                0 => "close?".into(),
                _ => "reason".into(),
            },
            _ => break,
        };
        let res = cx.op(&op);
        let p: Vec<&str> = res.split(' ').collect();
        if op.starts_with("read100") && p[0] == "count" {
            soff += p[1].parse::<usize>().unwrap();
        }
        if op.starts_with("resp") && p[0] == "resp" {
            soff += p[1].parse::<usize>().unwrap();
            if p.len() > 2 && p[2] != "none" {
                can_resp = true;
            }
        }
        if op.starts_with("bread") && p[0] == "bytes" {
            soff += p[1].parse::<usize>().unwrap();
        }
        if op.starts_with("bwrite") && p[0] == "bytes" {
            boff += p[1].parse::<usize>().unwrap();
        }
        if op.starts_with("follow ") && p[0] == "flow" {
            stream = gen_stream(rng);
            soff = 0;
            boff = 0;
            can_resp = false;
        }
    }
}

pub fn random_histories(cx: &mut Ctx, n: usize) {
    for _ in 0..n {
        let mut r = cx.case("hist");
        history(cx, &mut r, 120);
    }
}

pub fn c09(cx: &mut Ctx) {
    let n = if cx.thorough { 60000 } else { 6000 };
    random_histories(cx, n);
}
pub fn c10(cx: &mut Ctx) {
    let n = if cx.thorough { 20000 } else { 2000 };
    random_histories(cx, n);
}
pub fn c12(cx: &mut Ctx) {
    let n = if cx.thorough { 20000 } else { 2000 };
    random_histories(cx, n);
}
